--------------------------- MODULE SplitIntoBins ---------------------------
(***************************************************************************)
(* lena.structures.SplitIntoBins(seq, arg_var, edges) as a machine:        *)
(*   fill(value)  routes the value to the private copy of seq of the cell  *)
(*                its argument falls into (get_bin_on_value, then the walk *)
(*                through self.bins that returns on underflow / overflow), *)
(*   compute()    zips the cells' compute() generators into histograms,    *)
(* followed by IterateBins over the first histogram yielded.               *)
(*                                                                         *)
(* Code: lena/structures/split_into_bins.py (SplitIntoBins.__init__ deep   *)
(* copy per cell, fill, compute, _MdSeqMap, IterateBins.run, MapBins.run), *)
(* lena/structures/hist_functions.py (get_bin_on_value, init_bins,         *)
(* iter_bins_with_edges), lena/math/meshes.py (md_map).                    *)
(*                                                                         *)
(* The operational state is per cell (the list of values that cell's own   *)
(* copy of the analysis has been filled with); the declarative part        *)
(* (SplitIntoBinsSem.tla) recomputes every cell independently from the     *)
(* whole flow.                                                             *)
(***************************************************************************)
EXTENDS SplitIntoBinsSem

CONSTANTS U     \* name of the universe of scenarios

(***************************************************************************)
(* Universes (only the selected one is built, see Selectors.tla).          *)
(***************************************************************************)
SeqsUpTo(S, n) == UNION {[1..m -> S] : m \in 0..n}
E2 == <<0, 2>>
E3 == <<0, 2, 4>>
E4 == <<0, 2, 4, 6>>
\* below, on every edge, inside every cell, above
Coords(e) == (e[1] - 1)..(e[Len(e)] + 1)
\* has-context patterns: every value / every second value
HAll(n) == [i \in 1..n |-> TRUE]
HAlt(n) == [i \in 1..n |-> i % 2 = 0]
MkFlow(xs, hs) == [i \in 1..Len(xs) |-> [x |-> xs[i], h |-> hs[i]]]
AllKinds == {"collect", "collect2", "nonempty", "pervalue", "shift", "mutate", "post", "postdup"}
SomeKinds == {"collect2", "nonempty", "mutate", "postdup"}
Scen(ee, kk, ff) == [edges |-> ee, kind |-> kk, flow |-> ff]
\* one-dimensional scenarios: edges e, flows up to n values over Coords(e)
S1(e, n, kinds) == {Scen(<<e>>, k, MkFlow(xs, hs)) :
                      k \in kinds, xs \in SeqsUpTo({<<c>> : c \in Coords(e)}, n), hs \in {HAll(n), HAlt(n)}}
\* two-dimensional scenarios over selected coordinates per axis
C2(e) == {e[1] - 1, e[1], e[1] + 1, e[2], e[Len(e)]}
S2(e1, e2, n, kinds) == {Scen(<<e1, e2>>, k, MkFlow(xs, HAlt(n))) :
                           k \in kinds, xs \in SeqsUpTo(C2(e1) \X C2(e2), n)}
S1Alt(e, n, kinds) == {sc \in S1(e, n, kinds) : \A i \in 1..Len(sc.flow) : sc.flow[i].h = (i % 2 = 0)}
Quick(u) == S1(E2, 2, AllKinds) \cup S1(E3, 2, AllKinds) \cup S1Alt(E3, 3, SomeKinds) \cup S1(E4, 2, SomeKinds)
            \cup S2(E3, E3, 2, {"collect2", "mutate"}) \cup S2(E3, E2, 2, {"collect", "pervalue"})
Thorough(u) == S1(E2, 3, AllKinds) \cup S1(E3, 3, AllKinds) \cup S1(E3, 4, {"collect2", "nonempty"}) \cup S1(E4, 3, AllKinds)
               \cup S2(E3, E3, 2, AllKinds) \cup S2(E3, E2, 3, {"collect2"}) \cup S2(E2, E4, 2, AllKinds)
Tiny(u) == S1(E3, 2, {"collect2", "nonempty"}) \cup S2(E3, E2, 1, {"collect"})
Scenarios == CASE U = "quick" -> Quick(U) [] U = "thorough" -> Thorough(U) [] U = "tiny" -> Tiny(U)

(***************************************************************************)
(* The machine.                                                            *)
(***************************************************************************)
VARIABLES sc,       \* the scenario [edges, kind, flow]
          pos,      \* values filled so far
          cells,    \* cell -> positions of the values its copy of the analysis was filled with
          last,     \* position of the value whose context SplitIntoBins keeps (_cur_context), 0: none
          hctx,     \* _cur_context itself: the snapshot (deep copy) of that value's context
          vctx,     \* the context objects of the flow values (inner elements may write into them)
          phase,    \* "fill" | "compute" | "iter" | "done"
          out,      \* histograms yielded by compute(): sequence of functions cell -> result
          it        \* values yielded by IterateBins over out[1]
vars == <<sc, pos, cells, last, hctx, vctx, phase, out, it>>

edges == sc.edges
flow == sc.flow
Init == /\ sc \in Scenarios
        /\ pos = 0 /\ last = 0 /\ phase = "fill" /\ out = <<>> /\ it = <<>>
        /\ cells = [idx \in Cells(sc.edges) |-> <<>>]          \* init_bins(edges, seq, deepcopy=True)
        /\ hctx = Ctx(0, 0) /\ vctx = [i \in 1..Len(sc.flow) |-> ArrivingCtx(sc.flow, i)]

Route == CellOf(flow[pos + 1].x, edges)                        \* get_bin_on_value
\* the walk through self.bins: the first dimension whose index is outside decides
FirstOut(idx) == CHOOSE d \in 1..Len(edges) : ~(idx[d] >= 1 /\ idx[d] <= NCells(edges[d]))
                                               /\ \A d2 \in 1..(d - 1) : idx[d2] >= 1 /\ idx[d2] <= NCells(edges[d2])
Filling == phase = "fill" /\ pos < Len(flow)
FillInside == /\ Filling /\ IsCell(Route, edges)
              /\ hctx' = vctx[pos + 1]                                       \* context = copy.deepcopy(context), first
              /\ cells' = [cells EXCEPT ![Route] = Append(@, pos + 1)]      \* subarr.fill(val): the cell's sequence runs,
              /\ vctx' = IF Mutates(sc.kind) /\ flow[pos + 1].h              \* its pre-element may write into the context
                         THEN [vctx EXCEPT ![pos + 1].mut = pos + 1] ELSE vctx
              /\ last' = pos + 1 /\ pos' = pos + 1
              /\ UNCHANGED <<sc, phase, out, it>>
FillUnderflow == /\ Filling /\ ~IsCell(Route, edges) /\ Route[FirstOut(Route)] = 0     \* if ind < 0: return
                 /\ pos' = pos + 1 /\ UNCHANGED <<sc, cells, last, hctx, vctx, phase, out, it>>
FillOverflow == /\ Filling /\ ~IsCell(Route, edges) /\ Route[FirstOut(Route)] # 0      \* except IndexError: return
                /\ pos' = pos + 1 /\ UNCHANGED <<sc, cells, last, hctx, vctx, phase, out, it>>
StartCompute == /\ phase = "fill" /\ pos = Len(flow)
                /\ phase' = "compute" /\ UNCHANGED <<sc, pos, cells, last, hctx, vctx, out, it>>
\* every cell's own generator: cell.compute()
CellRes(idx) == InnerSem(sc.kind, flow, cells[idx])
\* next(generators): one more result from every cell, or StopIteration from the shortest
ComputeNext == /\ phase = "compute" /\ \A idx \in Cells(edges) : Len(CellRes(idx)) > Len(out)
               /\ out' = Append(out, [idx \in Cells(edges) |-> CellRes(idx)[Len(out) + 1]])
               /\ UNCHANGED <<sc, pos, cells, last, hctx, vctx, phase, it>>
ComputeStop == /\ phase = "compute" /\ \E idx \in Cells(edges) : Len(CellRes(idx)) <= Len(out)
               /\ phase' = IF out = <<>> THEN "done" ELSE "iter"
               /\ UNCHANGED <<sc, pos, cells, last, hctx, vctx, out, it>>
\* IterateBins.run over the first histogram: itertools.product over the cell indices.  Every yielded
\* value carries, as context.bins, its own fresh copy of the histogram's context (touched = 0).  The
\* consumer writes into that copy (Mutate) before it pulls the next cell.
LastTouched == IF it = <<>> THEN TRUE ELSE it[Len(it)].touched # 0
IterNext == /\ phase = "iter" /\ Len(it) < Len(CellSeq(edges)) /\ LastTouched
            /\ LET idx == CellSeq(edges)[Len(it) + 1] IN
               it' = Append(it, [idx |-> idx, e |-> CellEdges(idx, edges), content |-> out[1][idx],
                                 bins |-> hctx, touched |-> 0])               \* copy.deepcopy(hist_context)
            /\ UNCHANGED <<sc, pos, cells, last, hctx, vctx, phase, out>>
Mutate == /\ phase = "iter" /\ it # <<>> /\ ~LastTouched
          /\ it' = [it EXCEPT ![Len(it)].touched = Len(it)]                  \* context["bins"]["touched"] = n
          /\ UNCHANGED <<sc, pos, cells, last, hctx, vctx, phase, out>>
IterEnd == /\ phase = "iter" /\ Len(it) = Len(CellSeq(edges)) /\ LastTouched
           /\ phase' = "done" /\ UNCHANGED <<sc, pos, cells, last, hctx, vctx, out, it>>
Next == FillInside \/ FillUnderflow \/ FillOverflow \/ StartCompute \/ ComputeNext \/ ComputeStop \/ IterNext \/ Mutate \/ IterEnd
Spec == Init /\ [][Next]_vars
Done == phase = "done"

(***************************************************************************)
(* Properties.                                                             *)
(***************************************************************************)
TypeOK == /\ phase \in {"fill", "compute", "iter", "done"} /\ pos \in 0..Len(flow) /\ last \in 0..pos
          /\ DOMAIN cells = Cells(edges)
\* C11: every cell holds exactly the sub-flow of the values whose argument falls into it, in arrival order
PerCell == \A idx \in Cells(edges) : cells[idx] = SubFlowUpTo(flow, edges, idx, pos)
\* a fill changes at most the cell of the value
NoCrossTalk == [][phase = "fill" /\ pos < Len(flow) =>
                    \A idx \in Cells(edges) : idx # CellOf(flow[pos + 1].x, edges) => cells'[idx] = cells[idx]]_vars
\* values outside the edges are ignored
OutsideIgnored == [][(phase = "fill" /\ pos < Len(flow) /\ ~IsCell(CellOf(flow[pos + 1].x, edges), edges)) =>
                       (cells' = cells /\ last' = last)]_vars
\* the cells partition the values inside the edges
CellsPartition == \A i \in 1..pos :
                    Cardinality({idx \in Cells(edges) : \E j \in 1..Len(cells[idx]) : cells[idx][j] = i})
                      = (IF IsCell(CellOf(flow[i].x, edges), edges) THEN 1 ELSE 0)
\* border values: the lower edge belongs to the cell, the upper edge to the next one / overflow
Borders == \A i \in 1..pos : \A d \in 1..Len(edges) :
             LET c == CellOf(flow[i].x, edges)[d]  e == edges[d]  x == flow[i].x[d] IN
             /\ (c >= 1 /\ c <= NCells(e)) => (e[c] <= x /\ x < e[c + 1])
             /\ c = 0 => x < e[1]
             /\ c = Len(e) => x >= e[Len(e)]
\* compute() yields the zip of what private copies compute from the sub-flows
Expected == SIBSem(sc.kind, edges, flow)
ComputeZip == phase \in {"iter", "done"} => out = Expected
OutIsPrefix == Len(out) <= Len(Expected) /\ out = SubSeq(Expected, 1, Len(out))
LastIsLastInside == phase # "fill" => last = LastInside(flow, edges, Len(flow))
\* the histograms' context: the last inside value's context as it arrived - nothing an inner element wrote
HistContext == /\ hctx.mut = 0
               /\ phase # "fill" => hctx = HistCtxSem(edges, flow)
\* the flow values' own contexts: changed only by the inner element of the cell they were filled into
FlowContexts == /\ phase # "fill" => vctx = FlowCtxSem(sc.kind, edges, flow)
                /\ \A i \in 1..Len(flow) : vctx[i].src = ArrivingCtx(flow, i).src /\ (i > pos => vctx[i] = ArrivingCtx(flow, i))
\* IterateBins: every cell once, with its own edges and content
IterOnceEach == (phase = "done" /\ out # <<>>) =>
                  /\ [n \in 1..Len(it) |-> [idx |-> it[n].idx, e |-> it[n].e, content |-> it[n].content]] = IterSem(out[1], edges)
                  /\ Len(it) = Cardinality(Cells(edges))
                  /\ {it[n].idx : n \in 1..Len(it)} = Cells(edges)
                  /\ \A n \in 1..Len(it) : it[n].content = out[1][it[n].idx]
                                           /\ \A d \in 1..Len(edges) : it[n].e[d] = <<edges[d][it[n].idx[d]], edges[d][it[n].idx[d] + 1]>>
\* every cell's context.bins is its own: what the consumer writes into one is seen in no other, and the
\* histogram's context stays as it was
OwnBinsContext == \A n \in 1..Len(it) : it[n].touched \in {0, n} /\ it[n].bins = hctx
MutateIsLocal == [][(phase = "iter" /\ Len(it') = Len(it) /\ it' # it) =>
                      (\A n \in 1..(Len(it) - 1) : it'[n] = it[n]) /\ hctx' = hctx]_vars
FreshWhenYielded == [][(Len(it') = Len(it) + 1) => it'[Len(it')].touched = 0 /\ it'[Len(it')].bins = hctx]_vars
\* MapBins: same cells, every cell the mapping of the corresponding cell (as many histograms as the
\* shortest per-cell result)
MapShape == (phase = "done" /\ out # <<>>) =>
              \A m \in {"tag", "dup", "drop", "seen", "src"} :
                LET ms == MapSem(m, out[1], edges) IN
                \A k \in 1..Len(ms) : /\ DOMAIN ms[k] = DOMAIN out[1]
                                      /\ \A idx \in Cells(edges) : ms[k][idx] = MapRes(m, out[1][idx])[k]

(***************************************************************************)
(* Export (S2C): one record per terminal state.                            *)
(***************************************************************************)
NestAll(hs) == [k \in 1..Len(hs) |-> Nest(hs[k], edges)]
Emitted == Done => PrintT(ToJson([
   edges |-> edges, kind |-> sc.kind, flow |-> flow,
   route |-> [i \in 1..Len(flow) |-> CellOf(flow[i].x, edges)],
   hists |-> NestAll(out), last |-> last, hctx |-> hctx, vctx |-> vctx,
   iter |-> it,
   maps |-> IF out = <<>> THEN <<>>
            ELSE [m \in {"tag", "dup", "drop", "seen", "src"} |-> NestAll(MapSem(m, out[1], edges))]]))
=============================================================================
