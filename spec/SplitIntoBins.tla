--------------------------- MODULE SplitIntoBins ---------------------------
(***************************************************************************)
(* lena.structures.SplitIntoBins(seq, arg_var, edges) as a machine:        *)
(*   fill(value)  routes the value to the private copy of seq of the cell  *)
(*                its argument falls into (get_bin_on_value, then the walk *)
(*                through self.bins that returns on underflow / overflow), *)
(*   compute()    zips the cells' compute() generators into histograms,    *)
(* followed by IterateBins over the first histogram yielded.               *)
(*                                                                         *)
(* The same object is used again: compute() is called after sc.cut values, *)
(* called once more at once, then the rest of the flow is filled and       *)
(* compute() is called a third time.  The consumer writes into the context *)
(* of every histogram it receives before it asks for the next one, and     *)
(* into context.bins of every cell IterateBins yields.                     *)
(*                                                                         *)
(* Code: lena/structures/split_into_bins.py (SplitIntoBins.__init__ deep   *)
(* copy per cell, fill, compute, _MdSeqMap, IterateBins.run, MapBins.run), *)
(* lena/structures/hist_functions.py (get_bin_on_value, init_bins,         *)
(* iter_bins_with_edges), lena/math/meshes.py (md_map).                    *)
(*                                                                         *)
(* The operational state is per cell (the list of values that cell's own   *)
(* copy of the analysis has been filled with); the declarative part        *)
(* (SplitIntoBinsSem.tla) recomputes every cell independently from the     *)
(* whole flow.                                                             *)
(***************************************************************************)
EXTENDS SplitIntoBinsSem

CONSTANTS U     \* name of the universe of scenarios

(***************************************************************************)
(* Universes (only the selected one is built, see Selectors.tla).          *)
(***************************************************************************)
SeqsUpTo(S, n) == UNION {[1..m -> S] : m \in 0..n}
E2 == <<0, 2>>
E3 == <<0, 2, 4>>
E4 == <<0, 2, 4, 6>>
\* below, on every edge, inside every cell, above
Coords(e) == (e[1] - 1)..(e[Len(e)] + 1)
\* shapes of the flow values: [h |-> has a context of its own, p |-> is a (data, context) pair]
\*   every value a pair with its context / bare value, pair with an empty context {}, pair with a context, ...
Full == [h |-> TRUE, p |-> TRUE]
Bare == [h |-> FALSE, p |-> FALSE]
EmptyPair == [h |-> FALSE, p |-> TRUE]
PAll(n) == [i \in 1..n |-> Full]
PAlt(n) == [i \in 1..n |-> CASE i % 3 = 1 -> Bare [] i % 3 = 2 -> Full [] OTHER -> EmptyPair]
PAlt2(n) == [i \in 1..n |-> CASE i % 3 = 1 -> EmptyPair [] i % 3 = 2 -> Bare [] OTHER -> Full]
MkFlow(xs, hs) == [i \in 1..Len(xs) |-> [x |-> xs[i], h |-> hs[i].h, p |-> hs[i].p]]
AllKinds == {"collect", "collect2", "nonempty", "pervalue", "shift", "mutate", "post", "postdup"}
SomeKinds == {"collect2", "nonempty", "mutate", "postdup"}
\* cut: compute() is first called after that many values (-1: after the whole flow)
\* form: how the edges are written (lists / tuples at each level, see SplitIntoBinsSem.tla)
Scen(ee, kk, ff, cut) == [edges |-> ee, kind |-> kk, flow |-> ff, cut |-> IF cut = -1 THEN Len(ff) ELSE cut, form |-> "l"]
WithForm(S, forms) == {[s EXCEPT !.form = f] : s \in S, f \in forms}
\* one-dimensional scenarios: edges e, flows up to n values over Coords(e)
S1(e, n, kinds, pats) == {Scen(<<e>>, k, MkFlow(xs, hs), -1) :
                            k \in kinds, xs \in SeqsUpTo({<<c>> : c \in Coords(e)}, n), hs \in pats}
\* the same with compute() called early as well
S1Cut(e, n, kinds, pats) == {Scen(<<e>>, k, MkFlow(xs, hs), c) :
                               k \in kinds, xs \in SeqsUpTo({<<c2>> : c2 \in Coords(e)}, n), hs \in pats, c \in 0..(n - 1)}
\* two-dimensional scenarios over selected coordinates per axis
C2(e) == {e[1] - 1, e[1], e[1] + 1, e[2], e[Len(e)]}
S2(e1, e2, n, kinds) == {Scen(<<e1, e2>>, k, MkFlow(xs, PAlt(n)), -1) :
                           k \in kinds, xs \in SeqsUpTo(C2(e1) \X C2(e2), n)}
WellCut(s) == s.cut <= Len(s.flow)
Quick(u) == S1(E2, 2, AllKinds, {PAll(2), PAlt(2)}) \cup S1(E3, 2, AllKinds, {PAll(2), PAlt2(2)})
            \cup S1(E3, 3, {"collect2", "mutate"}, {PAlt(3)}) \cup S1(E4, 2, {"nonempty", "postdup"}, {PAlt(2)})
            \cup {s \in S1Cut(E3, 2, {"collect2", "mutate", "nonempty"}, {PAll(2), PAlt(2)}) : WellCut(s)}
            \cup S2(E3, E3, 2, {"collect2"}) \cup S2(E3, E2, 2, {"collect", "pervalue"})
            \cup WithForm(S2(E3, E2, 1, {"collect", "postdup"}), {"t", "lt", "tl"})
            \cup WithForm(S1(E3, 2, {"collect2"}, {PAlt(2)}), {"t"})
Thorough(u) == S1(E2, 3, AllKinds, {PAll(3), PAlt(3)}) \cup S1(E3, 3, AllKinds, {PAll(3), PAlt2(3)})
               \cup S1(E3, 4, {"collect2"}, {PAlt(4)}) \cup S1(E4, 3, SomeKinds, {PAlt(3)})
               \cup {s \in S1Cut(E3, 3, {"collect2", "mutate"}, {PAlt(3)}) : WellCut(s)}
               \cup {s \in S1Cut(E2, 2, AllKinds, {PAll(2), PAlt(2)}) : WellCut(s)}
               \cup S2(E3, E3, 2, SomeKinds) \cup S2(E3, E2, 2, AllKinds) \cup S2(E2, E4, 2, SomeKinds)
               \cup WithForm(S2(E3, E2, 2, {"collect2", "mutate"}), {"t", "lt", "tl"})
               \cup WithForm(S2(E2, E4, 1, AllKinds), {"t", "lt", "tl"})
               \cup WithForm(S1(E3, 3, {"collect2", "nonempty"}, {PAlt(3)}) \cup S1(E2, 2, AllKinds, {PAlt(2)}), {"t"})
Tiny(u) == {s \in S1Cut(E3, 2, {"collect2", "nonempty"}, {PAlt(2)}) : WellCut(s)} \cup S2(E3, E2, 1, {"collect"})
           \cup WithForm(S2(E3, E2, 1, {"collect"}), {"t", "lt", "tl"})
Scenarios == CASE U = "quick" -> Quick(U) [] U = "thorough" -> Thorough(U) [] U = "tiny" -> Tiny(U)

(***************************************************************************)
(* The machine.                                                            *)
(***************************************************************************)
VARIABLES sc,       \* the scenario [edges, kind, flow, cut]
          pos,      \* values filled so far
          cells,    \* cell -> positions of the values its copy of the analysis was filled with
          tmpl,     \* what the analysis object given to the constructor itself was filled with (never anything)
          last,     \* position of the value whose context SplitIntoBins keeps (_cur_context), 0: none
          hctx,     \* _cur_context itself: the snapshot (deep copy) of that value's context
          vctx,     \* the context objects of the flow values (inner elements may write into them)
          phase,    \* "fill" | "compute" | "iter" | "done"
          round,    \* compute() calls finished
          out,      \* histograms yielded by the compute() in progress: [bins, ctx, w]
          outs,     \* the finished compute() calls: [n |-> values filled before, hists |-> their out]
          it        \* values yielded by IterateBins over the first histogram of the last compute()
vars == <<sc, pos, cells, tmpl, last, hctx, vctx, phase, round, out, outs, it>>

edges == sc.edges
\* the edges as SplitIntoBins reads them from what the user wrote
ReadEdges == AxesWritten(EdgesWritten(sc.edges, sc.form))
flow == sc.flow
Init == /\ sc \in Scenarios
        /\ pos = 0 /\ last = 0 /\ phase = "fill" /\ round = 0 /\ out = <<>> /\ outs = <<>> /\ it = <<>> /\ tmpl = <<>>
        /\ cells = [idx \in Cells(ReadEdges) |-> <<>>]         \* init_bins(edges, seq, deepcopy=True)
        /\ hctx = Ctx(0, 0) /\ vctx = [i \in 1..Len(sc.flow) |-> ArrivingCtx(sc.flow, i)]

Route == CellOf(flow[pos + 1].x, edges)                        \* get_bin_on_value
\* the walk through self.bins: the first dimension whose index is outside decides
FirstOut(idx) == CHOOSE d \in 1..Len(edges) : ~(idx[d] >= 1 /\ idx[d] <= NCells(edges[d]))
                                               /\ \A d2 \in 1..(d - 1) : idx[d2] >= 1 /\ idx[d2] <= NCells(edges[d2])
\* compute() is due after sc.cut values (twice in a row) and after the whole flow
ComputeDue == (round \in {0, 1} /\ pos = sc.cut) \/ (round = 2 /\ pos = Len(flow) /\ sc.cut < Len(flow))
Filling == phase = "fill" /\ pos < Len(flow) /\ ~ComputeDue
Rest == <<sc, tmpl, phase, round, out, outs, it>>
FillInside == /\ Filling /\ IsCell(Route, edges)
              /\ hctx' = vctx[pos + 1]                                       \* context = copy.deepcopy(context), first
              /\ cells' = [cells EXCEPT ![Route] = Append(@, pos + 1)]      \* subarr.fill(val): the cell's sequence runs,
              /\ vctx' = IF Mutates(sc.kind) /\ flow[pos + 1].p              \* its pre-element may write into the context
                         THEN [vctx EXCEPT ![pos + 1].mut = pos + 1] ELSE vctx
              /\ last' = pos + 1 /\ pos' = pos + 1
              /\ UNCHANGED Rest
FillUnderflow == /\ Filling /\ ~IsCell(Route, edges) /\ Route[FirstOut(Route)] = 0     \* if ind < 0: return
                 /\ pos' = pos + 1 /\ UNCHANGED <<cells, last, hctx, vctx>> /\ UNCHANGED Rest
FillOverflow == /\ Filling /\ ~IsCell(Route, edges) /\ Route[FirstOut(Route)] # 0      \* except IndexError: return
                /\ pos' = pos + 1 /\ UNCHANGED <<cells, last, hctx, vctx>> /\ UNCHANGED Rest
Kept == <<sc, pos, cells, tmpl, last, hctx, vctx>>
StartCompute == /\ phase = "fill" /\ ComputeDue
                /\ phase' = "compute" /\ UNCHANGED Kept /\ UNCHANGED <<round, out, outs, it>>
\* every cell's own generator: cell.compute()
CellRes(idx) == InnerSem(sc.kind, flow, cells[idx])
\* the consumer has written into the context of the histogram yielded last
Written == IF out = <<>> THEN TRUE ELSE out[Len(out)].w # 0
\* next(generators): one more result from every cell, or StopIteration from the shortest; the histogram
\* comes with its own copy of _cur_context (+ variable)
ComputeNext == /\ phase = "compute" /\ Written /\ \A idx \in Cells(edges) : Len(CellRes(idx)) > Len(out)
               /\ out' = Append(out, [bins |-> [idx \in Cells(edges) |-> CellRes(idx)[Len(out) + 1]],
                                      ctx |-> hctx, w |-> 0])                  \* copy.deepcopy(cur_context)
               /\ UNCHANGED Kept /\ UNCHANGED <<phase, round, outs, it>>
WriteCtx == /\ phase = "compute" /\ ~Written
            /\ out' = [out EXCEPT ![Len(out)].w = Len(out)]                    \* context["touched"] = k
            /\ UNCHANGED Kept /\ UNCHANGED <<phase, round, outs, it>>
LastCompute == round = 2 \/ (round = 1 /\ sc.cut = Len(flow))
ComputeStop == /\ phase = "compute" /\ Written /\ \E idx \in Cells(edges) : Len(CellRes(idx)) <= Len(out)
               /\ outs' = Append(outs, [n |-> pos, hists |-> out]) /\ out' = <<>> /\ round' = round + 1
               /\ phase' = IF ~LastCompute THEN "fill" ELSE IF out = <<>> THEN "done" ELSE "iter"
               /\ UNCHANGED Kept /\ UNCHANGED it
\* the histograms of the last compute()
Final == outs[Len(outs)].hists
\* IterateBins.run over the first histogram: itertools.product over the cell indices.  Every yielded
\* value carries, as context.bins, its own fresh copy of the histogram's context (touched = 0).  The
\* consumer writes into that copy (Mutate) before it pulls the next cell.
LastTouched == IF it = <<>> THEN TRUE ELSE it[Len(it)].touched # 0
IterNext == /\ phase = "iter" /\ Len(it) < Len(CellSeq(edges)) /\ LastTouched
            /\ LET idx == CellSeq(edges)[Len(it) + 1] IN
               it' = Append(it, [idx |-> idx, e |-> CellEdges(idx, edges), content |-> Final[1].bins[idx],
                                 bins |-> hctx, touched |-> 0])               \* copy.deepcopy(hist_context)
            /\ UNCHANGED Kept /\ UNCHANGED <<phase, round, out, outs>>
Mutate == /\ phase = "iter" /\ it # <<>> /\ ~LastTouched
          /\ it' = [it EXCEPT ![Len(it)].touched = Len(it)]                  \* context["bins"]["touched"] = n
          /\ UNCHANGED Kept /\ UNCHANGED <<phase, round, out, outs>>
IterEnd == /\ phase = "iter" /\ Len(it) = Len(CellSeq(edges)) /\ LastTouched
           /\ phase' = "done" /\ UNCHANGED Kept /\ UNCHANGED <<round, out, outs, it>>
Next == FillInside \/ FillUnderflow \/ FillOverflow \/ StartCompute \/ ComputeNext \/ WriteCtx \/ ComputeStop
        \/ IterNext \/ Mutate \/ IterEnd
Spec == Init /\ [][Next]_vars
Done == phase = "done"

(***************************************************************************)
(* Properties.                                                             *)
(***************************************************************************)
TypeOK == /\ phase \in {"fill", "compute", "iter", "done"} /\ pos \in 0..Len(flow) /\ last \in 0..pos
          /\ DOMAIN cells = Cells(edges) /\ round \in 0..3 /\ Len(outs) = round
          /\ sc.form \in Forms(Len(sc.edges))
\* the dimension and the axes are those the user wrote, lists or tuples: one private copy per cell of them
AsWritten == /\ DimWritten(EdgesWritten(sc.edges, sc.form)) = Len(sc.edges) /\ ReadEdges = sc.edges
             /\ DOMAIN cells = Cells(sc.edges)
\* C11: every cell holds exactly the sub-flow of the values whose argument falls into it, in arrival order
PerCell == \A idx \in Cells(edges) : cells[idx] = SubFlowUpTo(flow, edges, idx, pos)
\* the analysis object handed to the constructor is only a template: it is never filled
TemplateUntouched == tmpl = <<>>
\* a fill changes at most the cell of the value
NoCrossTalk == [][phase = "fill" /\ pos < Len(flow) /\ pos' = pos + 1 =>
                    \A idx \in Cells(edges) : idx # CellOf(flow[pos + 1].x, edges) => cells'[idx] = cells[idx]]_vars
\* values outside the edges are ignored
OutsideIgnored == [][(phase = "fill" /\ pos < Len(flow) /\ pos' = pos + 1 /\ ~IsCell(CellOf(flow[pos + 1].x, edges), edges)) =>
                       (cells' = cells /\ last' = last /\ hctx' = hctx)]_vars
\* the cells partition the values inside the edges
CellsPartition == \A i \in 1..pos :
                    Cardinality({idx \in Cells(edges) : \E j \in 1..Len(cells[idx]) : cells[idx][j] = i})
                      = (IF IsCell(CellOf(flow[i].x, edges), edges) THEN 1 ELSE 0)
\* border values: the lower edge belongs to the cell, the upper edge to the next one / overflow
Borders == \A i \in 1..pos : \A d \in 1..Len(edges) :
             LET c == CellOf(flow[i].x, edges)[d]  e == edges[d]  x == flow[i].x[d] IN
             /\ (c >= 1 /\ c <= NCells(e)) => (e[c] <= x /\ x < e[c + 1])
             /\ c = 0 => x < e[1]
             /\ c = Len(e) => x >= e[Len(e)]
\* every compute() yields the zip of what private copies compute from the sub-flows of the values filled
\* so far, each histogram with the arriving context of the inside value filled last
Prefix(n) == SubSeq(flow, 1, n)
BinsOf(hs) == [k \in 1..Len(hs) |-> hs[k].bins]
ComputeZip == \A k \in 1..Len(outs) :
                /\ BinsOf(outs[k].hists) = SIBSem(sc.kind, edges, Prefix(outs[k].n))
                /\ \A j \in 1..Len(outs[k].hists) : outs[k].hists[j].ctx = HistCtxSem(edges, Prefix(outs[k].n))
\* calling compute() again at once gives the same again
RepeatSame == Len(outs) >= 2 => (BinsOf(outs[2].hists) = BinsOf(outs[1].hists) /\ outs[2].n = outs[1].n)
OutIsPrefix == LET e == SIBSem(sc.kind, edges, Prefix(pos)) IN
               phase = "compute" => (Len(out) <= Len(e) /\ BinsOf(out) = SubSeq(e, 1, Len(out)))
LastIsLastInside == last = LastInside(flow, edges, pos)
\* the histograms' context: the last inside value's context as it arrived - nothing an inner element wrote,
\* nothing a consumer wrote into an earlier histogram's context
HistContext == /\ hctx.mut = 0 /\ hctx = HistCtxSem(edges, Prefix(pos))
               /\ \A j \in 1..Len(out) : out[j].w \in {0, j} /\ out[j].ctx = hctx
WriteIsLocal == [][(phase = "compute" /\ Len(out') = Len(out) /\ out' # out) =>
                     (\A j \in 1..(Len(out) - 1) : out'[j] = out[j]) /\ hctx' = hctx /\ cells' = cells]_vars
\* the flow values' own contexts: changed only by the inner element of the cell they were filled into
FlowContexts == /\ vctx = [i \in 1..Len(flow) |-> IF i <= pos THEN FlowCtxSem(sc.kind, edges, flow)[i] ELSE ArrivingCtx(flow, i)]
                /\ \A i \in 1..Len(flow) : vctx[i].src = ArrivingCtx(flow, i).src
\* IterateBins: every cell once, with its own edges and content
IterOnceEach == (phase = "done" /\ Final # <<>>) =>
                  /\ [n \in 1..Len(it) |-> [idx |-> it[n].idx, e |-> it[n].e, content |-> it[n].content]] = IterSem(Final[1].bins, edges)
                  /\ Len(it) = Cardinality(Cells(edges))
                  /\ {it[n].idx : n \in 1..Len(it)} = Cells(edges)
                  /\ \A n \in 1..Len(it) : it[n].content = Final[1].bins[it[n].idx]
                                           /\ \A d \in 1..Len(edges) : it[n].e[d] = <<edges[d][it[n].idx[d]], edges[d][it[n].idx[d] + 1]>>
\* every cell's context.bins is its own: what the consumer writes into one is seen in no other, and the
\* histogram's context stays as it was
OwnBinsContext == \A n \in 1..Len(it) : it[n].touched \in {0, n} /\ it[n].bins = hctx
MutateIsLocal == [][(phase = "iter" /\ Len(it') = Len(it) /\ it' # it) =>
                      (\A n \in 1..(Len(it) - 1) : it'[n] = it[n]) /\ hctx' = hctx]_vars
FreshWhenYielded == [][(Len(it') = Len(it) + 1) => it'[Len(it')].touched = 0 /\ it'[Len(it')].bins = hctx]_vars
\* MapBins: same cells, every cell the mapping of the corresponding cell (as many histograms as the
\* shortest per-cell result)
MapShape == (phase = "done" /\ Final # <<>>) =>
              \A m \in {"tag", "dup", "drop", "seen", "src"} :
                LET ms == MapSem(m, Final[1].bins, edges) IN
                \A k \in 1..Len(ms) : /\ DOMAIN ms[k] = DOMAIN Final[1].bins
                                      /\ \A idx \in Cells(edges) : ms[k][idx] = MapRes(m, Final[1].bins[idx])[k]

(***************************************************************************)
(* Export (S2C): one record per terminal state.                            *)
(***************************************************************************)
NestAll(hs) == [k \in 1..Len(hs) |-> Nest(hs[k], edges)]
Emitted == Done => PrintT(ToJson([
   edges |-> edges, form |-> sc.form, kind |-> sc.kind, flow |-> flow, cut |-> sc.cut,
   route |-> [i \in 1..Len(flow) |-> CellOf(flow[i].x, edges)],
   computes |-> [k \in 1..Len(outs) |-> [n |-> outs[k].n, hists |-> NestAll(BinsOf(outs[k].hists)),
                                          hctx |-> HistCtxSem(edges, Prefix(outs[k].n)),
                                          last |-> LastInside(flow, edges, outs[k].n)]],
   hists |-> NestAll(BinsOf(Final)), last |-> last, hctx |-> hctx, vctx |-> vctx,
   iter |-> [n \in 1..Len(it) |-> [idx |-> it[n].idx, e |-> it[n].e, content |-> it[n].content]],
   maps |-> IF Final = <<>> THEN <<>>
            ELSE [m \in {"tag", "dup", "drop", "seen", "src"} |-> NestAll(MapSem(m, Final[1].bins, edges))]]))
=============================================================================
