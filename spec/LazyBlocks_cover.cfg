SPECIFICATION Spec
CONSTANTS MaxN = 2 Infinite = TRUE MaxOut = 3 MaxPos = 10 Stops = TRUE Guard = "none"
  Scen <- ScenCover
INVARIANT TypeOK
INVARIANT BlockPrefixOnly
CONSTRAINT Bounded
CHECK_DEADLOCK FALSE
