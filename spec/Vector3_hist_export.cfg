SPECIFICATION Spec
CONSTANTS MaxOps = 3
  Depth = 1
INVARIANT Emitted
CHECK_DEADLOCK FALSE
