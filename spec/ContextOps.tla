----------------------------- MODULE ContextOps -----------------------------
(***************************************************************************)
(* C08.  Addressing, formatting and updating one context: the machine.     *)
(*                                                                         *)
(* One call per behaviour, chosen in Init (variable call), executed on the *)
(* context ctx of a (data, context) value, with one action per loop body / *)
(* stage of the implementation:                                            *)
(*                                                                         *)
(*   get_recursively(ctx, path[, default])  GWalk (one per key), GLast     *)
(*   contains(ctx, dotted)                  CWalk, CLast                   *)
(*   str_to_dict / str_to_list              S2D                            *)
(*   format_context(template)(ctx)          FParse, FRender                *)
(*   to_string(ctx), to_string(ctx2)        TStr                           *)
(*   UpdateContext(path, update, options)   UMake, UResolve, UWalk, USet   *)
(*   DeleteContext(path)                    DMake (normalises the key      *)
(*                                          written as list / tuple /      *)
(*                                          dotted string), DEmpty, DWalk, *)
(*                                          DDel                           *)
(*   format_update_with(path, value, ctx)   WFormat, WUpdate               *)
(*                                                                         *)
(* The updating calls are elements: UpdateContext / DeleteContext objects  *)
(* (and format_update_with / SetContext with fixed key and value) are built *)
(* once and then applied to every value of a flow (NextValue).  elem is    *)
(* the configuration the element stores; it is what the actions read.  An  *)
(* element is stateless: no action changes elem or the constructor         *)
(* arguments call (ElementStateless), so every value's outcome is a        *)
(* function of (configuration, value) only (FlowIsFunction).               *)
(*                                                                         *)
(* The declarative side is CtxOpsRef.tla (Outcomes written from the        *)
(* documentation with Has/Get/Put/Del/UpdRec) and the properties below:    *)
(* Frame (nothing unrelated to the target changes), target set to the      *)
(* value, missing keys handled as configured, contains agrees with         *)
(* get_recursively, get after str_to_dict, format exact, to_string         *)
(* canonical, only documented exceptions, queries pure.                    *)
(***************************************************************************)
EXTENDS CtxOpsRef, TLC, Json

CONSTANTS KeyOrder,   \* the key alphabet as a sequence (gives the sorted order of to_string)
          Ctxs,       \* contexts explored
          Calls,      \* call descriptors explored
          Flows       \* flows (non-empty sequences of contexts) an element is applied to, value by value

K == {KeyOrder[j] : j \in DOMAIN KeyOrder}
K1 == KeyOrder[1]
K2 == KeyOrder[2]

(***************************************************************************)
(* Universes.  Leaves: symbolic classes c0, c1 (instantiated by the        *)
(* harness with falsy and truthy Python values) and kb = the Python string *)
(* equal to the second key, whose str() is a key (for contains).           *)
(***************************************************************************)
L0 == LeafS("c0", 0, "<c0>")
L1 == LeafS("c1", 1, "<c1>")
LB == LeafS("kb", 2, K2)
LU == LeafS("ku", 3, "<unprintable>")          \* an object whose str() raises (contains: "return False")
LeavesQ == {L0, LB}
LeavesT == {L0, L1, LB}
DictsOver(V, KS) == {Dict(f) : f \in UNION {[S -> V] : S \in SUBSET KS}}
NarrowOver(LS, sub) == {d \in DictsOver(LS \cup sub, K) :
                          \A k \in Keys(d) \ {K1} : ~IsD(d.m[k]) \/ IsEmpty(d.m[k])}
CtxQ1 == DictsOver(LeavesQ, K)
CtxQ2 == NarrowOver(LeavesQ, CtxQ1)            \* depth <= 2, nesting below the first key
CtxT1 == DictsOver(LeavesT, K)
CtxT2 == NarrowOver(LeavesT, CtxT1)
CtxT3 == NarrowOver(LeavesQ, CtxQ2)            \* depth <= 3
OneCtx == {Empty}
CtxU == {Dict([j \in {K1} |-> LU]), Dict([j \in {K1} |-> Dict([i \in {K2} |-> LU])]),
         Dict([j \in {K1, K2} |-> IF j = K1 THEN LU ELSE L0])}

VARIABLES call,                \* the call: constructor / function arguments as the caller holds them
          elem,                \* the configuration stored in the element built from them
          flow0, results,      \* the flow of contexts; [out, post] of the values already processed
          ctx0, ctx2,          \* the context of the current value as passed; second context (to_string)
          ctx,                 \* the context now
          pc, out,             \* control; outcome
          ptr,                 \* keys walked so far
          upd,                 \* resolved update value
          nt,                  \* DeleteContext: the notation the key argument is written in ("-": not modelled)
          mode                 \* DeleteContext: what the element does with an empty key (undocumented policy)
vars == <<call, elem, flow0, results, ctx0, ctx2, ctx, pc, out, ptr, upd, nt, mode>>

SingleFlows == {<<c>> : c \in Ctxs}
Init == /\ call \in Calls
        /\ elem = call
        /\ flow0 \in Flows /\ results = <<>>
        /\ ctx0 = flow0[1]
        /\ ctx2 \in IF call.op = "tostr" THEN {d \in Ctxs : \A k \in Keys(d) : ~IsD(d.m[k]) \/ Keys(d.m[k]) = {}}
                    ELSE {Empty}
        /\ ctx = ctx0 /\ pc = "start" /\ out = Ok(NoVal) /\ ptr = <<>> /\ upd = NoVal
        /\ nt \in IF call.op = "delete" THEN {n \in Notations : HasNotation(n, call.path)} ELSE {"-"}
        /\ mode \in IF call.op = "delete" /\ call.path = <<>> THEN EmptyKeyModes ELSE {"clear"}

Done == pc = "done"
Return(o) == out' = o /\ pc' = "done"

(***************************************************************************)
(* get_recursively: walk keys[:-1] through dictionaries, then the last key *)
(***************************************************************************)
Missing == IF call.dflt THEN Ok(DefaultOf(call.o)) ELSE Raise("LenaKeyError")
GWalk == /\ pc = "start" /\ call.op = "get" /\ Len(ptr) + 1 < Len(call.path)
         /\ LET k == call.path[Len(ptr) + 1]  d == Get(ctx, ptr) IN
              IF k \in Keys(d) /\ IsD(d.m[k])
                THEN ptr' = Append(ptr, k) /\ UNCHANGED <<pc, out>>
              ELSE Return(Missing) /\ ptr' = ptr
         /\ UNCHANGED <<nt, mode, call, elem, flow0, results, ctx0, ctx2, ctx, upd>>
GLast == /\ pc = "start" /\ call.op = "get" /\ Len(ptr) + 1 >= Len(call.path)
         /\ LET d == Get(ctx, ptr) IN
              IF call.path = <<>> THEN Return(Ok(ctx))
              ELSE IF Last(call.path) \in Keys(d) THEN Return(Ok(d.m[Last(call.path)]))
              ELSE Return(Missing)
         /\ UNCHANGED <<nt, mode, call, elem, flow0, results, ctx0, ctx2, ctx, ptr, upd>>

(***************************************************************************)
(* contains(d, "k1.k2...kn"), n >= 1                                       *)
(***************************************************************************)
CWalk == /\ pc = "start" /\ call.op = "contains" /\ Len(ptr) + 1 < Len(call.path)
         /\ LET k == call.path[Len(ptr) + 1]  d == Get(ctx, ptr) IN
              IF IsD(d) /\ k \in Keys(d)
                THEN ptr' = Append(ptr, k) /\ UNCHANGED <<pc, out>>
              ELSE Return(Ok(FALSE)) /\ ptr' = ptr
         /\ UNCHANGED <<nt, mode, call, elem, flow0, results, ctx0, ctx2, ctx, upd>>
CLast == /\ pc = "start" /\ call.op = "contains" /\ Len(ptr) + 1 = Len(call.path)
         /\ LET d == Get(ctx, ptr)  k == Last(call.path) IN
              IF IsD(d) THEN Return(Ok(k \in Keys(d)))
              ELSE Return(Ok(d.s = k))
         /\ UNCHANGED <<nt, mode, call, elem, flow0, results, ctx0, ctx2, ctx, ptr, upd>>

\* dictionary key notation: every level is inspected while the keys are collected
GDNorm == /\ pc = "start" /\ call.op = "getd"
          /\ IF call.uk \in {"kt-tuple", "kt-list-nonstr", "kt-none", "kt-int"}
               THEN Return(Raise("LenaTypeError"))        \* neither a string, nor a list of strings, nor a dictionary
             ELSE IF call.lvl > 0 THEN Return(Raise("LenaValueError"))
             ELSE IF call.uk = "kd-nonstr"
               THEN \E r \in GetDOutcomes(call, ctx) : Return(r)
             ELSE Return(GetRefC(call, ctx))
          /\ UNCHANGED <<nt, mode, call, elem, flow0, results, ctx0, ctx2, ctx, ptr, upd>>

S2D == /\ pc = "start" /\ call.op = "s2d"
       /\ Return(S2DOutcome(call.path))
       /\ UNCHANGED <<nt, mode, call, elem, flow0, results, ctx0, ctx2, ctx, ptr, upd>>

(***************************************************************************)
(* format_context(template)(ctx): the template is checked once, the fields *)
(* are looked up at call time                                              *)
(***************************************************************************)
FParse == /\ pc = "start" /\ call.op = "format"
          /\ IF call.uk = "bad" THEN Return(Raise("LenaValueError"))
             ELSE IF call.uk = "simple" THEN Return(Raise("LenaTypeError"))
             ELSE pc' = "parsed" /\ out' = out
          /\ UNCHANGED <<nt, mode, call, elem, flow0, results, ctx0, ctx2, ctx, ptr, upd>>
FRender == /\ pc = "parsed" /\ call.op = "format"
           /\ IF AllPresent(ctx, call.tpl) THEN Return(Ok(Render(ctx, call.tpl)))
              ELSE Return(Raise("LenaKeyError"))
           /\ UNCHANGED <<nt, mode, call, elem, flow0, results, ctx0, ctx2, ctx, ptr, upd>>

TStr == /\ pc = "start" /\ call.op = "tostr"
        /\ Return([ok |-> TRUE, r |-> Canon(ctx, KeyOrder), r2 |-> Canon(ctx2, KeyOrder), same |-> ctx = ctx2])
        /\ UNCHANGED <<nt, mode, call, elem, flow0, results, ctx0, ctx2, ctx, ptr, upd>>

(***************************************************************************)
(* UpdateContext                                                           *)
(***************************************************************************)
UMake == /\ pc = "start" /\ call.op = "update"
         /\ IF MakeExc(call) # "" THEN Return(Raise(MakeExc(call)))
            ELSE pc' = "built" /\ out' = out
         /\ UNCHANGED <<nt, mode, call, elem, flow0, results, ctx0, ctx2, ctx, ptr, upd>>
\* the update value: simple value, deep copy of a context item, or rendered template;
\* a missing item / field: default, skip (value returned unchanged), LenaKeyError, or "" in a template
UResolve ==
  /\ pc = "built" /\ call.op = "update"
  /\ IF elem.uk = "simple" THEN upd' = elem.uv /\ pc' = "walk" /\ out' = out
     ELSE IF RefMode(elem) THEN
        LET p == elem.tpl[1].p IN
          IF Has(ctx, p) THEN upd' = Get(ctx, p) /\ pc' = "walk" /\ out' = out
          ELSE IF elem.o.def THEN upd' = DefaultOf(elem.o) /\ pc' = "walk" /\ out' = out
          ELSE IF elem.o.skip THEN Return(Ok(ctx)) /\ upd' = upd
          ELSE Return(Raise("LenaKeyError")) /\ upd' = upd
     ELSE IF AllPresent(ctx, elem.tpl) \/ ~(elem.o.skip \/ elem.o.raise)
        THEN upd' = Rendered /\ pc' = "walk" /\ out' = out
     ELSE IF elem.o.skip THEN Return(Ok(ctx)) /\ upd' = upd
     ELSE Return(Raise("LenaKeyError")) /\ upd' = upd
  /\ UNCHANGED <<nt, mode, call, elem, flow0, results, ctx0, ctx2, ctx, ptr>>
\* for key in keys[:-1]: create / replace by {} what is not a dictionary
UWalk == /\ pc = "walk" /\ call.op = "update" /\ Len(ptr) + 1 < Len(elem.path)
         /\ LET k == elem.path[Len(ptr) + 1]  d == Get(ctx, ptr) IN
              /\ ctx' = IF k \in Keys(d) /\ IsD(d.m[k]) THEN ctx ELSE Put(ctx, Append(ptr, k), Empty)
              /\ ptr' = Append(ptr, k)
         /\ UNCHANGED <<nt, mode, call, elem, flow0, results, ctx0, ctx2, pc, out, upd>>
USet == /\ pc = "walk" /\ call.op = "update" /\ Len(ptr) + 1 = Len(elem.path)
        /\ LET k == Last(elem.path)  d == Get(ctx, ptr)
               new == IF elem.o.rec /\ IsD(upd) /\ k \in Keys(d)
                        THEN UpdRec(IF IsD(d.m[k]) THEN d.m[k] ELSE Empty, upd)
                      ELSE upd
           IN /\ ctx' = Put(ctx, elem.path, new)
              /\ Return(Ok(Put(ctx, elem.path, new)))
        /\ UNCHANGED <<nt, mode, call, elem, flow0, results, ctx0, ctx2, ptr, upd>>

(***************************************************************************)
(* DeleteContext                                                           *)
(***************************************************************************)
\* the constructor turns the key argument - a list, a tuple or a dotted string - into the list of keys
\* the element works with (a string through str_to_list: the empty string is the empty list)
DMake == /\ pc = "start" /\ call.op = "delete"
         /\ elem' = [elem EXCEPT !.path = NormKey(nt, KeyArg(nt, call.path))]
         /\ pc' = "dwalk" /\ UNCHANGED <<nt, mode, call, flow0, results, ctx0, ctx2, ctx, out, ptr, upd>>
DEmpty == /\ pc = "dwalk" /\ call.op = "delete" /\ elem.path = <<>>
          /\ LET r == DeleteOutcomeM(elem, ctx, mode) IN Return(r.out) /\ ctx' = r.post
          /\ UNCHANGED <<nt, mode, call, elem, flow0, results, ctx0, ctx2, ptr, upd>>
DWalk == /\ pc = "dwalk" /\ call.op = "delete" /\ Len(ptr) + 1 < Len(elem.path)
         /\ LET k == elem.path[Len(ptr) + 1]  d == Get(ctx, ptr) IN
              IF k \in Keys(d) /\ IsD(d.m[k])
                THEN ptr' = Append(ptr, k) /\ UNCHANGED <<pc, out>>
              ELSE Return(Ok(ctx)) /\ ptr' = ptr          \* no such key: ignored
         /\ UNCHANGED <<nt, mode, call, elem, flow0, results, ctx0, ctx2, ctx, upd>>
DDel == /\ pc = "dwalk" /\ call.op = "delete" /\ elem.path # <<>> /\ Len(ptr) + 1 = Len(elem.path)
        /\ LET k == Last(elem.path)  d == Get(ctx, ptr)
               e == IF k \in Keys(d) THEN Del(ctx, elem.path) ELSE ctx
           IN ctx' = e /\ Return(Ok(e))
        /\ UNCHANGED <<nt, mode, call, elem, flow0, results, ctx0, ctx2, ptr, upd>>

(***************************************************************************)
(* format_update_with(key, value, d)                                       *)
(***************************************************************************)
WFormat == /\ pc = "start" /\ call.op = "fuw"
           /\ IF elem.uk = "bad" THEN Return(Raise("LenaValueError")) /\ upd' = upd
              ELSE IF elem.uk = "str" /\ HasField(elem.tpl) /\ ~AllPresent(ctx, elem.tpl)
                THEN Return(Raise("LenaKeyError")) /\ upd' = upd
              ELSE IF elem.path = <<>> THEN Return(Raise("LenaValueError")) /\ upd' = upd
              ELSE /\ upd' = IF elem.uk = "simple" THEN elem.uv ELSE Rendered
                   /\ pc' = "wupd" /\ out' = out
           /\ UNCHANGED <<nt, mode, call, elem, flow0, results, ctx0, ctx2, ctx, ptr>>
WUpdate == /\ pc = "wupd" /\ call.op = "fuw"
           /\ LET e == UpdRec(ctx, Nest(elem.path, upd)) IN ctx' = e /\ Return(Ok(e))
           /\ UNCHANGED <<nt, mode, call, elem, flow0, results, ctx0, ctx2, ptr, upd>>

(***************************************************************************)
(* The same element is applied to the next value of the flow.              *)
(***************************************************************************)
IsElement == call.op \in {"update", "delete", "fuw", "format"}
NotBuilt == \/ call.op = "update" /\ MakeExc(call) # ""      \* the constructor raised: there is no element
            \/ call.op = "format" /\ call.uk # "str"
Terminal == Done /\ (Len(results) + 1 = Len(flow0) \/ NotBuilt \/ ~IsElement)
NextValue == /\ Done /\ IsElement /\ ~NotBuilt /\ Len(results) + 1 < Len(flow0)
             /\ results' = Append(results, Res(out, ctx))
             /\ ctx0' = flow0[Len(results) + 2] /\ ctx' = flow0[Len(results) + 2]
             /\ pc' = CASE call.op = "update" -> "built" [] call.op = "delete" -> "dwalk"
                          [] call.op = "format" -> "parsed"      \* the formatter made by format_context is reused
                          [] OTHER -> "start"
             /\ out' = Ok(NoVal) /\ ptr' = <<>> /\ upd' = NoVal
             /\ UNCHANGED <<nt, mode, call, elem, flow0, ctx2>>

Next == \/ NextValue \/ GDNorm
        \/ GWalk \/ GLast \/ CWalk \/ CLast \/ S2D \/ FParse \/ FRender \/ TStr
        \/ UMake \/ UResolve \/ UWalk \/ USet
        \/ DMake \/ DEmpty \/ DWalk \/ DDel
        \/ WFormat \/ WUpdate
Spec == Init /\ [][Next]_vars

(***************************************************************************)
(* Operational = reference                                                 *)
(***************************************************************************)
Finished(o) == Done /\ call.op = o
GetIsRef      == /\ Finished("get") => out = GetRefC(call, ctx0)
                 /\ Finished("getd") => out \in GetDOutcomes(call, ctx0)
ContainsIsRef == Finished("contains") => out = Ok(ContainsRef(ctx0, call.path))
FormatIsRef   == Finished("format") => out = FormatOutcome(call, ctx0)
UpdateIsRef   == Finished("update") => Res(out, ctx) \in UpdateOutcomes(call, ctx0, Rendered)
DeleteIsRef   == Finished("delete") => /\ Res(out, ctx) \in DeleteOutcomes(call, ctx0)
                                       /\ Res(out, ctx) = DeleteOutcomeM(call, ctx0, mode)   \* whatever the notation
FuwIsRef      == Finished("fuw") => Res(out, ctx) \in FuwOutcomes(call, ctx0, Rendered)

(***************************************************************************)
(* Properties of the statement                                             *)
(***************************************************************************)
\* contains agrees with get_recursively
ContainsAgreesWithGet == Finished("contains") =>
  /\ GetRef(ctx0, call.path, FALSE).ok => out.r              \* what get_recursively finds is contained
  /\ out.r /\ ~GetRef(ctx0, call.path, FALSE).ok =>          \* the only other case: str(value) = last part
       LET g == GetRef(ctx0, Front(call.path), FALSE) IN g.ok /\ ~IsD(g.r) /\ g.r.s = Last(call.path)
\* get_recursively(str_to_dict(s, v), s) is v, and str_to_dict makes nothing else
GetAfterStrToDict == Finished("s2d") /\ call.path # <<>> =>
  /\ GetRef(out.withval.r, call.path, FALSE) = Ok(NoVal)
  /\ Nodes(out.withval.r) = {SubSeq(call.path, 1, n) : n \in 0..Len(call.path)}
  /\ Len(call.path) >= 2 => GetRef(out.noval.r, Front(call.path), FALSE) = Ok(KeyLeaf(Last(call.path)))
\* format_context renders exactly the addressed items, LenaKeyError when one is absent
FormatExact == Finished("format") /\ call.uk = "str" =>
  IF \E p \in FieldsOf(call.tpl) : ~GetRef(ctx0, p, FALSE).ok THEN out = Raise("LenaKeyError")
  ELSE /\ out.ok /\ Len(out.r) = Len(call.tpl)
       /\ \A j \in DOMAIN call.tpl :
            IF call.tpl[j].t = "lit" THEN out.r[j] = LitTok(call.tpl[j].s)
            ELSE out.r[j] = [ValTok(GetRef(ctx0, call.tpl[j].p, FALSE).r) EXCEPT !.s = call.tpl[j].cv]
\* to_string is canonical
CanonInjective == Finished("tostr") => (out.r = out.r2 <=> ctx0 = ctx2)
\* the updating calls change exactly the addressed item
Frame == Done /\ call.op \in {"update", "delete", "fuw"} => FrameOK(ctx0, ctx, call.path)
UpdateTarget == Finished("update") /\ out.ok /\ pc = "done" /\ upd # NoVal =>
  /\ Has(ctx, call.path)
  /\ IF call.o.rec /\ IsD(upd) THEN Contained(upd, Get(ctx, call.path))
     ELSE Eq(Get(ctx, call.path), upd)
  /\ \A n \in 0..(Len(call.path) - 1) : IsD(Get(ctx, SubSeq(call.path, 1, n)))
\* a missing key is handled as configured; an existing one is used
UpdateMissing == Finished("update") /\ MakeExc(call) = "" =>
  LET absent == Absent(call, ctx0) IN
    /\ absent /\ call.o.skip => out = Ok(ctx0) /\ ctx = ctx0
    /\ absent /\ (call.o.raise \/ (RefMode(call) /\ ~call.o.def /\ ~call.o.skip))
         => out = Raise("LenaKeyError") /\ ctx = ctx0
    /\ absent /\ call.o.def => /\ out.ok
                                /\ IF IsD(DefaultOf(call.o)) /\ call.o.rec
                                     THEN Contained(DefaultOf(call.o), Get(ctx, call.path))
                                   ELSE Eq(Get(ctx, call.path), DefaultOf(call.o))
    /\ ~absent => out.ok
    /\ ~absent /\ RefMode(call) => upd = Get(ctx0, call.tpl[1].p)
DeleteExact == Finished("delete") /\ call.path # <<>> =>
  /\ out.ok /\ ~Has(ctx, call.path)
  /\ Has(ctx0, call.path) => Eq(ctx0, Put(ctx, call.path, Get(ctx0, call.path)))
  /\ ~Has(ctx0, call.path) => ctx = ctx0
FuwExact == Finished("fuw") /\ out.ok => Contained(Nest(call.path, upd), ctx)
\* an exception is a documented one, and then nothing was changed
OnlyDocumentedExceptions ==
  Done /\ ~out.ok => /\ out.exc \in {"LenaKeyError", "LenaTypeError", "LenaValueError"}
                     /\ ctx = ctx0
\* an element is stateless: applying it changes neither its configuration nor the arguments it was built from
\* (the stored configuration is made from the arguments once, by the constructor)
ElementStateless == [][/\ call' = call /\ nt' = nt /\ mode' = mode
                       /\ elem' # elem => pc = "start" /\ call.op = "delete"]_vars
\* the three notations of a key address the same item: whatever the notation, the element works with
\* the path itself - the empty path (the whole context) included
NotationsAgree == call.op = "delete" /\ pc # "start" => elem.path = call.path
\* hence every value of the flow gets the outcome of a single call on that value
OutcomesOf(c, d) == CASE c.op = "update" -> UpdateOutcomes(c, d, Rendered)
                      [] c.op = "delete" -> {DeleteOutcomeM(c, d, mode)}
                      [] c.op = "fuw" -> FuwOutcomes(c, d, Rendered)
                      [] c.op = "format" -> {Res(FormatOutcome(c, d), d)}
FlowIsFunction == Done /\ IsElement =>
  /\ \A j \in DOMAIN results : results[j] \in OutcomesOf(call, flow0[j])
  /\ Res(out, ctx) \in OutcomesOf(call, flow0[Len(results) + 1])
  /\ ctx0 = flow0[Len(results) + 1]
  \* equal values, equal results (for an empty key of DeleteContext: under the element's policy)
  /\ \A j \in DOMAIN results : flow0[j] = flow0[Len(results) + 1] => results[j] = Res(out, ctx)
\* queries never change the context
QueriesPure == [][call.op \in {"get", "getd", "contains", "s2d", "format", "tostr"} /\ ~(Done /\ pc' # "done")
                    => ctx' = ctx]_vars

(***************************************************************************)
(* Call universes                                                          *)
(***************************************************************************)
Paths(n) == Seqs(K, 0, n)
PathsE(n) == Seqs(K \cup {""}, 0, n)                     \* with empty components
TplToks == {Lit("_"), Fld(<<K1>>), Fld(<<K2>>), Fld(<<K1, K1>>), Fld(<<K1, K2>>)}
Tpls(n) == Seqs(TplToks, 0, n)
\* format strings only: conversions and literals that look like format syntax
ConvTpls == {<<FldC(<<K1>>, "r")>>, <<FldC(<<K1, K2>>, "s"), Lit(":")>>, <<Lit("!"), FldC(<<K2>>, "r"), Fld(<<K1>>)>>,
             <<Lit(":"), Fld(<<K1>>)>>}
SimpleVals == {L1, Dict([j \in {K2} |-> L1]), Empty}
OptsAll == [value : BOOLEAN, def : BOOLEAN, skip : BOOLEAN, raise : BOOLEAN, rec : BOOLEAN, dv : {"obj"}]
\* the same with a default of another value (only where a default is given)
DVsQuick == {"none", "zero", "edict"}
DVsAll == {"none", "zero", "estr", "false", "elist", "edict"}
OptsDV(dvs) == {o \in [value : BOOLEAN, def : {TRUE}, skip : BOOLEAN, raise : BOOLEAN, rec : BOOLEAN, dv : dvs] : TRUE}
QueryCalls(np, ntok) ==
       {Call("get", p, d, <<>>, "none", Empty, NoOpts) : p \in Paths(np), d \in BOOLEAN}
  \cup {Simple("contains", p) : p \in Paths(np) \ {<<>>}}
  \cup {Call("format", <<>>, FALSE, t, "str", Empty, NoOpts) : t \in Tpls(ntok) \cup ConvTpls}
  \cup {Call("format", <<>>, FALSE, <<>>, uk, Empty, NoOpts) : uk \in {"bad", "simple"}}
  \cup {Simple("tostr", <<>>)}
UpdTpls == {<<Fld(<<K1>>)>>, <<Fld(<<K1, K2>>)>>, <<Fld(<<K2>>)>>,
            <<Lit("_"), Fld(<<K1, K1>>)>>, <<Fld(<<K2>>), Fld(<<K1>>)>>, <<Lit("_")>>, <<>>}
UpdateCalls(paths) ==
       {Call("update", p, FALSE, <<>>, "simple", v, [NoOpts EXCEPT !.rec = r]) :
          p \in paths, v \in SimpleVals, r \in BOOLEAN}
  \cup {c \in {Call("update", p, FALSE, t, "str", Empty, o) : p \in paths, t \in UpdTpls, o \in OptsAll} :
          \* (recursively matters only when the update can be a dictionary: simple and context values)
          MakeExc(c) = "" /\ (c.o.rec \/ c.o.value)}
\* defaults with a value of their own: context values (and get_recursively) with a missing / present key
DefaultCalls(paths, dvs) ==
       {c \in {Call("update", p, FALSE, t, "str", Empty, o) : p \in paths,
                 t \in {<<Fld(<<K1>>)>>, <<Fld(<<K1, K2>>)>>, <<Fld(<<K2>>)>>}, o \in OptsDV(dvs)} : MakeExc(c) = ""}
  \cup {Call("get", p, TRUE, <<>>, "none", Empty, [NoOpts EXCEPT !.dv = dv]) : p \in paths \cup {<<K2, K1>>}, dv \in dvs}
\* malformed / unusual dictionary key notations (the context hardly matters)
KeyDictCalls(paths, dvs) ==
  {c \in {KeyDictCall(p, d, dv, uk, l) : p \in paths, d \in BOOLEAN, dv \in dvs,
                                         uk \in {"kd-empty", "kd-str", "kd-nonstr"}, l \in 0..3} :
     /\ c.lvl <= (IF c.uk = "kd-str" THEN Len(c.path) - 1 ELSE Len(c.path))
     /\ c.uk = "kd-str" => Len(c.path) >= 2
     /\ c.dflt \/ c.o.dv = "obj"}
\* key arguments of get_recursively that are of a wrong type
KeyTypeCalls(paths) ==
  {[KeyDictCall(p, d, "obj", uk, 0) EXCEPT !.op = "getd"] : p \in paths, d \in BOOLEAN,
                                                             uk \in {"kt-tuple", "kt-list-nonstr", "kt-none", "kt-int"}}
\* the constructor over the whole option matrix (the context does not matter)
MakeCalls ==
       {Call("update", p, FALSE, t, "str", Empty, o) :
          p \in {<<>>, <<K1>>}, t \in {<<Fld(<<K1>>)>>, <<Lit("_"), Fld(<<K1>>)>>, <<Fld(<<K1>>), Lit("_")>>,
                                        <<Lit("_")>>, <<>>},
          o \in OptsAll}
  \cup KeyTypeCalls(Seqs(K, 0, 2))
  \cup {Call("update", <<K1>>, FALSE, <<>>, uk, L1, o) : uk \in {"simple", "bad"}, o \in OptsAll}
  \* a default of every value in every (also malformed) configuration
  \cup {Call("update", <<K1>>, FALSE, t, uk, L1, o) : t \in {<<Fld(<<K1>>)>>, <<Lit("_")>>}, uk \in {"str", "simple"},
                                                          o \in OptsDV(DVsAll)}
  \cup KeyDictCalls(Seqs(K, 1, 3), {"obj", "none"})
  \* str_to_dict / str_to_list do not depend on a context either
  \cup {Simple("s2d", p) : p \in Paths(4) \cup {<<K1, "", K2>>, <<"", K1>>, <<K1, "">>}}
DeleteCalls(paths) == {Simple("delete", p) : p \in paths}
FuwCalls(paths) ==
       {Call("fuw", p, FALSE, <<>>, "simple", v, NoOpts) : p \in paths, v \in SimpleVals}
  \cup {Call("fuw", p, FALSE, t, "str", Empty, NoOpts) : p \in paths,
          t \in {<<Fld(<<K1>>)>>, <<Lit("_"), Fld(<<K1, K2>>)>>, <<Lit("_")>>}}
  \cup {Call("fuw", p, FALSE, <<FldC(<<K1>>, "r"), Lit(":")>>, "str", Empty, NoOpts) : p \in paths \cap {<<K1>>, <<K1, K2>>}}
  \cup {Call("fuw", <<K1>>, FALSE, <<>>, "bad", Empty, NoOpts)}

KO2 == <<"a", "b">>
KO3 == <<"a", "b", "c">>
CallsQuick == TLCEval( DefaultCalls({<<K1>>, <<K1, K2>>}, DVsQuick)
              \cup KeyDictCalls({<<K1>>, <<K1, K2>>, <<K1, K1, K2>>}, {"obj"})
              \cup QueryCalls(3, 2)
              \cup UpdateCalls({<<K1>>, <<K1, K1>>, <<K1, K2>>, <<K1, "", K2>>})      \* more targets: flow config, thorough
              \cup DeleteCalls(PathsE(2) \cup Seqs(K, 3, 3))
              \cup FuwCalls(Seqs(K, 0, 2) \cup {<<K1, K2, K1>>}))   \* evaluated once, not lazily at every use
CallsThorough == TLCEval( DefaultCalls(Seqs(K, 1, 2), DVsAll)
                 \cup KeyDictCalls(Seqs(K, 1, 3), {"obj", "none"})
                 \cup QueryCalls(4, 3) \cup UpdateCalls(Seqs(K, 1, 3) \cup {<<K1, "", K2>>, <<"", K1>>})
                 \cup DeleteCalls(PathsE(3) \cup Seqs(K, 4, 4))
                 \cup FuwCalls(Seqs(K, 0, 3) \cup {<<K1, "", K2>>}))   \* evaluated once, not lazily at every use

\* depth-3 contexts: everything but the to_string pairs and the long template lists
CallsDeep == TLCEval( {c \in CallsQuick : c.op # "tostr" /\ (c.op = "format" => Len(c.tpl) <= 1)}
             \cup {Simple("contains", p) : p \in Seqs(K, 4, 4)}
             \cup {Call("get", p, FALSE, <<>>, "none", Empty, NoOpts) : p \in Seqs(K, 4, 4)}
             \cup DeleteCalls(Seqs(K, 4, 4)) \cup UpdateCalls({<<K1, K1, K1>>, <<K1, K1, K2>>, <<K1, K1, K1, K2>>}))   \* evaluated once, not lazily at every use

\* three keys (design level only)
CallsWide == TLCEval( {c \in QueryCalls(3, 1) : c.op # "tostr"} \cup DeleteCalls(Seqs(K, 1, 3))
             \cup UpdateCalls(Seqs(K, 1, 2)) \cup FuwCalls(Seqs(K, 1, 2)))   \* evaluated once, not lazily at every use

\* flows: an element over three values, equal and different ones
FlowCtxs == {Empty, Dict([j \in {K1} |-> L0]), Dict([j \in {K1} |-> Dict([i \in {K2} |-> L0])]),
             Dict([j \in {K1, K2} |-> IF j = K1 THEN Dict([i \in {K1, K2} |-> IF i = K1 THEN L0 ELSE LB]) ELSE L0]),
             Dict([j \in {K1, K2} |-> IF j = K1 THEN LB ELSE Empty])}
FlowsXYX == {<<x, y, x>> : x \in Ctxs, y \in Ctxs}
FlowsAll3 == Ctxs \X Ctxs \X Ctxs
CallsFlowQuick == TLCEval( UpdateCalls({<<K1>>, <<K1, K2>>, <<K2, K1>>})
                  \cup DeleteCalls(PathsE(2) \cup {<<K1, K1, K2>>, <<K1, K2, K1>>})
                  \cup FuwCalls({<<>>, <<K1>>, <<K1, K2>>})
                  \cup {Call("format", <<>>, FALSE, t, "str", Empty, NoOpts) : t \in Tpls(2)})   \* evaluated once, not lazily at every use
CallsFlowThorough == TLCEval( UpdateCalls(Seqs(K, 1, 2) \cup {<<K1, K2, K1>>})
                     \cup DeleteCalls(PathsE(2) \cup Seqs(K, 3, 3)) \cup FuwCalls(Seqs(K, 0, 2))
                     \cup {Call("format", <<>>, FALSE, t, "str", Empty, NoOpts) : t \in Tpls(2) \cup ConvTpls
                             \cup {<<Fld(<<K1>>), Lit("_"), Fld(<<K1, K2>>)>>, <<Fld(<<K2>>), Fld(<<K1>>), Fld(<<K1>>)>>}})   \* evaluated once, not lazily at every use

CallsUnprintable == {Simple("contains", p) : p \in Paths(3) \ {<<>>}}

(***************************************************************************)
(* Export (S2C): the call, the context, the outcome; rend = the tokens of  *)
(* the rendered template (for "$rendered")                                 *)
(***************************************************************************)
Emit == Terminal => PrintT(ToJson([call |-> call, nt |-> nt, mode |-> mode,
                                   ctx |-> ctx0, ctx2 |-> ctx2, out |-> out, post |-> ctx,
                                   rend |-> Render(ctx0, call.tpl),
                                   flow |-> flow0, results |-> Append(results, Res(out, ctx)),
                                   rends |-> [j \in DOMAIN flow0 |-> Render(flow0[j], call.tpl)]]))
=============================================================================
