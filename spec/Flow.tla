-------------------------------- MODULE Flow --------------------------------
(***************************************************************************)
(* A Lena Sequence / Source as a chain of coroutines.                      *)
(*                                                                         *)
(* Code: lena/core/sequence.py (Sequence.run chains el.run generators),    *)
(* lena/core/source.py, lena/core/adapters.py (Run._call_run, _fc_run),    *)
(* lena/core/lena_sequence.py (elements without data), lena/flow/          *)
(* {iterators,elements,filter}.py, lena/core/split.py (Split as an element *)
(* of a sequence).                                                         *)
(*                                                                         *)
(* Operational part: one control token moves along the chain.  "need"      *)
(* travels upstream (a generator is resumed and asks its input), "have" /  *)
(* "eof" travel downstream.  Every stage has a local state loc[i] and a    *)
(* queue q[i] of values it has produced but not yet handed on.  A stage    *)
(* asks upstream only when it is asked itself, has nothing queued and is   *)
(* not finished: this is the laziest behaviour the documentation allows    *)
(* (Count keeps one value of look-ahead, islice consumes up to its stop,   *)
(* Split reads one block).                                                 *)
(* The consumer may stop at any moment between two results (Stop: close(), *)
(* dropping the generator, throwing into it), the input may raise instead  *)
(* of giving a value (Abort), and a pipeline of elements that keep nothing *)
(* between runs may be run again on another flow (Rerun).                  *)
(* In a Source the generator is the first argument that has data: lead     *)
(* elements without data (static context) may stand before it.  They take  *)
(* no part in the flow, the generator feeds stage lead + 1, and it is not  *)
(* itself a stage.                                                         *)
(*                                                                         *)
(* Declarative part: Sem(prog, xs) is the left-to-right composition of the *)
(* stages' stream transformations; MinNeed gives the input prefix needed   *)
(* for the j-th result.                                                    *)
(***************************************************************************)
EXTENDS FlowSem, Json

CONSTANTS MaxLen,     \* programs of 0..MaxLen stages
          MaxN,       \* finite flows of length 0..MaxN
          Alphabet,   \* set of stage descriptors
          Must,       \* programs contain at least one of these stages ({}: no restriction)
          Pairs,      \* subset of BOOLEAN: flows of (data, context) pairs and/or of bare data
          Infinite,   \* TRUE: also an infinite source (value i at position i)
          MaxOut,     \* an infinite run is observed for MaxOut deliveries
          Vals,       \* "nat": the flow is base, base+1, ...; "special": SpecialFlow of FlowSem
          Stops,      \* TRUE: the consumer may stop early, the input may raise
          MaxRuns,    \* number of runs of the same pipeline object (1 or 2)
          MaxLead     \* at most this many elements without data stand before the generator of a Source

SR == INSTANCE SliceRef      \* Python's list slicing (declarative reference shared with C17)

(***************************************************************************)
(* Programs and flows.                                                     *)
(***************************************************************************)
RECURSIVE Progs(_)
Progs(n) == IF n = 0 THEN {<<>>}
            ELSE LET P == Progs(n - 1) IN P \cup {Append(p, x) : p \in {y \in P : Len(y) = n - 1}, x \in Alphabet}
Scenarios == IF Must = {} THEN Progs(MaxLen)
             ELSE {p \in Progs(MaxLen) : \E i \in 1..Len(p) : p[i] \in Must}
ValAt(i, b, pr) == IF Vals = "special" THEN SpecialFlow[i + 1] ELSE Val(i + b, {}, pr)
FlowOf(n, b, pr) == [j \in 1..n |-> ValAt(j - 1, b, pr)]
HasBad(prog) == \E i \in 1..Len(prog) : HasBadSt(prog[i])
\* number of elements without data a program starts with
RECURSIVE LeadND(_)
LeadND(p) == IF p = <<>> \/ Head(p).t # "nodata" THEN 0 ELSE 1 + LeadND(Tail(p))

(***************************************************************************)
(* Operational machine.                                                    *)
(***************************************************************************)
VARIABLES prog, N, pairs,  \* scenario
          lead,            \* Source(e1..e_lead, generator, e_lead+1..en): where the input enters the argument list
          built,           \* result of construction: "ok" | "LenaTypeError"
          pos,             \* values pulled from the source
          loc, q, fin,     \* per stage: local state, output queue, finished
          ctl,             \* control token [at, k, v]
          out, pulls,      \* deliveries and the value of pos at each delivery
          asked,           \* the consumer has asked for a value at least once
          stopped,         \* "no" | "closed" (the consumer stopped) | "raised" (the input raised)
          run, base, prev  \* number of this run, first value of its flow, how the earlier runs ended
vars == <<prog, N, pairs, lead, built, pos, loc, q, fin, ctl, out, pulls, asked, stopped, run, base, prev>>
scen == <<prog, pairs, built, lead>>
runvars == <<run, base, prev, N>>

n == Len(prog)
NoVal == Val(0, {}, FALSE)
Idle == [at |-> n + 1, k |-> "idle", v |-> NoVal]
Dead == [at |-> n + 1, k |-> "dead", v |-> NoVal]
NeedAt(i) == [at |-> i, k |-> "need", v |-> NoVal]

Init == /\ prog \in Scenarios
        /\ N \in (0..MaxN) \cup (IF Infinite THEN {Inf} ELSE {})
        /\ pairs \in Pairs
        /\ lead \in 0..(IF LeadND(prog) < MaxLead THEN LeadND(prog) ELSE MaxLead)
        /\ built = IF HasBad(prog) THEN "LenaTypeError" ELSE "ok"
        /\ pos = 0
        /\ loc = [i \in 1..Len(prog) |-> InitLoc(prog[i])]
        /\ q = [i \in 1..Len(prog) |-> <<>>] /\ fin = [i \in 1..Len(prog) |-> FALSE]
        /\ ctl = [at |-> Len(prog) + 1, k |-> "idle", v |-> NoVal]
        /\ out = <<>> /\ pulls = <<>> /\ asked = FALSE
        /\ stopped = "no" /\ run = 1 /\ base = 0 /\ prev = <<>>

\* the consumer asks for the next result
Ask == /\ built = "ok" /\ ctl.k = "idle" /\ Len(out) < MaxOut
       /\ ctl' = NeedAt(n) /\ asked' = TRUE
       /\ UNCHANGED <<scen, runvars, pos, loc, q, fin, out, pulls, stopped>>

StageNeed == /\ ctl.k = "need" /\ ctl.at \in (lead + 1)..n
             /\ LET i == ctl.at IN
                IF q[i] # <<>>
                THEN /\ ctl' = [at |-> i + 1, k |-> "have", v |-> Head(q[i])]
                     /\ q' = [q EXCEPT ![i] = Tail(@)] /\ UNCHANGED <<loc, fin>>
                ELSE IF fin[i] \/ EarlyDone(prog[i], loc[i])
                THEN /\ ctl' = [at |-> i + 1, k |-> "eof", v |-> NoVal]
                     /\ fin' = [fin EXCEPT ![i] = TRUE] /\ UNCHANGED <<q, loc>>
                ELSE ctl' = NeedAt(i - 1) /\ UNCHANGED <<q, loc, fin>>
             /\ UNCHANGED <<scen, runvars, pos, out, pulls, asked, stopped>>

Raises(st, v) == FailsOn(st, v)
StageHave == /\ ctl.k = "have" /\ ctl.at \in 1..n /\ ~Raises(prog[ctl.at], ctl.v)
             /\ LET i == ctl.at
                    r == OnHave(prog[i], loc[i], ctl.v) IN
                /\ loc' = [loc EXCEPT ![i] = r.loc] /\ q' = [q EXCEPT ![i] = @ \o r.em] /\ ctl' = NeedAt(i)
             /\ UNCHANGED <<scen, runvars, pos, fin, out, pulls, asked, stopped>>

\* a plain callable raises for the value it is given: the exception ends every generator of the chain and
\* reaches the consumer; what was delivered stays delivered, nothing more is computed
Fail == /\ ctl.k = "have" /\ ctl.at \in 1..n /\ Raises(prog[ctl.at], ctl.v)
        /\ stopped' = "failed" /\ ctl' = Dead
        /\ UNCHANGED <<scen, runvars, pos, loc, q, fin, out, pulls, asked>>

StageEof == /\ ctl.k = "eof" /\ ctl.at \in 1..n
            /\ LET i == ctl.at IN
               /\ q' = [q EXCEPT ![i] = @ \o OnEof(prog[i], loc[i])]
               /\ fin' = [fin EXCEPT ![i] = TRUE] /\ ctl' = NeedAt(i)
            /\ UNCHANGED <<scen, runvars, pos, loc, out, pulls, asked, stopped>>

Source == /\ ctl.k = "need" /\ ctl.at = lead
          /\ IF pos < N THEN pos' = pos + 1 /\ ctl' = [at |-> lead + 1, k |-> "have", v |-> ValAt(pos, base, pairs)]
             ELSE pos' = pos /\ ctl' = [at |-> lead + 1, k |-> "eof", v |-> NoVal]
          /\ UNCHANGED <<scen, runvars, loc, q, fin, out, pulls, asked, stopped>>

Deliver == /\ ctl.at = n + 1 /\ ctl.k = "have"
           /\ out' = Append(out, ctl.v) /\ pulls' = Append(pulls, pos) /\ ctl' = Idle
           /\ UNCHANGED <<scen, runvars, pos, loc, q, fin, asked, stopped>>

\* the consumer stops between two results: close(), dropping the last reference, throw(); nothing runs afterwards
Stop == /\ Stops /\ built = "ok" /\ ctl.k = "idle" /\ stopped = "no"
        /\ stopped' = "closed" /\ ctl' = Dead
        /\ UNCHANGED <<scen, runvars, pos, loc, q, fin, out, pulls, asked>>

\* the input raises instead of giving its next value: the exception ends every generator of the chain
Abort == /\ Stops /\ ctl.k = "need" /\ ctl.at = lead /\ pos < N /\ N # Inf
         /\ stopped' = "raised" /\ ctl' = Dead
         /\ UNCHANGED <<scen, runvars, pos, loc, q, fin, out, pulls, asked>>

Exhausted == ctl.at = n + 1 /\ ctl.k = "eof"
Truncated == ctl.k = "idle" /\ Len(out) = MaxOut
AllReusable == \A i \in 1..n : Reusable(prog[i])

\* the same pipeline object is run again, on another flow (elements that keep nothing between runs)
Rerun == /\ run < MaxRuns /\ built = "ok" /\ N # Inf /\ AllReusable
         /\ Exhausted \/ stopped # "no"
         /\ prev' = Append(prev, [n |-> N, taken |-> Len(out), pulled |-> pos,
                                  how |-> IF stopped = "no" THEN "exhausted" ELSE stopped])
         /\ run' = run + 1 /\ base' = base + 1 /\ N' = IF N < MaxN THEN N + 1 ELSE N - 1
         /\ pos' = 0 /\ loc' = [i \in 1..n |-> InitLoc(prog[i])]
         /\ q' = [i \in 1..n |-> <<>>] /\ fin' = [i \in 1..n |-> FALSE]
         /\ ctl' = Idle /\ out' = <<>> /\ pulls' = <<>> /\ asked' = FALSE /\ stopped' = "no"
         /\ UNCHANGED scen

Next == Ask \/ StageNeed \/ StageHave \/ Fail \/ StageEof \/ Source \/ Deliver \/ Stop \/ Abort \/ Rerun
Spec == Init /\ [][Next]_vars
FairSpec == Spec /\ WF_vars(Next)

Done == built # "ok" \/ Exhausted \/ Truncated \/ stopped # "no"

(***************************************************************************)
(* Properties.                                                             *)
(***************************************************************************)
xs == FlowOf(IF N = Inf THEN MaxOut * 4 + 8 ELSE N, base, pairs)   \* long enough prefix of an infinite flow
AtRest == ctl.k \in {"idle", "dead"} \/ Exhausted     \* out and pulls change only on the way into such a state

\* C01: the chain computes the left-to-right composition (in every run of the same object)
OpEqDen == (built = "ok" /\ Exhausted) => out = Sem(prog, xs)
OutIsPrefix == (built = "ok" /\ AtRest) => LET ref == Sem(prog, xs) IN
                  Len(out) <= Len(ref) /\ out = SubSeq(ref, 1, Len(out))
EmptyIsIdentity == (prog = <<>> /\ Exhausted) => out = xs
\* C01: ill-typed arguments are rejected at construction: no run state ever exists
BadRejectedAtBuild == HasBad(prog) => (built = "LenaTypeError" /\ ~asked /\ pos = 0)
\* C01: a callable that raises for a value: the values before it, then the exception - never a quiet end
FailEqDen == (built = "ok" /\ (Exhausted \/ stopped = "failed")) =>
                [out |-> out, failed |-> stopped = "failed"] = SemF(prog, xs)
\* regrouping into nested Sequences: Sem is a fold, so every split point gives the same result
Regroup == (built = "ok" /\ Exhausted) =>
              \A k \in 0..n : Sem(SubSeq(prog, k + 1, n), Sem(SubSeq(prog, 1, k), xs)) = out
\* an element without data is invisible
HasData(st) == st.t # "nodata"
NoDataInvisible == (built = "ok" /\ Exhausted) => out = Sem(SelectSeq(prog, HasData), xs)
\* the elements without data that stand before the generator of a Source are never run, and the generator
\* is not one of the elements that transform its flow: only stages lead+1..n ever hold the control token
LeadUntouched == /\ \A i \in 1..lead : prog[i].t = "nodata" /\ q[i] = <<>> /\ ~fin[i]
                 /\ ctl.at \in lead..(n + 1)
\* the Slice stages compute Python's slice (reference of C17), whatever the sign pattern
DataOf(vs) == [k \in 1..Len(vs) |-> vs[k].d - base]
SliceIsPySlice == (built = "ok" /\ Exhausted /\ n = 1 /\ Vals = "nat") =>
   LET st == Core(prog[1]) IN
   /\ st.t \in {"slice", "nslice"} => DataOf(out) = SR!PySlice(N, st.a, st.b, st.s)
   /\ st.t = "lagk" => DataOf(out) = SR!PySlice(N, None, -st.k, 1)
   /\ st.t = "lastk" => DataOf(out) = SR!PySlice(N, -st.k, None, 1)

\* C02: nothing happens before the consumer asks
NoWorkBeforeDemand == ~asked => pos = 0 /\ out = <<>>
\* C02: the input is pulled only when every stage has nothing left to hand on
PullOnlyWhenDrained == (ctl.at = lead /\ ctl.k = "need") => \A i \in 1..n : q[i] = <<>>
\* C02: at the j-th delivery exactly the needed prefix has been pulled
LazyEqDen == AtRest => \A j \in 1..Len(pulls) : pulls[j] = MinNeed(prog, xs, j)
\* C02: a Split stage never holds more than bufsize unprocessed values; a negative stop lags by exactly |stop|;
\*      a negative-index Slice holds at most the |index| values it documents
Buffers == \A i \in 1..n : LET st == Core(prog[i]) IN
             /\ (st.t = "split" /\ st.bs # None) => Len(loc[i].buf) < st.bs      \* whatever copy_buf is
             /\ st.t = "lagk" => /\ Len(loc[i].dq) <= st.k
                                 /\ loc[i].put = (IF loc[i].got > st.k THEN loc[i].got - st.k ELSE 0)
             /\ st.t = "lastk" => Len(loc[i].dq) <= st.k
             /\ st.t = "nslice" =>
                  /\ Len(loc[i].dq) <= Retention(st)
                  /\ NsBranch(st) \in {"A", "B"} =>
                       LET skip == IF NsBranch(st) = "B" THEN st.a ELSE 0
                           lag == skip - st.b IN
                       loc[i].ny = (IF loc[i].got > lag THEN loc[i].got - lag ELSE 0)
\* C02: once the consumer has stopped (or the input has raised) nothing is pulled any more in that run
NoPullAfterStop == [][(stopped # "no" /\ run' = run) => pos' = pos]_vars
\* C02 (liveness, FairSpec): a finite Slice after productive stages terminates on an infinite source
Terminates == <>Done

(***************************************************************************)
(* Export.                                                                 *)
(***************************************************************************)
Emitted == (Done /\ stopped \in {"no", "failed"}) =>
              PrintT(ToJson([prog |-> prog, n |-> N, pairs |-> pairs, built |-> built, lead |-> lead,
                             out |-> out, pulls |-> pulls, endpos |-> pos,
                             exhausted |-> Exhausted, base |-> base, prev |-> prev, vals |-> Vals,
                             failed |-> stopped = "failed"]))

(***************************************************************************)
(* Alphabets used by the model-checking and export configurations.         *)
(***************************************************************************)
\* ---- C01 ----
AlphaC01 == {Map("inc"), Map("tag"), Map("var"), Map("varattr"), Filter("even"), Filter("none"),
             Slice(1, 3, 1), Slice(0, None, 2), LagK(1), LastK(2), Count, RunIf("even", "inc"),
             Reverse, End, Sum, Last, SplitSt(<<Map("inc"), Sum>>, 2), SplitSt(<<SeqSum("dbl"), Filter("even")>>, 2)}
\* neighbours for the stage kinds below
CtxC01 == {Map("inc"), Filter("even"), Slice(1, 3, 1), Count, Sum, End}
\* elements without data, callables of every kind, an accumulator with a data attribute named run, negative
\* Slices in every sign pattern, Split: empty, bufsize None / 1 / 1000, tuple and Sequence branches, nested Split
ExtC01 == {NoData, Map("cls"), Map("meth"), Map("part"), Map("print"), LastAttr,
           NSlice(1, -1, 1), NSlice(None, -2, 2), NSlice(-3, -1, 1), NSlice(-2, 1, 1), NSlice(-3, None, 2),
           SplitSt(<<>>, 2), SplitSt(<<Map("inc"), FcSum("dbl")>>, None), SplitSt(<<Filter("even")>>, 1),
           SplitSt(<<Map("dbl")>>, 1000),
           SplitSt(<<SeqBr(<<Filter("even"), Map("inc")>>), SeqBr(<<SplitSt(<<Map("dbl"), Map("inc")>>, 1)>>)>>, 3),
           SplitSt(<<SeqBr(<<Slice(0, 1, 1)>>), Map("inc")>>, 2),
           RunIfS("even", <<Map("inc"), Map("dbl")>>), RunIfS("lt2", <<Filter("even"), Map("tag"), Map("inc")>>)}
AlphaC01Ext == ExtC01 \cup CtxC01
\* arguments that cannot be converted to an element: also values that look like nothing, objects with half of an
\* interface, arguments nested in a Split or a RunIf
BadC01 == {Bad("int"), Bad("str"), Bad("obj"), Bad("runnone"), Bad("rundata"), Bad("none"), Bad("zero"),
           Bad("estr"), Bad("edict"), Bad("elist"), Bad("false"), Bad("fillonly"), Bad("fillattr"),
           Bad("fillreq"), Bad("float"), SplitSt(<<Map("inc"), Bad("int")>>, 2), SplitSt(<<Bad("none")>>, 2),
           RunIf("even", "bad"),
           \* containers that hold elements are not elements
           Bad("tup_acc"), Bad("tup_acc1"), Bad("list_acc"), Bad("list_facc"), Bad("tup_count"), Bad("list_f"),
           Bad("tup_f"), Bad("set_acc"), Bad("dict_acc"), Bad("list_run")}
AlphaC01Bad == BadC01 \cup {Map("inc"), Count, Sum, End, NoData}
\* callables that yield None, followed by elements that count, drop, delay or store values
AlphaNul == {Map("nul"), Map("inc"), Filter("even"), Slice(1, 3, 1), LagK(1), LastK(2), Count,
             RunIf("even", "nul"), Reverse, Last, SplitSt(<<Map("nul"), Filter("even")>>, 2)}
\* flows of values that look like nothing (None, False, "", {}, [], (), 0; bare and in pairs)
AlphaVals == {Map("id"), Map("tag"), Map("print"), Filter("all"), Filter("even"), Slice(1, 4, 2), LagK(1), LastK(2),
              NSlice(1, -1, 1), Count, RunIf("even", "tag"), Reverse, Last, NoData,
              SplitSt(<<Map("id"), Filter("even")>>, 2), SplitSt(<<>>, 2)}
\* pipelines of elements that keep nothing between runs: run again after a complete, an abandoned or a failed run
AlphaRerun == {Map("inc"), Filter("even"), Slice(1, 3, 1), Slice(0, 2, 1), NSlice(None, -1, 1), NSlice(-2, None, 1),
               RunIf("even", "inc"), Reverse, End, NoData, SplitSt(<<Map("inc"), Filter("even")>>, 2),
               SplitSt(<<SeqBr(<<Slice(0, 1, 1)>>)>>, 2)}
\* callables that raise for one value (StopIteration, ValueError, a Lena exception), before and after elements
\* that finish early, look ahead, buffer, store or accumulate
RaisersC01 == {Raiser(1, "stop"), Raiser(2, "value"), Raiser(0, "lena"), Raiser(3, "stop")}
AlphaFail == RaisersC01 \cup {Map("inc"), Filter("even"), Slice(0, 2, 1), Count, Sum, Reverse, LagK(1),
                              SplitSt(<<Map("inc"), Filter("even")>>, 2), RunIf("even", "inc"),
                              RunIfS("even", <<Map("inc"), Raiser(3, "stop")>>), RunIfS("lt2", <<Raiser(1, "value")>>)}
RaisingC01 == RaisersC01 \cup {RunIfS("even", <<Map("inc"), Raiser(3, "stop")>>), RunIfS("lt2", <<Raiser(1, "value")>>)}
\* ---- the way an argument is given, not what it computes ----
\* elements whose class is also a tuple / list / dict or has an unusual __eq__ (named tuples with a run or a
\* __call__ method are a common way to write small parametrised elements); static context elements of every
\* kind, also BEFORE the generator of a Source (MaxLead); Split that does not copy its buffer
HostedC01 == {Hosted("nt", Map("inc")), Hosted("ntf", Map("inc")), Hosted("nt", Filter("even")),
              Hosted("list", Sum), Hosted("dict", Map("inc")), Hosted("eq", Filter("even"))}
NoDatas == {NoData, NoDataK("store"), NoDataK("set2")}
ObjC01 == HostedC01 \cup NoDatas \cup {SplitC(<<Map("inc"), Filter("even")>>, 2, FALSE)}
CtxObj == {Map("dbl"), Reverse, Slice(1, 3, 1)}
AlphaObj == ObjC01 \cup CtxObj
HostKinds == {"nt", "ntf", "list", "dict", "eq"}
ObjC01T == {Hosted(h, el) : h \in HostKinds, el \in {Map("inc"), Filter("even"), Sum, Slice(1, 3, 1), Count}}
           \cup NoDatas \cup {SplitC(<<Map("inc"), Filter("even")>>, 2, FALSE), SplitC(<<SeqSum("dbl"), Map("inc")>>, 1, FALSE)}
AlphaObjT == ObjC01T \cup CtxObj
\* deeper argument lists that start with static context elements
AlphaLead == NoDatas \cup {Map("inc"), Count, Slice(1, 3, 1), Sum, Hosted("nt", Map("inc"))}
AlphaC01Small == {Map("inc"), Map("tag"), Filter("even"), Slice(1, 3, 1), LagK(1), Count,
                  RunIf("even", "inc"), Reverse, Sum, SplitSt(<<Map("inc"), Sum>>, 2), Bad("int")}
\* ---- C02 ----
AlphaC02 == {Map("inc"), Map("id"), Map("var"), Map("upd"), Map("mkfn"), Filter("even"), Filter("lt2"),
             Slice(0, 2, 1), Slice(1, None, 2), Slice(0, 3, 2), LagK(1), LagK(2), Count,
             RunIf("even", "inc"), RunIf("even", "drop"),
             SplitSt(<<Map("inc"), Filter("even")>>, 2), SplitSt(<<Map("dbl")>>, 3)}
CtxC02 == {Map("inc"), Filter("even"), Slice(0, 2, 1), Count, RunIf("even", "drop")}
ExtC02 == {Map("print"), NoData, NSlice(1, -1, 1), NSlice(None, -2, 2), NSlice(0, -1, 3), NSlice(-2, 3, 1),
           NSlice(-1, -2, 1), NSlice(-3, -1, 2), NSlice(-2, None, 1),
           SplitSt(<<>>, 2), SplitSt(<<Map("inc")>>, None), SplitSt(<<Map("inc")>>, 1000),
           SplitSt(<<Map("inc"), Filter("even")>>, 1),
           SplitSt(<<SeqBr(<<Filter("even"), Map("inc")>>), SeqBr(<<SplitSt(<<Map("dbl"), Map("inc")>>, 1)>>)>>, 3),
           SplitSt(<<SeqBr(<<Slice(0, 1, 1)>>)>>, 2),
           \* copy_buf=False: the documented general form of RunIf is Split([...], bufsize=1, copy_buf=False)
           SplitC(<<Map("inc"), Filter("even")>>, 1, FALSE), SplitC(<<Map("inc"), Map("dbl")>>, 2, FALSE),
           SplitC(<<SeqBr(<<Filter("even"), Map("inc")>>)>>, 3, FALSE)}
AlphaC02Ext == ExtC02 \cup CtxC02
AlphaC02Small == {Map("inc"), Map("var"), Filter("even"), Slice(0, 2, 1), Slice(0, 3, 2), LagK(1), Count,
                  RunIf("even", "drop"), SplitSt(<<Map("inc"), Filter("even")>>, 2)}
\* productive stages followed by a finite Slice: must terminate on an infinite source
AlphaLive == {Map("inc"), Filter("even"), Count, RunIf("even", "inc"), Slice(0, 2, 1), Slice(1, 3, 1),
              SplitSt(<<Map("inc")>>, 2)}
HasFiniteSlice == \E i \in 1..Len(prog) : Core(prog[i]).t = "slice" /\ Core(prog[i]).b # None
TerminatesIfSliced == HasFiniteSlice => <>Done
Bounded == pos <= MaxOut * 4 + 8
Both == {TRUE, FALSE}
OnlyPairs == {TRUE}
OnlyBare == {FALSE}
NoMust == {}
=============================================================================
