-------------------------------- MODULE Flow --------------------------------
(***************************************************************************)
(* A Lena Sequence / Source as a chain of coroutines.                      *)
(*                                                                         *)
(* Code: lena/core/sequence.py (Sequence.run chains el.run generators),    *)
(* lena/core/source.py, lena/core/adapters.py (Run._call_run, _fc_run),    *)
(* lena/flow/{iterators,elements,filter}.py, lena/core/split.py (Split as  *)
(* an element of a sequence).                                              *)
(*                                                                         *)
(* Operational part: one control token moves along the chain.  "need"      *)
(* travels upstream (a generator is resumed and asks its input), "have" /  *)
(* "eof" travel downstream.  Every stage has a local state loc[i] and a    *)
(* queue q[i] of values it has produced but not yet handed on.  A stage    *)
(* asks upstream only when it is asked itself, has nothing queued and is   *)
(* not finished: this is the laziest behaviour the documentation allows    *)
(* (Count keeps one value of look-ahead, islice consumes up to its stop,   *)
(* Split reads one block).                                                 *)
(*                                                                         *)
(* Declarative part: Sem(prog, xs) is the left-to-right composition of the *)
(* stages' stream transformations; MinNeed gives the input prefix needed   *)
(* for the j-th result.                                                    *)
(***************************************************************************)
EXTENDS FlowSem, Json

CONSTANTS MaxLen,     \* programs of 0..MaxLen stages
          MaxN,       \* finite flows of length 0..MaxN
          Alphabet,   \* set of stage descriptors
          Pairs,      \* subset of BOOLEAN: flows of (data, context) pairs and/or of bare data
          Infinite,   \* TRUE: also an infinite source (value i at position i)
          MaxOut      \* an infinite run is observed for MaxOut deliveries

(***************************************************************************)
(* Programs and flows.                                                     *)
(***************************************************************************)
RECURSIVE Progs(_)
Progs(n) == IF n = 0 THEN {<<>>}
            ELSE LET P == Progs(n - 1) IN P \cup {Append(p, x) : p \in {y \in P : Len(y) = n - 1}, x \in Alphabet}
FlowOf(n, pairs) == [j \in 1..n |-> Val(j - 1, {}, pairs)]
HasBad(prog) == \E i \in 1..Len(prog) : prog[i].t = "bad"

(***************************************************************************)
(* Operational machine.                                                    *)
(***************************************************************************)
VARIABLES prog, N, pairs,  \* scenario
          built,           \* result of construction: "ok" | "LenaTypeError"
          pos,             \* values pulled from the source
          loc, q, fin,     \* per stage: local state, output queue, finished
          ctl,             \* control token [at, k, v]
          out, pulls,      \* deliveries and the value of pos at each delivery
          asked            \* the consumer has asked for a value at least once
vars == <<prog, N, pairs, built, pos, loc, q, fin, ctl, out, pulls, asked>>

n == Len(prog)
Idle == [at |-> n + 1, k |-> "idle", v |-> Val(0, {}, FALSE)]
NeedAt(i) == [at |-> i, k |-> "need", v |-> Val(0, {}, FALSE)]

Init == /\ prog \in Progs(MaxLen)
        /\ N \in (0..MaxN) \cup (IF Infinite THEN {Inf} ELSE {})
        /\ pairs \in Pairs
        /\ built = IF HasBad(prog) THEN "LenaTypeError" ELSE "ok"
        /\ pos = 0
        /\ loc = [i \in 1..Len(prog) |-> InitLoc(prog[i])]
        /\ q = [i \in 1..Len(prog) |-> <<>>] /\ fin = [i \in 1..Len(prog) |-> FALSE]
        /\ ctl = [at |-> Len(prog) + 1, k |-> "idle", v |-> Val(0, {}, FALSE)]
        /\ out = <<>> /\ pulls = <<>> /\ asked = FALSE

\* the consumer asks for the next result
Ask == /\ built = "ok" /\ ctl.k = "idle" /\ Len(out) < MaxOut
       /\ ctl' = NeedAt(n) /\ asked' = TRUE
       /\ UNCHANGED <<prog, N, pairs, built, pos, loc, q, fin, out, pulls>>

StageNeed == /\ ctl.k = "need" /\ ctl.at \in 1..n
             /\ LET i == ctl.at IN
                IF q[i] # <<>>
                THEN /\ ctl' = [at |-> i + 1, k |-> "have", v |-> Head(q[i])]
                     /\ q' = [q EXCEPT ![i] = Tail(@)] /\ UNCHANGED <<loc, fin>>
                ELSE IF fin[i] \/ EarlyDone(prog[i], loc[i])
                THEN /\ ctl' = [at |-> i + 1, k |-> "eof", v |-> Val(0, {}, FALSE)]
                     /\ fin' = [fin EXCEPT ![i] = TRUE] /\ UNCHANGED <<q, loc>>
                ELSE ctl' = NeedAt(i - 1) /\ UNCHANGED <<q, loc, fin>>
             /\ UNCHANGED <<prog, N, pairs, built, pos, out, pulls, asked>>

StageHave == /\ ctl.k = "have" /\ ctl.at \in 1..n
             /\ LET i == ctl.at
                    r == OnHave(prog[i], loc[i], ctl.v) IN
                /\ loc' = [loc EXCEPT ![i] = r.loc] /\ q' = [q EXCEPT ![i] = @ \o r.em] /\ ctl' = NeedAt(i)
             /\ UNCHANGED <<prog, N, pairs, built, pos, fin, out, pulls, asked>>

StageEof == /\ ctl.k = "eof" /\ ctl.at \in 1..n
            /\ LET i == ctl.at IN
               /\ q' = [q EXCEPT ![i] = @ \o OnEof(prog[i], loc[i])]
               /\ fin' = [fin EXCEPT ![i] = TRUE] /\ ctl' = NeedAt(i)
            /\ UNCHANGED <<prog, N, pairs, built, pos, loc, out, pulls, asked>>

Source == /\ ctl.k = "need" /\ ctl.at = 0
          /\ IF pos < N THEN pos' = pos + 1 /\ ctl' = [at |-> 1, k |-> "have", v |-> Val(pos, {}, pairs)]
             ELSE pos' = pos /\ ctl' = [at |-> 1, k |-> "eof", v |-> Val(0, {}, FALSE)]
          /\ UNCHANGED <<prog, N, pairs, built, loc, q, fin, out, pulls, asked>>

Deliver == /\ ctl.at = n + 1 /\ ctl.k = "have"
           /\ out' = Append(out, ctl.v) /\ pulls' = Append(pulls, pos) /\ ctl' = Idle
           /\ UNCHANGED <<prog, N, pairs, built, pos, loc, q, fin, asked>>

Next == Ask \/ StageNeed \/ StageHave \/ StageEof \/ Source \/ Deliver
Spec == Init /\ [][Next]_vars
FairSpec == Spec /\ WF_vars(Next)

Exhausted == ctl.at = n + 1 /\ ctl.k = "eof"
Truncated == ctl.k = "idle" /\ Len(out) = MaxOut
Done == built # "ok" \/ Exhausted \/ Truncated

(***************************************************************************)
(* Properties.                                                             *)
(***************************************************************************)
xs == FlowOf(IF N = Inf THEN MaxOut * 4 + 8 ELSE N, pairs)   \* long enough prefix of an infinite flow

\* C01: the chain computes the left-to-right composition
OpEqDen == (built = "ok" /\ Exhausted) => out = Sem(prog, xs)
OutIsPrefix == built = "ok" => LET ref == Sem(prog, xs) IN
                  Len(out) <= Len(ref) /\ out = SubSeq(ref, 1, Len(out))
EmptyIsIdentity == (prog = <<>> /\ Exhausted) => out = xs
\* C01: ill-typed arguments are rejected at construction: no run state ever exists
BadRejectedAtBuild == HasBad(prog) => (built = "LenaTypeError" /\ ~asked /\ pos = 0)
\* regrouping into nested Sequences: Sem is a fold, so every split point gives the same result
Regroup == (built = "ok" /\ Exhausted) =>
              \A k \in 0..n : Sem(SubSeq(prog, k + 1, n), Sem(SubSeq(prog, 1, k), xs)) = out

\* C02: nothing happens before the consumer asks
NoWorkBeforeDemand == ~asked => pos = 0 /\ out = <<>>
\* C02: the input is pulled only when every stage has nothing left to hand on
PullOnlyWhenDrained == (ctl.at = 0 /\ ctl.k = "need") => \A i \in 1..n : q[i] = <<>>
\* C02: at the j-th delivery exactly the needed prefix has been pulled
LazyEqDen == \A j \in 1..Len(pulls) : pulls[j] = MinNeed(prog, xs, j)
\* C02: a Split stage never holds more than bufsize unprocessed values; a negative stop lags by exactly k
Buffers == \A i \in 1..n :
             /\ prog[i].t = "split" => Len(loc[i].buf) < prog[i].bs
             /\ prog[i].t = "lagk" => /\ Len(loc[i].dq) <= prog[i].k
                                      /\ loc[i].put = (IF loc[i].got > prog[i].k THEN loc[i].got - prog[i].k ELSE 0)
             /\ prog[i].t = "lastk" => Len(loc[i].dq) <= prog[i].k
\* C02 (liveness, FairSpec): a finite Slice after productive stages terminates on an infinite source
Terminates == <>Done

(***************************************************************************)
(* Export.                                                                 *)
(***************************************************************************)
JV(v) == [d |-> v.d, c |-> v.c, h |-> v.h]
Emitted == Done => PrintT(ToJson([prog |-> prog, n |-> N, pairs |-> pairs, built |-> built,
                                  out |-> out, pulls |-> pulls, endpos |-> pos,
                                  exhausted |-> Exhausted]))

(***************************************************************************)
(* Alphabets used by the model-checking and export configurations.         *)
(***************************************************************************)
AlphaC01 == {Map("inc"), Map("tag"), Map("var"), Map("varattr"), Filter("even"), Filter("none"),
             Slice(1, 3, 1), Slice(0, None, 2), LagK(1), LastK(2), Count, RunIf("even", "inc"),
             Reverse, End, Sum, Last, SplitSt(<<Map("inc"), Sum>>, 2), SplitSt(<<SeqSum("dbl"), Filter("even")>>, 2),
             Bad("int"), Bad("str"), Bad("obj"), Bad("runnone")}
\* callables that yield None, followed by elements that count, drop, delay or store values
AlphaNul == {Map("nul"), Map("inc"), Filter("even"), Slice(1, 3, 1), LagK(1), LastK(2), Count,
             RunIf("even", "nul"), Reverse, Last, SplitSt(<<Map("nul"), Filter("even")>>, 2)}
AlphaC01Small == {Map("inc"), Map("tag"), Filter("even"), Slice(1, 3, 1), LagK(1), Count,
                  RunIf("even", "inc"), Reverse, Sum, SplitSt(<<Map("inc"), Sum>>, 2), Bad("int")}
AlphaC02 == {Map("inc"), Map("id"), Map("var"), Map("upd"), Map("mkfn"), Filter("even"), Filter("lt2"),
             Slice(0, 2, 1), Slice(1, None, 2), Slice(0, 3, 2), LagK(1), LagK(2), Count,
             RunIf("even", "inc"), RunIf("even", "drop"),
             SplitSt(<<Map("inc"), Filter("even")>>, 2), SplitSt(<<Map("dbl")>>, 3)}
AlphaC02Small == {Map("inc"), Map("var"), Filter("even"), Slice(0, 2, 1), Slice(0, 3, 2), LagK(1), Count,
                  RunIf("even", "drop"), SplitSt(<<Map("inc"), Filter("even")>>, 2)}
\* productive stages followed by a finite Slice: must terminate on an infinite source
AlphaLive == {Map("inc"), Filter("even"), Count, RunIf("even", "inc"), Slice(0, 2, 1), Slice(1, 3, 1),
              SplitSt(<<Map("inc")>>, 2)}
HasFiniteSlice == \E i \in 1..Len(prog) : prog[i].t = "slice" /\ prog[i].b # None
TerminatesIfSliced == HasFiniteSlice => <>Done
Bounded == pos <= MaxOut * 4 + 8
Both == {TRUE, FALSE}
OnlyPairs == {TRUE}
=============================================================================
