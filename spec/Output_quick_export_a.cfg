SPECIFICATION Spec
CONSTANTS MaxRuns = 3 MaxTouch = 2
  Scens <- ScenPlain1
  Settings <- SettingsDefault
  CreatedSetsChanged = TRUE
  Reuses = {FALSE, TRUE}
  AutoReload = TRUE
  KeepHistory = TRUE
INVARIANT Emitted
CHECK_DEADLOCK FALSE
