SPECIFICATION Spec
CONSTANTS MaxOps = 1
  HistChoices <- HistsExport
  Targets <- TargetsAll
  NevTargets <- NevAll
  AddWeights <- WeightsAll
  SeqOnly = FALSE
INVARIANT Emitted
CHECK_DEADLOCK FALSE
