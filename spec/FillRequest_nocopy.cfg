SPECIFICATION Spec
CONSTANTS MaxBlock = 2 MaxOps = 5 MaxLen = 0
  Ms = {1, 2}
  Takes = {0}
  Srcs = {"iter"}
  SplitBufs <- SplitBufsQuick
  Rets = {"gen", "own"}
  Variant = "nocopy"
INVARIANT RunIsBlocks
INVARIANT RunPrefix
INVARIANT EmptyFlowNothing
INVARIANT RemainderOnlyIfYor
INVARIANT ResultCount
INVARIANT Terminates
INVARIANT Accounted
INVARIANT ConcatEqRun
INVARIANT RetIndependent
INVARIANT YorFlushes
INVARIANT AfterRequest
INVARIANT OneBlock
INVARIANT SecondRequestEmpty
INVARIANT SplitEqRun
INVARIANT SeqEqRun
CHECK_DEADLOCK FALSE
