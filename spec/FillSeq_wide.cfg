SPECIFICATION Spec
CONSTANTS MaxPre = 1 MaxN = 5
  PreAlphabet <- AlphaFull
  Accs <- AccsAll
  Posts <- PostsMid
  FlowKinds = {"bare", "ctx"}
  Drivers = {"run", "fill", "persist", "split"}
  Places = {"alone", "middle", "afterstop"}
  StopFlag = "per_branch"
  CopyMode = "per_branch"
  AdapterHides = TRUE
  VarCopy = "per_value"
  Bufs <- BufQuick
INVARIANT DriversAgree
INVARIANT FillReaches
INVARIANT StopSound
INVARIANT ComputeOnce
INVARIANT BufBound
CHECK_DEADLOCK FALSE
