SPECIFICATION Spec
CONSTANTS MaxPre = 1 MaxN = 6
  PreAlphabet <- AlphaFull
  Accs <- AccsAll
  Posts <- PostsMid
  Pairs = {TRUE, FALSE}
  Drivers = {"run", "fill", "split"}
  Bufs <- BufAll
INVARIANT DriversAgree
INVARIANT FillReaches
INVARIANT StopSound
INVARIANT ComputeOnce
INVARIANT BufBound
CHECK_DEADLOCK FALSE
