---------------------------- MODULE Trace_RootIO ----------------------------
(***************************************************************************)
(* Validation of executions of the real ReadROOTFile / ReadROOTTree /      *)
(* WriteROOTTree (against the stand-in ROOT module) on random scenarios    *)
(* beyond the exhaustive bounds: [sc, obs, log].  What was yielded must be *)
(* Expected(sc) and the recorded call log must satisfy LogOk(sc, log).     *)
(***************************************************************************)
EXTENDS RootIO, IOUtils
Trace == JsonDeserialize(IOEnv.TRACE_FILE)
VARIABLE n
ToSet(s) == {s[j] : j \in 1..Len(s)}
FixLog(log) == [j \in 1..Len(log) |-> IF log[j].op = "entry" THEN [log[j] EXCEPT !.b = ToSet(@)] ELSE log[j]]
ItemOk(mode, e, g) ==
  CASE mode = "read" -> e.f = g.f /\ e.k = g.k /\ e.c = g.c /\ e.ctx = g.ctx /\ g.alive
    [] mode = "tree" -> /\ e.ctx = g.ctx /\ g.extra = <<>> /\ Len(e.fields) = Len(g.fields)
                        /\ \A k \in 1..Len(e.fields) : e.fields[k].val = g.fields[k].val
    [] mode = "write" -> e.d = g.d /\ e.ctx = g.ctx
ObsOk(s, obs) ==
  \E exp \in {Expected(s)} :       \* evaluated once
  /\ obs.ok = exp.ok
  /\ ~exp.ok => obs.exc = exp.exc
  \* the order of the objects of one file is not documented (LogOkRead compares the bags); what was yielded before
  \* an exception must be among the expected items
  /\ exp.ok => Len(obs.out) = Len(exp.out)
  /\ \A j \in 1..Len(obs.out) : \E k \in 1..Len(exp.out) : ItemOk(s.mode, exp.out[k], obs.out[j])
  /\ exp.ok => \A k \in 1..Len(exp.out) : \E j \in 1..Len(obs.out) : ItemOk(s.mode, exp.out[k], obs.out[j])
  /\ (exp.ok /\ s.mode # "read") => \A j \in 1..Len(exp.out) : ItemOk(s.mode, exp.out[j], obs.out[j])
RecOk(r) == ObsOk(r.sc, r.obs) /\ LogOk(r.sc, FixLog(r.log))
\* the variables of the protocol machine of RootIO are not used here
Idle == /\ sc = 0 /\ proto = 0 /\ i = 0 /\ open = 0 /\ opened = 0 /\ closed = 0 /\ yielded = 0 /\ fills = 0 /\ enabled = 0
        /\ written = 0
TInit == n = 1 /\ Idle
\* IF: the judgement is evaluated as a value (as a conjunct of the action every witness of its existential
\* quantifiers would become a successor state of its own)
TNext == /\ n <= Len(Trace)
         /\ IF RecOk(Trace[n]) THEN n' = n + 1 /\ UNCHANGED vars ELSE FALSE
TSpec == TInit /\ [][TNext]_<<n, vars>>
Accepted == /\ PrintT(<<"ACCEPTED", TLCGet("stats").diameter - 1>>)
            /\ TLCGet("stats").diameter - 1 = Len(Trace)
=============================================================================
