SPECIFICATION Spec
CONSTANTS MaxLen = 4 Classes <- QuickClasses CopyOnCompute = "clsshallow"
INVARIANT Fresh
CHECK_DEADLOCK FALSE
