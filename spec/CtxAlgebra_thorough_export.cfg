SPECIFICATION Spec
CONSTANTS
  K = {"a", "b"}
  NC = 3
  Levels <- LevelsThorough
  Ops <- AllOps
  UPair <- V2r
  UTriple <- V1
INVARIANT Emit
CHECK_DEADLOCK FALSE
