SPECIFICATION Spec
CONSTANTS FalsyAll = TRUE
  Tri = {"run", "fill", "compute", "request", "fill_into", "m"}
INVARIANT AsDocumented
INVARIANT NamedNeverCasts
INVARIANT FillComputeBinds
INVARIANT BlankRejected
INVARIANT AttrIsAbsent
INVARIANT CbfOnlyFillInto
INVARIANT TruthIrrelevant
INVARIANT Monotone
INVARIANT LogWithinCaps
INVARIANT RepeatedUse
PROPERTY BindingStable
INVARIANT Emitted
CHECK_DEADLOCK FALSE
