--------------------------- MODULE Trace_Isolation ---------------------------
(***************************************************************************)
(* Validation of Split / Zip executions recorded from the real code on     *)
(* configurations beyond the exhaustive bounds (more branches, random      *)
(* mutator chains, longer flows):                                          *)
(*   [brs, N, bs, drv, rq, shape, outs]   outs[b] = what branch b yielded  *)
(* Every branch must have yielded what it yields alone (IsolationSem!Alone).  *)
(***************************************************************************)
EXTENDS IsolationSem, Json, IOUtils
Trace == JsonDeserialize(IOEnv.TRACE_FILE)
VARIABLE i
Ok(r) == /\ Len(r.outs) = Len(r.brs)
         /\ \A b \in 1..Len(r.brs) : r.outs[b] = Alone(r.brs[b], FlowS(r.N, r.shape), r.bs)
TInit == i = 1
TNext == i <= Len(Trace) /\ Ok(Trace[i]) /\ i' = i + 1
TSpec == TInit /\ [][TNext]_i
Accepted == /\ PrintT(<<"ACCEPTED", TLCGet("stats").diameter - 1>>)
            /\ TLCGet("stats").diameter - 1 = Len(Trace)
=============================================================================
