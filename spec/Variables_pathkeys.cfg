SPECIFICATION Spec
CONSTANTS MaxLen = 2
  Pool <- PoolA7
  Starts <- StartsA
  Xs = {2}
  Nested = FALSE
  Ys <- NoData
  Extra <- NoElems
  Variant = "doc"
  CopyVarContext = TRUE
  ExtendByCompose = TRUE
  PathKeys = TRUE
INVARIANT TypesAvailable
CHECK_DEADLOCK FALSE
