SPECIFICATION Spec
CONSTANTS MaxLen = 4 Classes <- QuickClasses CopyOnCompute = "cfgwrite"
INVARIANT ConfigIntact
CHECK_DEADLOCK FALSE
