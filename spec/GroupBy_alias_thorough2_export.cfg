SPECIFICATION Spec
CONSTANTS PairSrc = "filesmall" CtxU = "ops4" MaxFlow = 3 KeyU = "six" Writ = "ends" NObj = 2
INVARIANT HeapOK
INVARIANT PartitionExact
INVARIANT AliasingIrrelevant
INVARIANT SnapshotsRight
INVARIANT EmitFlow
CHECK_DEADLOCK FALSE
