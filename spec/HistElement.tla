----------------------------- MODULE HistElement -----------------------------
(***************************************************************************)
(* The life cycle of the element lena.structures.Histogram: the four ways  *)
(* its initial bins can be given, fill(value), compute() and reset().      *)
(*                                                                         *)
(* Code: lena/structures/histogram.py  Histogram.__init__ / fill /         *)
(* compute / reset, histogram.__init__ (init_bins), histogram.fill.        *)
(*                                                                         *)
(* Histogram.tla is the fill machine of one histogram that starts from     *)
(* zero; here the histogram the element wraps is REPLACED by reset(), its  *)
(* initial content may be explicit nested bins (bins=), produced by a      *)
(* function (make_bins=) or a constant (initial_value=), and the weight    *)
(* conservation of C06 is relative to that initial content:                *)
(*   sum(bins) + n_out_of_range = sum(initial bins) + fills since reset.   *)
(* A reset that rebuilt only the outer list of nested bins (rows shared    *)
(* with the stored initial bins) passes every test with one reset and      *)
(* fails Conservation / ResetIsInitial after fill; reset; here.            *)
(***************************************************************************)
EXTENDS HistSem, TLC, Json

CONSTANTS MaxOps,       \* length of the histories
          EdgeChoices,  \* set of edge configurations
          InitVars      \* subset of {"plain", "bins", "make", "iv"}

VARIABLES edges, ivar,
          bins, oor,    \* the wrapped histogram
          since,        \* ghost: number of fills since the construction / the last reset
          resets,       \* ghost: number of resets
          n, h          \* ghost: number of operations, history for export

vars == <<edges, ivar, bins, oor, since, resets, n, h>>
view == <<edges, ivar, bins, oor, since, resets, n>>

D1(A) == {<<a>> : a \in A}
D2(A, B) == {<<a, b>> : a \in A, b \in B}
D3(A, B, C) == {<<a, b, c>> : a \in A, b \in B, c \in C}
EdgesEl == D1({<<0, 2, 4>>, <<0, 2>>}) \cup D2({<<0, 2, 4>>}, {<<0, 2, 4>>, <<0, 4>>})
           \cup D3({<<0, 2>>}, {<<0, 2, 4>>}, {<<2, 4>>})
EdgesElQuick == D1({<<0, 2, 4>>}) \cup D2({<<0, 2, 4>>}, {<<0, 4>>, <<0, 2, 4>>})

\* explicit initial bins: every cell gets a content that depends on its whole index, so that rows differ
RECURSIVE PatBins(_, _, _)
PatBins(E, d, acc) == [j \in 1..NB(E[d]) |-> IF d = Len(E) THEN (acc + j) % 4 ELSE PatBins(E, d + 1, acc + 2 * j)]
InitialBins(E, v) == CASE v = "plain" -> InitBins(E, 1, 0)
                       [] v = "bins" -> PatBins(E, 1, 0)
                       [] v = "make" -> PatBins(E, 1, 1)
                       [] v = "iv" -> InitBins(E, 1, 7)

\* coordinates per axis: below the first edge, inside the last cell, exactly the last edge (outside: half-open)
AxisVals(e) == {e[1] - 1, e[Len(e) - 1] + 1, e[Len(e)]}
Coords(E) == CASE Len(E) = 1 -> {<<x>> : x \in (E[1][1] - 1)..(E[1][Len(E[1])] + 1)}
               [] Len(E) = 2 -> {<<x, y>> : x \in AxisVals(E[1]), y \in AxisVals(E[2])}
               [] Len(E) = 3 -> {<<x, y, z>> : x \in {E[1][1] - 1, E[1][1] + 1, E[1][Len(E[1])]},
                                               y \in AxisVals(E[2]), z \in {E[3][1] - 1, E[3][1], E[3][Len(E[3])] + 1}}

Init == /\ edges \in EdgeChoices /\ ivar \in InitVars
        /\ bins = InitialBins(edges, ivar) /\ oor = 0 /\ since = 0 /\ resets = 0
        /\ n = 0 /\ h = <<>>

\* Histogram.fill(value): the data part with weight 1
Fill == /\ n < MaxOps /\ n' = n + 1
        /\ \E c \in Coords(edges) :
             LET r == FillOp(bins, oor, edges, c, 1) IN
             /\ bins' = r.bins /\ oor' = r.oor
             /\ h' = Append(h, [op |-> "fill", c |-> c, bins |-> r.bins, oor |-> r.oor])
        /\ since' = since + 1
        /\ UNCHANGED <<edges, ivar, resets>>

\* Histogram.reset(): a new wrapped histogram with the initial bins, however they were given
Reset == /\ n < MaxOps /\ n' = n + 1
         /\ bins' = InitialBins(edges, ivar) /\ oor' = 0 /\ since' = 0 /\ resets' = resets + 1
         /\ h' = Append(h, [op |-> "reset", c |-> <<>>, bins |-> bins', oor |-> 0])
         /\ UNCHANGED <<edges, ivar>>

Next == Fill \/ Reset
Spec == Init /\ [][Next]_vars

(***************************************************************************)
(* Properties.                                                             *)
(***************************************************************************)
TypeOK == AllIncreasing(edges) /\ ShapeOK(bins, edges, 1)
\* weight conservation relative to the initial content, across any number of resets
Conservation == SumB(bins, Len(edges)) + oor = SumB(InitialBins(edges, ivar), Len(edges)) + since
\* a fill is the fill of C06 (exactly the right cell or n_out_of_range, by 1); a reset restores exactly the
\* initial state whatever happened before
StepOK == [][LET f == h'[Len(h')] IN
               /\ Len(h') = Len(h) + 1 /\ edges' = edges /\ ivar' = ivar
               /\ f.op = "fill" => FillRefOK(bins, oor, bins', oor', edges, f.c, 1)
               /\ f.op = "reset" => bins' = InitialBins(edges, ivar) /\ oor' = 0]_vars
\* the content is the initial content plus the fills since the last reset - nothing older survives
SinceReset == LET last == IF \E k \in 1..Len(h) : h[k].op = "reset"
                          THEN CHOOSE k \in 1..Len(h) : h[k].op = "reset" /\ \A m \in (k + 1)..Len(h) : h[m].op # "reset"
                          ELSE 0
                  Ref(cell) == Get(InitialBins(edges, ivar), cell)
                               + Cardinality({k \in (last + 1)..Len(h) : Inside(h[k].c, cell, edges)})
              IN \A cell \in Cells(edges) : Get(bins, cell) = Ref(cell)

Emitted == (n = MaxOps) => PrintT(ToJson([edges |-> edges, ivar |-> ivar, init |-> InitialBins(edges, ivar), ops |-> h]))
=============================================================================
