SPECIFICATION FSpec
CONSTANTS MaxN = 4 Bound = 2 MaxStep = 2
  CapNames = {"len", "index", "neg", "slice", "seq", "rev"}
  HintNames = {"exact", "small", "large", "zero", "notimpl", "typeerr"}
  MaxGrowAt = 2 MaxGrowBy = 2 UseHint = FALSE
INVARIANT FlowIndependent
INVARIANT PrefixOfSlice
INVARIANT OneCursor
INVARIANT HeldBound
INVARIANT GrowthSeen
INVARIANT FEmitted
CHECK_DEADLOCK FALSE
