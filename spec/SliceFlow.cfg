SPECIFICATION FSpec
CONSTANTS MaxN = 4 Bound = 2 MaxStep = 2
  CapNames = {"len", "index", "neg", "slice", "seq", "rev"}
INVARIANT FlowIndependent
INVARIANT PrefixOfSlice
INVARIANT OneCursor
INVARIANT HeldBound
INVARIANT FEmitted
CHECK_DEADLOCK FALSE
