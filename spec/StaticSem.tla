------------------------------ MODULE StaticSem ------------------------------
(***************************************************************************)
(* Static context of lena: context algebra and the DECLARATIVE meaning of  *)
(* a tree of Sequence / Source / Split written from the documentation      *)
(* (lena/meta/elements.py docstrings, Split docstring, tutorial):          *)
(*                                                                         *)
(*   the context an element receives is the fold, in document order, of    *)
(*   the SetContext updates that precede it in its enclosing sequences     *)
(*   (formatting strings are resolved against that same prefix);           *)
(*   a Split gives every branch a copy of what the Split received and      *)
(*   exports the intersection of the contexts of its branches.             *)
(*                                                                         *)
(* Nothing here refers to constructors, passes, latching or copies: it is  *)
(* one top-down walk.  StaticContext.tla (the operational machine) and     *)
(* Trace_StaticContext.tla (recorded executions of the real code) are both *)
(* compared with it.                                                       *)
(*                                                                         *)
(* Encodings (DESIGN.md 3.1).                                              *)
(*   context value   Leaf(t, s): t in {"int","str"}, s = sequence of       *)
(*                   one-character strings (so that a token sequence is    *)
(*                   the string; Python 1 # "1" is t)                      *)
(*                   Dict(m): m a function from key strings                *)
(*   path            sequence of key strings                               *)
(*   template        [t |-> "int" | "str" | "fmt", toks |-> tokens]        *)
(*   token           [f |-> FALSE, p |-> <<>>, l |-> char] literal         *)
(*                   [f |-> TRUE,  p |-> path, l |-> ""]   {{field}}       *)
(*   element         [k, p, v, ch]  k in set store ucfs mf write cache     *)
(*                   data acc seq src split; p/v for set (key, value) and  *)
(*                   v for mf write cache (template); ch = ids of children *)
(*   tree            a sequence E of elements in construction (post)       *)
(*                   order; ids are indices into E; the root is Len(E)     *)
(***************************************************************************)
EXTENDS Naturals, Sequences, FiniteSets, TLC

Leaf(t, s) == [k |-> "L", t |-> t, s |-> s, m |-> <<>>]
Dict(m) == [k |-> "D", t |-> "", s |-> <<>>, m |-> m]
Empty == Dict(<<>>)
IsDict(v) == v.k = "D"

(***************************************************************************)
(* get_recursively: the first missing key is reported.                     *)
(***************************************************************************)
\* keys = the missing component and the ones below it: an implementation that keeps an empty
\* nested dictionary (as lena.context.intersection may) reports a deeper component
Range(s) == {s[j] : j \in 1..Len(s)}
\* A component that is present but holds a plain value where a dictionary is needed ("kd.ke" when
\* the prefix set kd = 1) cannot be resolved either: that component is the one reported.
RECURSIVE Get(_, _)
Get(c, path) ==
  IF path = <<>> THEN [ok |-> TRUE, v |-> c, key |-> "", keys |-> {}]
  ELSE IF IsDict(c) /\ Head(path) \in DOMAIN c.m /\ (Len(path) = 1 \/ IsDict(c.m[Head(path)]))
       THEN Get(c.m[Head(path)], Tail(path))
  ELSE [ok |-> FALSE, v |-> Empty, key |-> Head(path), keys |-> Range(path)]

(***************************************************************************)
(* update_recursively(d, o): items of o overwrite, sub-dictionaries merge. *)
(***************************************************************************)
RECURSIVE UpdRec(_, _)
UpdRec(d, o) ==
  Dict([key \in DOMAIN d.m \cup DOMAIN o.m |->
          IF key \notin DOMAIN o.m THEN d.m[key]
          ELSE IF ~IsDict(o.m[key]) THEN o.m[key]
          ELSE IF key \in DOMAIN d.m
               THEN UpdRec(IF IsDict(d.m[key]) THEN d.m[key] ELSE Empty, o.m[key])
          ELSE o.m[key]])

RECURSIVE Nest(_, _)
Nest(path, v) == IF path = <<>> THEN v ELSE Dict(Head(path) :> Nest(Tail(path), v))
Put(c, path, v) == UpdRec(c, Nest(path, v))

(***************************************************************************)
(* intersection: the items contained in both (recursively).  A nested      *)
(* dictionary that becomes empty carries no item and is dropped (the       *)
(* harness removes empty sub-dictionaries from what it observes as well).  *)
(***************************************************************************)
RECURSIVE Inter2(_, _)
Inter2(x, y) ==
  LET both == DOMAIN x.m \cap DOMAIN y.m
      keep == {key \in both : \/ x.m[key] = y.m[key]
                              \/ /\ IsDict(x.m[key]) /\ IsDict(y.m[key])
                                 /\ Inter2(x.m[key], y.m[key]) # Empty}
  IN Dict([key \in keep |-> IF x.m[key] = y.m[key] THEN x.m[key] ELSE Inter2(x.m[key], y.m[key])])
RECURSIVE InterAll(_)
InterAll(cs) == IF Len(cs) = 1 THEN cs[1] ELSE Inter2(cs[1], InterAll(Tail(cs)))

(***************************************************************************)
(* format_context: fields are looked up left to right.                     *)
(***************************************************************************)
RECURSIVE Fmt(_, _)
Fmt(toks, c) ==
  IF toks = <<>> THEN [ok |-> TRUE, s |-> <<>>, key |-> "", keys |-> {}]
  ELSE LET h == Head(toks)
           g == IF h.f THEN Get(c, h.p) ELSE [ok |-> TRUE, v |-> Leaf("str", <<h.l>>), key |-> "", keys |-> {}]
       IN IF ~g.ok THEN [ok |-> FALSE, s |-> <<>>, key |-> g.key, keys |-> g.keys]
          ELSE LET r == Fmt(Tail(toks), c) IN IF r.ok THEN [r EXCEPT !.s = g.v.s \o r.s] ELSE r

\* value a SetContext stores for template tpl in context c
Eval(tpl, c) ==
  IF tpl.t = "fmt" THEN LET r == Fmt(tpl.toks, c) IN [ok |-> r.ok, v |-> Leaf("str", r.s), key |-> r.key, keys |-> r.keys]
  ELSE [ok |-> TRUE, v |-> Leaf(tpl.t, [j \in 1..Len(tpl.toks) |-> tpl.toks[j].l]), key |-> "", keys |-> {}]

Lit(ch) == [f |-> FALSE, p |-> <<>>, l |-> ch]
Fld(path) == [f |-> TRUE, p |-> path, l |-> ""]
NoTpl == [t |-> "str", toks |-> <<>>]

(***************************************************************************)
(* Freedom left by the statement: a branch that is a bare fill/compute     *)
(* element has no static context of its own.                               *)
(*   "code"         such branches are ignored by the intersection and a    *)
(*                  Split of only such branches exports {}                 *)
(*   "transparent"  ignored; a Split of only such branches exports what    *)
(*                  it received                                            *)
(*   "identity"     the branch counts with the copy it was handed          *)
(***************************************************************************)
Policies == {"code", "transparent", "identity"}

\* "srcf" = a Source whose first data element is itself a Source, or a Split of Sources, that
\* generates the flow (and exports static context like any earlier element)
IsNode(e) == e.k \in {"seq", "src", "srcf", "split"}
IsSeqLike(e) == e.k \in {"seq", "src", "srcf"}

(***************************************************************************)
(* The fold.  cur = [err, key, ctx]; err latches the first unresolved      *)
(* formatting key: from there on the statement fixes nothing ("free").     *)
(* acc collects, per element id, what the element receives (In).           *)
(* mask = ids treated as absent (used to state prefix / sibling            *)
(* independence).                                                          *)
(***************************************************************************)
\* at = id of the SetContext whose formatting key could not be resolved
\* un = keys found unresolved so far by the lenient walk (mode = "lenient": an unresolved
\* SetContext is noted and skipped instead of latching; used only to say which keys an error
\* message may name)
Cur(c) == [err |-> FALSE, key |-> "", ctx |-> c, at |-> 0, un |-> {}]
ErrCur(key, e) == [err |-> TRUE, key |-> key, ctx |-> Empty, at |-> e, un |-> {key}]

RECURSIVE ExpList(_, _, _, _, _, _, _), ExpBranches(_, _, _, _, _, _, _, _)
\* walk the children ch[n..] of a sequence
ExpList(E, pol, mask, ch, cur, acc, mode) ==
  IF ch = <<>> THEN [cur |-> cur, acc |-> acc]
  ELSE LET e == Head(ch) rest == Tail(ch) IN
    IF e \in mask THEN ExpList(E, pol, mask, rest, cur, acc, mode)
    ELSE LET acc1 == (e :> cur) @@ acc IN
      CASE E[e].k = "set" ->
             LET r == Eval(E[e].v, cur.ctx)
                 nxt == IF cur.err THEN cur
                        ELSE IF r.ok THEN [cur EXCEPT !.ctx = Put(cur.ctx, E[e].p, r.v)]
                        ELSE IF mode = "lenient" THEN [cur EXCEPT !.un = @ \cup r.keys]
                        ELSE ErrCur(r.key, e)
             IN ExpList(E, pol, mask, rest, nxt, acc1, mode)
        [] IsSeqLike(E[e]) ->
             LET r == ExpList(E, pol, mask, E[e].ch, cur, acc1, mode)
             IN ExpList(E, pol, mask, rest, r.cur, r.acc, mode)
        [] E[e].k = "split" ->
             LET r == ExpBranches(E, pol, mask, E[e].ch, cur, acc1, <<>>, mode)
                 outs == r.outs
                 bad == {j \in 1..Len(outs) : outs[j].err}
                 fam == [j \in 1..Len(outs) |-> outs[j].ctx]
                 nxt == IF cur.err THEN cur
                        ELSE IF bad # {} THEN outs[CHOOSE j \in bad : \A j2 \in bad : j <= j2]
                        ELSE LET un == cur.un \cup UNION {outs[j].un : j \in 1..Len(outs)} IN
                             IF outs = <<>> THEN (IF pol = "code" THEN [Cur(Empty) EXCEPT !.un = un] ELSE cur)
                             ELSE [Cur(InterAll(fam)) EXCEPT !.un = un]
             IN ExpList(E, pol, mask, rest, nxt, r.acc, mode)
        [] OTHER -> ExpList(E, pol, mask, rest, cur, acc1, mode)

\* every branch receives what the Split received - also the branches after one with an
\* unresolved key: that key is not among the updates of the sequences that enclose them;
\* outs = exported contexts that count
ExpBranches(E, pol, mask, bs, cur, acc, outs, mode) ==
  IF bs = <<>> THEN [outs |-> outs, acc |-> acc]
  ELSE LET b == Head(bs)
           bin == cur
       IN
    IF b \in mask THEN ExpBranches(E, pol, mask, Tail(bs), cur, acc, outs, mode)
    ELSE IF E[b].k = "acc"
    THEN ExpBranches(E, pol, mask, Tail(bs), cur, (b :> bin) @@ acc,
                     IF pol = "identity" THEN Append(outs, bin) ELSE outs, mode)
    ELSE LET r == ExpList(E, pol, mask, E[b].ch, bin, (b :> bin) @@ acc, mode)
         IN ExpBranches(E, pol, mask, Tail(bs), cur, r.acc, Append(outs, r.cur), mode)

\* Walk of the completed component with root r that receives context c:
\* [cur |-> what r exports, acc |-> In for r and everything below it]
Walk(E, pol, mask, r, c) ==
  IF E[r].k = "split"
  THEN LET x == ExpList(E, pol, mask, <<r>>, Cur(c), <<>>, "strict") IN x
  ELSE IF IsSeqLike(E[r]) THEN ExpList(E, pol, mask, E[r].ch, Cur(c), (r :> Cur(c)), "strict")
  ELSE [cur |-> Cur(c), acc |-> (r :> Cur(c))]

\* what the node n exports when it receives in (a cur record)
RECURSIVE Below(_, _)
Below(E, n) == {n} \cup UNION {Below(E, E[n].ch[j]) : j \in 1..Len(E[n].ch)}

OutOf(E, pol, n, in) ==
  IF E[n].k = "split" THEN ExpList(E, pol, {}, <<n>>, in, <<>>, "strict").cur
  ELSE ExpList(E, pol, {}, E[n].ch, in, <<>>, "strict").cur
\* every formatting key that is unresolvable somewhere below n when n receives in
\* (the first one is OutOf(..).key)
Unresolved(E, pol, n, in) ==
  IF E[n].k = "split" THEN ExpList(E, pol, {}, <<n>>, in, <<>>, "lenient").cur.un
  ELSE ExpList(E, pol, {}, E[n].ch, in, <<>>, "lenient").cur.un

(***************************************************************************)
(* Element OBJECT SHARING.  ch lists may name the same id more than once   *)
(* (one SetContext object in two Split branches, a nested Sequence object  *)
(* placed twice): the tree of POSITIONS is what the statement speaks       *)
(* about.  InsOf = the set of contexts the fold hands to the occurrences   *)
(* of object x at or below r (one per occurrence; each is the fold over    *)
(* that occurrence's own prefix).  Walk(..).acc keeps only the last one.   *)
(***************************************************************************)
RECURSIVE InsList(_, _, _, _, _)
InsBranch(E, pol, b, cur, x) ==
  (IF b = x THEN {cur} ELSE {}) \cup (IF E[b].k = "acc" THEN {} ELSE InsList(E, pol, E[b].ch, cur, x))
InsList(E, pol, ch, cur, x) ==
  IF ch = <<>> THEN {}
  ELSE LET e == Head(ch)
           inner == IF IsSeqLike(E[e]) THEN InsList(E, pol, E[e].ch, cur, x)
                    ELSE IF E[e].k = "split"
                         THEN UNION {InsBranch(E, pol, E[e].ch[j], cur, x) : j \in 1..Len(E[e].ch)}
                    ELSE {}
           nxt == ExpList(E, pol, {}, <<e>>, cur, <<>>, "strict").cur
       IN (IF e = x THEN {cur} ELSE {}) \cup inner \cup InsList(E, pol, Tail(ch), nxt, x)
InsOf(E, pol, r, c, x) == InsList(E, pol, <<r>>, Cur(c), x)
\* number of positions at which objects occur as children
RECURSIVE SumCh(_)
SumCh(s) == IF s = <<>> THEN 0 ELSE Len(Head(s).ch) + SumCh(Tail(s))

(***************************************************************************)
(* Expected observations of one element given In = acc[i].                 *)
(* "free" = the statement does not fix it.                                 *)
(***************************************************************************)
\* name a Write / Cache / MakeFilename derives from the static context alone
NameOf(E, i, in) == IF in.err THEN [free |-> TRUE, ok |-> FALSE, s |-> <<>>]
                    ELSE LET r == Fmt(E[i].v.toks, in.ctx) IN
                         [free |-> FALSE, ok |-> r.ok, s |-> r.s]

(***************************************************************************)
(* Run-time: the values R.in (by default (0, {"rt": 0}), (0, {"rt": 1}))   *)
(* enter; contexts of the values that leave.                               *)
(* seen[i] = static context element i holds (for ucfs and mf).             *)
(* UpdateContextFromStatic merges its static context into the run-time     *)
(* one; MakeFilename formats with static context overridden by the         *)
(* run-time context and sets output.filename unless present; every         *)
(* other element leaves contexts alone.  A Split gives every branch the    *)
(* incoming values; a Source branch makes its own value; a bare            *)
(* accumulator yields one value with the last context it was filled with.  *)
(*                                                                         *)
(* The run-time context of a value may carry keys that are static keys as  *)
(* well (R.in is a parameter).  "The run-time context has higher           *)
(* precedence" (MakeFilename docstring) leaves open how a nested run-time  *)
(* dictionary combines with a nested static one:                           *)
(*   R.mrg = "top"  the run-time item replaces the static item             *)
(*   R.mrg = "rec"  nested dictionaries are merged, run-time leaves win    *)
(* Whatever the reading, the merged dictionary is a value of its own: what *)
(* the element holds (seen) is the same for every value and every run.     *)
(***************************************************************************)
OverTop(s, rc) == Dict([key \in DOMAIN s.m \cup DOMAIN rc.m |->
                          IF key \in DOMAIN rc.m THEN rc.m[key] ELSE s.m[key]])
Merges == {"top", "rec"}
Over(mrg, s, rc) == IF mrg = "top" THEN OverTop(s, rc) ELSE UpdRec(s, rc)
\* MakeFilename(filename=..) / (dirname=..) / (fileext=..): kinds mf / mfd / mfe
IsMF(k) == k \in {"mf", "mfd", "mfe"}
OutField(k) == CASE k = "mfd" -> "dirname" [] k = "mfe" -> "fileext" [] OTHER -> "filename"
MFStepM(mrg, k, tpl, s, rc) ==
  IF Get(rc, <<"output", OutField(k)>>).ok THEN rc
  ELSE LET r == Fmt(tpl.toks, Over(mrg, s, rc)) IN
       IF r.ok THEN Put(rc, <<"output", OutField(k)>>, Leaf("str", r.s)) ELSE rc
MFStep(k, tpl, s, rc) == MFStepM("top", k, tpl, s, rc)

\* the run-time contexts of the values that enter by default (a key that is not a static key)
RT0 == Dict("rt" :> Leaf("int", <<"0">>))
RT1 == Dict("rt" :> Leaf("int", <<"1">>))
RTIn == <<RT0, RT1>>
RDefault == [in |-> RTIn, mrg |-> "top"]
\* a context without its "output" part (the only part MakeFilename writes)
NoOut(c) == Dict([key \in DOMAIN c.m \ {"output"} |-> c.m[key]])
RECURSIVE RunList(_, _, _, _, _), RunBranches(_, _, _, _, _), CatOuts(_, _, _, _, _), RunSrcF(_, _, _, _)
NoData(E, e) == E[e].k \in {"set", "store"}
\* position of the first data element (the generator) among the children of a srcf node
RECURSIVE GenPos(_, _, _)
GenPos(E, ch, j) == IF j > Len(ch) THEN 0 ELSE IF ~NoData(E, ch[j]) THEN j ELSE GenPos(E, ch, j + 1)
MapSeq(f(_), s) == [j \in 1..Len(s) |-> f(s[j])]
RunList(E, R, seen, ch, vals) ==
  IF ch = <<>> THEN vals
  ELSE LET e == Head(ch) IN
    CASE E[e].k = "ucfs" -> LET F(rc) == UpdRec(rc, seen[e]) IN RunList(E, R, seen, Tail(ch), MapSeq(F, vals))
      [] IsMF(E[e].k) -> LET F(rc) == MFStepM(R.mrg, E[e].k, E[e].v, seen[e], rc) IN RunList(E, R, seen, Tail(ch), MapSeq(F, vals))
      [] E[e].k = "seq" -> RunList(E, R, seen, Tail(ch), RunList(E, R, seen, E[e].ch, vals))
      [] E[e].k = "split" -> RunList(E, R, seen, Tail(ch), RunBranches(E, R, seen, E[e].ch, vals))
      [] OTHER -> RunList(E, R, seen, Tail(ch), vals)
\* Split.run: Sources and Sequences yield while the block is processed, fill/compute branches
\* when the flow is exhausted: their results come last (in branch order)
RunBranches(E, R, seen, bs, vals) ==
  LET IsAcc(b) == E[b].k = "acc"
      NotAcc(b) == ~IsAcc(b)
      Cat(l) == CatOuts(E, R, seen, l, vals)
  IN Cat(SelectSeq(bs, NotAcc)) \o Cat(SelectSeq(bs, IsAcc))
CatOuts(E, R, seen, l, vals) ==
  IF l = <<>> THEN <<>>
  ELSE LET b == Head(l) IN
    (CASE E[b].k = "acc" -> IF vals = <<>> THEN <<Empty>> ELSE <<vals[Len(vals)]>>
       [] E[b].k = "src" -> RunList(E, R, seen, E[b].ch, R.in)
       [] E[b].k = "srcf" -> RunSrcF(E, R, seen, b)
       [] OTHER -> RunList(E, R, seen, E[b].ch, vals)) \o CatOuts(E, R, seen, Tail(l), vals)
\* Source(.., generator, rest..)(): the generator's values run through the rest
RunSrcF(E, R, seen, n) ==
  LET ch == E[n].ch
      gp == GenPos(E, ch, 1)
      g == ch[gp]
      vals0 == CASE E[g].k = "src" -> RunList(E, R, seen, E[g].ch, R.in)
                 [] E[g].k = "srcf" -> RunSrcF(E, R, seen, g)
                 [] OTHER -> RunBranches(E, R, seen, E[g].ch, <<>>)
  IN RunList(E, R, seen, SubSeq(ch, gp + 1, Len(ch)), vals0)
RunRootV(E, R, seen) == LET r == Len(E) IN
  IF E[r].k = "split" THEN RunBranches(E, R, seen, E[r].ch, R.in)
  ELSE IF E[r].k = "srcf" THEN RunSrcF(E, R, seen, r)
  ELSE RunList(E, R, seen, E[r].ch, R.in)
RunRoot(E, seen) == RunRootV(E, RDefault, seen)
\* the readings of a run: one list of contexts per reading of the merge
RunReadings(E, in, seen) == {RunRootV(E, [in |-> in, mrg |-> m], seen) : m \in Merges}

=============================================================================
