SPECIFICATION Spec
CONSTANTS MaxFills = 2
  Weights <- W3
  Twin = FALSE
  EdgeChoices <- EdgesQuick
VIEW view
INVARIANT TypeOK
INVARIANT Conservation
INVARIANT OneCell
INVARIANT HalfOpen
PROPERTY ExactlyOne
CHECK_DEADLOCK FALSE
