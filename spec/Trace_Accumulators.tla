------------------------- MODULE Trace_Accumulators -------------------------
(***************************************************************************)
(* Validation of histories recorded from the real accumulators             *)
(* (lenaverif/acclib.py: seeded random histories beyond the exhaustive     *)
(* bounds: long fill sequences, arbitrary ints, floats of mixed magnitude  *)
(* with full mantissas, random contexts, random histogram edges).          *)
(*                                                                         *)
(* The trace is a list of events                                           *)
(*   [ev |-> "new", kind |-> k]     a new element of kind k is constructed *)
(*   [ev |-> "f", v |-> value]      fill(value)                            *)
(*   [ev |-> "c", r |-> result]     compute() and what it yielded          *)
(*   [ev |-> "r"]                   reset()                                *)
(* Every event must be a step of the actions of Accumulators.tla and all   *)
(* its invariants are evaluated in every state.  Results are logged in the *)
(* exact domain of the spec: a Decimal as its canonical limb list (equal   *)
(* to the spec's un-normalised sum by carry propagation); for Mean and     *)
(* VarianceMeanCount the harness logs the exact aggregates it holds the    *)
(* observed floats against (rendered = the observed floats are the float   *)
(* rendering of these aggregates) and TLC checks the aggregates.           *)
(***************************************************************************)
EXTENDS Accumulators, IOUtils

Trace == JsonDeserialize(IOEnv.TRACE_FILE)
VARIABLE i

RECURSIVE DataMatch(_, _, _)
DataMatch(k, a, b) ==
  CASE k.t = "DSum" -> PolyEq(PolyOf(a), PolyOf(b))
    [] k.t = "Mean" -> /\ b.rendered /\ a.n = b.n
                       /\ IF k.inner = "DSum" THEN PolyEq(PolyOf(a.s), PolyOf(b.s)) ELSE a.s = b.s
    [] k.t = "VMC" -> b.rendered /\ a.n = b.n /\ a.s = b.s /\ a.vnum = b.vnum /\ a.vden = b.vden
    [] k.t = "Vec" -> /\ Len(a) = Len(b)
                      /\ \A j \in 1..Len(a) :
                           IF "pad" \in DOMAIN a[j] THEN "pad" \in DOMAIN b[j]
                           ELSE /\ "pad" \notin DOMAIN b[j] /\ a[j].h = b[j].h /\ a[j].c = b[j].c
                                /\ DataMatch(k.inners[j], a[j].d, b[j].d)
    [] OTHER -> a = b
ItemMatch(k, a, b) == a.h = b.h /\ a.c = b.c /\ DataMatch(k, a.d, b.d)
ObsMatch(k, spec, obs) ==
  IF ~spec.ok THEN ~obs.ok /\ (spec.exc = "Any" \/ spec.exc = obs.exc)
  ELSE /\ obs.ok /\ Len(obs.out) = Len(spec.out)
       /\ IF k.t = "GroupBy"      \* the order of the groups is not documented
          THEN {spec.out[j] : j \in 1..Len(spec.out)} = {obs.out[j] : j \in 1..Len(obs.out)}
          ELSE \A j \in 1..Len(spec.out) :
                 IF k.t = "Mean" /\ j > 1 THEN spec.out[j] = obs.out[j]      \* further values of a multi-valued sum_seq
                 ELSE ItemMatch(k, spec.out[j], obs.out[j])

NewA(k) == /\ kind' = k /\ ekind' = k /\ st' = InitState(k) /\ since' = <<>>
           /\ res' = Ok(<<>>) /\ op' = "init"

TInit == InitFor(Count0) /\ h = <<>> /\ i = 1
TNext == /\ i <= Len(Trace) /\ i' = i + 1 /\ UNCHANGED h
         /\ LET e == Trace[i] IN
              \/ e.ev = "new" /\ NewA(e.kind)
              \/ e.ev = "f" /\ FillA(e.v)
              \/ e.ev = "c" /\ ComputeA /\ ObsMatch(ekind, res', e.r)
              \/ e.ev = "r" /\ ResetA
TSpec == TInit /\ [][TNext]_<<vars, i>>
Accepted == /\ PrintT(<<"ACCEPTED", TLCGet("stats").diameter - 1>>)
            /\ TLCGet("stats").diameter - 1 = Len(Trace)
=============================================================================
