---------------------------- MODULE AdapterTable ----------------------------
(***************************************************************************)
(* Decision tables of lena.core.Call, SourceEl, Run, FillInto, FillCompute *)
(* over capability records (see Adapters.tla).  No constants or variables: *)
(* shared by Adapters.tla and Trace_Adapters.tla.                          *)
(***************************************************************************)
EXTENDS Integers, Sequences, FiniteSets, TLC

Adapters == {"Call", "SourceEl", "Run", "FillInto", "FillCompute"}
ArgsOf(a) == CASE a = "Call" -> {"default", "name:m", "name:run"}
               [] a = "SourceEl" -> {"default", "name:m", "name:run"}
               [] a = "Run" -> {"default", "name:m", "name:fill", "none"}
               [] a = "FillInto" -> {"default", "name:m", "name:fill"}
               [] a = "FillCompute" -> {"default", "fill:m", "compute:m"}
Has(c, x) == c[x] = "meth"
NameOf(arg) == CASE arg \in {"name:m", "fill:m", "compute:m"} -> "m"
                 [] arg = "name:run" -> "run"
                 [] arg = "name:fill" -> "fill"
                 [] OTHER -> "?"

Reject == [ok |-> FALSE, bind |-> "LenaTypeError", f |-> "", c |-> ""]
Bind(b) == [ok |-> TRUE, bind |-> b, f |-> "", c |-> ""]
BindFC(f, c) == [ok |-> TRUE, bind |-> "fill_compute", f |-> f, c |-> c]

(***************************************************************************)
(* Operational: the cascade of tests of each __init__.                     *)
(***************************************************************************)
Decide(a, c, g) ==
  CASE a \in {"Call", "SourceEl"} ->
         IF g = "default"
         THEN IF c.call THEN Bind("call")
              ELSE IF a = "SourceEl" /\ c.iter THEN Bind("iter")
              ELSE Reject
         ELSE IF Has(c, NameOf(g)) THEN Bind("method:" \o NameOf(g)) ELSE Reject
    [] a = "Run" ->
         IF g = "none" THEN Bind("function")
         ELSE IF g = "default"
         THEN IF Has(c, "run") THEN Bind("method:run")
              ELSE IF c.call THEN Bind("call_per_value")
              ELSE IF Has(c, "fill") /\ Has(c, "compute") THEN Bind("fill_then_compute")
              ELSE Reject
         ELSE IF Has(c, NameOf(g)) THEN Bind("method:" \o NameOf(g)) ELSE Reject
    [] a = "FillInto" ->
         IF g = "default"
         THEN IF Has(c, "fill_into") THEN Bind("method:fill_into")
              ELSE IF c.call THEN Bind("fill_call")
              ELSE IF Has(c, "run") /\ c.cbf THEN Bind("fill_run")
              ELSE Reject
         ELSE IF Has(c, NameOf(g)) THEN Bind("method:" \o NameOf(g)) ELSE Reject
    [] a = "FillCompute" ->
         LET f == IF g = "fill:m" THEN "m" ELSE "fill"
             cn == IF g = "compute:m" THEN "m" ELSE "compute"
         IN IF ~Has(c, f) THEN Reject
            ELSE IF Has(c, cn) THEN BindFC(f, cn)
            ELSE IF Has(c, "request") THEN BindFC(f, "request")
            ELSE Reject

(***************************************************************************)
(* Declarative: what the documentation allows, and in which order.         *)
(***************************************************************************)
\* Call: "must contain a callable method call or be callable itself"
\* SourceEl: "must be callable or iterable, or contain a callable method call"
\* Run: "el is searched for a method run.  If that is not found, a type cast is attempted ... from a
\*       Call or a FillCompute element"; with a name "el must be None or have a callable method"
\* FillInto: "fill_into method is searched, then __call__, then run" (run only with _can_break_flow)
\* FillCompute: "callable methods fill and compute or request"
Precedence(a, g) ==
  IF g = "none" THEN <<"function">>
  ELSE IF g # "default" /\ a # "FillCompute" THEN <<"method:" \o NameOf(g)>>
  ELSE CASE a = "Call" -> <<"call">>
         [] a = "SourceEl" -> <<"call", "iter">>
         [] a = "Run" -> <<"method:run", "call_per_value", "fill_then_compute">>
         [] a = "FillInto" -> <<"method:fill_into", "fill_call", "fill_run">>
         [] a = "FillCompute" -> <<"fill_compute">>
Usable(a, c, g, b) ==
  CASE b = "function" -> TRUE
    [] b = "call" -> c.call
    [] b = "iter" -> c.iter
    [] b = "call_per_value" -> c.call
    [] b = "fill_then_compute" -> Has(c, "fill") /\ Has(c, "compute")
    [] b = "fill_call" -> c.call
    [] b = "fill_run" -> Has(c, "run") /\ c.cbf
    [] b = "fill_compute" -> /\ Has(c, IF g = "fill:m" THEN "m" ELSE "fill")
                             /\ (Has(c, IF g = "compute:m" THEN "m" ELSE "compute") \/ Has(c, "request"))
    [] OTHER -> IF g = "default" THEN Has(c, IF b = "method:run" THEN "run" ELSE "fill_into")
                ELSE Has(c, NameOf(g))
FirstUsable(a, c, g) ==
  LET p == Precedence(a, g)
      I == {i \in 1..Len(p) : Usable(a, c, g, p[i])}
  IN IF I = {} THEN "LenaTypeError" ELSE p[CHOOSE i \in I : \A j \in I : i <= j]

(***************************************************************************)
(* Expected effect of the probe  Call: a(7);  SourceEl: list(a());         *)
(* Run: list(a.run(iter([7, 8])));  FillCompute: a.fill(7), a.compute();   *)
(* FillInto: a.fill_into(sink, 7).  A token [n, a] is one call of the      *)
(* element's method n with integer arguments a (a flow is spelt out, the   *)
(* sink is -1); every method of the synthetic element returns a one-token  *)
(* list naming itself.                                                     *)
(***************************************************************************)
Tok(n, a) == [n |-> n, a |-> a]
MN(b) == CASE b = "method:run" -> "run" [] b = "method:fill" -> "fill" [] b = "method:m" -> "m"
           [] b = "method:fill_into" -> "fill_into" [] OTHER -> "?"
Effect(a, r) ==
  LET b == r.bind IN
  CASE a = "Call" -> LET n == IF b = "call" THEN "call" ELSE MN(b)
                     IN [log |-> <<Tok(n, <<7>>)>>, sink |-> <<>>, ret |-> <<Tok(n, <<7>>)>>]
    [] a = "SourceEl" -> IF b = "iter" THEN [log |-> <<Tok("iter", <<>>)>>, sink |-> <<>>, ret |-> <<Tok("iter", <<>>)>>]
                         ELSE LET n == IF b = "call" THEN "call" ELSE MN(b)
                              IN [log |-> <<Tok(n, <<>>)>>, sink |-> <<>>, ret |-> <<Tok(n, <<>>)>>]
    [] a = "Run" ->
         CASE b = "function" -> [log |-> <<Tok("function", <<7, 8>>)>>, sink |-> <<>>, ret |-> <<Tok("function", <<7, 8>>)>>]
           [] b = "call_per_value" -> [log |-> <<Tok("call", <<7>>), Tok("call", <<8>>)>>, sink |-> <<>>,
                                       ret |-> <<Tok("call", <<7>>), Tok("call", <<8>>)>>]
           [] b = "fill_then_compute" -> [log |-> <<Tok("fill", <<7>>), Tok("fill", <<8>>), Tok("compute", <<>>)>>,
                                          sink |-> <<>>, ret |-> <<Tok("compute", <<>>)>>]
           [] OTHER -> [log |-> <<Tok(MN(b), <<7, 8>>)>>, sink |-> <<>>, ret |-> <<Tok(MN(b), <<7, 8>>)>>]
    [] a = "FillCompute" -> [log |-> <<Tok(r.f, <<7>>), Tok(r.c, <<>>)>>, sink |-> <<>>, ret |-> <<Tok(r.c, <<>>)>>]
    [] a = "FillInto" ->
         CASE b = "fill_call" -> [log |-> <<Tok("call", <<7>>)>>, sink |-> <<Tok("call", <<7>>)>>, ret |-> <<>>]
           [] b = "fill_run" -> [log |-> <<Tok("run", <<7>>)>>, sink |-> <<Tok("run", <<7>>)>>, ret |-> <<>>]
           [] OTHER -> [log |-> <<Tok(MN(b), <<-1, 7>>)>>, sink |-> <<Tok(MN(b), <<7>>)>>, ret |-> <<>>]

(***************************************************************************)
(* The adapter OBJECT as an element.  "Adapters hide unused methods to     *)
(* prevent ambiguity": whatever the wrapped element can do, the adapter    *)
(* object has the interface of its kind and nothing else that the framework*)
(* looks for - it is what decides how a Sequence, a FillSeq, a Split or    *)
(* another adapter will use it.                                            *)
(***************************************************************************)
NoCaps == [run |-> "no", fill |-> "no", compute |-> "no", request |-> "no", fill_into |-> "no", m |-> "no",
           call |-> FALSE, iter |-> FALSE, cbf |-> FALSE, truth |-> TRUE]
Interface(a) == CASE a \in {"Call", "SourceEl"} -> [NoCaps EXCEPT !.call = TRUE]
                  [] a = "Run" -> [NoCaps EXCEPT !.run = "meth"]
                  [] a = "FillInto" -> [NoCaps EXCEPT !.fill_into = "meth"]
                  [] a = "FillCompute" -> [NoCaps EXCEPT !.fill = "meth", !.compute = "meth"]
\* hides = TRUE: as documented.  hides = FALSE: an adapter that lets the public attributes of the wrapped element
\* through (special methods and private names are looked up on the adapter's own type: not forwarded)
Exposed(a, c, hides) ==
  IF hides THEN Interface(a)
  ELSE [x \in DOMAIN NoCaps |-> IF x \in {"call", "iter", "cbf", "truth"} THEN Interface(a)[x]
                                 ELSE IF Interface(a)[x] = "meth" THEN "meth" ELSE c[x]]

(***************************************************************************)
(* An adapter around an adapter: outer(inner(el, arg)) with no method name.*)
(* The decision is Decide on the interface of the inner adapter; the probe *)
(* of the outer adapter reaches the element through the inner one.         *)
(* Pairs whose call signatures do not fit (SourceEl is called without a    *)
(* value) are left out.                                                    *)
(***************************************************************************)
Fits(outer, inner) == (outer = "SourceEl") = (inner = "SourceEl")
\* r1: binding of the inner adapter to the element, r2: binding of the outer adapter to the inner one
NestedEffect(outer, r2, inner, r1) ==
  LET e == Effect(inner, r1) IN
  CASE r2.bind = "call_per_value" ->            \* Run(Call(el)): inner(7), inner(8)
         LET n == e.log[1].n IN [log |-> <<Tok(n, <<7>>), Tok(n, <<8>>)>>, sink |-> <<>>,
                                 ret |-> <<Tok(n, <<7>>), Tok(n, <<8>>)>>]
    [] r2.bind = "fill_then_compute" ->         \* Run(FillCompute(el)): inner.fill(7), inner.fill(8), inner.compute()
         [log |-> <<Tok(r1.f, <<7>>), Tok(r1.f, <<8>>), Tok(r1.c, <<>>)>>, sink |-> <<>>, ret |-> <<Tok(r1.c, <<>>)>>]
    [] r2.bind = "fill_call" ->                 \* FillInto(Call(el)): sink.fill(inner(7))
         [log |-> e.log, sink |-> e.ret, ret |-> <<>>]
    [] OTHER -> e                               \* the same interface twice: Call(Call), Run(Run), ...

=============================================================================
