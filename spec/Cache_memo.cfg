SPECIFICATION Spec
CONSTANTS MaxN = 2
  DataProfiles = {}
  Forms = {}
  StopKinds = {"close"}
  Scenarios = {}
  Reruns = {}
  RerunScenarios = {}
  RerunData = {}
  RerunForms = {}
  Holds = {}
  HoldScenarios = {}
  HoldData = {}
  HoldForms = {}
  HoldRc = {}
  Muts = {TRUE}
  MutScenarios <- ScenMutQuick
  MutData <- DataMutQuick
  MutForms <- FormsMutQuick
  MutRc = {FALSE}
  MaxRep = 2
  KeepHistory = FALSE
  Design = "memo"
VIEW view
INVARIANT TypeOK
INVARIANT NoTruncated
INVARIANT StoredIsLastComplete
INVARIANT FirstRunTransparent
INVARIANT LoadIsStored
INVARIANT LoadNoPull
CHECK_DEADLOCK FALSE
