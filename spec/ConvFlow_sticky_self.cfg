SPECIFICATION Spec
CONSTANTS MaxLen = 2
  MaxRuns = 2
  Kinds = {"ToCSV", "HistToGraph", "ScaleTo"}
  ConvOpts = {"absent"}
  Memory = "self"
INVARIANT ElementStateless
INVARIANT OneOutputPerValue
INVARIANT RowCount
CHECK_DEADLOCK FALSE
