SPECIFICATION Spec
CONSTANTS MaxRuns = 1
  Scenarios <- ScAudit
INVARIANT Emitted
CHECK_DEADLOCK FALSE
