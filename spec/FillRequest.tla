----------------------------- MODULE FillRequest -----------------------------
(***************************************************************************)
(* lena/core/adapters.py  FillRequest (and its use by FillRequestSeq and   *)
(* Split) as a state machine with two drivers over one configuration:      *)
(*                                                                         *)
(*  drv = "free"  the adapter is driven through fill() and request() in    *)
(*                an arbitrary interleaving (every schedule of at most     *)
(*                MaxOps calls), as Split and FillRequestSeq do:           *)
(*      FillPlain      the element holds less than a block: el.fill        *)
(*      FillBufferIn   full block, buffer_input: the value waits           *)
(*      FillBufferOut  full block, buffer_output: the block's results are  *)
(*                     taken out of the element, then el.fill              *)
(*      Request        buffered results, the element's block if it is      *)
(*                     full, then the input buffer block by block          *)
(*  drv = "run"   FillRequest.run(flow):                                   *)
(*      RunBlock       one iteration of `while True' that reads a full     *)
(*                     block                                               *)
(*      RunRemainder   the final partial block                             *)
(*      RunEnd         the flow ended on a block boundary                  *)
(*                                                                         *)
(* The declarative reference is RunSem (module RunSem).                    *)
(* Variant = "intended" is the documented design; "legacy" transcribes     *)
(* fill/request of the pinned tree (input-buffer remainder refilled at     *)
(* every request, element reset with a partial block, output buffer        *)
(* extended by a generator that iterates it) and exists so that TLC        *)
(* demonstrates that the invariants reject it.                             *)
(***************************************************************************)
EXTENDS RunSem

CONSTANTS MaxBlock,      \* block sizes 1..MaxBlock
          MaxOps,        \* calls in a fill/request schedule
          MaxLen,        \* flow lengths 0..MaxLen of the run driver
          Ms,            \* results per element request
          Takes,         \* run elements: 0 = reads its whole flow, t = stops after t values
          SplitBufs,     \* sequence of Split bufsizes around the adapter
          Srcs,          \* how the flow is handed to run: "iter" an iterator, "list" / "tuple" a re-iterable container
          Rets,          \* kind of iterable the element's request / compute hands out: "gen" a generator evaluated when
                         \* read, "fresh" a new list, "tuple", "own" the element's own list that it keeps mutating
                         \* (rewritten by every fill, emptied by reset), "iter" an iterator over that list
          Variant

SplitBufsQuick == <<1, 2, 3, 4, 5, 1000, None>>
SplitBufsThorough == <<1, 2, 3, 4, 5, 6, 7, 8, 9, 1000, None>>

VARIABLES cfg, drv, N, src,
          odd,                         \* run driver: -1, or the position (0..N-1) at which the flow carries an odd value
                                       \* (None, 0, "", (), [], False, StopIteration, nan) instead of an ordinary one
          s, k, outs, h, since,        \* fill/request driver
          pos, rel, out, phase,        \* run driver
          act,                         \* name of the action taken last (vacuity census)
          live                         \* Variant "nocopy" only: the output buffer IS the container handed out by the element
vars == <<cfg, drv, N, src, odd, s, k, outs, h, since, pos, rel, out, phase, act, live>>

\* results per request of the elements with a container kind other than a generator
RetM == CHOOSE m \in Ms \ {9} : \A m2 \in Ms \ {9} : m2 <= m

Cfgs == {[n |-> n, bufIn |-> b, reset |-> r, yor |-> y, kind |-> kd, m |-> m, pv |-> pv, take |-> tk, ret |-> rt] :
           n \in 1..MaxBlock, b \in BOOLEAN, r \in BOOLEAN, y \in BOOLEAN,
           kd \in {"fc", "fr", "run", "both", "frc"}, m \in Ms, pv \in BOOLEAN, tk \in Takes, rt \in Rets}

Init == /\ drv \in {"free", "run"} /\ cfg \in Cfgs
        /\ cfg.pv => (cfg.kind = "run" /\ drv = "run")
        /\ cfg.take > 0 => (cfg.kind = "run" /\ drv = "run" /\ cfg.take < cfg.n)
        /\ drv = "free" => cfg.kind # "run"
        /\ cfg.kind \in {"both", "frc"} => cfg.m = 1
        \* the container kinds other than a generator: fill/request and fill/compute elements under free schedules
        /\ cfg.ret # "gen" => (drv = "free" /\ cfg.kind \in {"fr", "fc"} /\ ~cfg.yor /\ cfg.m = RetM)
        /\ live = FALSE
        /\ src \in (IF drv = "run" THEN Srcs ELSE {"iter"})
        /\ N \in (IF drv = "run" THEN 0..MaxLen ELSE {0})
        \* every position relative to the block boundaries: first / middle / last of a block, first of the flow, first
        \* after the last complete block
        /\ odd \in (IF drv = "run" /\ src = "iter" /\ cfg.m = 1 /\ ~cfg.pv /\ cfg.take = 0
                    THEN {-1} \cup (0..(N - 1)) ELSE {-1})
        /\ s = S0 /\ k = 0 /\ outs = <<>> /\ h = <<>> /\ since = 0
        /\ pos = 0 /\ rel = <<>> /\ out = <<>> /\ phase = (IF drv = "run" THEN "loop" ELSE "calls")
        /\ act = "Init"

(***************************************************************************)
(* Legacy variant: the code of the pinned tree, line by line.              *)
(***************************************************************************)
RECURSIVE LDrain(_, _, _, _, _, _)
LDrain(c, e, nf, b, res, fl) ==
  IF nf = c.n THEN LDrain(c, AfterYield(c, e), 0, SubSeq(b, c.n + 1, Len(b)), res \o Res(c, e), fl)
  ELSE IF nf + 1 > Len(b)
       THEN [el |-> e, bin |-> b, res |-> res \o (IF c.yor THEN Res(c, e) ELSE <<>>), fills |-> fl]
       ELSE LDrain(c, Append(e, b[nf + 1]), nf + 1, b, res, Append(fl, b[nf + 1]))
LegacyRequest(c, st) ==
  LET full == st.c >= c.n
      first == IF full THEN Res(c, st.el) ELSE <<>>
      e1 == IF full THEN AfterYield(c, st.el) ELSE st.el
      c1 == IF full THEN st.c % c.n ELSE st.c
  IN IF ~c.bufIn
     THEN [res |-> first \o st.bout \o (IF c.yor THEN Res(c, e1) ELSE <<>>),
           s |-> [st EXCEPT !.el = e1, !.c = c1]]
     ELSE LET d == LDrain(c, e1, 0, st.bin, <<>>, st.fills)
          IN [res |-> first \o d.res,
              s |-> [st EXCEPT !.el = AfterYield(c, d.el), !.c = c1, !.bin = d.bin, !.fills = d.fills]]
LegacyFill(c, st, v) ==
  IF st.c > 0 /\ st.c % c.n = 0
  THEN IF c.bufIn THEN [st EXCEPT !.bin = Append(@, v)]
       ELSE LET r == LegacyRequest(c, st) IN
            \* _buffer_out.extend(self.request()): request() iterates the list that is being extended
            IF r.res # <<>> THEN [st EXCEPT !.hung = TRUE]
            ELSE [r.s EXCEPT !.el = Append(@, v), !.c = @ + 1, !.fills = Append(@, v)]
  ELSE [st EXCEPT !.el = Append(@, v), !.c = @ + 1, !.fills = Append(@, v)]

(***************************************************************************)
(* Container kinds.  The intended adapter takes the VALUES out of whatever *)
(* the element hands out at the moment of the element request (FillStep /  *)
(* RequestStep do not mention cfg.ret): results already taken are          *)
(* independent of what the element does to its containers afterwards.      *)
(* Variant "nocopy" (TLC must reject it): with buffer_output a ready list  *)
(* handed out into an empty output buffer becomes the buffer; if it is the *)
(* element's own list, reading the buffer later shows what that list shows *)
(* then (LiveView: rewritten by every fill, emptied by reset).             *)
(***************************************************************************)
LiveView(c, e) == IF e = <<>> THEN <<>> ELSE Res(c, e)
BecomesLive == Variant = "nocopy" /\ FillKind(cfg, s) = "out" /\ s.bout = <<>> /\ cfg.ret = "own"

DoFill(v) == IF Variant = "legacy" THEN LegacyFill(cfg, s, v) ELSE FillStep(cfg, s, v)
DoRequest == IF Variant = "legacy" THEN LegacyRequest(cfg, s) ELSE RequestStep(cfg, s)

(***************************************************************************)
(* fill / request driver.  Values are 0, 1, 2, ... in the order filled.    *)
(***************************************************************************)
RunFixed == UNCHANGED <<pos, rel, out, phase>>
CanCall == drv = "free" /\ Len(h) < MaxOps /\ ~s.hung
FillCall == /\ CanCall
            /\ s' = DoFill(k) /\ k' = k + 1 /\ since' = since + 1
            /\ h' = Append(h, [op |-> "f", res |-> <<>>, nf |-> Len(s'.fills), hung |-> s'.hung])
            /\ live' = (live \/ BecomesLive)
            /\ UNCHANGED <<cfg, drv, N, src, odd, outs>> /\ RunFixed
FillPlain == /\ FillKind(cfg, s) = "plain" /\ FillCall /\ act' = "FillPlain"
FillBufferIn == /\ FillKind(cfg, s) = "in" /\ FillCall /\ act' = "FillBufferIn"
FillBufferOut == /\ FillKind(cfg, s) = "out" /\ FillCall /\ act' = "FillBufferOut"
Request == /\ act' = "Request" /\ CanCall
           /\ LET r0 == DoRequest
                  r == IF live THEN [r0 EXCEPT !.res = LiveView(cfg, s.el) \o SubSeq(@, Len(s.bout) + 1, Len(@))] ELSE r0
              IN
              /\ s' = r.s /\ outs' = outs \o r.res
              /\ h' = Append(h, [op |-> "r", res |-> r.res, nf |-> Len(r.s.fills), hung |-> FALSE])
           /\ since' = 0 /\ live' = FALSE
           /\ UNCHANGED <<cfg, drv, N, src, odd, k>> /\ RunFixed

(***************************************************************************)
(* run driver.                                                             *)
(***************************************************************************)
FreeFixed == UNCHANGED <<s, k, outs, h, since, live>>
Blk(a, len) == [j \in 1..len |-> a + j - 1]
RunBlock == /\ act' = "RunBlock" /\ drv = "run" /\ phase = "loop" /\ N - pos >= cfg.n
            /\ LET blk == Taken(cfg, Blk(pos, cfg.n)) IN
               /\ out' = out \o PerValue(cfg, blk) \o Res(cfg, rel \o blk)
               /\ rel' = AfterYield(cfg, rel \o blk)
            /\ pos' = pos + cfg.n
            /\ UNCHANGED <<cfg, drv, N, src, odd, phase>> /\ FreeFixed
RunRemainder == /\ act' = "RunRemainder" /\ drv = "run" /\ phase = "loop" /\ pos < N /\ N - pos < cfg.n
                /\ LET blk == Taken(cfg, Blk(pos, N - pos)) IN
                   IF cfg.yor THEN /\ out' = out \o PerValue(cfg, blk) \o Res(cfg, rel \o blk)
                                   /\ rel' = rel \o blk
                   ELSE UNCHANGED <<out, rel>>
                /\ pos' = N /\ phase' = "done"
                /\ UNCHANGED <<cfg, drv, N, src, odd>> /\ FreeFixed
RunEnd == /\ act' = "RunEnd" /\ drv = "run" /\ phase = "loop" /\ pos = N /\ phase' = "done"
          /\ UNCHANGED <<cfg, drv, N, src, odd, pos, rel, out>> /\ FreeFixed

Next == FillPlain \/ FillBufferIn \/ FillBufferOut \/ Request \/ RunBlock \/ RunRemainder \/ RunEnd
Spec == Init /\ [][Next]_vars

(***************************************************************************)
(* Properties.                                                             *)
(***************************************************************************)
Filled == Iota(k)
RunDone == drv = "run" /\ phase = "done"
Free == drv = "free"
LastIsRequest == h # <<>> /\ h[Len(h)].op = "r"

\* run yields block by block what the element yields for consecutive blocks - whether the flow is an
\* iterator or a container that can be iterated again, and whatever the values are (src and odd are not mentioned:
\* the result may depend neither on how the flow is handed over nor on a value being None, 0, "", ... at any position)
RunIsBlocks == RunDone => out = RunSem(cfg, Iota(N))
RunPrefix == drv = "run" => IsPrefix(out, RunSem(cfg, Iota(N)))
EmptyFlowNothing == (RunDone /\ N = 0) => out = <<>>
RemainderOnlyIfYor == (RunDone /\ ~cfg.yor) => out = RunSem(cfg, Complete(cfg, Iota(N)))
ResultCount == (RunDone /\ cfg.take = 0 /\ cfg.m # 9) =>
   Len(out) = (IF cfg.pv THEN (IF cfg.yor THEN N ELSE Len(Complete(cfg, Iota(N)))) ELSE 0)
              + cfg.m * ((N \div cfg.n) + (IF cfg.yor /\ N % cfg.n # 0 THEN 1 ELSE 0))

\* every call returns
Terminates == ~s.hung
\* every value is passed to the element exactly once, in order, or waits in the input buffer;
\* nothing waits after a request
Accounted == Free => /\ s.fills \o s.bin = Filled
                     /\ LastIsRequest => s.fills = Filled
\* whatever the schedule, the concatenated results are those of run on the values filled so far:
\* a prefix at any time, all of it after a request; what a request would return now is the rest
ConcatEqRun == (Free /\ ~cfg.yor) =>
   /\ IsPrefix(outs, RunSem(cfg, Filled))
   /\ LastIsRequest => outs = RunSem(cfg, Filled)
   /\ outs \o RequestStep(cfg, s).res = RunSem(cfg, Filled)
\* ... and this whatever kind of iterable the element hands out and whatever it does to it later: RunSem does not
\* depend on cfg.ret, results taken out of the element are values, not the element's container
RetIndependent == (Free /\ ~cfg.yor) =>
   /\ outs \o RequestStep(cfg, s).res = RunSem([cfg EXCEPT !.ret = "gen"], Filled)
   /\ ~live
\* with yield_on_remainder a request also yields the unfinished block and starts a new one
YorFlushes == (Free /\ cfg.yor /\ LastIsRequest) => s.c = 0
\* a request leaves nothing buffered and less than a block in the element
AfterRequest == (Free /\ LastIsRequest) => s.bin = <<>> /\ s.bout = <<>> /\ s.c < cfg.n
\* never more than one block in the element; one buffer per mode; what is held is bounded by the
\* unfinished block plus what was filled since the last request
OneBlock == Free => /\ s.c <= cfg.n
                    /\ (cfg.bufIn => s.bout = <<>>) /\ (~cfg.bufIn => s.bin = <<>>)
                    /\ s.c + Len(s.bin) <= (cfg.n - 1) + since
                    /\ Len(s.bout) <= MaxRes(cfg) * (since \div cfg.n + 1)
\* a request right after a request yields nothing
SecondRequestEmpty == (Free /\ Len(h) >= 2 /\ h[Len(h)].op = "r" /\ h[Len(h) - 1].op = "r")
                         => h[Len(h)].res = <<>>

\* Split around the adapter, with any bufsize (dividing the block size or not), and FillRequestSeq
SplitEqRun == (RunDone /\ cfg.kind \in {"fc", "fr", "frc"} /\ ~cfg.yor) =>
   \A j \in 1..Len(SplitBufs) : SplitAround(cfg, Iota(N), SplitBufs[j]) = RunSem(cfg, Iota(N))
\* Split yields the adapter's results buffer by buffer: after every buffer nothing stays behind in the adapter
RECURSIVE Flat(_)
Flat(ss) == IF ss = <<>> THEN <<>> ELSE Head(ss) \o Flat(Tail(ss))
SplitPerBuffer == (RunDone /\ cfg.kind \in {"fc", "fr", "frc"} /\ ~cfg.yor /\ src = "iter" /\ odd = -1) =>
   \A j \in 1..Len(SplitBufs) :
      LET per == SplitPerBlock(cfg, Iota(N), SplitBufs[j]) IN
      /\ Flat(per) = SplitAround(cfg, Iota(N), SplitBufs[j])
      /\ \A b \in 1..Len(per) :
            \* the results of the first b buffers are those of run on the values of these buffers
            LET seen == IF SplitBufs[j] = None THEN N ELSE Min(N, b * SplitBufs[j])
            IN Flat(SubSeq(per, 1, b)) = RunSem(cfg, Complete(cfg, Iota(seen)))
SeqEqRun == (RunDone /\ cfg.kind \in {"fc", "fr", "frc"} /\ ~cfg.yor) =>
   \A n2 \in 1..MaxBlock :
      /\ FRSeqRun(cfg, Iota(N), n2, FALSE) = RunSem(cfg, Complete(cfg, Iota(n2 * (N \div n2))))
      /\ FRSeqRun(cfg, Iota(N), n2, TRUE) = RunSem(cfg, Iota(N))

(***************************************************************************)
(* Export: every maximal fill/request schedule with the result of each     *)
(* call; every run with its output and the outputs of the Split and        *)
(* FillRequestSeq drivers on the same flow.                                *)
(***************************************************************************)
\* vacuity census (cheaper than TLC's -coverage): prints the action that led to each state
Census == PrintT(<<"ACT", act>>)
SeqCases == [j \in 1..(2 * MaxBlock) |->
               LET n2 == ((j - 1) \div 2) + 1  oy == (j % 2 = 0)
               IN [n2 |-> n2, oyor |-> oy, out |-> FRSeqRun(cfg, Iota(N), n2, oy)]]
Emitted ==
  /\ (Free /\ Len(h) = MaxOps) => PrintT(ToJson([t |-> "fr", cfg |-> cfg, h |-> h]))
  /\ RunDone => PrintT(ToJson([t |-> "run", cfg |-> cfg, N |-> N, src |-> src, odd |-> odd, out |-> out,
        split |-> IF src = "iter" /\ odd = -1 /\ cfg.kind \in {"fc", "fr", "frc"}
                  THEN [j \in 1..Len(SplitBufs) |->
                          [bs |-> SplitBufs[j], out |-> SplitAround(cfg, Iota(N), SplitBufs[j]),
                           per |-> SplitPerBlock(cfg, Iota(N), SplitBufs[j])]]
                  ELSE <<>>,
        seq |-> IF src = "iter" /\ odd = -1 /\ cfg.kind \in {"fc", "fr", "frc"} THEN SeqCases ELSE <<>>]))
=============================================================================
