SPECIFICATION Spec
CONSTANTS
  KeyOrder <- KO2
  Ctxs <- FlowCtxs
  Flows <- FlowsXYX
  Calls <- CallsFlowQuick
INVARIANT Emit
CHECK_DEADLOCK FALSE
