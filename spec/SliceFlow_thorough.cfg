SPECIFICATION FSpec
CONSTANTS MaxN = 6 Bound = 3 MaxStep = 3
  CapNames = {"len", "index", "neg", "slice", "seq", "rev"}
INVARIANT FlowIndependent
INVARIANT PrefixOfSlice
INVARIANT OneCursor
INVARIANT HeldBound
INVARIANT FEmitted
CHECK_DEADLOCK FALSE
