SPECIFICATION FSpec
CONSTANTS MaxN = 6 Bound = 3 MaxStep = 3
  CapNames = {"len", "index", "neg", "slice", "seq", "rev"}
  HintNames = {"exact", "small", "large", "zero", "notimpl", "typeerr"}
  MaxGrowAt = 3 MaxGrowBy = 2 UseHint = FALSE
INVARIANT FlowIndependent
INVARIANT PrefixOfSlice
INVARIANT OneCursor
INVARIANT HeldBound
INVARIANT GrowthSeen
INVARIANT FEmitted
CHECK_DEADLOCK FALSE
