---------------------------- MODULE GroupingSem ----------------------------
(***************************************************************************)
(* Declarative semantics of the grouping and flow utility elements of      *)
(* lena.flow, written from the docstrings:                                 *)
(*   functions.py    get_data / get_context / get_data_context, seq_map    *)
(*   group_plots.py  group_plots, GroupPlots, MapGroup                     *)
(*   group_scale.py  scale_to / GroupScale                                 *)
(*   drop_context.py DropContext                                           *)
(*   print_.py, progress.py   Print, Progress (pass-through)               *)
(* No constants or variables: shared by Grouping.tla and                   *)
(* Trace_Grouping.tla.  Contexts are the Dict / Leaf records of            *)
(* GroupBySem.tla.                                                         *)
(*                                                                         *)
(* A member (a plot with its context) is                                   *)
(*   [id |-> position in the flow, k |-> "hist" | "graph" | "num" (no      *)
(*    scale method), s |-> its scale (-1: a graph whose scale was not set, *)
(*    0: zero scale), c |-> context, h |-> comes as a (data, context) pair]*)
(***************************************************************************)
EXTENDS GroupBySem

LTrue == [k |-> "L", t |-> "bool", n |-> 1, v |-> "True"]
One(key, x) == [y \in {key} |-> x]
Unknown == -1
CtxOf(m) == IF m.h THEN m.c ELSE Empty            \* get_context

(***************************************************************************)
(* lena.flow.functions: a value is a (data, context) pair iff it is a      *)
(* tuple of length 2 whose second element is a dictionary (or a subclass). *)
(* A shape is [tuple |-> BOOLEAN (else a list), len |-> 0..3, second |->   *)
(* kind of the second element ("dict", "subdict", "list", "none", "int",   *)
(* "str"; "-" when there is none)].                                        *)
(***************************************************************************)
IsPair(sh) == sh.tuple /\ sh.len = 2 /\ sh.second \in {"dict", "subdict"}
\* what get_data / get_context / get_data_context return: "first" | "whole", "second" | "empty"
DataPart(sh) == IF IsPair(sh) THEN "first" ELSE "whole"
ContextPart(sh) == IF IsPair(sh) THEN "second" ELSE "empty"

(***************************************************************************)
(* Context algebra used by the grouping elements (lena.context.            *)
(* intersection, difference, update_recursively; their own properties are  *)
(* C07's subject).                                                         *)
(***************************************************************************)
RECURSIVE Inter(_, _)
Inter(a, b) ==
  Dict([key \in {x \in DOMAIN a.m \cap DOMAIN b.m : a.m[x] = b.m[x] \/ (IsDict(a.m[x]) /\ IsDict(b.m[x]))} |->
          IF a.m[key] = b.m[key] THEN a.m[key] ELSE Inter(a.m[key], b.m[key])])
RECURSIVE InterFrom(_, _, _)
InterFrom(cs, acc, i) == IF i > Len(cs) THEN acc ELSE InterFrom(cs, Inter(acc, cs[i]), i + 1)
InterAll(cs) == IF cs = <<>> THEN Empty ELSE InterFrom(cs, cs[1], 2)
RECURSIVE Diff(_, _)
Diff(a, b) ==
  IF a = b THEN Empty
  ELSE LET both(x) == IsDict(a.m[x]) /\ IsDict(b.m[x]) IN
       Dict([key \in {x \in DOMAIN a.m : \/ x \notin DOMAIN b.m
                                        \/ (a.m[x] # b.m[x] /\ (~both(x) \/ Diff(a.m[x], b.m[x]) # Empty))} |->
               IF key \notin DOMAIN b.m THEN a.m[key]
               ELSE IF both(key) THEN Diff(a.m[key], b.m[key]) ELSE a.m[key]])
RECURSIVE Upd(_, _)
Upd(d, o) ==
  Dict([key \in DOMAIN d.m \cup DOMAIN o.m |->
          IF key \notin DOMAIN o.m THEN d.m[key]
          ELSE IF ~IsDict(o.m[key]) \/ key \notin DOMAIN d.m THEN o.m[key]
          ELSE Upd(IF IsDict(d.m[key]) THEN d.m[key] ELSE Empty, o.m[key])])
Changed(c) == At(c, <<"output", "changed">>)
SetChanged(c, b) == Upd(c, Dict(One("output", Dict(One("changed", IF b THEN LTrue ELSE LFalse)))))
Del(c, key) == Dict([x \in DOMAIN c.m \ {key} |-> c.m[x]])

(***************************************************************************)
(* group_plots(group): data parts in order; the context is the             *)
(* intersection of the members' contexts, output.changed = any member      *)
(* changed, and context.group = the members' contexts in order.            *)
(* A group is [members |-> seq of [id, s], common |-> context without the  *)
(* key group, group |-> seq of contexts].                                  *)
(***************************************************************************)
Ctxs(ms) == [i \in 1..Len(ms) |-> CtxOf(ms[i])]
AnyChanged(cs) == \E i \in 1..Len(cs) : Changed(cs[i]) = LTrue
Brief(ms) == [i \in 1..Len(ms) |-> [id |-> ms[i].id, s |-> ms[i].s]]
GPlots(ms) == [members |-> Brief(ms), common |-> SetChanged(InterAll(Ctxs(ms)), AnyChanged(Ctxs(ms))),
               group |-> Ctxs(ms)]

(***************************************************************************)
(* scale_to / GroupScale(scale_to, allow_zero_scale, allow_unknown_scale). *)
(* cfg = [to |-> "num" | "ref", az, au]; "num": the number 4; "ref": the   *)
(* unique member selected by Selector("ref") supplies the scale.           *)
(* Result: [ok |-> TRUE, ms |-> members rescaled] or [ok |-> FALSE, exc].  *)
(***************************************************************************)
Target == 4
HasRef(m) == "ref" \in DOMAIN CtxOf(m).m
Cands(ms) == {i \in 1..Len(ms) : HasRef(ms[i])}
Err(e) == [ok |-> FALSE, exc |-> e]
\* can member m be rescaled?  "yes" | "zero" | "unknown" (no scale method, or a graph without a scale)
Scalable(m) == IF m.k = "num" \/ m.s = Unknown THEN "unknown" ELSE IF m.s = 0 THEN "zero" ELSE "yes"
ScaleAll(cfg, ms, t) ==
  IF \E i \in 1..Len(ms) : (Scalable(ms[i]) = "zero" /\ ~cfg.az) \/ (Scalable(ms[i]) = "unknown" /\ ~cfg.au)
  THEN Err("LenaValueError")
  ELSE [ok |-> TRUE, ms |-> [i \in 1..Len(ms) |-> IF Scalable(ms[i]) = "yes" THEN [ms[i] EXCEPT !.s = t] ELSE ms[i]]]
ScaleSem(cfg, ms) ==
  IF cfg.to = "num" THEN ScaleAll(cfg, ms, Target)
  ELSE IF Cardinality(Cands(ms)) # 1 THEN Err("LenaValueError")      \* none, or more than one candidate
  ELSE LET c == ms[CHOOSE i \in Cands(ms) : TRUE] IN
       IF Scalable(c) = "unknown" THEN Err("LenaValueError")         \* its norm could not be calculated
       ELSE ScaleAll(cfg, ms, c.s)

(***************************************************************************)
(* Harness sequences applied to single members (transform of GroupPlots,   *)
(* seq of MapGroup, inner sequence of DropContext): what run([member])     *)
(* yields.  "inc": data changed (id + 100), context kept; "tag": context   *)
(* gets t = 1; "setb": context replaced by {b: 2}; "chgT" / "chgF":        *)
(* context replaced by {output: {changed: True / False}}; "dup": two       *)
(* results; "drop": none; "odd": one result for odd ids, two for even.     *)
(***************************************************************************)
T1 == Dict(One("t", LInt(1, "1")))
WithC(m, c) == [m EXCEPT !.c = c, !.h = TRUE]
SeqRes(q, m) ==
  CASE q = "id" -> <<m>>
    [] q = "inc" -> <<[m EXCEPT !.id = m.id + 100]>>
    [] q = "tag" -> <<WithC(m, Upd(CtxOf(m), T1))>>
    [] q = "setb" -> <<WithC(m, Dict(One("b", LInt(2, "2"))))>>
    [] q = "chgT" -> <<WithC(m, SetChanged(Empty, TRUE))>>
    [] q = "chgF" -> <<WithC(m, SetChanged(Empty, FALSE))>>
    [] q = "dup" -> <<m, [m EXCEPT !.id = m.id + 100]>>
    [] q = "drop" -> <<>>
    [] q = "odd" -> IF m.id % 2 = 1 THEN <<m>> ELSE <<m, [m EXCEPT !.id = m.id + 100]>>
\* seq_map(seq, container) with one_result=True
SeqMap(q, ms) == IF \E i \in 1..Len(ms) : Len(SeqRes(q, ms[i])) # 1 THEN Err("LenaValueError")
                 ELSE [ok |-> TRUE, ms |-> [i \in 1..Len(ms) |-> SeqRes(q, ms[i])[1]]]

(***************************************************************************)
(* MapGroup(seq, map_scalars).run on one value.  A group value is          *)
(* [grp |-> TRUE, ms |-> members (each with its own context = the entry of *)
(* context.group), common |-> the rest of the context]; a scalar is        *)
(* [grp |-> FALSE, m |-> member].  Result: [ok, out |-> seq of values].    *)
(***************************************************************************)
MinLen(rs) == CHOOSE n \in {Len(rs[i]) : i \in 1..Len(rs)} : \A i \in 1..Len(rs) : n <= Len(rs[i])
\* output.changed of the new group value: True if the old value or any new member says True,
\* otherwise False if one of them says False, otherwise left alone
NewChanged(common, cs) ==
  LET all == {Changed(common)} \cup {Changed(cs[i]) : i \in 1..Len(cs)} IN
  IF LTrue \in all THEN SetChanged(common, TRUE) ELSE IF LFalse \in all THEN SetChanged(common, FALSE) ELSE common
MapGroupOne(q, ms_scalars, v) ==
  IF ~v.grp THEN [ok |-> TRUE, out |-> IF ms_scalars THEN [i \in 1..Len(SeqRes(q, v.m)) |-> [grp |-> FALSE, m |-> SeqRes(q, v.m)[i]]]
                                         ELSE <<v>>]
  ELSE LET rs == [i \in 1..Len(v.ms) |-> SeqRes(q, v.ms[i])]
           old == InterAll(Ctxs(v.ms)) IN
       \* data and context.group of different lengths, or different numbers of results
       IF v.pad \/ \E i \in 1..Len(rs) : Len(rs[i]) # Len(rs[1]) THEN [ok |-> FALSE, exc |-> "LenaRuntimeError", out |-> <<>>]
       ELSE [ok |-> TRUE,
             out |-> [j \in 1..Len(rs[1]) |->
                        LET nm == [i \in 1..Len(rs) |-> rs[i][j]]  nc == Ctxs(nm) IN
                        [grp |-> TRUE, ms |-> nm, pad |-> FALSE,
                         \* common changes of the group context update the common context
                         common |-> Upd(NewChanged(v.common, nc), Diff(InterAll(nc), old))]]]

(***************************************************************************)
(* DropContext(inner).run(flow of (data, context) pairs): the inner        *)
(* sequence sees data only; every result gets the context of the value it  *)
(* was computed from, updated with a context the inner sequence adds.      *)
(* Inner kinds: "inc", "dup", "drop" as above on the data; "addc": returns *)
(* (data, {new: 1}); "even": keeps values with an even id only.            *)
(***************************************************************************)
NewC == Dict(One("new", LInt(1, "1")))
DropRes(q, m) ==
  CASE q = "inc" -> <<[id |-> m.id + 100, c |-> m.c]>>
    [] q = "dup" -> <<[id |-> m.id, c |-> m.c], [id |-> m.id + 100, c |-> m.c]>>
    [] q = "drop" -> <<>>
    [] q = "even" -> IF m.id % 2 = 0 THEN <<[id |-> m.id, c |-> m.c]>> ELSE <<>>
    [] q = "addc" -> <<[id |-> m.id, c |-> Upd(m.c, NewC)]>>
RECURSIVE DropSem(_, _)
DropSem(q, ms) == IF ms = <<>> THEN <<>> ELSE DropRes(q, Head(ms)) \o DropSem(q, Tail(ms))

(***************************************************************************)
(* GroupPlots(group_by, select, transform, scale, yield_selected).run.     *)
(* cfg = [gb |-> "type" | "key", sel |-> "all" | "ctx" | "hist",           *)
(*        scale |-> "none" | "num" | "ref", tr |-> sequence kind,          *)
(*        ys |-> BOOLEAN].                                                 *)
(***************************************************************************)
IsSelected(cfg, m) == CASE cfg.sel = "all" -> TRUE
                      [] cfg.sel = "ctx" -> "sel" \in DOMAIN CtxOf(m).m
                      [] cfg.sel = "hist" -> m.k = "hist"
\* group key; "?" = the formatting key is missing in the context (LenaValueError)
KeyOf(cfg, m) == IF cfg.gb = "type" THEN m.k
                 ELSE IF "k" \in DOMAIN CtxOf(m).m THEN CtxOf(m).m["k"].v ELSE "?"
ScaleCfg(cfg) == [to |-> cfg.scale, az |-> FALSE, au |-> FALSE]
\* one finished group: scale, then transform, then group_plots
GroupOut(cfg, ms) ==
  LET sc == IF cfg.scale = "none" THEN [ok |-> TRUE, ms |-> ms] ELSE ScaleSem(ScaleCfg(cfg), ms) IN
  IF ~sc.ok THEN sc
  ELSE LET tr == SeqMap(cfg.tr, sc.ms) IN IF ~tr.ok THEN tr ELSE [ok |-> TRUE, g |-> GPlots(tr.ms)]
\* The whole run, declaratively: [vals |-> values yielded during the flow, grps |-> groups yielded after
\* it (in order of the first member), status |-> "done" or the exception].
ValOf(m) == [o |-> "val", id |-> m.id, s |-> m.s, c |-> CtxOf(m)]
RECURSIVE FirstBad(_, _, _)
FirstBad(cfg, ms, i) == IF i > Len(ms) THEN 0
                        ELSE IF IsSelected(cfg, ms[i]) /\ KeyOf(cfg, ms[i]) = "?" THEN i ELSE FirstBad(cfg, ms, i + 1)
Members(cfg, ms, key) == SelectSeq(ms, LAMBDA m : IsSelected(cfg, m) /\ KeyOf(cfg, m) = key)
RECURSIVE KeysInOrder(_, _, _, _)
KeysInOrder(cfg, ms, i, acc) ==
  IF i > Len(ms) THEN acc
  ELSE LET key == KeyOf(cfg, ms[i]) IN
       KeysInOrder(cfg, ms, i + 1,
                   IF IsSelected(cfg, ms[i]) /\ ~(\E j \in 1..Len(acc) : acc[j] = key) THEN Append(acc, key) ELSE acc)
RECURSIVE GroupsFrom(_, _, _, _, _)
GroupsFrom(cfg, ms, keys, i, acc) ==
  IF i > Len(keys) THEN [grps |-> acc, status |-> "done"]
  ELSE LET r == GroupOut(cfg, Members(cfg, ms, keys[i])) IN
       IF r.ok THEN GroupsFrom(cfg, ms, keys, i + 1, Append(acc, [o |-> "grp", g |-> r.g]))
       ELSE [grps |-> acc, status |-> r.exc]
GPRunSem(cfg, ms) ==
  LET bad == FirstBad(cfg, ms, 1)
      seen == IF bad = 0 THEN ms ELSE SubSeq(ms, 1, bad)
      passed == SelectSeq(seen, LAMBDA m : cfg.ys \/ ~IsSelected(cfg, m))
      vals == [i \in 1..Len(passed) |-> ValOf(passed[i])] IN
  IF bad # 0 THEN [vals |-> vals, grps |-> <<>>, status |-> "LenaValueError"]
  ELSE LET g == GroupsFrom(cfg, ms, KeysInOrder(cfg, ms, 1, <<>>), 1, <<>>) IN
       [vals |-> vals, grps |-> g.grps, status |-> g.status]
\* MapGroup over a flow
RECURSIVE MapGroupSem(_, _, _)
MapGroupSem(q, scal, vs) ==
  IF vs = <<>> THEN [out |-> <<>>, status |-> "done"]
  ELSE LET r == MapGroupOne(q, scal, Head(vs)) IN
       IF ~r.ok THEN [out |-> <<>>, status |-> r.exc]
       ELSE LET t == MapGroupSem(q, scal, Tail(vs)) IN [out |-> r.out \o t.out, status |-> t.status]
=============================================================================
