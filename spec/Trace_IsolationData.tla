------------------------- MODULE Trace_IsolationData -------------------------
(***************************************************************************)
(* Validation of Split / Zip executions recorded from the real code on     *)
(* flows whose data are structures (histograms with numeric / compound     *)
(* bins, graphs, nested lists, Context objects), beyond the exhaustive     *)
(* bounds (<= 5 branches, random chains of in-place mutators of the inside *)
(* of the data, longer flows):                                             *)
(*   [brs, N, bs, drv, rq, kind, outs]   outs[b] = what branch b yielded   *)
(* Every branch must have yielded what it yields alone.                    *)
(***************************************************************************)
EXTENDS IsolationDataSem, Json, IOUtils
Trace == JsonDeserialize(IOEnv.TRACE_FILE)
VARIABLE i
Ok(r) == /\ Len(r.outs) = Len(r.brs)
         /\ \A b \in 1..Len(r.brs) : BranchAdmitted(r.kind, r.brs[b])
         /\ \A b \in 1..Len(r.brs) : r.outs[b] = Alone(r.brs[b], Flow(r.N, r.kind))
TInit == i = 1
TNext == i <= Len(Trace) /\ Ok(Trace[i]) /\ i' = i + 1
TSpec == TInit /\ [][TNext]_i
Accepted == /\ PrintT(<<"ACCEPTED", TLCGet("stats").diameter - 1>>)
            /\ TLCGet("stats").diameter - 1 = Len(Trace)
=============================================================================
