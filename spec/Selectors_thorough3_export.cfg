SPECIFICATION XSpec
CONSTANTS U = "ex3" F = "one"
INVARIANT EmitVec
CHECK_DEADLOCK FALSE
