SPECIFICATION FairSpec
CONSTANTS MaxN = 0 Infinite = TRUE MaxOut = 100 MaxPos = 100 Stops = FALSE Guard = "none"
  Scen <- ScenLive
PROPERTY TerminatesIfSliced
CHECK_DEADLOCK FALSE
