SPECIFICATION Spec
CONSTANTS MaxOps = 1
  Depth = 2
VIEW view
INVARIANT Laws
INVARIANT MetricLaws
INVARIANT SphLaws
PROPERTY InPlace
CHECK_DEADLOCK FALSE
