SPECIFICATION Spec
CONSTANTS MaxRuns = 2
  DataSets <- DataMC
  BranchLists <- BrThorough
  BufSizes = {0, 1, 2, 3, 1000}
  EdgesX <- EX1
  EdgesY <- EY1
  EdgesH <- EH1
  WriteAlways = FALSE
  ClosedLast = FALSE
VIEW view
INVARIANT BufBound
INVARIANT PerCell
INVARIANT OnePerStructure
INVARIANT FilesRef
INVARIANT NoRedo
INVARIANT RedoRef
INVARIANT RunIsSem
INVARIANT Independent
CHECK_DEADLOCK FALSE
