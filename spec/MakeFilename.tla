---------------------------- MODULE MakeFilename ----------------------------
(***************************************************************************)
(* lena/output/make_filename.py  MakeFilename.__call__ on chains of        *)
(* elements.  context.output is a record of five fields                    *)
(* filename, dirname, fileext, prefix, suffix, each [has, v] with v a      *)
(* sequence of tokens (TLC strings are atomic; the harness joins them).    *)
(* Element i is [fn, dn, fe, px, sx: argument given; ow: overwrite;        *)
(* nk: its format strings need the context key "var"].  Its arguments are  *)
(* the tokens <<"f", i>>, <<"d", i>>, <<"e", i>>, <<"p", i>>, <<"s", i>>   *)
(* (followed by the value of var when nk).                                 *)
(*                                                                         *)
(* Operational part: Step = one iteration of `for key, meth in             *)
(* self._methods` (order prefix, suffix, filename, dirname, fileext).      *)
(* Declarative part: Apply(el, i, o, v), the docstring in closed form;     *)
(* ChainSem folds it over the chain.                                       *)
(***************************************************************************)
EXTENDS Integers, Sequences, FiniteSets, TLC, Json

CONSTANTS MaxLen,       \* chains of 1..MaxLen elements
          Vocabulary,   \* elements to build chains from
          Contexts      \* incoming contexts (InitsAll, or a subset for the quick tier)

None == [has |-> FALSE, v |-> <<>>]
Some(s) == [has |-> TRUE, v |-> s]
Keys == <<"prefix", "suffix", "filename", "dirname", "fileext">>
Letter(key) == CASE key = "prefix" -> "p" [] key = "suffix" -> "s" [] key = "filename" -> "f"
                 [] key = "dirname" -> "d" [] key = "fileext" -> "e"
Given(el, key) == CASE key = "prefix" -> el.px [] key = "suffix" -> el.sx [] key = "filename" -> el.fn
                    [] key = "dirname" -> el.dn [] key = "fileext" -> el.fe
\* the formatted argument of element i for key (var: the context has the key the format string needs)
Tok(el, i, key) == <<Letter(key), i>>
\* where the context key "var" needed by some format strings comes from: nowhere, the run-time context (value V),
\* the static context given by _set_context (value SV), or both - "The run-time context has higher precedence"
VarTok(c) == IF c.var \in {"run", "both"} THEN <<"V", 0>> ELSE <<"SV", 0>>
Arg(el, i, key) == <<Tok(el, i, key)>> \o (IF el.nk THEN <<<<"V", 0>>>> ELSE <<>>)
ArgV(el, i, key, vt) == <<Tok(el, i, key)>> \o (IF el.nk THEN <<vt>> ELSE <<>>)

Valid(el) == /\ (el.fn => ~el.px /\ ~el.sx)
             /\ (el.fn \/ el.dn \/ el.fe \/ el.px \/ el.sx)
AllElements == {el \in [fn : BOOLEAN, dn : BOOLEAN, fe : BOOLEAN, px : BOOLEAN, sx : BOOLEAN, ow : BOOLEAN, nk : BOOLEAN] : Valid(el)}
\* a smaller vocabulary: one argument kind at a time, affixes together, name + extension
El(fn, dn, fe, px, sx, ow, nk) == [fn |-> fn, dn |-> dn, fe |-> fe, px |-> px, sx |-> sx, ow |-> ow, nk |-> nk]
SmallElements == {El(TRUE, FALSE, FALSE, FALSE, FALSE, ow, nk) : ow \in BOOLEAN, nk \in BOOLEAN} \cup
                 {El(FALSE, FALSE, FALSE, TRUE, FALSE, ow, nk) : ow \in BOOLEAN, nk \in BOOLEAN} \cup
                 {El(FALSE, FALSE, FALSE, FALSE, TRUE, ow, FALSE) : ow \in BOOLEAN} \cup
                 {El(FALSE, FALSE, FALSE, TRUE, TRUE, FALSE, FALSE), El(TRUE, TRUE, TRUE, FALSE, FALSE, FALSE, FALSE),
                  El(TRUE, FALSE, TRUE, FALSE, FALSE, TRUE, FALSE), El(FALSE, TRUE, FALSE, TRUE, FALSE, FALSE, TRUE)}

RECURSIVE Chains(_)
Chains(m) == IF m = 0 THEN {<<>>}
             ELSE LET P == Chains(m - 1) IN P \cup {Append(c, e) : c \in {x \in P : Len(x) = m - 1}, e \in Vocabulary}
\* initial context: is "var" there; names that exist already; pending affixes.
\* fn0: context.output.filename, dx0: context.output.dirname and fileext, ax0: context.output.prefix and suffix
\* of the incoming value, each "none" (key absent), "some" (a text) or "empty" (the key is there and holds the
\* EMPTY string: dirname "" = the top of the output directory, fileext "" = a file without extension are names
\* like any other - "an existing name" is a key that is present, not a value that is true)
Kinds == {"none", "some", "empty"}
InitsAll == [var : {"none", "run", "static", "both"}, fn0 : Kinds, dx0 : Kinds, ax0 : Kinds]
\* quick: the names (some / empty / absent, in every combination with the affixes) with a run-time "var";
\* a name that exists in the other contexts
InitsQuick == {c \in InitsAll : c.var = "run" \/ (c.fn0 # "empty" /\ c.dx0 = "none")
                                 \/ (c.var = "none" /\ c.dx0 # "none" /\ c.ax0 = "none")}
Given0(kind, letter) == CASE kind = "none" -> None [] kind = "some" -> Some(<<<<letter, 0>>>>) [] kind = "empty" -> Some(<<>>)
Out0(c0) == [filename |-> Given0(c0.fn0, "F"), dirname |-> Given0(c0.dx0, "D"), fileext |-> Given0(c0.dx0, "E"),
             prefix |-> Given0(c0.ax0, "P"), suffix |-> Given0(c0.ax0, "S")]

(***************************************************************************)
(* Declarative: one element, from the docstring of __call__.               *)
(***************************************************************************)
Apply(el, i, o, c) ==
  LET fmt == ~el.nk \/ c.var # "none"     \* "If current context can't be formatted ... a key is not updated"
      vt == VarTok(c)                     \* static and run-time context: the run-time value wins
      \* prefix is prepended before the existing prefix, suffix appended after the existing suffix,
      \* unless overwrite; they always update their keys if they could be formatted
      px == IF el.px /\ fmt THEN Some(ArgV(el, i, "prefix", vt) \o (IF el.ow THEN <<>> ELSE o.prefix.v)) ELSE o.prefix
      sx == IF el.sx /\ fmt THEN Some((IF el.ow THEN <<>> ELSE o.suffix.v) \o ArgV(el, i, "suffix", vt)) ELSE o.suffix
      \* filename / dirname / fileext set the keys if they didn't exist (or overwrite)
      sets(key) == Given(el, key) /\ fmt /\ (~o[key].has \/ el.ow)
      \* a created file name takes the pending prefix and suffix, which are then removed
      fn == IF sets("filename") THEN Some(o.prefix.v \o ArgV(el, i, "filename", vt) \o o.suffix.v) ELSE o.filename
  IN [filename |-> fn,
      dirname |-> IF sets("dirname") THEN Some(ArgV(el, i, "dirname", vt)) ELSE o.dirname,
      fileext |-> IF sets("fileext") THEN Some(ArgV(el, i, "fileext", vt)) ELSE o.fileext,
      prefix |-> IF sets("filename") /\ o.prefix.v # <<>> THEN None ELSE px,
      suffix |-> IF sets("filename") /\ o.suffix.v # <<>> THEN None ELSE sx]
RECURSIVE ChainSem(_, _, _, _)
ChainSem(ch, i, o, c) == IF i > Len(ch) THEN o ELSE ChainSem(ch, i + 1, Apply(ch[i], i, o, c), c)

(***************************************************************************)
(* Operational: the loop over self._methods.                               *)
(***************************************************************************)
VARIABLES chain, c0, i, k, out, before
vars == <<chain, c0, i, k, out, before>>
Init == /\ chain \in (Chains(MaxLen) \ {<<>>}) /\ c0 \in Contexts
        /\ i = 1 /\ k = 1 /\ out = Out0(c0) /\ before = Out0(c0)
Step == /\ i <= Len(chain)
        /\ LET el == chain[i]  key == Keys[k]
               skipExisting == key \in {"filename", "fileext", "dirname"} /\ out[key].has /\ ~el.ow
               \* full_context = deepcopy(static context); full_context.update(run-time context)
               inRun == c0.var \in {"run", "both"}
               inStatic == c0.var \in {"static", "both"}
               fmt == ~el.nk \/ inRun \/ inStatic
               arg == <<Tok(el, i, key)>> \o (IF ~el.nk THEN <<>> ELSE IF inRun THEN <<<<"V", 0>>>> ELSE <<<<"SV", 0>>>>)
           IN IF ~Given(el, key) \/ skipExisting \/ ~fmt THEN UNCHANGED out
              ELSE IF key = "prefix" THEN
                     out' = [out EXCEPT !.prefix = Some(IF out.prefix.v # <<>> /\ ~el.ow THEN arg \o out.prefix.v ELSE arg)]
              ELSE IF key = "suffix" THEN
                     out' = [out EXCEPT !.suffix = Some(IF out.suffix.v # <<>> /\ ~el.ow THEN out.suffix.v \o arg ELSE arg)]
              ELSE IF key = "filename" THEN
                     out' = [out EXCEPT !.filename = Some(out.prefix.v \o arg \o out.suffix.v),
                                        !.prefix = IF out.prefix.v # <<>> THEN None ELSE @,
                                        !.suffix = IF out.suffix.v # <<>> THEN None ELSE @]
              ELSE out' = [out EXCEPT ![key] = Some(arg)]
        /\ IF k < 5 THEN k' = k + 1 /\ UNCHANGED <<i, before>>
           ELSE k' = 1 /\ i' = i + 1 /\ before' = out'
        /\ UNCHANGED <<chain, c0>>
Spec == Init /\ [][Step]_vars
Done == i > Len(chain)

(***************************************************************************)
(* Properties.                                                             *)
(***************************************************************************)
OpEqDen == Done => out = ChainSem(chain, 1, Out0(c0), c0)
\* the run-time context has precedence over the static one: no static value in a result when a run-time value exists
RunTimeWins == c0.var = "both" => \A key \in {"filename", "dirname", "fileext", "prefix", "suffix"} :
                 \A j \in 1..Len(out[key].v) : out[key].v[j][1] # "SV"
\* an existing name (directory, extension) is never replaced unless overwrite is set
NameStable == [][\A key \in {"filename", "dirname", "fileext"} :
                   (i <= Len(chain) /\ out[key].has /\ ~chain[i].ow) => out'[key] = out[key]]_vars
\* prefix and suffix are applied exactly once: no token occurs twice in the name, and affixes that went
\* into a name are no longer pending
Occ(s, x) == Cardinality({j \in 1..Len(s) : s[j] = x})
\* (the value of "var" may legitimately occur in several arguments)
Once(s) == \A j \in 1..Len(s) : s[j][1] \notin {"V", "SV"} => Occ(s, s[j]) = 1
AffixOnce == out.filename.has => Once(out.filename.v)
\* the names the value came with (texts or empty strings: present is not the same as true) are still there at
\* the end of a chain without overwrite
Came(key) == Out0(c0)[key]
IncomingKept == (Done /\ \A n \in 1..Len(chain) : ~chain[n].ow) =>
                   \A key \in {"filename", "dirname", "fileext"} : Came(key).has => out[key] = Came(key)
AffixConsumed == [][(i <= Len(chain) /\ k = 3 /\ out'.filename # out.filename) =>
                      /\ out'.filename.v = out.prefix.v \o ArgV(chain[i], i, "filename", VarTok(c0)) \o out.suffix.v
                      /\ (out.prefix.v # <<>> => ~out'.prefix.has) /\ (out.suffix.v # <<>> => ~out'.suffix.has)]_vars
\* every pending affix contributed so far is still pending exactly once
PendingOnce == Once(out.prefix.v) /\ Once(out.suffix.v)
Emitted == Done => PrintT(ToJson([chain |-> chain, c0 |-> c0, out |-> out]))
=============================================================================
