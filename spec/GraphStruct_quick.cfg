SPECIFICATION Spec
CONSTANTS MaxFields = 3 Deep = TRUE
  CoordNames <- CoordNamesQ
  Tails <- TailsQ
INVARIANT ConstructMeetsDoc
INVARIANT ErrorsBelongToCoordinates
INVARIANT IterIsPoints
INVARIANT CtxMeetsDoc
INVARIANT AddMeetsDoc
INVARIANT H2GMeetsDoc
INVARIANT DGSorted
INVARIANT DGRescale
CHECK_DEADLOCK FALSE
