SPECIFICATION Spec
CONSTANTS MaxDepth = 3
  Families <- FamT_C
  StoreByCopy = TRUE
  TailKeepsSets = TRUE
INVARIANT Emitted
CHECK_DEADLOCK FALSE
