SPECIFICATION Spec
CONSTANTS MaxLen = 3
  Vocabulary <- SmallElements
INVARIANT OpEqDen
INVARIANT RunTimeWins
INVARIANT AffixOnce
INVARIANT PendingOnce
PROPERTY NameStable
PROPERTY AffixConsumed
CHECK_DEADLOCK FALSE
