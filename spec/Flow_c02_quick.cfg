SPECIFICATION Spec
CONSTANTS MaxLen = 2 MaxN = 4 Infinite = TRUE MaxOut = 4
  Alphabet <- AlphaC02
  Pairs <- OnlyPairs
INVARIANT OpEqDen
INVARIANT OutIsPrefix
INVARIANT NoWorkBeforeDemand
INVARIANT PullOnlyWhenDrained
INVARIANT LazyEqDen
INVARIANT Buffers
CONSTRAINT Bounded
CHECK_DEADLOCK FALSE
