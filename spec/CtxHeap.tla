------------------------------ MODULE CtxHeap ------------------------------
(***************************************************************************)
(* C07, object level.  CtxAlgebra.tla treats every argument as a value.    *)
(* Python dictionaries are objects: one sub-dictionary object can sit      *)
(* under two keys of an argument or in two arguments, a function can hand  *)
(* out an object it keeps, and a later call can meet what an earlier one   *)
(* left behind.  The statement is about values ("the greatest nested       *)
(* dictionary contained in every argument ... as a deep copy", "keeping    *)
(* every item of d that other does not overwrite", "none of these          *)
(* functions changes an argument it documents as unchanged"), so it must   *)
(* hold for every object graph behind the values and after every history   *)
(* of earlier calls.  This module explores those two dimensions:           *)
(*                                                                         *)
(*   heap   sequence of dictionary objects; a value of a key is a leaf or  *)
(*          a reference Ref(o) to an object                                *)
(*   env    the dictionaries the caller holds (x1, x2, ...; results of     *)
(*          intersection are appended)                                     *)
(*   prog   a small program: a sequence of calls on these variables        *)
(*                                                                         *)
(* A behaviour starts from an environment with a given sharing pattern     *)
(* (values written with tokens Sh(i) that all stand for ONE object) and    *)
(* runs the program, one action per public call, each written like the     *)
(* implementation works on objects:                                        *)
(*                                                                         *)
(*   DoInter   res = deepcopy(dicts[0]) (copy.deepcopy keeps the sharing   *)
(*             inside the copy: memo), every narrowed sub-dictionary is    *)
(*             replaced by the NEW dictionary the recursive call returns   *)
(*   DoDiff    read only (whether the result shares objects with d1 is     *)
(*             left open by the documentation: it is used as a value)      *)
(*   DoUpdRec  update_recursively(d, other) in place; a sub-dictionary of  *)
(*             other under a key d lacks is stored itself (d[key] = val)   *)
(*   DoUpdStr  the string form: str_to_dict creates NEW dictionaries       *)
(*   DoNested  update_nested(key, d, other)                                *)
(*   DoTouch   the caller changes every dictionary of a result it received *)
(*   DoDiffR   r = difference(copy of x, copy of y): the RESULT becomes an  *)
(*             object of the caller (round 8).  The arguments are private  *)
(*             copies, so that what the documentation leaves open ("d1 or  *)
(*             some of its subdictionaries may be returned directly")      *)
(*             cannot be observed; the result is built as the              *)
(*             implementation builds it (a new dictionary, the empty one   *)
(*             for equal arguments, d1 itself at level 0)                  *)
(*   DoStrD    r = str_to_dict(string[, value]) kept by the caller         *)
(*                                                                         *)
(* Results are the caller's objects (round 8): between calls the caller    *)
(* writes into a result at every depth (DoTouch) or updates it             *)
(* (update_recursively(result, ...)), and every later call must still be   *)
(* the function of the VALUES of its own arguments - the library keeps no  *)
(* reference to an object it handed out (or hands out no object it keeps:  *)
(* a module-level empty dictionary, a default argument, a cache) through   *)
(* which a later result could change.  Variants "diffempty", "interempty"  *)
(* and "strdempty" hand out ONE kept empty dictionary (for equal           *)
(* arguments of difference / for an empty intersection without arguments   *)
(* or at level 0 / for str_to_dict("")) and must be refuted.               *)
(*                                                                         *)
(* StepOK (checked for every step): the values seen by the caller change   *)
(* exactly as the value-level reference of CtxValue.tla says - the result  *)
(* is InterN / Diff of the argument VALUES whatever objects are shared,    *)
(* the updated dictionary is UpdRec / NestedD of the values, and no other  *)
(* variable changes its value; touching a result of intersection changes   *)
(* nothing else (deep copy).  Variant selects deliberately wrong object    *)
(* level algorithms ("inplace": the single deep copy narrowed in place;    *)
(* "strcache": str_to_dict handing out a cached dictionary), which TLC     *)
(* must refute - a guard that the explored universe can tell them apart.   *)
(*                                                                         *)
(* Where the documentation leaves aliasing open (update_recursively may    *)
(* store other's sub-dictionaries or copies of them) the universes are     *)
(* chosen so that it cannot be observed: other is a temporary or the       *)
(* update is the last step; an updated dictionary is a tree that shares    *)
(* nothing with another variable (MutatedIsPrivate).                       *)
(***************************************************************************)
EXTENDS CtxValue, TLC, Json

CONSTANTS K,            \* key alphabet
          NC,           \* number of leaf equality classes
          Variant,      \* "lena" (as the implementation is); "inplace", "strcache", "diffempty",
                        \* "interempty", "strdempty" (must be refuted)
          Kinds         \* the universes explored: BehsOf(kind) is a set of
                        \* [env |-> [sv, roots], prog |-> sequence of calls]

VARIABLES beh,          \* the behaviour chosen: environment description and program
          heap, env,
          pcn,          \* number of the next call
          obs,          \* what the caller sees after every call: values of all variables, returned value
          cache         \* objects the LIBRARY keeps between calls, as <<path, object>> (none in Variant "lena";
                        \* "strcache": dictionaries kept by str_to_dict; the *empty variants: one empty dictionary)

Ref(o) == [k |-> "R", o |-> o]
Sh(i) == [k |-> "S", i |-> i]             \* in an environment description: THE i-th shared object
IsR(c) == c.k = "R"
Front(p) == SubSeq(p, 1, Len(p) - 1)
Last(p) == p[Len(p)]

(***************************************************************************)
(* Values behind objects                                                   *)
(***************************************************************************)
RECURSIVE Val(_, _)
Val(h, c) == IF IsR(c) THEN Dict([k \in Keys(h[c.o]) |-> Val(h, h[c.o].m[k])]) ELSE c
RECURSIVE Reach(_, _)
Reach(h, c) == IF ~IsR(c) THEN {}
               ELSE {c.o} \cup UNION {Reach(h, h[c.o].m[k]) : k \in Keys(h[c.o])}
\* number of ways an object is reached from c (1 everywhere = a tree)
RECURSIVE Paths(_, _, _), PathsSum(_, _, _, _)
Paths(h, c, o) == IF ~IsR(c) THEN 0
                  ELSE (IF c.o = o THEN 1 ELSE 0) + PathsSum(h, c.o, Keys(h[c.o]), o)
PathsSum(h, src, ks, o) == IF ks = {} THEN 0
                           ELSE LET k == CHOOSE j \in ks : TRUE
                                IN Paths(h, h[src].m[k], o) + PathsSum(h, src, ks \ {k}, o)
IsTree(h, c) == \A o \in Reach(h, c) : Paths(h, c, o) = 1
\* the value an environment description stands for
RECURSIVE Unfold(_, _)
Unfold(v, svs) == IF v.k = "S" THEN Unfold(svs[v.i], svs)
                  ELSE IF v.k = "D" THEN Dict([k \in Keys(v) |-> Unfold(v.m[k], svs)])
                  ELSE v

(***************************************************************************)
(* Building objects                                                        *)
(***************************************************************************)
\* objects for the value v (sm: the objects of the shared dictionaries built so far)
RECURSIVE Alloc(_, _, _), AllocKeys(_, _, _, _, _)
Alloc(h, v, sm) ==
  IF v.k = "L" THEN [h |-> h, c |-> v]
  ELSE IF v.k = "S" THEN [h |-> h, c |-> Ref(sm[v.i])]
  ELSE LET r == AllocKeys(h, v, sm, Keys(v), Empty)
       IN [h |-> Append(r.h, r.o), c |-> Ref(Len(r.h) + 1)]
AllocKeys(h, v, sm, ks, acc) ==
  IF ks = {} THEN [h |-> h, o |-> acc]
  ELSE LET k == CHOOSE j \in ks : TRUE
           r == Alloc(h, v.m[k], sm)
       IN AllocKeys(r.h, v, sm, ks \ {k}, With(acc, k, r.c))
RECURSIVE AllocShared(_, _, _)
AllocShared(h, svs, sm) ==
  IF Len(sm) = Len(svs) THEN [h |-> h, sm |-> sm]
  ELSE LET r == Alloc(h, svs[Len(sm) + 1], sm) IN AllocShared(r.h, svs, Append(sm, r.c.o))
RECURSIVE AllocRoots(_, _, _, _)
AllocRoots(h, roots, sm, e) ==
  IF Len(e) = Len(roots) THEN [h |-> h, env |-> e]
  ELSE LET r == Alloc(h, roots[Len(e) + 1], sm) IN AllocRoots(r.h, roots, sm, Append(e, r.c))
BuildEnv(d) == LET s == AllocShared(<<>>, d.sv, <<>>) IN AllocRoots(s.h, d.roots, s.sm, <<>>)

\* copy.deepcopy: every object is copied once (memo), so sharing inside the copy is kept
RECURSIVE Copy(_, _, _), CopyKeys(_, _, _, _, _)
Copy(h, memo, c) ==
  IF ~IsR(c) THEN [h |-> h, memo |-> memo, c |-> c]
  ELSE IF \E p \in memo : p[1] = c.o
    THEN [h |-> h, memo |-> memo, c |-> Ref((CHOOSE p \in memo : p[1] = c.o)[2])]
  ELSE LET new == Len(h) + 1
           r == CopyKeys(Append(h, Empty), memo \cup {<<c.o, new>>}, c.o, new, Keys(h[c.o]))
       IN [h |-> r.h, memo |-> r.memo, c |-> Ref(new)]
CopyKeys(h, memo, src, dst, ks) ==
  IF ks = {} THEN [h |-> h, memo |-> memo]
  ELSE LET k == CHOOSE j \in ks : TRUE
           r == Copy(h, memo, h[src].m[k])
       IN CopyKeys([r.h EXCEPT ![dst] = With(@, k, r.c)], r.memo, src, dst, ks \ {k})
DeepCopy(h, c) == Copy(h, {}, c)
NewEmpty(h) == [h |-> Append(h, Empty), c |-> Ref(Len(h) + 1)]
\* (round 8) the wrong variants that hand out one module-level empty dictionary: it is the object allocated
\* after the environment by Init (KeptObj), handed out by the function `who` instead of a new dictionary
KeptVariants == {"diffempty", "interempty", "strdempty"}
KeptPath == <<"$kept-empty">>
KeptObj == (CHOOSE e \in cache : e[1] = KeptPath)[2]
EmptyFor(h, who) == IF Variant = who THEN [h |-> h, c |-> Ref(KeptObj)] ELSE NewEmpty(h)

(***************************************************************************)
(* intersection(dicts.., level) on objects                                 *)
(***************************************************************************)
RECURSIVE HInter(_, _, _), HInterLoop(_, _, _, _, _), HInterKeys(_, _, _, _, _)
HInter(h, cs, lv) ==
  IF Len(cs) = 0 THEN EmptyFor(h, "interempty")
  ELSE LET cp == DeepCopy(h, cs[1]) IN HInterLoop(cp.h, cp.c, cs, 2, lv)
HInterLoop(h, res, cs, i, lv) ==
  IF i > Len(cs) THEN [h |-> h, c |-> res]
  ELSE IF lv = 0
    THEN IF Eq(Val(h, cs[i]), Val(h, res)) /\ Keys(h[res.o]) # {}
           THEN HInterLoop(h, res, cs, i + 1, lv)
         ELSE EmptyFor(h, "interempty")
  ELSE LET h2 == HInterKeys(h, res.o, cs[i].o, Keys(h[res.o]), lv) IN
         IF Keys(h2[res.o]) = {} THEN [h |-> h2, c |-> res]         \* res was calculated empty
         ELSE HInterLoop(h2, res, cs, i + 1, lv)
\* one pass over the keys of the object ro (the result so far) against the object dob
HInterKeys(h, ro, dob, ks, lv) ==
  IF ks = {} THEN h
  ELSE LET k == CHOOSE j \in ks : TRUE
           rest == ks \ {k}
       IN IF k \notin Keys(h[dob]) THEN HInterKeys([h EXCEPT ![ro] = Without(@, k)], ro, dob, rest, lv)
          ELSE LET rv == h[ro].m[k]  dv == h[dob].m[k] IN
            IF Eq(Val(h, rv), Val(h, dv)) THEN HInterKeys(h, ro, dob, rest, lv)
            ELSE IF lv = 1 \/ ~(IsR(rv) /\ IsR(dv))
              THEN HInterKeys([h EXCEPT ![ro] = Without(@, k)], ro, dob, rest, lv)
            ELSE IF Variant = "inplace"
              \* (wrong) the sub-dictionary of the single deep copy is narrowed where it is
              THEN HInterKeys(HInterKeys(h, rv.o, dv.o, Keys(h[rv.o]), lv - 1), ro, dob, rest, lv)
            \* res[key] = intersection(res[key], d[key], level-1): a new dictionary
            ELSE LET sub == HInter(h, <<rv, dv>>, lv - 1)
                 IN HInterKeys([sub.h EXCEPT ![ro] = With(@, k, sub.c)], ro, dob, rest, lv)

(***************************************************************************)
(* difference(d1, d2, level) on objects (round 8): d1 itself where the     *)
(* recursion stops, a new empty dictionary for equal arguments, otherwise  *)
(* a new dictionary holding d1's values / the non-empty sub-differences    *)
(***************************************************************************)
RECURSIVE HDiff(_, _, _, _), HDiffKeys(_, _, _, _, _, _)
HDiff(h, c1, c2, lv) ==
  IF ~IsR(c1) \/ ~IsR(c2) THEN [h |-> h, c |-> c1]
  ELSE IF Eq(Val(h, c1), Val(h, c2)) THEN EmptyFor(h, "diffempty")
  ELSE IF lv = 0 THEN [h |-> h, c |-> c1]
  ELSE LET n == NewEmpty(h) IN [h |-> HDiffKeys(n.h, n.c.o, c1.o, c2.o, Keys(h[c1.o]), lv), c |-> n.c]
HDiffKeys(h, ro, o1, o2, ks, lv) ==
  IF ks = {} THEN h
  ELSE LET k == CHOOSE j \in ks : TRUE
           rest == ks \ {k}
           v1 == h[o1].m[k]
       IN IF k \notin Keys(h[o2]) THEN HDiffKeys([h EXCEPT ![ro] = With(@, k, v1)], ro, o1, o2, rest, lv)
          ELSE LET v2 == h[o2].m[k] IN
            IF Eq(Val(h, v1), Val(h, v2)) THEN HDiffKeys(h, ro, o1, o2, rest, lv)
            ELSE IF lv = 1 \/ ~IsR(v1) \/ ~IsR(v2)
              THEN HDiffKeys([h EXCEPT ![ro] = With(@, k, v1)], ro, o1, o2, rest, lv)
            ELSE LET sub == HDiff(h, v1, v2, lv - 1) IN
              IF Keys(sub.h[sub.c.o]) # {}
                THEN HDiffKeys([sub.h EXCEPT ![ro] = With(@, k, sub.c)], ro, o1, o2, rest, lv)
              ELSE HDiffKeys(sub.h, ro, o1, o2, rest, lv)

(***************************************************************************)
(* update_recursively(d, other) on objects (d = object dob is changed)     *)
(***************************************************************************)
RECURSIVE HUpd(_, _, _), HUpdKeys(_, _, _, _)
HUpd(h, dob, oo) == HUpdKeys(h, dob, oo, Keys(h[oo]))
HUpdKeys(h, dob, oo, ks) ==
  IF ks = {} THEN h
  ELSE LET k == CHOOSE j \in ks : TRUE
           rest == ks \ {k}
           val == h[oo].m[k]
       IN IF ~IsR(val) \/ k \notin Keys(h[dob])
            THEN HUpdKeys([h EXCEPT ![dob] = With(@, k, val)], dob, oo, rest)    \* d[key] = val (val itself)
          ELSE IF ~IsR(h[dob].m[k])
            THEN LET n == NewEmpty(h)                                            \* d[key] = {}
                     h1 == [n.h EXCEPT ![dob] = With(@, k, n.c)]
                 IN HUpdKeys(HUpd(h1, n.c.o, val.o), dob, oo, rest)
          ELSE HUpdKeys(HUpd(h, h[dob].m[k].o, val.o), dob, oo, rest)

\* str_to_dict("k1.k2...kn", value): new dictionaries {k1: {k2: ... {kn: value}}}
RECURSIVE AllocChain(_, _, _)
AllocChain(h, p, v) ==
  IF Len(p) = 1 THEN [h |-> Append(h, Dict([j \in {p[1]} |-> v])), c |-> Ref(Len(h) + 1)]
  ELSE LET r == AllocChain(h, Tail(p), v)
       IN [h |-> Append(r.h, Dict([j \in {p[1]} |-> r.c])), c |-> Ref(Len(r.h) + 1)]

(***************************************************************************)
(* update_nested(key, d, other) on objects                                 *)
(***************************************************************************)
RECURSIVE MostNested(_, _, _)
MostNested(h, key, o) == IF key \in Keys(h[o]) /\ IsR(h[o].m[key]) THEN MostNested(h, key, h[o].m[key].o) ELSE o
HNested(h, key, dob, oo) ==
  LET h1 == IF key \in Keys(h[dob])
              THEN [h EXCEPT ![MostNested(h, key, oo)] = With(@, key, h[dob].m[key])]
            ELSE h
  IN [h1 EXCEPT ![dob] = With(@, key, Ref(oo))]

\* the caller writes into every dictionary reachable from c
Mark == Leaf("$touched", 60)
MarkKey == "zz"
Touch(h, c) == LET R == Reach(h, c) IN [o \in DOMAIN h |-> IF o \in R THEN With(h[o], MarkKey, Mark) ELSE h[o]]
RECURSIVE Touched(_)
Touched(v) == IF IsD(v) THEN Dict([k \in Keys(v) \cup {MarkKey} |-> IF k = MarkKey THEN Mark ELSE Touched(v.m[k])])
              ELSE v

(***************************************************************************)
(* Calls of a program                                                      *)
(***************************************************************************)
C(op, lv, key, xs, t, p, vk) == [op |-> op, lv |-> lv, key |-> key, xs |-> xs, t |-> t, p |-> p, vk |-> vk]
CInter(xs, lv) == C("inter", lv, "-", xs, Empty, <<>>, "-")
CDiff(i, j, lv) == C("diff", lv, "-", <<i, j>>, Empty, <<>>, "-")
CUpd(i, t) == C("updrec", -1, "-", <<i>>, t, <<>>, "-")            \* other: a temporary with the value t
CUpdVar(i, j) == C("updvar", -1, "-", <<i, j>>, Empty, <<>>, "-")  \* other: the variable j
CStr(i, p, vk, t) == C("updstr", -1, "-", <<i>>, t, p, vk)         \* other: the dotted string of p (+ value t)
CNested(i, key, t) == C("nested", -1, key, <<i>>, t, <<>>, "-")
CTouch(i) == C("touch", -1, "-", <<i>>, Empty, <<>>, "-")
CDiffR(i, j, lv) == C("diffr", lv, "-", <<i, j>>, Empty, <<>>, "-")   \* the result is kept by the caller
CStrD(p, vk, t) == C("strd", -1, "-", <<>>, t, p, vk)                  \* r = str_to_dict(string of p[, value t])
ResOps == {"inter", "diffr", "strd"}                                   \* calls whose result becomes a variable
KeyStr(k) == Leaf(k, 50)                  \* a key used as the (string) value
RECURSIVE NestP(_, _)
NestP(p, v) == IF p = <<>> THEN v ELSE Dict([j \in {Head(p)} |-> NestP(Tail(p), v)])
\* the dictionary the string form stands for
StrDict(c) == IF c.vk = "value" THEN NestP(c.p, c.t) ELSE NestP(Front(c.p), KeyStr(Last(c.p)))
Mutators == {"updrec", "updvar", "updstr", "nested"}

(***************************************************************************)
(* Universes                                                               *)
(***************************************************************************)
ClassName == <<"c0", "c1", "c2">>
Leaves == {Leaf(ClassName[e + 1], e) : e \in 0..(NC - 1)}
L0 == Leaf("c0", 0)
L1 == Leaf(ClassName[NC], NC - 1)
KA == CHOOSE k \in K : TRUE
KB == CHOOSE k \in K \ {KA} : TRUE
DictsOver(V, KS) == {Dict(f) : f \in UNION {[S -> V] : S \in SUBSET KS}}
V1 == DictsOver(Leaves, K)
V2 == DictsOver(Leaves \cup V1, K)
D1(k, v) == Dict([j \in {k} |-> v])
D2(v, w) == Dict([j \in {KA, KB} |-> IF j = KA THEN v ELSE w])
S1 == Sh(1)
S2 == Sh(2)
Env(sv, roots) == [sv |-> sv, roots |-> roots]
Beh(e, p) == [env |-> e, prog |-> p]

\* ---- sharing: one dictionary object in several places of the arguments
SharedVals == {D2(L0, L1), D1(KA, L0), Empty}
SharedValsQ == {D2(L0, L1), D1(KA, L0)}
\* the shared object at two places of one argument / at one place
Multi == {D2(S1, S1), D1(KA, D2(S1, S1)), D2(D1(KA, S1), S1), D2(D2(S1, L0), S1)}
Single == {S1, D1(KA, S1), D1(KB, S1), D2(S1, L0), D2(L1, S1), D1(KA, D1(KB, S1))}
MultiQ == {D2(S1, S1), D2(D1(KA, S1), S1)}
SingleQ == {S1, D1(KA, S1), D2(L1, S1)}
SharingRoots(multi, single, plain) ==
  {<<m, v>> : m \in multi, v \in plain} \cup {<<v, m>> : m \in multi, v \in plain}
  \cup {<<s, t>> : s \in single, t \in single}
  \cup {<<m, s>> : m \in multi, s \in single} \cup {<<s, m>> : m \in multi, s \in single}
\* read-only calls on them; a result of intersection is then changed by the caller and the call repeated
PInter(xs, lv, n) == <<CInter(xs, lv), CTouch(n + 1), CInter(xs, lv)>>
SharingProgs(ilv, dlv) ==
  {PInter(<<1, 2>>, lv, 2) : lv \in ilv} \cup {<<CDiff(1, 2, lv)>> : lv \in dlv}
SharingBehs(svs, roots, ilv, dlv) ==
  {Beh(Env(<<sv>>, r), p) : sv \in svs, r \in roots, p \in SharingProgs(ilv, dlv)}
\* update_recursively(d, other) with sharing inside other (d is a tree of its own)
UpdVarBehs(svs, plain) ==
  {Beh(Env(<<sv>>, <<d, o>>), <<CUpdVar(1, 2)>>) : sv \in svs, d \in plain, o \in Multi \cup (Single \ {S1})}
\* three arguments, the shared object in the first / the last one
TripleBehs(svs, plain, ilv) ==
  {Beh(Env(<<sv>>, r), PInter(<<1, 2, 3>>, lv, 3)) :
     sv \in svs, lv \in ilv,
     r \in {<<m, v, w>> : m \in Multi, v \in plain, w \in plain} \cup {<<v, w, m>> : m \in Multi, v \in plain, w \in plain}}
\* two shared objects, the second holding the first
Multi2 == {D2(S2, S2), D2(S2, S1), D2(D1(KA, S2), S2)}
Sharing2Behs(plain, ilv, dlv) ==
  {Beh(Env(<<sv1, sv2>>, r), p) : sv1 \in SharedValsQ, sv2 \in {D2(S1, L0), D2(S1, S1)},
                                  r \in {<<m, v>> : m \in Multi2, v \in plain} \cup {<<v, m>> : m \in Multi2, v \in plain},
                                  p \in SharingProgs(ilv, dlv)}
\* the same object passed twice / the arguments being one object
SameObjectBehs(svs) ==
  {Beh(Env(<<sv>>, <<S1, S1>>), p) : sv \in svs, p \in SharingProgs({-1, 0, 1}, {-1, 0, 1})}

\* ---- histories: what an earlier call left behind
HVals == {Empty, D1(KA, L0), D1(KA, D1(KB, L0)), D2(D2(L1, L0), L1)}
HValsQ == {Empty, D1(KA, L0), D2(D2(L1, L0), L1)}
StrCalls(i) == {CStr(i, p, "novalue", Empty) : p \in {<<KA, KB>>, <<KA, KB, KA>>, <<KB, KA, KB>>}}
               \cup {CStr(i, p, "value", v) : p \in {<<KA>>, <<KA, KB>>}, v \in {L1, D1(KB, L1)}}
UpdCalls(i) == {CUpd(i, t) : t \in {D1(KA, D1(KA, L1)), D1(KA, D1(KB, D1(KA, L1))), D1(KB, L0), D1(KB, D1(KA, L1))}}
NestedCalls(i) == {CNested(i, KA, t) : t \in {D1(KB, L1), D1(KA, D1(KB, L1))}}
MutCalls(i) == StrCalls(i) \cup UpdCalls(i) \cup NestedCalls(i)
OnVar(c, i) == [c EXCEPT !.xs = <<i>>]
\* the same call on another dictionary after the first one was changed further
HistProgs == {<<c, m, OnVar(c, 2)>> : c \in MutCalls(1), m \in MutCalls(1)}
\* read-only calls around an update
ReadProgs(ilv) == {<<r, m, r>> : r \in {CInter(<<1, 2>>, lv) : lv \in ilv} \cup {CDiff(1, 2, lv) : lv \in ilv} \cup {CDiff(2, 1, lv) : lv \in ilv},
                                 m \in MutCalls(1)}
\* any three updates of two dictionaries
AnyProgs == {<<a, b, c>> : a \in MutCalls(1), b \in MutCalls(1) \cup MutCalls(2), c \in MutCalls(2)}
HistBehs(vals, progs) == {Beh(Env(<<>>, <<x, y>>), p) : x \in vals, y \in vals, p \in progs}

\* ---- results (round 8): a result is the caller's object; it is written into / updated between calls
RVals == {Empty, D1(KA, L0), D2(D1(KA, L1), L1), D2(D2(L1, L0), L1)}
RValsQ == RVals \ {D1(KA, L0)}
Pairs12 == {<<1, 1>>, <<1, 2>>, <<2, 1>>, <<2, 2>>}
\* calls whose result the caller keeps
ResCalls(lvs) == {CDiffR(q[1], q[2], lv) : q \in Pairs12, lv \in lvs}
                 \cup {CInter(q, lv) : q \in Pairs12, lv \in lvs}
                 \cup {CInter(<<1, 2>>, 0), CDiffR(1, 2, 0)}          \* level 0: d1 itself / an empty result for unequal arguments
                 \cup {CInter(<<>>, -1), CInter(<<1>>, -1), CStrD(<<>>, "novalue", Empty), CStrD(<<KA, KB>>, "novalue", Empty),
                       CStrD(<<KA>>, "value", D1(KB, L1))}
\* what the caller does to the result held in variable n: writes into every dictionary of it / updates it
ResMods(n) == {CTouch(n), CUpd(n, D1(KA, D1(KB, L1))), CUpd(n, D1(KB, L0))}
ResProgs(lvs, lvs2) == {<<r1, m, r2>> : r1 \in ResCalls(lvs), m \in ResMods(3), r2 \in ResCalls(lvs2)}
\* the reconstruction of d1 from difference and intersection, twice: the caller completes one part with the
\* other (either way round); the second reconstruction may not see anything of the first
Recon(q, n, way) == <<CDiffR(q[1], q[2], -1), CInter(q, -1), IF way = 1 THEN CUpdVar(n, n + 1) ELSE CUpdVar(n + 1, n)>>
ReconProgs == {Recon(q1, 3, w1) \o Recon(q2, 5, w2) : q1 \in Pairs12, q2 \in Pairs12, w1 \in {1, 2}, w2 \in {1, 2}}

\* The universes by kind (a parameter, so that TLC builds only the ones a configuration names)
BehsOf(kd) ==
  CASE kd = "sharing-q"  -> SharingBehs(SharedValsQ, SharingRoots(MultiQ, SingleQ, V2), {-1, 2}, {-1})
    [] kd = "sharing-t"  -> SharingBehs(SharedVals, SharingRoots(Multi, Single, V2), {-1, 0, 1, 2}, {-1, 1, 2})
    [] kd = "same-q"     -> SameObjectBehs(SharedValsQ)
    [] kd = "same-t"     -> SameObjectBehs(SharedVals)
    [] kd = "updvar-q"   -> UpdVarBehs(SharedValsQ, V1)
    [] kd = "updvar-t"   -> UpdVarBehs(SharedVals, V2)
    [] kd = "triple"     -> TripleBehs(SharedValsQ, V1, {-1, 2})
    [] kd = "sharing2"   -> Sharing2Behs(V1, {-1, 2}, {-1})
    [] kd = "hist-q"     -> HistBehs(HValsQ, HistProgs)
    [] kd = "hist-t"     -> HistBehs(HVals, HistProgs)
    [] kd = "read-q"     -> HistBehs(HValsQ, ReadProgs({-1}))
    [] kd = "read-t"     -> HistBehs(HVals, ReadProgs({-1, 1, 2}))
    [] kd = "any"        -> HistBehs(HVals, AnyProgs)
    [] kd = "results-q"  -> HistBehs(RValsQ, ResProgs({-1}, {-1}) \cup ReconProgs)
    [] kd = "results-t"  -> HistBehs(RVals, ResProgs({-1, 0, 1}, {-1, 0}) \cup ReconProgs)
    [] kd = "guard-results" -> HistBehs({Empty, D1(KA, L0)}, ResProgs({-1}, {-1}))
    \* the smallest universes that tell the wrong variants from the right algorithm
    [] kd = "guard-sharing" -> SharingBehs({D2(L0, L1)}, SharingRoots({D2(S1, S1)}, {}, V2), {-1}, {})
    [] kd = "guard-hist"    -> HistBehs({Empty, D1(KA, L0)}, HistProgs)
KindsQuickSharing == {"sharing-q", "same-q", "updvar-q"}
KindsQuickHistory == {"hist-q", "read-q"}
KindsQuickResults == {"results-q"}
KindsThoroughResults == {"results-t"}
KindsGuardResults == {"guard-results"}
KindsQuick == KindsQuickSharing \cup KindsQuickHistory \cup KindsQuickResults
KindsThoroughSharing == {"sharing-t", "same-t", "updvar-t", "triple", "sharing2"}
KindsThoroughHistory == {"hist-t", "read-t"}
KindsThorough == KindsThoroughSharing \cup KindsThoroughHistory \cup KindsThoroughResults
KindsAny == {"any"}
KindsGuardSharing == {"guard-sharing"}
KindsGuardHist == {"guard-hist"}

vars == <<beh, heap, env, pcn, obs, cache>>
prog == beh.prog

Init == /\ \E kd \in Kinds : beh \in BehsOf(kd)
        /\ LET b == BuildEnv(beh.env) IN
             /\ env = b.env
             \* a wrong variant with a module-level empty dictionary: the object exists before the first call
             /\ heap = IF Variant \in KeptVariants THEN Append(b.h, Empty) ELSE b.h
             /\ cache = IF Variant \in KeptVariants THEN {<<KeptPath, Len(b.h) + 1>>} ELSE {}
        /\ pcn = 1 /\ obs = <<>>

Cur == prog[pcn]
Arg(j) == env[Cur.xs[j]]
Values(h, e) == [i \in DOMAIN e |-> Val(h, e[i])]
Observe(h, e, r) == obs' = Append(obs, [vals |-> Values(h, e), res |-> r])
Running(o) == pcn <= Len(prog) /\ Cur.op = o /\ pcn' = pcn + 1 /\ beh' = beh

DoInter == /\ Running("inter")
           /\ LET r == HInter(heap, [j \in DOMAIN Cur.xs |-> Arg(j)], Cur.lv) IN
                /\ heap' = r.h /\ env' = Append(env, r.c)
                /\ Observe(r.h, Append(env, r.c), Val(r.h, r.c))
           /\ cache' = cache
DoDiff == /\ Running("diff")
          /\ Observe(heap, env, Diff(Val(heap, Arg(1)), Val(heap, Arg(2)), Cur.lv))
          /\ UNCHANGED <<heap, env, cache>>
DoUpdRec == /\ Running("updrec") \/ Running("updvar")
            /\ LET t == IF Cur.op = "updrec" THEN Alloc(heap, Cur.t, <<>>) ELSE [h |-> heap, c |-> Arg(2)]
                   h2 == HUpd(t.h, Arg(1).o, t.c.o)
               IN heap' = h2 /\ Observe(h2, env, Empty)
            /\ UNCHANGED <<env, cache>>
\* update_recursively(d, "k1.k2", value): other = str_to_dict(string, value), new dictionaries every time
DoUpdStr == /\ Running("updstr")
            /\ LET c == Cur
                   path == IF c.vk = "value" THEN c.p ELSE Front(c.p)
                   v == IF c.vk = "value" THEN Alloc(heap, c.t, <<>>) ELSE [h |-> heap, c |-> KeyStr(Last(c.p))]
                   cached == {e \in cache : e[1] = c.p}
                   made == IF Variant = "strcache" /\ c.vk # "value" /\ cached # {}
                             THEN [h |-> v.h, c |-> Ref((CHOOSE e \in cached : TRUE)[2])]
                           ELSE AllocChain(v.h, path, v.c)
                   h2 == HUpd(made.h, Arg(1).o, made.c.o)
               IN /\ heap' = h2 /\ Observe(h2, env, Empty)
                  /\ cache' = IF Variant = "strcache" /\ c.vk # "value" THEN cache \cup {<<c.p, made.c.o>>} ELSE cache
            /\ UNCHANGED env
DoNested == /\ Running("nested")
            /\ LET t == Alloc(heap, Cur.t, <<>>)
                   h2 == HNested(t.h, Cur.key, Arg(1).o, t.c.o)
               IN heap' = h2 /\ Observe(h2, env, Empty)
            /\ UNCHANGED <<env, cache>>
\* r = difference(copy.deepcopy(x), copy.deepcopy(y), level), kept by the caller
DoDiffR == /\ Running("diffr")
           /\ LET a == DeepCopy(heap, Arg(1))
                  b == DeepCopy(a.h, Arg(2))
                  r == HDiff(b.h, a.c, b.c, Cur.lv)
              IN /\ heap' = r.h /\ env' = Append(env, r.c)
                 /\ Observe(r.h, Append(env, r.c), Val(r.h, r.c))
           /\ cache' = cache
\* r = str_to_dict(string[, value]), kept by the caller
DoStrD == /\ Running("strd")
          /\ LET c == Cur
                 v == IF c.vk = "value" THEN Alloc(heap, c.t, <<>>) ELSE [h |-> heap, c |-> KeyStr(Last(c.p))]
                 r == IF c.p = <<>> THEN EmptyFor(heap, "strdempty")
                      ELSE AllocChain(v.h, IF c.vk = "value" THEN c.p ELSE Front(c.p), v.c)
             IN /\ heap' = r.h /\ env' = Append(env, r.c)
                /\ Observe(r.h, Append(env, r.c), Val(r.h, r.c))
          /\ cache' = cache
DoTouch == /\ Running("touch")
           /\ LET h2 == Touch(heap, Arg(1)) IN heap' = h2 /\ Observe(h2, env, Empty)
           /\ UNCHANGED <<env, cache>>

Next == DoInter \/ DoDiff \/ DoUpdRec \/ DoUpdStr \/ DoNested \/ DoTouch \/ DoDiffR \/ DoStrD
Spec == Init /\ [][Next]_vars
Terminal == pcn > Len(prog)

(***************************************************************************)
(* Properties                                                              *)
(***************************************************************************)
\* the environment is what its description says
InitOK == pcn = 1 => /\ Len(env) = Len(beh.env.roots)
                     /\ \A i \in DOMAIN env : Val(heap, env[i]) = Unfold(beh.env.roots[i], beh.env.sv)
\* every step changes the values the caller holds exactly as the value-level reference says
StepOK ==
  pcn' = pcn + 1 =>
    LET c == Cur
        before == Values(heap, env)
        after == Values(heap', env')
        x == c.xs[1]
        same(S) == \A i \in S : after[i] = before[i]
        all == DOMAIN env
    IN CASE c.op = "inter" ->
              LET n == Len(env) + 1 IN
                /\ Len(env') = n /\ same(all)                                \* no argument, no other variable changes
                /\ Eq(after[n], InterN([j \in DOMAIN c.xs |-> before[c.xs[j]]], c.lv))
                /\ obs'[pcn].res = after[n]
                \* a deep copy: it has no object in common with anything the caller held
                /\ Reach(heap', env'[n]) \cap UNION {Reach(heap', env'[i]) : i \in all} = {}
         [] c.op = "diff" -> /\ same(all) /\ env' = env
                             /\ Eq(obs'[pcn].res, Diff(before[x], before[c.xs[2]], c.lv))
         \* results kept by the caller: the value is the function of the argument values, whatever the caller did
         \* to earlier results, and the result is no object the caller (or the library) already had
         [] c.op = "diffr" ->
              LET n == Len(env) + 1 IN
                /\ Len(env') = n /\ same(all)
                /\ Eq(after[n], Diff(before[x], before[c.xs[2]], c.lv))
                /\ obs'[pcn].res = after[n]
                /\ Reach(heap', env'[n]) \cap UNION {Reach(heap', env'[i]) : i \in all} = {}
         [] c.op = "strd" ->
              LET n == Len(env) + 1 IN
                /\ Len(env') = n /\ same(all)
                /\ Eq(after[n], IF c.p = <<>> THEN Empty ELSE StrDict(c))
                /\ obs'[pcn].res = after[n]
                /\ Reach(heap', env'[n]) \cap UNION {Reach(heap', env'[i]) : i \in all} = {}
         [] c.op = "updrec" -> env' = env /\ same(all \ {x}) /\ Eq(after[x], UpdRec(before[x], c.t))
         [] c.op = "updvar" -> env' = env /\ same(all \ {x}) /\ Eq(after[x], UpdRec(before[x], before[c.xs[2]]))
         [] c.op = "updstr" -> env' = env /\ same(all \ {x}) /\ Eq(after[x], UpdRec(before[x], StrDict(c)))
         [] c.op = "nested" -> env' = env /\ same(all \ {x}) /\ Eq(after[x], NestedD(c.key, before[x], c.t))
         [] c.op = "touch"  -> env' = env /\ same(all \ {x}) /\ after[x] = Touched(before[x])
StepsOK == [][StepOK]_vars
\* the universes keep to where the documentation fixes the outcome: a dictionary updated in place is a
\* tree sharing nothing with another variable; after an update with a variable as other neither of the two
\* dictionaries is written into; only results (of intersection, of difference on private copies, of
\* str_to_dict) are touched; update_nested gets a chain of dictionaries
MutatedIsPrivate ==
  pcn <= Len(prog) =>
    LET c == Cur  x == c.xs[1] IN
      /\ c.op \in Mutators =>
           /\ IsTree(heap, env[x])
           /\ \A i \in DOMAIN env \ {x} : Reach(heap, env[i]) \cap Reach(heap, env[x]) = {}
      \* after update_recursively(d, other) with a variable as other neither of the two is written into again
      /\ c.op = "updvar" => \A j \in (pcn + 1)..Len(prog) :
                               prog[j].op \in Mutators \cup {"touch"} => prog[j].xs[1] \notin {x, c.xs[2]}
      /\ c.op = "touch" => \E j \in 1..(pcn - 1) : prog[j].op \in ResOps /\ x = Len(beh.env.roots) + Cardinality({i \in 1..j : prog[i].op \in ResOps})
      /\ c.op = "strd" => Len(c.p) >= (IF c.vk = "value" THEN 1 ELSE 2) \/ (c.p = <<>> /\ c.vk # "value")
      /\ c.op = "nested" => ChainOk(c.t, c.key)
      /\ c.op = "updstr" => Len(c.p) >= (IF c.vk = "value" THEN 1 ELSE 2)

(***************************************************************************)
(* Export (S2C): environment description, program, what the caller must    *)
(* see after every call                                                    *)
(***************************************************************************)
Emit == Terminal => PrintT(ToJson([env |-> beh.env, prog |-> prog, obs |-> obs]))
=============================================================================
