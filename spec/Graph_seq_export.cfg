SPECIFICATION Spec
CONSTANTS MaxOps = 4
  Tails = {""}
  MaxErr = 1
  GScales <- ScalesSmall
  Targets <- TargetsSeq
  Share = FALSE
  Patterns = {1}
PROPERTY ScaleExact
PROPERTY UnknownScaleRaises
PROPERTY GetScalePure
PROPERTY RoundTrip
PROPERTY TwinUntouched
INVARIANT Emitted
CHECK_DEADLOCK FALSE
