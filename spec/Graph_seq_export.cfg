SPECIFICATION Spec
CONSTANTS MaxOps = 4
  Tails = {""}
  MaxErr = 1
  GScales <- ScalesSmall
  Targets <- TargetsSeq
  Patterns = {1}
PROPERTY ScaleExact
PROPERTY UnknownScaleRaises
PROPERTY GetScalePure
PROPERTY RoundTrip
INVARIANT Emitted
CHECK_DEADLOCK FALSE
