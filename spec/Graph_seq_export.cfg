SPECIFICATION Spec
CONSTANTS MaxOps = 4
  Tails = {""}
  MaxErr = 1
  GScales <- ScalesSmall
  Targets <- TargetsSeq
  Patterns = {1}
INVARIANT Emitted
CHECK_DEADLOCK FALSE
