SPECIFICATION Spec
CONSTANTS MaxBr = 3 MaxN = 3 MaxM = 2
INVARIANT Emitted
CHECK_DEADLOCK FALSE
