SPECIFICATION Spec
CONSTANTS MaxLen = 3 MaxN = 4 Infinite = FALSE MaxOut = 100
  Alphabet <- AlphaC01
  Pairs <- Both
INVARIANT Emitted
CHECK_DEADLOCK FALSE
