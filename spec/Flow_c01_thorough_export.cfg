SPECIFICATION Spec
CONSTANTS MaxLen = 3 MaxN = 4 Infinite = FALSE MaxOut = 100
  Vals = "nat" Stops = FALSE MaxRuns = 1 MaxLead = 0
  Alphabet <- AlphaC01
  Must <- NoMust
  Pairs <- Both
INVARIANT Emitted
CHECK_DEADLOCK FALSE
