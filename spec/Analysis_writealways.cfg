SPECIFICATION Spec
CONSTANTS MaxRuns = 2
  DataSets <- DataExport
  BranchLists <- BrExport
  BufSizes = {2}
  Edges1 <- E1
  EdgesY <- EY
  Caches = {FALSE}
  WriteAlways = TRUE
VIEW view
INVARIANT PerBranch
INVARIANT NoRedo
CHECK_DEADLOCK FALSE
