SPECIFICATION Spec
CONSTANTS MaxBr = 2 MaxN = 4 MaxRuns = 2
  Kinds <- KindsQuick
  BufSizes <- BufQuick
INVARIANT OpEqDen
INVARIANT AllActiveAtStart
INVARIANT OutIsPrefix
INVARIANT BufBound
INVARIANT SrcOnlyOnEmpty
INVARIANT BufsizeIndependent
INVARIANT EmptySplitIdentity
INVARIANT EmptyFlowEachOnce
INVARIANT OnceOnly
INVARIANT FRAccount
CHECK_DEADLOCK FALSE
