-------------------------------- MODULE Graph --------------------------------
(***************************************************************************)
(* lena.structures.graph.scale as a state machine on one graph.            *)
(*                                                                         *)
(* Code: lena/structures/graph.py  graph.__init__ (_parse_error_names),    *)
(* graph.scale, _get_err_indices.  Field names are structured here: dim    *)
(* coordinates followed by error fields [c |-> index of the coordinate,    *)
(* t |-> tail]; the harness renders them as strings ("error_" + coordinate *)
(* name [+ "_" + tail]) for several sets of coordinate names (TLC strings  *)
(* are atomic).                                                            *)
(***************************************************************************)
EXTENDS HistOpsSem, TLC, Json

CONSTANTS MaxOps,     \* operations per history
          Tails,      \* error tails ("" = none)
          MaxErr,     \* at most this many error fields
          GScales,    \* initial scales (NoneR = unknown, zero, ...)
          Targets,    \* scales to rescale to
          Patterns,   \* which column contents
          Share       \* TRUE: two columns may be given as ONE list object (symmetric errors ...), and a second graph
                      \* (twin) is built from the same column objects before anything is rescaled

VARIABLES g,    \* [cols, dim, errs, scale, rep]   rep[k] = first column given as the same list object as column k
          g0,   \* ghost: the graph at the start
          twin, \* the columns of a second graph made from the same column objects (graphs are values: never changes)
          n, h
vars == <<g, g0, twin, n, h>>
view == <<g, twin, n>>

ErrFields(dim) == {[c |-> c, t |-> t] : c \in 1..dim, t \in Tails}
\* every ordered selection of distinct error fields ("in every valid naming")
ErrSeqs(dim) == {s \in UNION {[1..k -> ErrFields(dim)] : k \in 0..MaxErr} :
                   \A i \in 1..Len(s), j \in 1..Len(s) : i # j => s[i] # s[j]}
\* column k, point j
Val(p, k, j) == IF p = 1 THEN RI(2 * k + j - 4) ELSE R(3 * j - 2 * k, 2)
Cols(p, m) == [k \in 1..m |-> [j \in 1..(p + 1) |-> Val(p, k, j)]]
ScalesAll == {NoneR, <<0, 1>>, <<1, 1>>, <<2, 1>>, <<1, 2>>, <<-1, 1>>}
ScalesSmall == {NoneR, <<0, 1>>, <<2, 1>>, <<-1, 2>>}
TargetsAll == {<<1, 1>>, <<2, 1>>, <<3, 1>>, <<1, 2>>, <<-1, 1>>}
TargetsSeq == {<<2, 1>>, <<1, 2>>}
ScalesShare == {<<2, 1>>, <<-1, 2>>}
TargetsShare == {<<1, 1>>, <<3, 1>>}

\* which columns are one object: all different, or exactly one pair (i < j) given as the same list
Ident(m) == [k \in 1..m |-> k]
Reps(m) == IF Share THEN {r \in {[Ident(m) EXCEPT ![j] = i] : i \in 1..m, j \in 1..m} : \A k \in 1..m : r[k] <= k}
           ELSE {Ident(m)}
Init == /\ \E dim \in 1..3, p \in Patterns, sc \in GScales : \E errs \in ErrSeqs(dim) : \E rep \in Reps(dim + Len(errs)) :
             LET base == Cols(p, dim + Len(errs)) IN
             g = [cols |-> [k \in 1..(dim + Len(errs)) |-> base[rep[k]]], dim |-> dim, errs |-> errs, scale |-> sc, rep |-> rep]
        /\ g0 = g /\ twin = g.cols /\ n = 0 /\ h = <<>>

Op == n < MaxOps /\ n' = n + 1 /\ g0' = g0 /\ twin' = twin
Log(op, s, ok, exc, val) == h' = Append(h, [op |-> op, s |-> s, ok |-> ok, exc |-> exc, val |-> val, g |-> g'])
\* graph.scale()
GetScale == Op /\ g' = g /\ Log("getscale", NoneR, TRUE, "", g.scale)
\* graph.scale(s), ScaleTo(s)(graph), scale_to(s, [graph])
\* allow: scale_to / GroupScale with allow_zero_scale = allow_unknown_scale = True ("the corresponding errors are
\* ignored and the structure remains unscaled"); logged as ok with exc = "skipped"
Scale == Op /\ \E s \in Targets : \E allow \in (IF IsNone(g.scale) \/ RIsZero(g.scale) THEN BOOLEAN ELSE {FALSE}) :
           LET r == GraphScaleOp(g, s) IN
           g' = r.g /\ Log("scale", s, IF allow THEN TRUE ELSE r.ok, IF allow THEN "skipped" ELSE r.exc, NoneR)
Next == GetScale \/ Scale
Spec == Init /\ [][Next]_vars

(***************************************************************************)
(* Properties.                                                             *)
(***************************************************************************)
L == h'[Len(h')]
IsOp(op) == Len(h') = Len(h) + 1 /\ L.op = op
Known(x) == ~IsNone(x.scale) /\ ~RIsZero(x.scale)
IsLastOrItsError(x, k) == k = x.dim \/ (k > x.dim /\ x.errs[k - x.dim].c = x.dim)
\* rescaling to s multiplies exactly the last coordinate and its error columns by s / old scale,
\* leaves the other coordinates (and their errors) untouched and makes the scale s
ScaleExact == [][(IsOp("scale") /\ Known(g)) =>
                  /\ L.ok /\ L.exc = "" /\ g'.scale = L.s /\ g'.dim = g.dim /\ g'.errs = g.errs
                  /\ Len(g'.cols) = Len(g.cols)
                  /\ \A k \in 1..Len(g.cols) :
                       /\ Len(g'.cols[k]) = Len(g.cols[k])
                       /\ \A j \in 1..Len(g.cols[k]) :
                            IF IsLastOrItsError(g, k)
                            THEN RMul(g'.cols[k][j], g.scale) = RMul(g.cols[k][j], L.s)
                            ELSE g'.cols[k][j] = g.cols[k][j]]_vars
\* ... and raises LenaValueError for a zero or unknown scale
UnknownScaleRaises == [][(IsOp("scale") /\ ~Known(g)) =>
                          /\ g' = g
                          /\ \/ (~L.ok /\ L.exc = "LenaValueError")
                             \/ (L.ok /\ L.exc = "skipped")]_vars
GetScalePure == [][IsOp("getscale") => g' = g /\ L.val = g.scale]_vars
\* rescaling back restores the graph (s / old * old / s = 1)
RoundTrip == [][(IsOp("scale") /\ L.ok /\ L.exc = "" /\ Len(h) > 0 /\ h[Len(h)].op = "scale" /\ h[Len(h)].ok /\ h[Len(h)].exc = "" /\ Len(h) = 1
                 /\ L.s = g0.scale) => g' = g0]_vars

\* a graph owns its numbers: whatever is done to it, another graph made from the same lists keeps its columns
\* (and a column given twice is rescaled once per column, which ScaleExact states column by column)
TwinUntouched == [][twin' = twin /\ twin = g0.cols]_vars

Emitted == (n = MaxOps) => PrintT(ToJson([start |-> g0, ops |-> h]))
=============================================================================
