SPECIFICATION Spec
CONSTANTS MaxA = 2 MaxB = 2 MaxFan = 1
  AsyncModes = {FALSE}
  Repeats = FALSE Cuts = TRUE
INVARIANT Emitted_
CHECK_DEADLOCK FALSE
