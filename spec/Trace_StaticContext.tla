------------------------ MODULE Trace_StaticContext ------------------------
(***************************************************************************)
(* Validation of what real lena pipelines (random trees beyond the         *)
(* exhaustive bounds of StaticContext.tla) were observed to hold, against  *)
(* the declarative fold of StaticSem.tla.  One record per pipeline:        *)
(*   els   the tree (construction order, as in StaticContext.tla)          *)
(*   obs   per element [has, ctx, ok, name, noname, exc, words]            *)
(*           store / ucfs   ctx = StoreContext.context / run-time context  *)
(*                          produced by UpdateContextFromStatic            *)
(*           mf write cache name (character sequence), noname              *)
(*           seq src split  ok, ctx = _get_context()  or  exc + the words  *)
(*                          of the exception message                       *)
(*   vin   run-time contexts of the values that were sent in               *)
(*   ran, rt   contexts of the values that left the pipeline; rtx = they   *)
(*             were recorded (pipelines with two Caches are not run)       *)
(*   gen   1 = first execution; 2 = the same program executed again while  *)
(*         the files of the first execution exist (the fold does not look  *)
(*         at the disk: the record is validated like any other)            *)
(*   stable  every observation was the same again after the run            *)
(*   only  0 = check everything; i > 0 = only element i; Len(els)+1 =    *)
(*         only the run-time part (used to localise a rejection)           *)
(* The freedom for bare accumulator branches is existential: a record is   *)
(* accepted if one policy explains all of it.                              *)
(***************************************************************************)
EXTENDS StaticSem, Json, IOUtils

Trace == JsonDeserialize(IOEnv.TRACE_FILE)
VARIABLE i

ElemOk(E, pol, n, in, o) ==
  CASE E[n].k \in {"store", "ucfs"} -> (o.has /\ ~in.err) => o.ctx = in.ctx
    [] IsMF(E[n].k) ->
         LET x == NameOf(E, n, in) IN
         (o.has /\ ~x.free) => IF x.ok THEN ~o.noname /\ o.name = x.s ELSE o.noname
    [] E[n].k \in {"write", "cache"} ->
         LET x == NameOf(E, n, in) IN (o.has /\ ~x.free /\ x.ok) => (~o.noname /\ o.name = x.s)
    [] IsNode(E[n]) ->
         (o.has /\ ~in.err) =>
           LET out == OutOf(E, pol, n, in) IN
           IF out.err
           THEN /\ ~o.ok /\ o.exc = "LenaKeyError"
                \* names a key that is unresolvable below n (if several are, the statement does
                \* not say which; a key that is resolved there does not count)
                /\ Range(o.words) \cap Unresolved(E, pol, n, in) # {}
           ELSE o.ok /\ o.ctx = out.ctx
    [] OTHER -> TRUE

RunOk(E, pol, w, r) ==
  /\ r.ran
  /\ r.stable      \* running the pipeline changed nothing the elements hold
  \* without UpdateContextFromStatic a value leaves with the context it came with
  /\ (\A j \in 1..Len(E) : E[j].k # "ucfs") =>
        \A j \in 1..Len(r.rt) : NoOut(r.rt[j]) \in {NoOut(r.vin[n]) : n \in 1..Len(r.vin)} \cup {Empty}
  /\ (r.rtx /\ ~OutOf(E, pol, Len(E), Cur(Empty)).err) =>
        LET seen == [j \in 1..Len(E) |-> w[j].ctx] IN
        \E exp \in RunReadings(E, r.vin, seen) : Range(r.rt) = Range(exp)

Match(r, pol) ==
  LET E == r.els
      w == Walk(E, pol, {}, Len(E), Empty).acc
  IN /\ \A n \in 1..Len(E) : r.only \in {0, n} => ElemOk(E, pol, n, w[n], r.obs[n])
     /\ r.only \in {0, Len(E) + 1} => RunOk(E, pol, w, r)
Ok(r) == \E pol \in Policies : Match(r, pol)

Init == i = 1
Next == i <= Len(Trace) /\ Ok(Trace[i]) /\ i' = i + 1
Spec == Init /\ [][Next]_i
Accepted == /\ PrintT(<<"ACCEPTED", TLCGet("stats").diameter - 1>>)
            /\ TLCGet("stats").diameter - 1 = Len(Trace)
=============================================================================
