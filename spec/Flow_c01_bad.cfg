SPECIFICATION Spec
CONSTANTS MaxLen = 2 MaxN = 0 Infinite = FALSE MaxOut = 100
  Vals = "nat" Stops = FALSE MaxRuns = 1 MaxLead = 0
  Alphabet <- AlphaC01Bad
  Must <- BadC01
  Pairs <- OnlyPairs
INVARIANT BadRejectedAtBuild
INVARIANT OpEqDen
INVARIANT Emitted
CHECK_DEADLOCK FALSE
