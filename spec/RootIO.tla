------------------------------- MODULE RootIO -------------------------------
(***************************************************************************)
(* X06: the ROOT input/output elements of lena, against a stand-in ROOT    *)
(* module (lenaverif/rootstub.py) that records every call.                 *)
(*                                                                         *)
(*   lena/input/read_root_file.py   ReadROOTFile   (mode "read")           *)
(*   lena/input/read_root_tree.py   ReadROOTTree   (mode "tree")           *)
(*   lena/output/write_root_tree.py WriteROOTTree  (mode "write")          *)
(*                                                                         *)
(* For every scenario the module gives                                     *)
(*   Protocol(sc)   operational: the sequence of calls into ROOT and of    *)
(*                  yields, written like the (intended) code: Open,        *)
(*                  ListKeys, Get, Yield, Close; Status, Entry; NewTree,   *)
(*                  Branch, Fill, Write, Close                             *)
(*   Expected(sc)   declarative: what the docstrings promise is yielded    *)
(* and a machine that walks through Protocol(sc) one call per step, so     *)
(* that the protocol properties are state invariants: at most one file is  *)
(* open, objects are yielded while their file is open, every opened file   *)
(* is closed, only the needed branches are enabled while entries are read, *)
(* every value is filled exactly once and in order, the tree is written    *)
(* after the last Fill and before Close, a file given by the user is not   *)
(* closed.  LogOk* state the same on an arbitrary call log: they are       *)
(* checked on Protocol(sc) here and on the logs of the real code in        *)
(* Trace_RootIO.tla.                                                       *)
(*                                                                         *)
(* Where the docstrings are silent the model is silent: what happens to    *)
(* the open file when a key is missing and raise_on_missing is set, the    *)
(* order of the objects of one file (LogOkRead compares bags), the order   *)
(* of the fields of the entry tuples, values that are not trees.           *)
(* The variable proto holds Protocol(sc), computed once per behaviour.     *)
(***************************************************************************)
EXTENDS Integers, Sequences, FiniteSets, TLC, Json

None == -1000
E == <<>>
Put(c, k, v) == [x \in (DOMAIN c) \cup {k} |-> IF x = k THEN v ELSE c[x]]
Ev(op, a, b, c) == [op |-> op, a |-> a, b |-> b, c |-> c]
RECURSIVE Cat(_)
Cat(ss) == IF ss = <<>> THEN <<>> ELSE Head(ss) \o Cat(Tail(ss))
RECURSIVE Firsts(_, _)
Firsts(ks, seen) == IF ks = <<>> THEN <<>>
                    ELSE IF Head(ks) \in seen THEN Firsts(Tail(ks), seen)
                    ELSE <<Head(ks)>> \o Firsts(Tail(ks), seen \cup {Head(ks)})
SetMax(S) == CHOOSE x \in S : \A y \in S : x >= y
RECURSIVE SetToSeq(_)
SetToSeq(S) == IF S = {} THEN <<>> ELSE LET x == CHOOSE y \in S : TRUE IN <<x>> \o SetToSeq(S \ {x})
Ok(out) == [ok |-> TRUE, out |-> out]
Err(exc, out) == [ok |-> FALSE, exc |-> exc, out |-> out]

(***************************************************************************)
(* ReadROOTFile.  A file is [path, keys |-> <<[n |-> name, c |-> cycle]>>] *)
(* (newest cycle first, as ROOT lists them); a flow value is [f |-> file   *)
(* index, ctx |-> context, bare |-> the value is the path alone].          *)
(* sc = [mode, files, flow, all |-> keys is None, names |-> keys,          *)
(*       rom |-> raise_on_missing]                                         *)
(***************************************************************************)
Names(file) == Firsts([j \in 1..Len(file.keys) |-> file.keys[j].n], {})
HasKey(file, n) == \E j \in 1..Len(file.keys) : file.keys[j].n = n
LastCycle(file, n) == SetMax({file.keys[j].c : j \in {i \in 1..Len(file.keys) : file.keys[i].n = n}})
\* update_recursively(context, {"input": {key: value}})
InCtx(c, key, val) == Put(c, "input", Put((IF "input" \in DOMAIN c THEN c.input ELSE E), key, val))
BaseCtx(v) == v.ctx          \* v.bare: the value is the bare path (no context at all), v.ctx is then empty
KeysFor(sc, file) == IF sc.all THEN Names(file) ELSE sc.names
\* what one file yields: [out, err]
RECURSIVE ReadKeys(_, _, _, _)
ReadKeys(sc, file, ctx, ks) ==
  IF ks = <<>> THEN [out |-> <<>>, err |-> FALSE]
  ELSE IF HasKey(file, Head(ks))
       THEN LET r == ReadKeys(sc, file, ctx, Tail(ks)) IN
            [out |-> <<[f |-> file.path, k |-> Head(ks), c |-> LastCycle(file, Head(ks)),
                       ctx |-> InCtx(ctx, "root_file_key", Head(ks))]>> \o r.out, err |-> r.err]
       ELSE IF sc.rom THEN [out |-> <<>>, err |-> TRUE]
       ELSE ReadKeys(sc, file, ctx, Tail(ks))
RECURSIVE ReadFlow(_, _)
ReadFlow(sc, j) ==
  IF j > Len(sc.flow) THEN Ok(<<>>)
  ELSE LET v == sc.flow[j]  file == sc.files[v.f]
           r == ReadKeys(sc, file, InCtx(BaseCtx(v), "root_file_path", file.path), KeysFor(sc, file))
       IN IF r.err THEN Err("LenaKeyError", r.out)
          ELSE LET rest == ReadFlow(sc, j + 1) IN
               IF rest.ok THEN Ok(r.out \o rest.out) ELSE Err(rest.exc, r.out \o rest.out)
ExpectedRead(sc) == ReadFlow(sc, 1)

\* the calls: open, (list), get*, yield*, close per file; an error ends the protocol
RECURSIVE ProtoKeys(_, _, _)
ProtoKeys(sc, file, ks) ==
  IF ks = <<>> THEN [evs |-> <<>>, err |-> FALSE]
  ELSE LET g == Ev("get", file.path, Head(ks), 0) IN
       IF HasKey(file, Head(ks))
       THEN LET r == ProtoKeys(sc, file, Tail(ks)) IN
            [evs |-> <<g, Ev("yield", file.path, Head(ks), LastCycle(file, Head(ks)))>> \o r.evs, err |-> r.err]
       ELSE IF sc.rom THEN [evs |-> <<g, Ev("raise", "LenaKeyError", 0, 0)>>, err |-> TRUE]
       ELSE LET r == ProtoKeys(sc, file, Tail(ks)) IN [evs |-> <<g>> \o r.evs, err |-> r.err]
RECURSIVE ProtoRead(_, _)
ProtoRead(sc, j) ==
  IF j > Len(sc.flow) THEN <<>>
  ELSE LET file == sc.files[sc.flow[j].f]
           r == ProtoKeys(sc, file, KeysFor(sc, file))
           head == <<Ev("open", file.path, "read", 0)>> \o (IF sc.all THEN <<Ev("list", file.path, 0, 0)>> ELSE <<>>)
       IN IF r.err THEN head \o r.evs
          ELSE head \o r.evs \o <<Ev("close", file.path, 0, 0)>> \o ProtoRead(sc, j + 1)

(***************************************************************************)
(* ReadROOTTree.  A tree is [name, branches |-> <<[b |-> name, lf |->      *)
(* <<leaves>>]>>, n |-> entries]; the value of leaf lf of branch b in      *)
(* entry j is <<b, lf, j>>.                                                *)
(* sc = [mode, tree, leaves |-> <<"x", "b/y", ..>> as pairs [b, lf] with   *)
(*       b = "" for an unqualified leaf, ctx]                              *)
(***************************************************************************)
BranchesWith(tree, lf) == {j \in 1..Len(tree.branches) :
                             \E i \in 1..Len(tree.branches[j].lf) : tree.branches[j].lf[i] = lf}
BranchNamed(tree, b) == {j \in 1..Len(tree.branches) : tree.branches[j].b = b}
\* the branch a requested leaf is read from: 0 = error
Resolve(tree, q) ==
  IF q.b # "" THEN (IF BranchNamed(tree, q.b) = {} THEN 0 ELSE CHOOSE j \in BranchNamed(tree, q.b) : TRUE)
  ELSE IF Cardinality(BranchesWith(tree, q.lf)) = 1 THEN CHOOSE j \in BranchesWith(tree, q.lf) : TRUE
  ELSE 0                                   \* none, or several: LenaRuntimeError
FieldName(q) == IF q.b = "" THEN q.lf ELSE [b |-> q.b, lf |-> q.lf]     \* "b/lf" becomes the field b_lf
TreeOk(sc) == \A k \in 1..Len(sc.leaves) : Resolve(sc.tree, sc.leaves[k]) # 0
Needed(sc) == {sc.tree.branches[Resolve(sc.tree, sc.leaves[k])].b : k \in 1..Len(sc.leaves)}
\* a qualified leaf whose name also exists in another branch: how PyROOT resolves the attribute is outside
\* lena's documentation; the model leaves the value open
Ambiguous(sc) == \E k \in 1..Len(sc.leaves) :
                    sc.leaves[k].b # "" /\ Cardinality(BranchesWith(sc.tree, sc.leaves[k].lf)) > 1
TreeCtx(sc) == InCtx(sc.ctx, "root_tree_name", sc.tree.name)
ExpectedTree(sc) ==
  IF ~TreeOk(sc) THEN Err("LenaRuntimeError", <<>>)
  ELSE Ok([j \in 1..sc.tree.n |->
            [fields |-> [k \in 1..Len(sc.leaves) |->
                           [name |-> FieldName(sc.leaves[k]),
                            val |-> <<sc.tree.branches[Resolve(sc.tree, sc.leaves[k])].b, sc.leaves[k].lf, j - 1>>]],
             ctx |-> TreeCtx(sc)]])
ProtoTree(sc) ==
  <<Ev("status", "*", 0, 0)>> \o
  (IF ~TreeOk(sc) THEN <<Ev("raise", "LenaRuntimeError", 0, 0)>>
   ELSE LET nb == SetToSeq(Needed(sc)) IN
        [k \in 1..Len(nb) |-> Ev("status", nb[k], 1, 0)]
        \o Cat([j \in 1..sc.tree.n |-> <<Ev("entry", j - 1, Needed(sc), 0), Ev("yield", j - 1, 0, 0)>>]))

(***************************************************************************)
(* WriteROOTTree.                                                          *)
(* sc = [mode, name |-> tree name, form |-> "str" | "tuple1" | "tuple2" |  *)
(*       "tfile", opt |-> creation option of tuple2, shape |-> "named" |   *)
(*       "combine" | "scalar", types |-> <<"int"|"float"...>> of the       *)
(*       fields, vals |-> <<<<numbers>>>> one tuple per flow value,        *)
(*       ctxs, fault |-> "none" | "badtype" | "noname" | "flowraises"]     *)
(***************************************************************************)
OpenOpt(sc) == IF sc.form = "tuple2" THEN sc.opt ELSE "recreate"      \* "Recreate (default)"
FieldNames(sc) == [k \in 1..Len(sc.types) |-> IF sc.shape = "scalar" THEN "v" ELSE <<"x", "y", "z">>[k]]
LeafList(sc, k) == [n |-> FieldNames(sc)[k], t |-> IF sc.types[k] = "int" THEN "L" ELSE "D"]
OpenedHere(sc) == sc.form # "tfile"
\* values filled before a fault stops the flow
NFilled(sc) == CASE sc.fault \in {"badtype", "noname"} -> 0
                 [] sc.fault = "flowraises" -> Len(sc.vals) - 1      \* the generator raises instead of its last value
                 [] OTHER -> Len(sc.vals)
OutCtx(sc, c) == Put(c, "output", Put(Put((IF "output" \in DOMAIN c THEN c.output ELSE E),
                                         "root_file_path", "out.root"), "root_tree_name", sc.name))
ExpectedWrite(sc) ==
  CASE sc.fault = "badtype" -> Err("LenaTypeError", <<>>)
    [] sc.fault = "noname" -> Err("LenaValueError", <<>>)
    [] sc.fault = "flowraises" -> Err("FlowError", <<>>)
    [] OTHER -> Ok(<<[d |-> "out.root",
                     ctx |-> OutCtx(sc, IF sc.vals = <<>> THEN E ELSE sc.ctxs[Len(sc.vals)])]>>)
ProtoWrite(sc) ==
  (IF OpenedHere(sc) THEN <<Ev("open", "out.root", OpenOpt(sc), 0)>> ELSE <<>>)
  \o <<Ev("tree", sc.name, 0, 0)>>
  \* the branches are made from the first value that arrives
  \o (IF NFilled(sc) = 0 THEN <<>>
      ELSE [k \in 1..Len(sc.types) |-> Ev("branch", LeafList(sc, k).n, LeafList(sc, k).t, 0)])
  \o [j \in 1..NFilled(sc) |-> Ev("fill", sc.vals[j], 0, 0)]
  \o (IF sc.fault = "none" THEN <<Ev("write", sc.name, 0, 0)>> ELSE <<Ev("raise", ExpectedWrite(sc).exc, 0, 0)>>)
  \o (IF OpenedHere(sc) THEN <<Ev("close", "out.root", 0, 0)>> ELSE <<>>)
  \o (IF sc.fault = "none" THEN <<Ev("yield", "out.root", 0, 0)>> ELSE <<>>)

(***************************************************************************)
(* Properties of a call log (a sequence of events), whoever produced it.   *)
(***************************************************************************)
Ops(log, ops) == SelectSeq(log, LAMBDA e : e.op \in ops)
\* files: open / close alternate, every file opened is closed, yields and gets only while a file is open
RECURSIVE Balanced(_, _)
Balanced(log, open) ==
  IF log = <<>> THEN open = ""
  ELSE LET e == Head(log) IN
       CASE e.op = "open" -> open = "" /\ Balanced(Tail(log), e.a)
         [] e.op = "close" -> open = e.a /\ Balanced(Tail(log), "")
         [] e.op \in {"get", "list", "yield"} -> open = e.a /\ Balanced(Tail(log), open)
         [] OTHER -> Balanced(Tail(log), open)
\* the objects yielded: file by file in the order of the flow; the order of the objects of one file is not
\* documented (same bag); when a missing key raises, whatever was yielded before must be among the expected objects
Count(s, t) == Cardinality({j \in 1..Len(s) : s[j] = t})
SameBag(s, t) == Len(s) = Len(t) /\ \A j \in 1..Len(s) : Count(s, s[j]) = Count(t, s[j])
\* (bound by \E over singletons: TLC evaluates such values once; LET definitions are re-evaluated at every use)
LogOkRead(sc, log) ==
  \E exp \in {ExpectedRead(sc)} : \E ys \in {Ops(log, {"yield"})} :
  \E got \in {[j \in 1..Len(ys) |-> <<ys[j].a, ys[j].b, ys[j].c>>]} :
  \E want \in {[j \in 1..Len(exp.out) |-> <<exp.out[j].f, exp.out[j].k, exp.out[j].c>>]} :
  /\ exp.ok => Balanced(log, "")
  /\ exp.ok => SameBag(got, want) /\ [j \in 1..Len(got) |-> got[j][1]] = [j \in 1..Len(want) |-> want[j][1]]
  /\ ~exp.ok => \A j \in 1..Len(got) : Count(want, got[j]) > 0
  /\ \A j \in 1..Len(Ops(log, {"open"})) : Ops(log, {"open"})[j].b = "read"
LogOkTree(sc, log) ==
  /\ TreeOk(sc) => \A j \in 1..Len(Ops(log, {"entry"})) : Ops(log, {"entry"})[j].b = Needed(sc)
  /\ TreeOk(sc) => Len(Ops(log, {"yield"})) = sc.tree.n
  /\ ~TreeOk(sc) => Ops(log, {"yield"}) = <<>>
\* every value filled exactly once and in order; written once, after the last fill and before the close;
\* closed exactly when opened here - also when the flow or a value is faulty
LogOkWrite(sc, log) ==
  LET fills == Ops(log, {"fill"})
      tail == Ops(log, {"fill", "write", "close", "yield"})
  IN /\ [j \in 1..Len(fills) |-> fills[j].a] = SubSeq(sc.vals, 1, NFilled(sc))
     /\ (sc.fault = "none") =>
           [j \in 1..Len(tail) |-> tail[j].op] =
              [j \in 1..Len(fills) |-> "fill"] \o <<"write">> \o (IF OpenedHere(sc) THEN <<"close">> ELSE <<>>) \o <<"yield">>
     /\ Len(Ops(log, {"close"})) = (IF OpenedHere(sc) THEN 1 ELSE 0)
     /\ OpenedHere(sc) => /\ Len(Ops(log, {"open"})) = 1 /\ Ops(log, {"open"})[1].b = OpenOpt(sc)
                          /\ Ops(log, {"open", "close", "write"})[Len(Ops(log, {"open", "close", "write"}))].op = "close"
     /\ ~OpenedHere(sc) => Ops(log, {"open"}) = <<>>
     /\ (sc.fault # "none") => Ops(log, {"yield"}) = <<>>
     /\ [j \in 1..Len(Ops(log, {"branch"})) |-> [n |-> Ops(log, {"branch"})[j].a, t |-> Ops(log, {"branch"})[j].b]]
          = (IF NFilled(sc) = 0 THEN <<>> ELSE [k \in 1..Len(sc.types) |-> LeafList(sc, k)])
Protocol(sc) == CASE sc.mode = "read" -> ProtoRead(sc, 1) [] sc.mode = "tree" -> ProtoTree(sc)
                  [] sc.mode = "write" -> ProtoWrite(sc)
Expected(sc) == CASE sc.mode = "read" -> ExpectedRead(sc) [] sc.mode = "tree" -> ExpectedTree(sc)
                  [] sc.mode = "write" -> ExpectedWrite(sc)
LogOk(sc, log) == CASE sc.mode = "read" -> LogOkRead(sc, log) [] sc.mode = "tree" -> LogOkTree(sc, log)
                    [] sc.mode = "write" -> LogOkWrite(sc, log)

(***************************************************************************)
(* Scenarios of the bounded model.                                         *)
(***************************************************************************)
K(n, c) == [n |-> n, c |-> c]
FA == [path |-> "a.root", keys |-> <<K("h", 1), K("tree", 1)>>]
FB == [path |-> "b.root", keys |-> <<K("tree", 2), K("tree", 1), K("g", 1)>>]     \* two cycles of tree
FC == [path |-> "c.root", keys |-> <<>>]
Files == <<FA, FB, FC>>
CtxIn == [input |-> [other |-> 1], a |-> 1]
FlowVals == {[f |-> f, ctx |-> E, bare |-> b] : f \in 1..3, b \in BOOLEAN}
            \cup {[f |-> f, ctx |-> CtxIn, bare |-> FALSE] : f \in 1..3}
RECURSIVE SeqsUpTo(_, _)
SeqsUpTo(S, n) == IF n = 0 THEN {<<>>}
                  ELSE LET P == SeqsUpTo(S, n - 1) IN P \cup {Append(p, a) : p \in {x \in P : Len(x) = n - 1}, a \in S}
KeyArgs == {<<>>, <<"tree">>, <<"h", "tree">>, <<"q">>, <<"tree", "q", "g">>}
CONSTANTS MaxFlow, MaxVals
ReadScenarios ==
  {[mode |-> "read", files |-> Files, flow |-> fl, all |-> al, names |-> ns, rom |-> rom] :
      fl \in SeqsUpTo(FlowVals, MaxFlow), al \in BOOLEAN, ns \in KeyArgs, rom \in BOOLEAN}
Br(b, lf) == [b |-> b, lf |-> lf]
T1 == [name |-> "ev", branches |-> <<Br("pos", <<"x", "y">>), Br("e", <<"e">>)>>, n |-> 2]
T2 == [name |-> "", branches |-> <<Br("a", <<"x">>), Br("b", <<"x", "z">>)>>, n |-> 1]
T3 == [name |-> "t0", branches |-> <<Br("a", <<"x">>)>>, n |-> 0]
Q(b, lf) == [b |-> b, lf |-> lf]
LeafArgs == {<<Q("", "x")>>, <<Q("", "x"), Q("", "e")>>, <<Q("pos", "y"), Q("", "e")>>, <<Q("b", "z")>>,
             <<Q("", "q")>>, <<Q("", "e")>>, <<Q("nob", "x")>>, <<Q("b", "x"), Q("", "z")>>, <<Q("", "z"), Q("a", "x")>>}
TreeScenarios == {[mode |-> "tree", tree |-> t, leaves |-> l, ctx |-> c.ctx, bare |-> c.bare] :
                     t \in {T1, T2, T3}, l \in LeafArgs,
                     c \in {[ctx |-> E, bare |-> TRUE], [ctx |-> E, bare |-> FALSE], [ctx |-> CtxIn, bare |-> FALSE]}}
ValTuples == {<<1, 2>>, <<-3, 0>>, <<5, 5>>, <<4>>, <<-1>>}
WriteScenarios ==
  {[mode |-> "write", name |-> "tr", form |-> fo, opt |-> op, shape |-> sh, types |-> ty, vals |-> vs,
    ctxs |-> [j \in 1..Len(vs) |-> IF j % 2 = 1 THEN [a |-> j] ELSE [output |-> [k |-> 1]]], fault |-> fa] :
      fo \in {"str", "tuple1", "tuple2", "tfile"}, op \in {"recreate", "update", "RECREATE", "new"},
      sh \in {"named", "combine", "scalar"}, ty \in {<<"int", "float">>, <<"float", "int">>, <<"int">>},
      vs \in SeqsUpTo(ValTuples, MaxVals), fa \in {"none", "badtype", "noname", "flowraises"}}
WriteOk(sc) == /\ (sc.form # "tuple2") => sc.opt = "recreate"
               /\ (sc.shape = "scalar") <=> Len(sc.types) = 1
               /\ (sc.fault # "none") => sc.vals # <<>>
               /\ (sc.fault = "noname") => sc.shape # "named"
               /\ \A j \in 1..Len(sc.vals) : Len(sc.vals[j]) = Len(sc.types)
Scenarios == ReadScenarios \cup TreeScenarios \cup {sc \in WriteScenarios : WriteOk(sc)}

(***************************************************************************)
(* The machine: one call of the protocol per step.                         *)
(***************************************************************************)
VARIABLES sc, proto, i, open, opened, closed, yielded, fills, enabled, written
vars == <<sc, proto, i, open, opened, closed, yielded, fills, enabled, written>>
P == proto              \* = Protocol(sc), computed once per behaviour
Init == /\ sc \in Scenarios /\ proto = Protocol(sc) /\ i = 1 /\ open = "" /\ opened = <<>> /\ closed = <<>>
        /\ yielded = 0 /\ fills = <<>> /\ enabled = {} /\ written = 0
Step(ops) == i <= Len(P) /\ P[i].op \in ops /\ i' = i + 1 /\ UNCHANGED <<sc, proto>>
Open == /\ Step({"open"}) /\ open' = P[i].a /\ opened' = Append(opened, P[i].a)
        /\ UNCHANGED <<closed, yielded, fills, enabled, written>>
Close == /\ Step({"close"}) /\ open' = "" /\ closed' = Append(closed, P[i].a)
         /\ UNCHANGED <<opened, yielded, fills, enabled, written>>
Get == Step({"get", "list", "tree", "raise"}) /\ UNCHANGED <<open, opened, closed, yielded, fills, enabled, written>>
Yield == /\ Step({"yield"}) /\ yielded' = yielded + 1
         /\ UNCHANGED <<open, opened, closed, fills, enabled, written>>
Status == /\ Step({"status"})
          /\ enabled' = IF P[i].a = "*" THEN {} ELSE enabled \cup {P[i].a}
          /\ UNCHANGED <<open, opened, closed, yielded, fills, written>>
Entry == Step({"entry"}) /\ UNCHANGED <<open, opened, closed, yielded, fills, enabled, written>>
Branch == Step({"branch"}) /\ UNCHANGED <<open, opened, closed, yielded, fills, enabled, written>>
Fill == /\ Step({"fill"}) /\ fills' = Append(fills, P[i].a)
        /\ UNCHANGED <<open, opened, closed, yielded, enabled, written>>
Write == /\ Step({"write"}) /\ written' = written + 1
         /\ UNCHANGED <<open, opened, closed, yielded, fills, enabled>>
Next == Open \/ Close \/ Get \/ Yield \/ Status \/ Entry \/ Branch \/ Fill \/ Write
Spec == Init /\ [][Next]_vars
Done == i > Len(P)

\* ---- invariants
ProtocolOk == i = 1 => LogOk(sc, P)       \* a property of the whole protocol: checked once per behaviour
ExpectedYields == Done => yielded = Len(Expected(sc).out)
AtMostOneOpen == Len(opened) - Len(closed) \in {0, 1}
YieldWhileOpen == (i <= Len(P) /\ P[i].op = "yield" /\ sc.mode = "read") => open = P[i].a
EveryOpenedClosed == (Done /\ Expected(sc).ok) => (open = "" /\ opened = closed)
ClosedAlsoOnFaults == (Done /\ sc.mode = "write" /\ OpenedHere(sc)) => closed = <<"out.root">>
UserFileNotClosed == (sc.mode = "write" /\ ~OpenedHere(sc)) => closed = <<>>
OnlyNeededEnabled == (i <= Len(P) /\ P[i].op = "entry") => enabled = Needed(sc)
FillsInOrder == sc.mode = "write" => fills = SubSeq(sc.vals, 1, Len(fills))
WriteAfterFills == (sc.mode = "write" /\ written = 1) => fills = SubSeq(sc.vals, 1, NFilled(sc))
\* by default every key name is read once per file ("only the last cycle is yielded")
EachKeyOnce ==
  (i = 1 /\ sc.mode = "read" /\ sc.all) =>
     \A v \in 1..Len(sc.flow) :
        LET r == ReadKeys(sc, sc.files[sc.flow[v].f], E, KeysFor(sc, sc.files[sc.flow[v].f])).out IN
        \A j1, j2 \in 1..Len(r) : j1 # j2 => r[j1].k # r[j2].k
Emitted == Done => PrintT(ToJson([sc |-> sc, exp |-> Expected(sc), proto |-> P,
                                  amb |-> IF sc.mode = "tree" THEN Ambiguous(sc) ELSE FALSE]))
=============================================================================
