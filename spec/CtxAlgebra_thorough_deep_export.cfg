SPECIFICATION Spec
CONSTANTS
  K = {"a", "b"}
  NC = 2
  Levels <- LevelsDeep
  Ops <- PairOps
  UPair <- V3r
  UTriple <- NoDicts
INVARIANT Emit
CHECK_DEADLOCK FALSE
