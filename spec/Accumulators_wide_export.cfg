SPECIFICATION Spec
CONSTANTS MaxLen = 4 Wide = TRUE
  Kinds <- ThoroughKinds
INVARIANT Emitted
CHECK_DEADLOCK FALSE
