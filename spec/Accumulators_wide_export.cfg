SPECIFICATION Spec
CONSTANTS MaxLen = 4 Wide = TRUE
  Kinds <- AllKinds
INVARIANT Emitted
CHECK_DEADLOCK FALSE
