SPECIFICATION Spec
CONSTANTS MaxRuns = 3 MaxTouch = 99
  Scens <- ScenPlain1
  Settings <- SettingsDefault
  CreatedSetsChanged = TRUE
  Reuses = {TRUE}
  AutoReload = FALSE
  KeepHistory = FALSE
VIEW view
INVARIANT TypeOK
INVARIANT AllCurrent
INVARIANT Regenerated
INVARIANT ChangedOK
INVARIANT NoRedo
INVARIANT NoRedoPlot
INVARIANT SkippedUntouched
INVARIANT GroupRedone
CHECK_DEADLOCK FALSE
