SPECIFICATION Spec
CONSTANTS MaxOps = 1
  Tails = {"", "low"}
  MaxErr = 3
  GScales <- ScalesSmall
  Targets <- TargetsAll
  Patterns = {1, 2}
INVARIANT Emitted
CHECK_DEADLOCK FALSE
