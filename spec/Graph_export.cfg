SPECIFICATION Spec
CONSTANTS MaxOps = 1
  Tails = {"", "low"}
  MaxErr = 3
  GScales <- ScalesSmall
  Targets <- TargetsAll
  Share = FALSE
  Patterns = {1, 2}
PROPERTY ScaleExact
PROPERTY UnknownScaleRaises
PROPERTY GetScalePure
PROPERTY RoundTrip
PROPERTY TwinUntouched
INVARIANT Emitted
CHECK_DEADLOCK FALSE
