SPECIFICATION Spec
CONSTANTS MaxLen = 2 MaxN = 4 Infinite = FALSE MaxOut = 100
  Alphabet <- AlphaC01
  Pairs <- Both
INVARIANT OpEqDen
INVARIANT OutIsPrefix
INVARIANT EmptyIsIdentity
INVARIANT BadRejectedAtBuild
INVARIANT Regroup
INVARIANT NoWorkBeforeDemand
CHECK_DEADLOCK FALSE
