SPECIFICATION Spec
CONSTANTS
  KeyOrder <- KO2
  Ctxs <- CtxU
  Flows <- SingleFlows
  Calls <- CallsUnprintable
INVARIANT ContainsIsRef
INVARIANT ContainsAgreesWithGet
INVARIANT OnlyDocumentedExceptions
INVARIANT Emit
CHECK_DEADLOCK FALSE
