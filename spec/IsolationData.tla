---------------------------- MODULE IsolationData ----------------------------
(***************************************************************************)
(* C04, model A'': branch isolation of lena.core.Split / lena.flow.Zip     *)
(* (copy_buf = True) when the DATA of the flow values is a structure with  *)
(* an inside of its own - a lena histogram (numeric bins, (value, context) *)
(* bins as SplitIntoBins yields them, mutable list bins, 2-dimensional), a *)
(* graph with list columns, nested lists, a Context object - and the       *)
(* branches change that inside in place (see IsolationDataSem.tla).        *)
(*                                                                         *)
(* Operational part.  A heap of cells [k, a, r, m]:                        *)
(*   "C" container   a = attribute, r = <<id of its list of cells>>        *)
(*   "L" list        r = ids of the contents                               *)
(*   "I" content     a = value, m = its dictionary (context of the bin)    *)
(*   "D" context     m = the context of the flow value                     *)
(* A flow value is a VRef [o |-> container, c |-> context].                *)
(* copy.deepcopy(value) = fresh cells at EVERY level (CopyMode "deep", the *)
(* code).  What if the copy of the data object were weaker - TLC refutes   *)
(* Isolated for each:                                                      *)
(*   "slice"  the container and its (nested) list are new, the contents    *)
(*            are carried over by reference (a __deepcopy__ of the         *)
(*            structure that copies the bin lists by slices)               *)
(*   "top"    only the container object is new, the list is shared         *)
(*   "none"   no copy                                                      *)
(* With "slice" and numeric contents only, Isolated HOLDS (checked by      *)
(* IsolationData_slicenum.cfg): numeric flows cannot tell the difference.  *)
(* The machine follows Split.run (block of bufsize values; every branch    *)
(* but the last gets a deep copy of the block), Split._fill (every branch  *)
(* but the last gets a deep copy of the value) and Zip._fill (every branch *)
(* gets a copy); branches: "seq" run element, "store" fill/compute element *)
(* keeping the values, "fr" fill/request element.                          *)
(* Declarative part: IsolationDataSem!Alone.                               *)
(***************************************************************************)
EXTENDS IsolationDataSem, Json

CONSTANTS MaxBr, MaxN, BufSizes, Kinds, Templates, CopyMode

VARIABLES brs, N, bs, drv, rq, kind,     \* scenario
          M,                             \* heap
          src,                           \* the flow values as the producer created them (VRefs)
          pos, orig, ind,                \* values read, current block, index of the branch
          stored,                        \* per branch: VRefs kept
          out,                           \* yielded: [b, r |-> VRef, x |-> snapshot when yielded]
          phase
vars == <<brs, N, bs, drv, rq, kind, M, src, pos, orig, ind, stored, out, phase>>

(***************************************************************************)
(* Heap.                                                                   *)
(***************************************************************************)
Cell(k, a, r, m) == [k |-> k, a |-> a, r |-> r, m |-> m]
EmptyHeap == [h |-> <<>>, n |-> 1]
NewCell(Mm, cell) == [h |-> [i \in 1..Mm.n |-> IF i = Mm.n THEN cell ELSE Mm.h[i]], n |-> Mm.n + 1]
RECURSIVE AllocContents(_, _, _)
AllocContents(Mm, s, ids) ==
  IF s = <<>> THEN [M |-> Mm, ids |-> ids]
  ELSE AllocContents(NewCell(Mm, Cell("I", Head(s).v, <<>>, Head(s).m)), Tail(s), Append(ids, Mm.n))
AllocVal(Mm, x) ==
  LET r == AllocContents(Mm, x.s, <<>>)
      M1 == NewCell(r.M, Cell("L", 0, r.ids, <<>>))
      M2 == NewCell(M1, Cell("C", x.a, <<r.M.n>>, <<>>))
      M3 == NewCell(M2, Cell("D", 0, <<>>, x.c))
  IN [M |-> M3, v |-> [o |-> M1.n, c |-> M2.n]]
ListOf(h, v) == h[v.o].r[1]
Snap(h, v) == LET ids == h[ListOf(h, v)].r IN
              [a |-> h[v.o].a, s |-> [i \in 1..Len(ids) |-> [v |-> h[ids[i]].a, m |-> h[ids[i]].m]], c |-> h[v.c].m]
Reach(h, v) == {v.o, v.c, ListOf(h, v)} \cup {h[ListOf(h, v)].r[i] : i \in 1..Len(h[ListOf(h, v)].r)}
CopyVal(Mm, v) ==
  CASE CopyMode = "deep" -> AllocVal(Mm, Snap(Mm.h, v))
    [] CopyMode = "slice" ->
         LET M1 == NewCell(Mm, Cell("L", 0, Mm.h[ListOf(Mm.h, v)].r, <<>>))
             M2 == NewCell(M1, Cell("C", Mm.h[v.o].a, <<Mm.n>>, <<>>))
             M3 == NewCell(M2, Cell("D", 0, <<>>, Mm.h[v.c].m))
         IN [M |-> M3, v |-> [o |-> M1.n, c |-> M2.n]]
    [] CopyMode = "top" ->
         LET M1 == NewCell(Mm, Cell("C", Mm.h[v.o].a, Mm.h[v.o].r, <<>>))
             M2 == NewCell(M1, Cell("D", 0, <<>>, Mm.h[v.c].m))
         IN [M |-> M2, v |-> [o |-> Mm.n, c |-> M1.n]]
    [] OTHER -> [M |-> Mm, v |-> v]
RECURSIVE CopyAll(_, _)
CopyAll(Mm, vs) == IF vs = <<>> THEN [M |-> Mm, vs |-> <<>>]
                   ELSE LET r == CopyVal(Mm, Head(vs))
                            rest == CopyAll(r.M, Tail(vs))
                        IN [M |-> rest.M, vs |-> <<r.v>> \o rest.vs]
RECURSIVE AllocAll(_, _)
AllocAll(Mm, xs) == IF xs = <<>> THEN [M |-> Mm, vs |-> <<>>]
                    ELSE LET r == AllocVal(Mm, Head(xs))
                             rest == AllocAll(r.M, Tail(xs))
                         IN [M |-> rest.M, vs |-> <<r.v>> \o rest.vs]
\* the mutators on the heap
HApply(Mm, v, mu) ==
  LET lid == ListOf(Mm.h, v) IN
  CASE mu.t = "attr" -> [Mm EXCEPT !.h[v.o].a = mu.x]
    [] mu.t = "slot" -> LET M1 == NewCell(Mm, Cell("I", mu.x, <<>>, <<>>)) IN [M1 EXCEPT !.h[lid].r[mu.i] = Mm.n]
    [] mu.t = "val" -> [Mm EXCEPT !.h[Mm.h[lid].r[mu.i]].a = @ + mu.x]
    [] mu.t = "bctx" -> [Mm EXCEPT !.h[Mm.h[lid].r[mu.i]].m = Put(@, mu.key, mu.x)]
    [] mu.t = "ctx" -> [Mm EXCEPT !.h[v.c].m = Put(@, mu.key, mu.x)]
RECURSIVE HApplyAll(_, _, _)
HApplyAll(Mm, v, mus) == IF mus = <<>> THEN Mm ELSE HApplyAll(HApply(Mm, v, Head(mus)), v, Tail(mus))
RECURSIVE HApplyBuf(_, _, _)
HApplyBuf(Mm, vs, mus) == IF vs = <<>> THEN Mm ELSE HApplyBuf(HApplyAll(Mm, Head(vs), mus), Tail(vs), mus)

(***************************************************************************)
(* Machine.                                                                *)
(***************************************************************************)
RECURSIVE TSeqs(_, _)
TSeqs(T, n) == IF n = 0 THEN {<<>>}
               ELSE LET Pr == TSeqs(T, n - 1) IN Pr \cup {Append(p, a) : p \in {x \in Pr : Len(x) = n - 1}, a \in T}
BrLists(k) == TSeqs({t \in Templates : BranchAdmitted(k, t)}, MaxBr)
Init == /\ kind \in Kinds /\ brs \in BrLists(kind)
        /\ N \in 0..MaxN /\ bs \in BufSizes
        /\ drv \in {"run", "fill", "fillreq", "zip"} /\ rq \in {0, 1}
        /\ (drv = "run" => rq = 0)
        /\ (drv = "fill" => rq = 0 /\ bs = 1 /\ brs # <<>> /\ \A j \in 1..Len(brs) : brs[j].end = "store")
        /\ (drv = "fillreq" => bs = 1 /\ brs # <<>> /\ \A j \in 1..Len(brs) : brs[j].end = "fr")
        /\ (drv = "zip" => /\ bs = 1 /\ brs # <<>>
                           /\ \A j \in 1..Len(brs) : brs[j].end = brs[1].end
                           /\ (brs[1].end = "store" /\ rq = 0) \/ brs[1].end = "fr")
        /\ LET r == AllocAll(EmptyHeap, Flow(N, kind)) IN M = r.M /\ src = r.vs
        /\ pos = 0 /\ orig = <<>> /\ ind = 1
        /\ stored = [j \in 1..Len(brs) |-> <<>>] /\ out = <<>>
        /\ phase = IF brs = <<>> THEN "done" ELSE "read"

Entry(h, b, v) == [b |-> b, r |-> v, x |-> Snap(h, v)]
Entries(h, b, vs) == [j \in 1..Len(vs) |-> Entry(h, b, vs[j])]
Fixed == UNCHANGED <<brs, N, bs, drv, rq, kind, src>>

ReadBlock ==
  /\ phase = "read" /\ Fixed
  /\ LET k == IF bs = None THEN N - pos ELSE Min(bs, N - pos) IN
     IF k = 0 THEN /\ phase' = "final" /\ UNCHANGED <<pos, orig>>
     ELSE /\ orig' = SubSeq(src, pos + 1, pos + k) /\ pos' = pos + k /\ phase' = "branches"
  /\ ind' = 1 /\ UNCHANGED <<M, stored, out>>

\* Split.run: n_of_active_seqs - ind > 1; Split._fill: self._seqs[:-1]; Zip._fill: every branch
NeedsCopy == IF drv = "zip" THEN TRUE ELSE ind < Len(brs)
Buffer == IF NeedsCopy THEN CopyAll(M, orig) ELSE [M |-> M, vs |-> orig]
\* one branch is given the block
BranchStep ==
  /\ phase = "branches" /\ ind <= Len(brs) /\ Fixed
  /\ LET b == brs[ind]
         M2 == HApplyBuf(Buffer.M, Buffer.vs, b.muts)
         yields == b.end = "seq" \/ (b.end = "fr" /\ drv = "run")      \* Split.run requests after every block
     IN /\ M' = M2
        /\ IF yields THEN out' = out \o Entries(M2.h, ind, Buffer.vs) /\ UNCHANGED stored
           ELSE stored' = [stored EXCEPT ![ind] = @ \o Buffer.vs] /\ UNCHANGED out
  /\ ind' = ind + 1 /\ UNCHANGED <<pos, orig, phase>>

RECURSIVE FlushAll(_, _, _)
FlushAll(h, st, j) == IF j > Len(st) THEN <<>> ELSE Entries(h, j, st[j]) \o FlushAll(h, st, j + 1)
BlockDone ==
  /\ phase = "branches" /\ ind > Len(brs) /\ Fixed
  /\ IF drv \in {"fillreq", "zip"} /\ rq = 1
     THEN out' = out \o FlushAll(M.h, stored, 1) /\ stored' = [j \in 1..Len(brs) |-> <<>>]
     ELSE UNCHANGED <<out, stored>>
  /\ phase' = "read" /\ UNCHANGED <<M, pos, orig, ind>>
\* compute() / the last request() of every branch in order
Final ==
  /\ phase = "final" /\ Fixed
  /\ out' = out \o FlushAll(M.h, stored, 1)
  /\ phase' = "done" /\ UNCHANGED <<M, pos, orig, ind, stored>>

Next == ReadBlock \/ BranchStep \/ BlockDone \/ Final
Spec == Init /\ [][Next]_vars
Done == phase = "done"

(***************************************************************************)
(* Properties.                                                             *)
(***************************************************************************)
RECURSIVE Proj(_, _)
Proj(o, b) == IF o = <<>> THEN <<>> ELSE (IF Head(o).b = b THEN <<Head(o)>> ELSE <<>>) \o Proj(Tail(o), b)
WhenYielded(es) == [j \in 1..Len(es) |-> es[j].x]
AtEnd(es) == [j \in 1..Len(es) |-> Snap(M.h, es[j].r)]
\* each branch yields what it would yield alone on a private copy of the flow
Isolated == Done => \A b \in 1..Len(brs) :
               /\ WhenYielded(Proj(out, b)) = Alone(brs[b], Flow(N, kind))
               /\ AtEnd(Proj(out, b)) = Alone(brs[b], Flow(N, kind))
\* what has been yielded never changes afterwards
YieldedStable == \A j \in 1..Len(out) : Snap(M.h, out[j].r) = out[j].x
\* the objects held by different branches are disjoint at every level of the data
Held(b) == UNION {Reach(M.h, stored[b][j]) : j \in 1..Len(stored[b])}
HeldDisjoint == \A b1, b2 \in 1..Len(brs) : b1 # b2 => Held(b1) \cap Held(b2) = {}
YieldedDisjoint == \A j1, j2 \in 1..Len(out) : out[j1].b # out[j2].b => Reach(M.h, out[j1].r) \cap Reach(M.h, out[j2].r) = {}
\* the caller's values: changed by the last branch only (documented), never by Zip
SrcAfter == [j \in 1..Len(src) |-> Snap(M.h, src[j])]
SourceByLastOnly == (Done /\ brs # <<>>) => \A j \in 1..N :
   SrcAfter[j] = IF drv = "zip" THEN X(j, kind) ELSE PApplyAll(X(j, kind), brs[Len(brs)].muts)
Expected == [b \in 1..Len(brs) |-> Alone(brs[b], Flow(N, kind))]
Emitted == Done => PrintT(ToJson([brs |-> brs, N |-> N, bs |-> bs, drv |-> drv, rq |-> rq, kind |-> kind,
                                  exp |-> Expected, src |-> SrcAfter]))
=============================================================================
