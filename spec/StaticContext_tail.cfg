SPECIFICATION Spec
CONSTANTS MaxDepth = 3
  Families <- FamTail
  StoreByCopy = TRUE
  TailKeepsSets = FALSE
  SplitContinues = TRUE
INVARIANT SeenIsExpected
CHECK_DEADLOCK FALSE
