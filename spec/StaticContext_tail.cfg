SPECIFICATION Spec
CONSTANTS MaxDepth = 3
  Families <- FamTail
  StoreByCopy = TRUE
  TailKeepsSets = FALSE
  SplitContinues = TRUE
  SkipEmpty = TRUE
  SkipGetters = TRUE
  SplitCachesExport = FALSE
  SrcFRepass = TRUE
  MFRunCopies = TRUE
  AlterApplied = FALSE
INVARIANT SeenIsExpected
CHECK_DEADLOCK FALSE
