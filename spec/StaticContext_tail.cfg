SPECIFICATION Spec
CONSTANTS MaxTok = 5 MaxDepth = 3
  Leaves <- LeavesMin
  RootKinds <- SrcRoot
  StoreByCopy = TRUE
  TailKeepsSets = FALSE
INVARIANT SeenIsExpected
CHECK_DEADLOCK FALSE
