SPECIFICATION Spec
CONSTANTS MaxDepth = 3
  Families <- FamNoSkip
  StoreByCopy = TRUE
  TailKeepsSets = TRUE
  SplitContinues = TRUE
  SkipEmpty = FALSE
  SkipGetters = TRUE
  SplitCachesExport = FALSE
  SrcFRepass = FALSE
  MFRunCopies = TRUE
  AlterApplied = FALSE
INVARIANT SeenIsExpected
CHECK_DEADLOCK FALSE
