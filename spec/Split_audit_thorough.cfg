SPECIFICATION Spec
CONSTANTS MaxRuns = 1
  Scenarios <- ScAuditThorough
INVARIANT OpEqDen
INVARIANT InterBoth
INVARIANT InterStateless
INVARIANT AllActiveAtStart
INVARIANT BufBound
INVARIANT SrcOnlyOnEmpty
INVARIANT BufsizeIndependent
INVARIANT EmptySplitIdentity
INVARIANT EmptyFlowEachOnce
INVARIANT OnceOnly
INVARIANT FRAccount
CHECK_DEADLOCK FALSE
