SPECIFICATION Spec
CONSTANTS MaxLen = 3
  Pool <- Pool3
  Starts <- StartsAll
  Xs = {1, 2}
  Nested = FALSE
  Ys <- NoData
  Extra <- NoElems
  Variant = "doc"
  CopyVarContext = TRUE
  ExtendByCompose = FALSE
INVARIANT ComposeEqSeq
CHECK_DEADLOCK FALSE
