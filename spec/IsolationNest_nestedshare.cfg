SPECIFICATION Spec
CONSTANTS Ns = {0, 2} CopyMode = "nestedshare"
  BufSizes <- BufAll
  Classes <- DictOnly
  Family = "guard"
INVARIANT Isolated
CHECK_DEADLOCK FALSE
