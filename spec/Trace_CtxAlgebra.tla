-------------------------- MODULE Trace_CtxAlgebra --------------------------
(***************************************************************************)
(* Validation of calls recorded from the real lena.context functions       *)
(* (seeded random dictionaries beyond the exhaustive bounds, and the calls *)
(* made by the repository's own test-suite) against CtxValue.tla.          *)
(* One record per call:                                                    *)
(*   [op, lv, key, args (as passed), res (returned), post (args after)]    *)
(* op = "recon": res is what update_recursively(intersection(d1, d2, lv),  *)
(* difference(d1, d2, lv)) left in its first argument.                     *)
(***************************************************************************)
EXTENDS CtxValue, TLC, Json, IOUtils

Trace == JsonDeserialize(IOEnv.TRACE_FILE)
VARIABLE i
PostSame(r) == /\ Len(r.post) = Len(r.args)
               /\ \A j \in 1..Len(r.args) : Eq(r.post[j], r.args[j])
Ok(r) ==
  CASE r.op = "inter"  -> Eq(r.res, InterN(r.args, r.lv)) /\ PostSame(r)
    [] r.op = "diff"   -> Eq(r.res, Diff(r.args[1], r.args[2], r.lv)) /\ PostSame(r)
    [] r.op = "recon"  -> /\ Eq(r.res, UpdRec(InterN(r.args, r.lv), Diff(r.args[1], r.args[2], r.lv)))
                          /\ Eq(r.res, r.args[1])
                          /\ PostSame(r)
    [] r.op = "updrec" -> Eq(r.post[1], UpdRec(r.args[1], r.args[2]))
    [] r.op = "nested" -> ChainOk(r.args[2], r.key) =>
                            Eq(r.post[1], NestedD(r.key, r.args[1], r.args[2]))
Init == i = 1
Next == i <= Len(Trace) /\ Ok(Trace[i]) /\ i' = i + 1
Spec == Init /\ [][Next]_i
Accepted == /\ PrintT(<<"ACCEPTED", TLCGet("stats").diameter - 1>>)
            /\ TLCGet("stats").diameter - 1 = Len(Trace)
=============================================================================
