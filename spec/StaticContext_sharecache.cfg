SPECIFICATION Spec
CONSTANTS MaxDepth = 3
  Families <- FamShareCache
  StoreByCopy = TRUE
  TailKeepsSets = TRUE
  SplitContinues = TRUE
  SkipEmpty = TRUE
  SkipGetters = FALSE
  SplitCachesExport = FALSE
  SrcFRepass = TRUE
  MFRunCopies = TRUE
  AlterApplied = FALSE
INVARIANT SeenIsExpected
INVARIANT PrefixOnly
INVARIANT SiblingIndependent
INVARIANT RootExpected
INVARIANT NoLeakToRuntime
INVARIANT Repeatable
PROPERTY Causal
PROPERTY PeekIsPure
PROPERTY RunKeepsStatic
CHECK_DEADLOCK FALSE
