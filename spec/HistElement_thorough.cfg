SPECIFICATION Spec
CONSTANTS MaxOps = 6
  EdgeChoices <- EdgesEl
  InitVars = {"plain", "bins", "make", "iv"}
VIEW view
INVARIANT TypeOK
INVARIANT Conservation
PROPERTY StepOK
CHECK_DEADLOCK FALSE
