SPECIFICATION Spec
CONSTANTS Ns = {0, 2} CopyMode = "none"
  BufSizes <- BufAll
  Classes <- DictOnly
  Family = "guard"
INVARIANT Isolated
CHECK_DEADLOCK FALSE
