SPECIFICATION Spec
CONSTANTS MaxLen = 4 Classes <- QuickClasses CopyOnCompute = "each"
INVARIANT Fresh
INVARIANT NotTheStored
INVARIANT ResultsStable
INVARIANT SourceIntact
INVARIANT YieldsLast
INVARIANT ConfigIntact
PROPERTY MutateIsLocal
INVARIANT Emitted
CHECK_DEADLOCK FALSE
