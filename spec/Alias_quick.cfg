SPECIFICATION Spec
CONSTANTS MaxLen = 4 CopyOnCompute = "each"
INVARIANT Fresh
INVARIANT NotTheStored
INVARIANT ResultsStable
INVARIANT SourceIntact
INVARIANT YieldsLast
PROPERTY MutateIsLocal
INVARIANT Emitted
CHECK_DEADLOCK FALSE
