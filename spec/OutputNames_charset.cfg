SPECIFICATION Spec
CONSTANTS
  StripMode = "charset"
  TailLen = 1
  Rotate = TRUE
INVARIANT Named
INVARIANT Where
INVARIANT YieldedNamesLast
INVARIANT Distinct
INVARIANT StatedDistinct
INVARIANT ScenarioOK

CHECK_DEADLOCK FALSE
