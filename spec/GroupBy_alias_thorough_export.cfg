SPECIFICATION Spec
CONSTANTS PairSrc = "filesmall" CtxU = "ops4" MaxFlow = 4 KeyU = "six" Writ = "ends" NObj = 1
INVARIANT EmitFlow
CHECK_DEADLOCK FALSE
