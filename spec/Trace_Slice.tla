---------------------------- MODULE Trace_Slice ----------------------------
(***************************************************************************)
(* Validation of behaviour recorded from the real lena.flow.Slice against  *)
(* the reference of SliceRef.tla.  One record per step:                    *)
(*   [a, b, s (-1000 = None), n, out]            run over range(n)         *)
(*   [a, b, s, n, filled, stop (-1000 = never)]  fill_into route           *)
(***************************************************************************)
EXTENDS SliceRef, TLC, Json, IOUtils

Trace == JsonDeserialize(IOEnv.TRACE_FILE)
VARIABLE i
StepOfS(s) == IF s = None THEN 1 ELSE s
Selected(r, j) == LET lo == IF r.a = None THEN 0 ELSE r.a IN
                  j >= lo /\ (r.b = None \/ j < r.b) /\ (j - lo) % StepOfS(r.s) = 0
RunOk(r) == r.out = PySlice(r.n, r.a, r.b, r.s)
FillOk(r) == /\ r.filled = PySlice(IF r.stop = None THEN r.n ELSE r.stop, r.a, r.b, r.s)
             \* LenaStopFill only when no later value could be selected
             /\ r.stop # None => \A j \in r.stop..(r.stop + 60) : ~Selected(r, j)
Ok(r) == IF r.op = "run" THEN RunOk(r) ELSE FillOk(r)
Init == i = 1
Next == i <= Len(Trace) /\ Ok(Trace[i]) /\ i' = i + 1
Spec == Init /\ [][Next]_i
Accepted == /\ PrintT(<<"ACCEPTED", TLCGet("stats").diameter - 1>>)
            /\ TLCGet("stats").diameter - 1 = Len(Trace)
=============================================================================
