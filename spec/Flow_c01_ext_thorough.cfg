SPECIFICATION Spec
CONSTANTS MaxLen = 2 MaxN = 6 Infinite = FALSE MaxOut = 100
  Vals = "nat" Stops = FALSE MaxRuns = 1 MaxLead = 2
  Alphabet <- AlphaC01Ext
  Must <- ExtC01
  Pairs <- Both
INVARIANT OpEqDen
INVARIANT OutIsPrefix
INVARIANT EmptyIsIdentity
INVARIANT BadRejectedAtBuild
INVARIANT Regroup
INVARIANT NoWorkBeforeDemand
INVARIANT NoDataInvisible
INVARIANT SliceIsPySlice
INVARIANT Buffers
INVARIANT LeadUntouched
CHECK_DEADLOCK FALSE
