SPECIFICATION Spec
CONSTANTS MaxOps = 2
  Tails = {"", "low", "high"}
  MaxErr = 3
  GScales <- ScalesAll
  Targets <- TargetsAll
  Share = FALSE
  Patterns = {1, 2}
VIEW view
PROPERTY ScaleExact
PROPERTY UnknownScaleRaises
PROPERTY GetScalePure
PROPERTY RoundTrip
PROPERTY TwinUntouched
CHECK_DEADLOCK FALSE
