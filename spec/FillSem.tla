------------------------------- MODULE FillSem -------------------------------
(***************************************************************************)
(* Fill-driven analysis chains  pre* acc post*: accumulators, the          *)
(* declarative meaning ChainSem (from FlowSem.Sem) and the fill side of    *)
(* the pre elements as step functions.  No constants or variables: shared  *)
(* by FillSeq.tla (the three driver machines) and Trace_FillSeq.tla.       *)
(***************************************************************************)
EXTENDS FlowSem

(***************************************************************************)
(* Accumulators.                                                           *)
(*   sum     lena.math.Sum     last   user element keeping the last value  *)
(*   store1  lena.flow.StoreFilled(yield_as_a_group=False)                 *)
(*   cnt     user element counting its fills                               *)
(*   sumrun  subclass of Sum with a data attribute named run               *)
(***************************************************************************)
AccInit(a) == CASE a \in {"sum", "sumrun"} -> [tot |-> 0, c |-> {}]
                [] a = "last" -> [has |-> FALSE, prev |-> Val(0, {}, FALSE)]
                [] a = "store1" -> [vs |-> <<>>]
                [] a = "cnt" -> [n |-> 0]
AccFill(a, loc, v) == CASE a \in {"sum", "sumrun"} -> [tot |-> loc.tot + v.d, c |-> v.c]
                        [] a = "last" -> [has |-> TRUE, prev |-> v]
                        [] a = "store1" -> [vs |-> Append(loc.vs, v)]
                        [] a = "cnt" -> [n |-> loc.n + 1]
AccCompute(a, loc) == CASE a \in {"sum", "sumrun"} -> <<SumVal(loc.tot, loc.c)>>
                        [] a = "last" -> IF loc.has THEN <<loc.prev>> ELSE <<>>
                        [] a = "store1" -> loc.vs
                        [] a = "cnt" -> <<Val(loc.n, {}, FALSE)>>
RECURSIVE AccFillAll(_, _, _)
AccFillAll(a, loc, vs) == IF vs = <<>> THEN loc ELSE AccFillAll(a, AccFill(a, loc, Head(vs)), Tail(vs))

(***************************************************************************)
(* Declarative semantics: the accumulator receives what the pre elements   *)
(* let through (as a pipeline), its results pass through post.             *)
(***************************************************************************)
\* Context-dependent selectors (outside the FlowSem vocabulary): Filter("<key>") / Filter(callable reading the
\* context) and RunIf("<key>", f) select the values whose context has the key; a bare value has no context.
\* form ("str" | "fn") only tells the harness how to write the selector.
\* Variable("x", f, <attr>="2023A"): a Variable that carries a data attribute named like an element method
VarAttr(a) == [t |-> "map", f |-> "var", attr |-> a]
CFilter(k, form) == [t |-> "cfilter", k |-> k, form |-> form]
CRunIf(k, f) == [t |-> "crunif", k |-> k, f |-> f]
HasKey(k, v) == k \in v.c
\* RunIf("<key>", D) where the run element D yields every value it gets and then that value + 1: an element
\* that yields several values for one
RunIfDup(k) == [t |-> "runifdup", k |-> k]
Dup(st, v) == IF HasKey(st.k, v) THEN <<v, ApplyMap("inc", v)>> ELSE <<v>>
\* RunIf(select, *inner) with an inner sequence whose result depends on the flow it is run on (Slice, Reverse,
\* Slice(-1), ...).  Documented meaning ("it feeds values to the sequence one by one"): the inner sequence is run on
\* each selected value separately, i.e. on the one-value flow [v] - on the run side and on the fill side alike.
RunIfSeq(p, inner) == [t |-> "runifseq", p |-> p, inner |-> inner]
InnerRun(st, v) == IF Pred(st.p, v) THEN Sem(st.inner, <<v>>) ELSE <<v>>
\* Filter with a composed selector: Not(..), tuples (and), lists (or), Selector(pred, raise_on_error=False) around a
\* predicate that raises for data >= 2 and selects data = 1.  The run side and the fill side use the same selector.
SFilter(s) == [t |-> "sfilter", s |-> s]
Raises(v) == v.d >= 2
SelSem(s, v) ==
  CASE s = "not_even" -> ~(v.d % 2 = 0)                           \* Not(is_even)
    [] s = "and_even_lt2" -> v.d % 2 = 0 /\ v.d < 2                \* (is_even, is_lt2)
    [] s = "or_even_lt2" -> v.d % 2 = 0 \/ v.d < 2                 \* [is_even, is_lt2]
    [] s = "not_or" -> ~(v.d % 2 = 0 \/ v.d < 2)                   \* Not([is_even, is_lt2])
    [] s = "and_not" -> ~(v.d % 2 = 0) /\ v.d < 2                  \* (Not(is_even), is_lt2)
    [] s = "roe" -> ~Raises(v) /\ v.d = 1                          \* an error counts as "not selected"
    [] s = "not_roe" -> ~(~Raises(v) /\ v.d = 1)                   \* Not(.., raise_on_error=False): full negation
\* a callable that returns None (or a bare 0) for some values: a callable is not a filter, whatever it returns is
\* passed on / filled.  None is the value NoneVal.
NoneVal == Val(-7, {}, FALSE)
NMap(f) == [t |-> "nmap", f |-> f]
ApplyN(f, v) == CASE f = "none_odd" -> IF v.d % 2 = 1 THEN NoneVal ELSE v
                  [] f = "none_all" -> NoneVal
                  [] f = "zero_odd" -> IF v.d % 2 = 1 THEN Val(0, {}, FALSE) ELSE v
\* chains in which None only meets elements that take any value
Tolerant(st) == st.t \in {"slice", "cfilter"}
MakesNone(st) == st.t = "nmap" /\ st.f \in {"none_odd", "none_all"}
WellTyped(ch) ==
  \A i \in 1..Len(ch.pre) : MakesNone(ch.pre[i]) =>
     /\ \A j \in (i + 1)..Len(ch.pre) : Tolerant(ch.pre[j])
     /\ ch.acc \in {"store1", "last", "cnt"}
     /\ \A j \in 1..Len(ch.post) : Tolerant(ch.post[j])
\* post elements that keep nothing between two runs (compute() may then be called again)
Stateless(post) == \A i \in 1..Len(post) : post[i].t \in {"map", "filter", "slice", "runif", "cfilter", "crunif", "runifdup", "runifseq", "sfilter", "nmap"}
OnHave2(st, loc, v) ==
  CASE st.t = "cfilter" -> [loc |-> loc, em |-> IF HasKey(st.k, v) THEN <<v>> ELSE <<>>]
    [] st.t = "crunif" -> [loc |-> loc, em |-> IF HasKey(st.k, v)
                                                THEN (IF st.f = "drop" THEN <<>> ELSE <<ApplyMap(st.f, v)>>)
                                                ELSE <<v>>]
    [] st.t = "runifdup" -> [loc |-> loc, em |-> Dup(st, v)]
    [] st.t = "runifseq" -> [loc |-> loc, em |-> InnerRun(st, v)]
    [] st.t = "sfilter" -> [loc |-> loc, em |-> IF SelSem(st.s, v) THEN <<v>> ELSE <<>>]
    [] st.t = "nmap" -> [loc |-> loc, em |-> <<ApplyN(st.f, v)>>]
    [] OTHER -> OnHave(st, loc, v)
\* FlowSem.Sem over the extended vocabulary
RECURSIVE StageRun2(_, _, _, _)
StageRun2(st, loc, xs, eof) ==
  IF EarlyDone(st, loc) THEN [out |-> <<>>, fin |-> TRUE]
  ELSE IF xs = <<>> THEN (IF eof THEN [out |-> OnEof(st, loc), fin |-> TRUE] ELSE [out |-> <<>>, fin |-> FALSE])
  ELSE LET r == OnHave2(st, loc, Head(xs))
           rest == StageRun2(st, r.loc, Tail(xs), eof)
       IN [out |-> r.em \o rest.out, fin |-> rest.fin]
RECURSIVE PipeRun2(_, _, _)
PipeRun2(prog, xs, eof) ==
  IF prog = <<>> THEN [out |-> xs, fin |-> eof]
  ELSE LET r == StageRun2(Head(prog), InitLoc(Head(prog)), xs, eof) IN PipeRun2(Tail(prog), r.out, r.fin)
Sem2(prog, xs) == PipeRun2(prog, xs, TRUE).out

Reach(ch, xs) == Sem2(ch.pre, xs)
ChainSem(ch, xs) == Sem2(ch.post, AccCompute(ch.acc, AccFillAll(ch.acc, AccInit(ch.acc), Reach(ch, xs))))
\* flows: "bare" data, "pairs" (data, {}) and "ctx": pairs whose contexts differ (odd values carry the key "odd")
FlowOf(n, fk) == [j \in 1..n |-> CASE fk = "bare" -> Val(j - 1, {}, FALSE)
                                    [] fk = "pairs" -> Val(j - 1, {}, TRUE)
                                    [] fk = "ctx" -> Val(j - 1, IF (j - 1) % 2 = 1 THEN {"odd"} ELSE {}, TRUE)]

(***************************************************************************)
(* Fill side of one pre element: [loc, em, stop].                          *)
(***************************************************************************)
FillLoc(st) == IF st.t = "slice" THEN [idx |-> 0, nxt |-> -1] ELSE [z |-> 0]
\* smallest index selected by Slice(a, b, s) that is greater than j; None if there is none
NextIdx(st, j) ==
  LET cand == IF j < st.a THEN st.a ELSE j + st.s - ((j - st.a) % st.s)
  IN IF st.b # None /\ cand >= st.b THEN None ELSE cand
FillIntoStep(st, loc, v) ==
  CASE st.t = "map" -> [loc |-> loc, em |-> <<ApplyMap(st.f, v)>>, stop |-> FALSE]
    [] st.t = "filter" -> [loc |-> loc, em |-> IF Pred(st.p, v) THEN <<v>> ELSE <<>>, stop |-> FALSE]
    [] st.t = "runif" -> [loc |-> loc, stop |-> FALSE,
                          em |-> IF Pred(st.p, v) THEN (IF st.f = "drop" THEN <<>> ELSE <<ApplyMap(st.f, v)>>) ELSE <<v>>]
    [] st.t = "runifdup" -> [loc |-> loc, em |-> Dup(st, v), stop |-> FALSE]
    [] st.t = "runifseq" -> [loc |-> loc, em |-> InnerRun(st, v), stop |-> FALSE]
    [] st.t = "sfilter" -> [loc |-> loc, em |-> IF SelSem(st.s, v) THEN <<v>> ELSE <<>>, stop |-> FALSE]
    [] st.t = "nmap" -> [loc |-> loc, em |-> <<ApplyN(st.f, v)>>, stop |-> FALSE]
    [] st.t = "cfilter" -> [loc |-> loc, em |-> IF HasKey(st.k, v) THEN <<v>> ELSE <<>>, stop |-> FALSE]
    [] st.t = "crunif" -> [loc |-> loc, stop |-> FALSE,
                           em |-> IF HasKey(st.k, v) THEN (IF st.f = "drop" THEN <<>> ELSE <<ApplyMap(st.f, v)>>) ELSE <<v>>]
    [] st.t = "slice" ->
         LET nn == IF loc.idx > loc.nxt THEN NextIdx(st, loc.nxt) ELSE loc.nxt IN
         IF nn = None THEN [loc |-> loc, em |-> <<>>, stop |-> TRUE]
         ELSE [loc |-> [idx |-> loc.idx + 1, nxt |-> nn], em |-> IF loc.idx = nn THEN <<v>> ELSE <<>>, stop |-> FALSE]

\* fill the values vs into the chain from element i on: [locs, reach, stop]
RECURSIVE FillVals(_, _, _, _)
FillVals(pre, locs, i, vs) ==
  IF vs = <<>> THEN [locs |-> locs, reach |-> <<>>, stop |-> FALSE]
  ELSE IF i > Len(pre) THEN [locs |-> locs, reach |-> vs, stop |-> FALSE]
  ELSE LET r == FillIntoStep(pre[i], locs[i], Head(vs)) IN
       IF r.stop THEN [locs |-> locs, reach |-> <<>>, stop |-> TRUE]
       ELSE LET down == FillVals(pre, [locs EXCEPT ![i] = r.loc], i + 1, r.em) IN
            IF down.stop THEN down
            ELSE LET rest == FillVals(pre, down.locs, i, Tail(vs)) IN
                 [locs |-> rest.locs, reach |-> down.reach \o rest.reach, stop |-> rest.stop]

\* run side, pushed: a stage that is done (islice exhausted) lets nothing through
RECURSIVE FeedVals(_, _, _, _)
FeedVals(pre, locs, i, vs) ==
  IF vs = <<>> THEN [locs |-> locs, reach |-> <<>>]
  ELSE IF i > Len(pre) THEN [locs |-> locs, reach |-> vs]
  ELSE IF EarlyDone(pre[i], locs[i]) THEN [locs |-> locs, reach |-> <<>>]
  ELSE LET r == OnHave2(pre[i], locs[i], Head(vs))
           down == FeedVals(pre, [locs EXCEPT ![i] = r.loc], i + 1, r.em)
           rest == FeedVals(pre, down.locs, i, Tail(vs))
       IN [locs |-> rest.locs, reach |-> down.reach \o rest.reach]

IsPrefix(a, b) == Len(a) <= Len(b) /\ a = SubSeq(b, 1, Len(a))
Min(a, b) == IF a < b THEN a ELSE b
=============================================================================
