------------------------------- MODULE FillSem -------------------------------
(***************************************************************************)
(* Fill-driven analysis chains  pre* acc post*: accumulators, the          *)
(* declarative meaning ChainSem (from FlowSem.Sem) and the fill side of    *)
(* the pre elements as step functions.  No constants or variables: shared  *)
(* by FillSeq.tla (the three driver machines) and Trace_FillSeq.tla.       *)
(***************************************************************************)
EXTENDS FlowSem

(***************************************************************************)
(* Values.  FlowSem abstracts a context to the set of its top-level keys.  *)
(* Here a value carries in addition the CONTENT of context.variable:       *)
(*   vc = [name, type ("" = none), compose (list of types, <<>> = absent), *)
(*         kept (the descriptions stored under a type: {[t, n]})]          *)
(* so that what a Variable / Compose writes below the top level (and what  *)
(* a later Variable makes of it) is part of every result.  NoVC: the       *)
(* context has no key "variable".                                          *)
(***************************************************************************)
NoVC == [name |-> "", type |-> "", compose |-> <<>>, kept |-> {}]
VcOf(v) == IF "vc" \in DOMAIN v THEN v.vc ELSE NoVC
V4(v) == [d |-> v.d, c |-> v.c, h |-> v.h, vc |-> VcOf(v)]
V4s(vs) == [j \in 1..Len(vs) |-> V4(vs[j])]
Val4(d, c, h, vc) == [d |-> d, c |-> c, h |-> h, vc |-> vc]
SumVal2(tot, c, vc) == Val4(tot, c, c # {}, vc)

(***************************************************************************)
(* Variables (lena/variables/variable.py).  A variable is [n, ty, g]: its  *)
(* name, type ("" = none) and getter.  Stage TVar(<<x>>) is Variable(x.n,  *)
(* getter, type=x.ty); TVar(<<x1, .., xk>>), k >= 2, is Compose(x1, .., xk)*)
(* Documented meaning: the data is transformed by the getter(s);           *)
(* context.variable becomes the description of this variable; if the       *)
(* previous context.variable had a type, the types applied so far are kept *)
(* in "compose" (application order) and the description stored under each  *)
(* earlier type is preserved; "composition of variables corresponds to     *)
(* those variables in a sequence".  Each value gets its OWN copy of the    *)
(* description: what is done to the context of one value is never seen in  *)
(* the context of another one, whichever method of the variable (or        *)
(* adapter around it) the driver uses.                                     *)
(***************************************************************************)
VarD(n, ty, g) == [n |-> n, ty |-> ty, g |-> g]
TVar(vars) == [t |-> "tvar", vars |-> vars]
GetD(g, d) == CASE g = "dbl" -> 2 * d [] g = "inc" -> d + 1 [] g = "add10" -> d + 10 [] OTHER -> d
VarVC(x) == [name |-> x.n, type |-> x.ty, compose |-> <<>>,
             kept |-> IF x.ty = "" THEN {} ELSE {[t |-> x.ty, n |-> x.n]}]
RangeOf(sq) == {sq[j] : j \in 1..Len(sq)}
\* context.variable = old is updated with the description new
UpdateVC(old, new) ==
  IF old.type = "" THEN new
  ELSE LET base == IF old.compose # <<>> THEN old.compose ELSE <<old.type>>
           composed == base \o (IF new.compose # <<>> THEN new.compose
                                ELSE IF new.type # "" THEN <<new.type>> ELSE <<>>)
       IN [new EXCEPT !.compose = composed,
                      !.kept = @ \cup {k \in old.kept : k.t \in RangeOf(composed) /\ \A k2 \in new.kept : k2.t # k.t}]
RECURSIVE FoldVC(_, _)
FoldVC(acc, vars) == IF vars = <<>> THEN acc ELSE FoldVC(UpdateVC(acc, VarVC(Head(vars))), Tail(vars))
StageVC(vars) == FoldVC(VarVC(Head(vars)), Tail(vars))       \* var_context of Variable / Compose
RECURSIVE GetAll(_, _)
GetAll(vars, d) == IF vars = <<>> THEN d ELSE GetAll(Tail(vars), GetD(Head(vars).g, d))
ApplyTVar(vars, v) == Val4(GetAll(vars, v.d), v.c \cup {"variable"}, TRUE, UpdateVC(VcOf(v), StageVC(vars)))
\* the variables of the FlowSem vocabulary, Variable("x", +10[, <attr>="2023A"]), have no type
PlainX == <<VarD("x", "", "add10")>>

(***************************************************************************)
(* Elements with several, conflicting interfaces and explicit adapters.    *)
(* Amb(f): a user element whose __call__ (or method m) applies f, whose    *)
(* run yields nothing and whose fill_into fills the value unchanged; used  *)
(* as a pre / post element through the adapter lena.core.Call:             *)
(*   WMap(f, "call")   Call(Amb(f))          WMap(f, "m")  Call(Amb(f), call="m")  *)
(* Documented meaning: the wrapped method, whatever else the element has   *)
(* ("adapters hide unused methods to prevent ambiguity").  The stage       *)
(* record also says which interface each driver binds (rb: Sequence -> Run,*)
(* fb: FillSeq -> FillInto; filled in by FillSeq.tla from AdapterTable).   *)
(***************************************************************************)
WMapB(f, w, rb, fb) == [t |-> "wmap", f |-> f, w |-> w, rb |-> rb, fb |-> fb]
\* what an Amb element does when it is used through the interface named by the binding
AmbMeaning(st, b, v) == CASE b \in {"call_per_value", "fill_call"} -> <<ApplyMap(st.f, v)>>
                          [] b = "method:run" -> <<>>
                          [] b = "method:fill_into" -> <<v>>
                          [] OTHER -> <<>>

(***************************************************************************)
(* Accumulators.                                                           *)
(*   sum     lena.math.Sum     last   user element keeping the last value  *)
(*   store1  lena.flow.StoreFilled(yield_as_a_group=False)                 *)
(*   cnt     user element counting its fills                               *)
(*   sumrun  subclass of Sum with a data attribute named run               *)
(* accumulators that have other interfaces as well, wrapped into the       *)
(* adapter lena.core.FillCompute:                                          *)
(*   fc_sum    FillCompute(Sum())                                          *)
(*   fc_count  FillCompute(lena.flow.Count()): Count has run (passes the   *)
(*             values on), fill_into, fill and compute (yields the count   *)
(*             with the context of the last value and the key "count")     *)
(*   fc_amb    FillCompute(A): A counts its fills; its run passes the      *)
(*             values on, it is callable and has fill_into and request     *)
(*   fc_named  FillCompute(A', fill="put", compute="take"): A' counts in   *)
(*             put / take; its fill, compute, run mean something else      *)
(***************************************************************************)
Wrapped == {"fc_sum", "fc_count", "fc_amb", "fc_named"}
AccInit(a) == CASE a \in {"sum", "sumrun", "fc_sum"} -> [tot |-> 0, c |-> {}, vc |-> NoVC]
                [] a = "last" -> [has |-> FALSE, prev |-> Val4(0, {}, FALSE, NoVC)]
                [] a = "store1" -> [vs |-> <<>>]
                [] a \in {"cnt", "fc_amb", "fc_named"} -> [n |-> 0]
                [] a = "fc_count" -> [n |-> 0, c |-> {}, vc |-> NoVC]
AccFill(a, loc, v) == CASE a \in {"sum", "sumrun", "fc_sum"} -> [tot |-> loc.tot + v.d, c |-> v.c, vc |-> VcOf(v)]
                        [] a = "last" -> [has |-> TRUE, prev |-> v]
                        [] a = "store1" -> [vs |-> Append(loc.vs, v)]
                        [] a \in {"cnt", "fc_amb", "fc_named"} -> [n |-> loc.n + 1]
                        [] a = "fc_count" -> [n |-> loc.n + 1, c |-> v.c, vc |-> VcOf(v)]
AccCompute(a, loc) == CASE a \in {"sum", "sumrun", "fc_sum"} -> <<SumVal2(loc.tot, loc.c, loc.vc)>>
                        [] a = "last" -> IF loc.has THEN <<loc.prev>> ELSE <<>>
                        [] a = "store1" -> loc.vs
                        [] a \in {"cnt", "fc_amb", "fc_named"} -> <<Val4(loc.n, {}, FALSE, NoVC)>>
                        [] a = "fc_count" -> <<Val4(loc.n, (loc.c \ CountMarks) \cup {CountMark(loc.n)}, TRUE, loc.vc)>>
\* the run method of the element inside the adapter (NOT what the adapter stands for): Count.run, A.run
AccOwnRun(a, vs) == IF a = "fc_count" THEN V4s(Sem(<<Count>>, vs)) ELSE vs
RECURSIVE AccFillAll(_, _, _)
AccFillAll(a, loc, vs) == IF vs = <<>> THEN loc ELSE AccFillAll(a, AccFill(a, loc, Head(vs)), Tail(vs))

(***************************************************************************)
(* Declarative semantics: the accumulator receives what the pre elements   *)
(* let through (as a pipeline), its results pass through post.             *)
(***************************************************************************)
\* Context-dependent selectors (outside the FlowSem vocabulary): Filter("<key>") / Filter(callable reading the
\* context) and RunIf("<key>", f) select the values whose context has the key; a bare value has no context.
\* form ("str" | "fn") only tells the harness how to write the selector.
\* Variable("x", f, <attr>="2023A"): a Variable that carries a data attribute named like an element method
VarAttr(a) == [t |-> "map", f |-> "var", attr |-> a]
CFilter(k, form) == [t |-> "cfilter", k |-> k, form |-> form]
CRunIf(k, f) == [t |-> "crunif", k |-> k, f |-> f]
HasKey(k, v) == k \in v.c
\* RunIf("<key>", D) where the run element D yields every value it gets and then that value + 1: an element
\* that yields several values for one
RunIfDup(k) == [t |-> "runifdup", k |-> k]
Dup(st, v) == IF HasKey(st.k, v) THEN <<v, ApplyMap("inc", v)>> ELSE <<v>>
\* RunIf(select, *inner) with an inner sequence whose result depends on the flow it is run on (Slice, Reverse,
\* Slice(-1), ...).  Documented meaning ("it feeds values to the sequence one by one"): the inner sequence is run on
\* each selected value separately, i.e. on the one-value flow [v] - on the run side and on the fill side alike.
RunIfSeq(p, inner) == [t |-> "runifseq", p |-> p, inner |-> inner]
InnerRun(st, v) == IF Pred(st.p, v) THEN Sem(st.inner, <<v>>) ELSE <<v>>
\* Filter with a composed selector: Not(..), tuples (and), lists (or), Selector(pred, raise_on_error=False) around a
\* predicate that raises for data >= 2 and selects data = 1.  The run side and the fill side use the same selector.
SFilter(s) == [t |-> "sfilter", s |-> s]
Raises(v) == v.d >= 2
SelSem(s, v) ==
  CASE s = "not_even" -> ~(v.d % 2 = 0)                           \* Not(is_even)
    [] s = "and_even_lt2" -> v.d % 2 = 0 /\ v.d < 2                \* (is_even, is_lt2)
    [] s = "or_even_lt2" -> v.d % 2 = 0 \/ v.d < 2                 \* [is_even, is_lt2]
    [] s = "not_or" -> ~(v.d % 2 = 0 \/ v.d < 2)                   \* Not([is_even, is_lt2])
    [] s = "and_not" -> ~(v.d % 2 = 0) /\ v.d < 2                  \* (Not(is_even), is_lt2)
    [] s = "roe" -> ~Raises(v) /\ v.d = 1                          \* an error counts as "not selected"
    [] s = "not_roe" -> ~(~Raises(v) /\ v.d = 1)                   \* Not(.., raise_on_error=False): full negation
\* a callable that returns None (or a bare 0) for some values: a callable is not a filter, whatever it returns is
\* passed on / filled.  None is the value NoneVal.
NoneVal == Val4(-7, {}, FALSE, NoVC)
NMap(f) == [t |-> "nmap", f |-> f]
ApplyN(f, v) == CASE f = "none_odd" -> IF v.d % 2 = 1 THEN NoneVal ELSE v
                  [] f = "none_all" -> NoneVal
                  [] f = "zero_odd" -> IF v.d % 2 = 1 THEN Val4(0, {}, FALSE, NoVC) ELSE v
\* chains in which None only meets elements that take any value
Tolerant(st) == st.t \in {"slice", "cfilter"}
MakesNone(st) == st.t = "nmap" /\ st.f \in {"none_odd", "none_all"}
WellTyped(ch) ==
  \A i \in 1..Len(ch.pre) : MakesNone(ch.pre[i]) =>
     /\ \A j \in (i + 1)..Len(ch.pre) : Tolerant(ch.pre[j])
     /\ ch.acc \in {"store1", "last", "cnt"}
     /\ \A j \in 1..Len(ch.post) : Tolerant(ch.post[j])
\* post elements that keep nothing between two runs (compute() may then be called again)
Stateless(post) == \A i \in 1..Len(post) : post[i].t \in {"map", "filter", "slice", "runif", "cfilter", "crunif", "runifdup", "runifseq", "sfilter", "nmap", "wmap"}
\* a Variable changes the context of the value it is given in place, and a store yields the very values it holds:
\* a second compute() would hand the variables after the accumulator what they have already changed.  Chains with
\* typed variables are computed once.
HasTVar(sq) == \E i \in 1..Len(sq) : sq[i].t = "tvar"
Recomputable(ch) == Stateless(ch.post) /\ ~HasTVar(ch.pre) /\ ~HasTVar(ch.post)
OnHave2(st, loc, v) ==
  CASE st.t = "cfilter" -> [loc |-> loc, em |-> IF HasKey(st.k, v) THEN <<v>> ELSE <<>>]
    [] st.t = "crunif" -> [loc |-> loc, em |-> IF HasKey(st.k, v)
                                                THEN (IF st.f = "drop" THEN <<>> ELSE <<ApplyMap(st.f, v)>>)
                                                ELSE <<v>>]
    [] st.t = "runifdup" -> [loc |-> loc, em |-> Dup(st, v)]
    [] st.t = "runifseq" -> [loc |-> loc, em |-> InnerRun(st, v)]
    [] st.t = "sfilter" -> [loc |-> loc, em |-> IF SelSem(st.s, v) THEN <<v>> ELSE <<>>]
    [] st.t = "nmap" -> [loc |-> loc, em |-> <<ApplyN(st.f, v)>>]
    [] st.t = "tvar" -> [loc |-> loc, em |-> <<ApplyTVar(st.vars, v)>>]
    [] st.t = "wmap" -> [loc |-> loc, em |-> <<ApplyMap(st.f, v)>>]          \* the wrapped method
    [] st.t = "map" /\ st.f \in {"var", "varattr"} -> [loc |-> loc, em |-> <<ApplyTVar(PlainX, v)>>]
    [] st.t = "sum" -> [loc |-> [tot |-> loc.tot + v.d, c |-> v.c, vc |-> VcOf(v)], em |-> <<>>]
    [] OTHER -> LET r == OnHave(st, loc, v) IN [loc |-> r.loc, em |-> V4s(r.em)]
InitLoc2(st) == IF st.t = "sum" THEN [tot |-> 0, c |-> {}, vc |-> NoVC] ELSE InitLoc(st)
OnEof2(st, loc) == IF st.t = "sum" THEN <<SumVal2(loc.tot, loc.c, loc.vc)>> ELSE V4s(OnEof(st, loc))
\* operational run side: an Amb element does what the interface bound by Sequence (-> Run) means
OnHaveRun(st, loc, v) == IF st.t = "wmap" THEN [loc |-> loc, em |-> AmbMeaning(st, st.rb, v)] ELSE OnHave2(st, loc, v)
\* FlowSem.Sem over the extended vocabulary; op = TRUE: as bound by Sequence (OnHaveRun), FALSE: as documented
RECURSIVE StageRun2(_, _, _, _, _)
StageRun2(st, loc, xs, eof, op) ==
  IF EarlyDone(st, loc) THEN [out |-> <<>>, fin |-> TRUE]
  ELSE IF xs = <<>> THEN (IF eof THEN [out |-> OnEof2(st, loc), fin |-> TRUE] ELSE [out |-> <<>>, fin |-> FALSE])
  ELSE LET r == IF op THEN OnHaveRun(st, loc, Head(xs)) ELSE OnHave2(st, loc, Head(xs))
           rest == StageRun2(st, r.loc, Tail(xs), eof, op)
       IN [out |-> r.em \o rest.out, fin |-> rest.fin]
RECURSIVE PipeRun2(_, _, _, _)
PipeRun2(prog, xs, eof, op) ==
  IF prog = <<>> THEN [out |-> xs, fin |-> eof]
  ELSE LET r == StageRun2(Head(prog), InitLoc2(Head(prog)), xs, eof, op) IN PipeRun2(Tail(prog), r.out, r.fin, op)
Sem2(prog, xs) == PipeRun2(prog, xs, TRUE, FALSE).out
SemOp(prog, xs) == PipeRun2(prog, xs, TRUE, TRUE).out      \* a Sequence of the real elements run on xs

Reach(ch, xs) == Sem2(ch.pre, xs)
ChainSem(ch, xs) == Sem2(ch.post, AccCompute(ch.acc, AccFillAll(ch.acc, AccInit(ch.acc), Reach(ch, xs))))
\* flows: "bare" data, "pairs" (data, {}) and "ctx": pairs whose contexts differ (odd values carry the key "odd")
FlowOf(n, fk) == [j \in 1..n |-> CASE fk = "bare" -> Val4(j - 1, {}, FALSE, NoVC)
                                    [] fk = "pairs" -> Val4(j - 1, {}, TRUE, NoVC)
                                    [] fk = "ctx" -> Val4(j - 1, IF (j - 1) % 2 = 1 THEN {"odd"} ELSE {}, TRUE, NoVC)]

(***************************************************************************)
(* Fill side of one pre element: [loc, em, stop].                          *)
(***************************************************************************)
FillLoc(st) == IF st.t = "slice" THEN [idx |-> 0, nxt |-> -1] ELSE [z |-> 0]
\* smallest index selected by Slice(a, b, s) that is greater than j; None if there is none
NextIdx(st, j) ==
  LET cand == IF j < st.a THEN st.a ELSE j + st.s - ((j - st.a) % st.s)
  IN IF st.b # None /\ cand >= st.b THEN None ELSE cand
FillIntoStep(st, loc, v) ==
  CASE st.t = "map" -> [loc |-> loc, em |-> OnHave2(st, loc, v).em, stop |-> FALSE]
    [] st.t = "tvar" -> [loc |-> loc, em |-> <<ApplyTVar(st.vars, v)>>, stop |-> FALSE]       \* FillInto(variable): fill(variable(v))
    [] st.t = "wmap" -> [loc |-> loc, em |-> AmbMeaning(st, st.fb, v), stop |-> FALSE]       \* as bound by FillInto
    [] st.t = "filter" -> [loc |-> loc, em |-> IF Pred(st.p, v) THEN <<v>> ELSE <<>>, stop |-> FALSE]
    [] st.t = "runif" -> [loc |-> loc, stop |-> FALSE,
                          em |-> IF Pred(st.p, v) THEN (IF st.f = "drop" THEN <<>> ELSE <<ApplyMap(st.f, v)>>) ELSE <<v>>]
    [] st.t = "runifdup" -> [loc |-> loc, em |-> Dup(st, v), stop |-> FALSE]
    [] st.t = "runifseq" -> [loc |-> loc, em |-> InnerRun(st, v), stop |-> FALSE]
    [] st.t = "sfilter" -> [loc |-> loc, em |-> IF SelSem(st.s, v) THEN <<v>> ELSE <<>>, stop |-> FALSE]
    [] st.t = "nmap" -> [loc |-> loc, em |-> <<ApplyN(st.f, v)>>, stop |-> FALSE]
    [] st.t = "cfilter" -> [loc |-> loc, em |-> IF HasKey(st.k, v) THEN <<v>> ELSE <<>>, stop |-> FALSE]
    [] st.t = "crunif" -> [loc |-> loc, stop |-> FALSE,
                           em |-> IF HasKey(st.k, v) THEN (IF st.f = "drop" THEN <<>> ELSE <<ApplyMap(st.f, v)>>) ELSE <<v>>]
    [] st.t = "slice" ->
         LET nn == IF loc.idx > loc.nxt THEN NextIdx(st, loc.nxt) ELSE loc.nxt IN
         IF nn = None THEN [loc |-> loc, em |-> <<>>, stop |-> TRUE]
         ELSE [loc |-> [idx |-> loc.idx + 1, nxt |-> nn], em |-> IF loc.idx = nn THEN <<v>> ELSE <<>>, stop |-> FALSE]

\* fill the values vs into the chain from element i on: [locs, reach, stop]
RECURSIVE FillVals(_, _, _, _)
FillVals(pre, locs, i, vs) ==
  IF vs = <<>> THEN [locs |-> locs, reach |-> <<>>, stop |-> FALSE]
  ELSE IF i > Len(pre) THEN [locs |-> locs, reach |-> vs, stop |-> FALSE]
  ELSE LET r == FillIntoStep(pre[i], locs[i], Head(vs)) IN
       IF r.stop THEN [locs |-> locs, reach |-> <<>>, stop |-> TRUE]
       ELSE LET down == FillVals(pre, [locs EXCEPT ![i] = r.loc], i + 1, r.em) IN
            IF down.stop THEN down
            ELSE LET rest == FillVals(pre, down.locs, i, Tail(vs)) IN
                 [locs |-> rest.locs, reach |-> down.reach \o rest.reach, stop |-> rest.stop]

\* run side, pushed: a stage that is done (islice exhausted) lets nothing through
RECURSIVE FeedVals(_, _, _, _)
FeedVals(pre, locs, i, vs) ==
  IF vs = <<>> THEN [locs |-> locs, reach |-> <<>>]
  ELSE IF i > Len(pre) THEN [locs |-> locs, reach |-> vs]
  ELSE IF EarlyDone(pre[i], locs[i]) THEN [locs |-> locs, reach |-> <<>>]
  ELSE LET r == OnHaveRun(pre[i], locs[i], Head(vs))
           down == FeedVals(pre, [locs EXCEPT ![i] = r.loc], i + 1, r.em)
           rest == FeedVals(pre, down.locs, i, Tail(vs))
       IN [locs |-> rest.locs, reach |-> down.reach \o rest.reach]

IsPrefix(a, b) == Len(a) <= Len(b) /\ a = SubSeq(b, 1, Len(a))
Min(a, b) == IF a < b THEN a ELSE b
=============================================================================
