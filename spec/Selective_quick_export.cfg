SPECIFICATION Spec
CONSTANTS MaxA = 3 MaxB = 3 MaxFan = 2
  AsyncModes = {FALSE}
  Repeats = FALSE Cuts = FALSE
INVARIANT Emitted_
CHECK_DEADLOCK FALSE
