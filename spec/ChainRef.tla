------------------------------ MODULE ChainRef ------------------------------
(***************************************************************************)
(* Declarative reference for lena.flow.Chain over iterables that are NOT   *)
(* independent of each other: itertools.chain over the iterables, "after the      *)
(* first one is exhausted, the second is called" (Chain.__init__).         *)
(* No variables: shared by ChainLazy.tla (machine) and Trace_Chain.tla     *)
(* (validation of recorded implementation behaviour).                      *)
(*                                                                         *)
(* The k-th iterable is one of                                             *)
(*   "static"  a container holding <<k, 0>> .. <<k, lens[k] - 1>>          *)
(*   "reg"     a generator of the same values that registers each value in *)
(*             a shared container (the log) when it generates it           *)
(*   "snap"    the shared container itself: what it delivers is decided at *)
(*             the moment its iterator is requested (a dict or deque must  *)
(*             not change while it is iterated, a user class may copy its  *)
(*             content in __iter__)                                        *)
(*   "boom"    a generator of lens[k] values that then raises              *)
(***************************************************************************)
EXTENDS Integers, Sequences

IterKinds == {"static", "reg", "snap", "boom"}
Tagged(it, n) == [jj \in 1..n |-> <<it, jj - 1>>]

\* values registered by the iterables 1..k, once they are exhausted
RECURSIVE Regd(_, _, _)
Regd(kinds, lens, k) == IF k = 0 THEN <<>>
                        ELSE Regd(kinds, lens, k - 1) \o (IF kinds[k] = "reg" THEN Tagged(k, lens[k]) ELSE <<>>)
\* what the k-th iterable contributes: the shared container is read when all the iterables before it are exhausted
Contribution(kinds, lens, k) == IF kinds[k] = "snap" THEN Regd(kinds, lens, k - 1) ELSE Tagged(k, lens[k])
\* the chain ends with the exception of the first raising iterable (after its values)
FirstBoom(kinds) == LET B == {k \in 1..Len(kinds) : kinds[k] = "boom"} IN
                    IF B = {} THEN Len(kinds) + 1 ELSE CHOOSE k \in B : \A m \in B : k <= m
RECURSIVE Cat(_, _, _)
Cat(kinds, lens, k) == IF k = 0 THEN <<>> ELSE Cat(kinds, lens, k - 1) \o Contribution(kinds, lens, k)
LastReached(kinds) == IF FirstBoom(kinds) <= Len(kinds) THEN FirstBoom(kinds) ELSE Len(kinds)
ChainDynRef(kinds, lens) == Cat(kinds, lens, LastReached(kinds))
ChainDynErr(kinds) == IF FirstBoom(kinds) <= Len(kinds) THEN "Boom" ELSE "none"
\* the content of the shared container when the chain has ended
ChainDynLog(kinds, lens) == Regd(kinds, lens, LastReached(kinds))
=============================================================================
