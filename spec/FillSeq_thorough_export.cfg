SPECIFICATION Spec
CONSTANTS MaxPre = 2 MaxN = 4
  PreAlphabet <- AlphaThorough
  Accs <- AccsQuick
  Posts <- PostsQuick
  FlowKinds = {"bare", "ctx"}
  Drivers = {"fill"}
  Places = {"alone"}
  StopFlag = "per_branch"
  CopyMode = "per_branch"
  Bufs <- BufOne
INVARIANT DriversAgree
INVARIANT FillReaches
INVARIANT StopSound
INVARIANT ComputeOnce
INVARIANT BufBound
INVARIANT Emitted
CHECK_DEADLOCK FALSE
