SPECIFICATION Spec
CONSTANTS MaxPre = 2 MaxN = 5
  PreAlphabet <- AlphaQuick
  Accs <- AccsQuick
  Posts <- PostsQuick
  Pairs = {TRUE, FALSE}
  Drivers = {"fill"}
  Bufs <- BufOne
INVARIANT DriversAgree
INVARIANT FillReaches
INVARIANT StopSound
INVARIANT ComputeOnce
INVARIANT Emitted
CHECK_DEADLOCK FALSE
