SPECIFICATION Spec
INVARIANT Conservation
POSTCONDITION Accepted
CHECK_DEADLOCK FALSE
