--------------------------- MODULE Trace_Selective ---------------------------
(***************************************************************************)
(* Validation of event logs recorded while a real selective element runs   *)
(* on an interleaving of selected and unselected values (C10).             *)
(*                                                                         *)
(*   [ev |-> "begin", pat, fan, own, async]   new run; fan / own come from *)
(*                                 the reference run on the selected values*)
(*                                 alone                                   *)
(*   [ev |-> "in", sel]            the element pulled the next input value *)
(*   [ev |-> "out", k |-> "u", i]  it yielded an object that `is` the i-th *)
(*                                 unselected input                        *)
(*   [ev |-> "out", k |-> "s", i]  it yielded a value equal to the i-th    *)
(*                                 reference result (0: equal to none)     *)
(*   [ev |-> "fs"]                 audit hook: open / mkdir / remove /     *)
(*                                 process start ...                       *)
(*   [ev |-> "out", k |-> "m", i]  ... the i-th unselected input, but its  *)
(*                                 content has been changed (never accepted)*)
(*   [ev |-> "end", fsok, mutated] the generator is exhausted              *)
(* Bookkeeping steps of the machine (PollDone, DoneSel, Launch, LaunchFail, *)
(* Reap, EndInput)                                                         *)
(* are silent; TLC searches all ways to interleave them.                   *)
(***************************************************************************)
EXTENDS Selective, IOUtils

Trace == JsonDeserialize(IOEnv.TRACE_FILE)
VARIABLE n
tvars == <<pat, fan, own, async, xs, pos, na, nb, j, out, pending, fs, phase, cutdone, n>>

Ev == Trace[n]
More == n <= Len(Trace)
Accept == /\ TLCSet(1, IF TLCGet(1) > n THEN TLCGet(1) ELSE n)
          /\ n' = n + 1

TInit == /\ Trace[1].ev = "begin"
         /\ InitWith(Trace[1].pat, Trace[1].fan, Trace[1].own, Trace[1].async,
                     [bobj |-> Trace[1].bobj, cut |-> Trace[1].cut, kind |-> Trace[1].kind])
         /\ n = 2 /\ TLCSet(1, 1)

TIn == /\ More /\ Ev.ev = "in"
       /\ Consume /\ pat[pos'] = Ev.sel
       /\ Accept
TOutU == /\ More /\ Ev.ev = "out" /\ Ev.k = "u"
         /\ PassUnselected /\ Ev.i = xs.bobj[nb]
         /\ Accept
TOutS == /\ More /\ Ev.ev = "out" /\ Ev.k = "s" /\ Ev.i \in 1..NRef
         /\ (EmitSel \/ Flush(Ev.i))
         /\ out'[Len(out')] = S(Ev.i)
         /\ Accept
TFs == /\ More /\ Ev.ev = "fs"
       /\ FsSel
       /\ Accept
\* fsok: the scratch directory ends up exactly as after the reference run; mutated: unselected values whose
\* content changed (both observed by the harness, judged here)
TEnd == /\ More /\ Ev.ev = "end"
        /\ Ev.fsok /\ Ev.mutated = <<>>
        /\ Finish
        /\ Accept
\* [ev |-> "rerun", kind]: run() of the same element object was called again
TRerun == /\ More /\ Ev.ev = "rerun" /\ Ev.kind = xs.kind
          /\ (StartSecond \/ Abort)
          /\ Accept
TSilent == /\ (PollDone \/ DoneSel \/ Launch \/ LaunchFail \/ ReapAny \/ EndInput \/ EndFirstRun)
           /\ n' = n
TRestart == /\ More /\ Ev.ev = "begin" /\ phase = "done"
            /\ pat' = Ev.pat /\ fan' = Ev.fan /\ own' = Ev.own /\ async' = Ev.async
            /\ xs' = [bobj |-> Ev.bobj, cut |-> Ev.cut, kind |-> Ev.kind] /\ cutdone' = FALSE
            /\ pos' = 0 /\ na' = 0 /\ nb' = 0 /\ j' = 0
            /\ out' = <<>> /\ pending' = {} /\ fs' = {} /\ phase' = "idle"
            /\ Accept

TNext == TIn \/ TOutU \/ TOutS \/ TFs \/ TEnd \/ TSilent \/ TRestart \/ TRerun
TSpec == TInit /\ [][TNext]_tvars

Accepted == /\ PrintT(<<"ACCEPTED", TLCGet(1)>>)
            /\ TLCGet(1) = Len(Trace)
=============================================================================
