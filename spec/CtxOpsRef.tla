------------------------------ MODULE CtxOpsRef ------------------------------
(***************************************************************************)
(* Documented meaning of the context addressing / formatting / updating    *)
(* functions and elements of lena.context (C08), as operators over the     *)
(* nested dictionaries of CtxValue.tla.  No constants or variables: shared *)
(* by ContextOps.tla (the machine) and Trace_ContextOps.tla.               *)
(*                                                                         *)
(* A path is a sequence of keys; the harness writes it as a dotted string, *)
(* a list or a one-key-per-level dictionary.  A template is a sequence of  *)
(* tokens (literal / field path); a rendered string is a sequence of       *)
(* literal / value tokens which the harness concatenates.                  *)
(* Outcomes: [ok |-> TRUE, r |-> ...] or [ok |-> FALSE, exc |-> name].     *)
(***************************************************************************)
EXTENDS CtxValue

Seqs(S, lo, hi) == UNION {[1..n -> S] : n \in lo..hi}
Front(p) == SubSeq(p, 1, Len(p) - 1)
Last(p) == p[Len(p)]
IsPrefix(p, q) == Len(p) <= Len(q) /\ SubSeq(q, 1, Len(p)) = p
Related(p, q) == IsPrefix(p, q) \/ IsPrefix(q, p)

\* leaves carry s = str(value) (contains compares it with the last part of the key)
LeafS(v, e, s) == [k |-> "L", v |-> v, e |-> e, s |-> s]
DefaultVal == LeafS("$default", 90, "<default>")    \* the default= argument
Rendered == LeafS("$rendered", 91, "<rendered>")    \* the string a template is rendered to
KeyLeaf(s) == LeafS("$key", 92, s)                  \* a key string used as a value (str_to_dict)
\* default values other than an opaque object: "default given" is one thing, its value another
DefLeaves == [none |-> LeafS("$d:none", 94, "None"), zero |-> LeafS("$d:zero", 95, "0"),
              estr |-> LeafS("$d:estr", 96, ""), false |-> LeafS("$d:false", 97, "False"),
              elist |-> LeafS("$d:elist", 98, "[]")]
DefaultOf(o) == IF o.dv = "obj" THEN DefaultVal ELSE IF o.dv = "edict" THEN Empty ELSE DefLeaves[o.dv]
NoVal == LeafS("$value", 93, "<value>")                \* the value argument of str_to_dict; "nothing yet"

Ok(r) == [ok |-> TRUE, r |-> r]
Raise(exc) == [ok |-> FALSE, exc |-> exc]

(***************************************************************************)
(* Key notations.  A path is written as a list, a tuple or a dotted string *)
(* (DeleteContext; get_recursively also takes a key dictionary).  The      *)
(* dotted string of a path is represented by its components as str.split   *)
(* sees them: never an empty sequence - the empty string has the single    *)
(* component "".  str_to_list is documented to differ from str.split in    *)
(* exactly that case: "If the string s is empty, an empty list is          *)
(* returned".  A path whose only key is "" has no dotted notation.         *)
(***************************************************************************)
Notations == {"list", "tuple", "str"}
HasNotation(nt, p) == nt = "str" => p # <<"">>
SplitView(p) == IF p = <<>> THEN <<"">> ELSE p
KeyArg(nt, p) == IF nt = "str" THEN SplitView(p) ELSE p      \* the argument as written
StrToList(sv) == IF sv = <<"">> THEN <<>> ELSE sv
NormKey(nt, arg) == IF nt = "str" THEN StrToList(arg) ELSE arg   \* the list of keys the element works with

(***************************************************************************)
(* Templates                                                               *)
(***************************************************************************)
\* a field may carry a conversion: "" (plain), "r" ({{x!r}}) or "s" ({{x!s}})
Lit(s) == [t |-> "lit", s |-> s, p |-> <<>>, cv |-> ""]
Fld(p) == [t |-> "fld", s |-> "", p |-> p, cv |-> ""]
FldC(p, cv) == [t |-> "fld", s |-> "", p |-> p, cv |-> cv]
IsSingleField(tpl) == Len(tpl) = 1 /\ tpl[1].t = "fld"
FieldsOf(tpl) == {tpl[j].p : j \in {j \in DOMAIN tpl : tpl[j].t = "fld"}}
HasField(tpl) == FieldsOf(tpl) # {}
\* a field is defined iff its path leads through dictionaries to a key (get_recursively and
\* jinja2 attribute lookup agree on that)
AllPresent(d, tpl) == \A p \in FieldsOf(tpl) : Has(d, p)
ValTok(v) == [t |-> "val", s |-> "", v |-> v]
LitTok(s) == [t |-> "lit", s |-> s, v |-> Empty]
\* literals and the values found; a missing value renders as the empty string
Render(d, tpl) == [j \in DOMAIN tpl |->
                     IF tpl[j].t = "lit" THEN LitTok(tpl[j].s)
                     ELSE IF Has(d, tpl[j].p) THEN [ValTok(Get(d, tpl[j].p)) EXCEPT !.s = tpl[j].cv]   \* s = conversion
                     ELSE LitTok("")]

(***************************************************************************)
(* to_string: canonical token sequence, keys in the order ord              *)
(***************************************************************************)
Tok(t, s) == [t |-> t, s |-> s]
RECURSIVE Canon(_, _), CanonItems(_, _, _)
Canon(x, ord) ==
  IF IsD(x) THEN <<Tok("sym", "{")>> \o CanonItems(x, SelectSeq(ord, LAMBDA k : k \in Keys(x)), ord)
                 \o <<Tok("sym", "}")>>
  ELSE <<Tok("leaf", x.v)>>
CanonItems(x, ks, ord) ==
  IF ks = <<>> THEN <<>>
  ELSE <<Tok("key", Head(ks)), Tok("sym", ":")>> \o Canon(x.m[Head(ks)], ord)
       \o (IF Len(ks) > 1 THEN <<Tok("sym", ",")>> ELSE <<>>) \o CanonItems(x, Tail(ks), ord)

(***************************************************************************)
(* get_recursively, contains, str_to_dict                                  *)
(***************************************************************************)
GetRef(d, p, dflt) == IF Has(d, p) THEN Ok(Get(d, p))
                      ELSE IF dflt THEN Ok(DefaultVal) ELSE Raise("LenaKeyError")
\* the item is there, or the value reached by all but the last part is not a dictionary and
\* its string representation is the last part
\* get_recursively of a call (its default has a value)
GetRefC(c, d) == IF Has(d, c.path) THEN Ok(Get(d, c.path))
                 ELSE IF c.dflt THEN Ok(DefaultOf(c.o)) ELSE Raise("LenaKeyError")
\* the dictionary key notation: exactly one key at every level, otherwise LenaValueError - at whatever
\* depth; a value that is neither a dictionary nor a string is not a key (not documented: a Lena
\* type / value error, or the key is simply not found)
\* key arguments of a wrong type ("kt-..."): a tuple, a list with a non-string, None, a number - LenaTypeError
GetDOutcomes(c, d) ==
  IF c.uk \in {"kt-tuple", "kt-list-nonstr", "kt-none", "kt-int"} THEN {Raise("LenaTypeError")}
  ELSE IF c.lvl > 0 THEN {Raise("LenaValueError")}
  ELSE IF c.uk = "kd-nonstr"
    THEN {Raise("LenaTypeError"), Raise("LenaValueError"),
          IF c.dflt THEN Ok(DefaultOf(c.o)) ELSE Raise("LenaKeyError")}
  ELSE {GetRefC(c, d)}
ContainsRef(d, p) ==
  \/ Has(d, p)
  \/ Len(p) >= 2 /\ Has(d, Front(p)) /\ ~IsD(Get(d, Front(p))) /\ Get(d, Front(p)).s = Last(p)
RECURSIVE Nest(_, _)
Nest(p, v) == IF p = <<>> THEN v ELSE Dict([j \in {Head(p)} |-> Nest(Tail(p), v)])

(***************************************************************************)
(* The updating elements                                                   *)
(***************************************************************************)
\* the value stored at the target by update_recursively(subdict, {last: upd})
Merged(d, p, upd) == IF IsD(upd) /\ Has(d, p)
                       THEN UpdRec(IF IsD(Get(d, p)) THEN Get(d, p) ELSE Empty, upd)
                     ELSE upd
UpdateRef(d, p, upd, rec) == Put(d, p, IF rec THEN Merged(d, p, upd) ELSE upd)
\* delete: only if the path leads through dictionaries to an existing key
DeleteRef(d, p) == IF Len(p) > 0 /\ Has(d, p) THEN Del(d, p) ELSE d
\* all paths to nodes of d
RECURSIVE Nodes(_)
Nodes(d) == {<<>>} \cup (IF IsD(d) THEN UNION {{<<k>> \o q : q \in Nodes(d.m[k])} : k \in Keys(d)} ELSE {})
\* nothing unrelated to the target differs between d and e
FrameOK(d, e, target) ==
  \A q \in Nodes(d) \cup Nodes(e) :
     ~Related(q, target) => /\ Has(d, q) <=> Has(e, q)
                            /\ Has(d, q) => (IsD(Get(d, q)) <=> IsD(Get(e, q)))
                            /\ Has(d, q) /\ ~IsD(Get(d, q)) => Eq(Get(d, q), Get(e, q))

(***************************************************************************)
(* Call descriptors (uniform record shape):                                *)
(*   op    "get" "contains" "s2d" "format" "tostr" "update" "delete" "fuw" *)
(*   path  the key path                                                    *)
(*   dflt  get: a default is given                                         *)
(*   uk    "simple" (not a string; value uv), "str" (template tpl),        *)
(*         "bad" (string with unbalanced braces), "none"                   *)
(*   o     UpdateContext options [value, def, skip, raise, rec]            *)
(***************************************************************************)
\*   o.dv  the value of the default: "obj" (an opaque object), "none", "zero", "estr", "false", "elist",
\*         "edict" (an empty dictionary)
\*   lvl   dictionary key notation: the level at which the key dictionary has two keys (0 = nowhere);
\*         uk then says how the key dictionary ends: "kd-empty" ({}), "kd-str" (the last key as a
\*         string value), "kd-nonstr" (a value that is neither a dictionary nor a string)
NoOpts == [value |-> FALSE, def |-> FALSE, skip |-> FALSE, raise |-> FALSE, rec |-> TRUE, dv |-> "obj"]
Call(op, path, dflt, tpl, uk, uv, o) ==
  [op |-> op, path |-> path, dflt |-> dflt, tpl |-> tpl, uk |-> uk, uv |-> uv, o |-> o, lvl |-> 0]
KeyDictCall(path, dflt, dv, uk, lvl) ==
  [op |-> "getd", path |-> path, dflt |-> dflt, tpl |-> <<>>, uk |-> uk, uv |-> Empty,
   o |-> [NoOpts EXCEPT !.dv = dv], lvl |-> lvl]
Simple(op, path) == Call(op, path, FALSE, <<>>, "none", Empty, NoOpts)

NActive(o) == (IF o.def THEN 1 ELSE 0) + (IF o.skip THEN 1 ELSE 0) + (IF o.raise THEN 1 ELSE 0)
\* what the constructor of UpdateContext raises ("" = nothing)
MakeExc(c) ==
  IF c.path = <<>> THEN "LenaValueError"
  ELSE IF NActive(c.o) > 1 THEN "LenaValueError"
  ELSE IF c.uk = "simple" THEN (IF NActive(c.o) > 0 THEN "LenaValueError" ELSE "")
  ELSE IF c.uk = "bad" THEN "LenaValueError"
  ELSE IF c.o.value THEN (IF IsSingleField(c.tpl) THEN "" ELSE "LenaValueError")
  ELSE IF c.o.def THEN "LenaValueError"
  ELSE ""
RefMode(c) == c.uk = "str" /\ c.o.value
\* is something the update needs missing in d ?
Absent(c, d) == IF c.uk # "str" THEN FALSE
                ELSE IF RefMode(c) THEN ~Has(d, c.tpl[1].p)
                ELSE ~AllPresent(d, c.tpl)
\* the value the addressed item is set to (rs: the rendered string)
UpdValue(c, d, rs) == IF c.uk = "simple" THEN c.uv
                      ELSE IF RefMode(c) THEN (IF Has(d, c.tpl[1].p) THEN Get(d, c.tpl[1].p) ELSE DefaultOf(c.o))
                      ELSE rs

(***************************************************************************)
(* Outcomes(c, d, rs): the set of allowed [out, post] of call c on context *)
(* d (rs = leaf for the rendered string).  A singleton except where the    *)
(* documentation leaves the behaviour open.                                *)
(***************************************************************************)
Res(out, post) == [out |-> out, post |-> post]
UpdateOutcomes(c, d, rs) ==
  IF MakeExc(c) # "" THEN {Res(Raise(MakeExc(c)), d)}
  ELSE IF Absent(c, d) /\ c.o.skip THEN {Res(Ok(d), d)}                     \* value passes unchanged
  ELSE IF Absent(c, d) /\ (c.o.raise \/ (RefMode(c) /\ ~c.o.def)) THEN {Res(Raise("LenaKeyError"), d)}
  ELSE LET e == UpdateRef(d, c.path, UpdValue(c, d, rs), c.o.rec) IN {Res(Ok(e), e)}
\* an empty key: not documented (the source says "removes the entire context"); anything but an
\* exception that is not a LenaTypeError / LenaValueError.  What is done is a policy (mode) of the
\* element: it may not depend on the notation in which the (empty) key was written.
EmptyKeyModes == {"keep", "clear", "LenaValueError", "LenaTypeError"}
DeleteOutcomeM(c, d, mode) ==
  IF c.path = <<>>
    THEN CASE mode = "keep" -> Res(Ok(d), d)
           [] mode = "clear" -> Res(Ok(Empty), Empty)
           [] OTHER -> Res(Raise(mode), d)
  ELSE LET e == DeleteRef(d, c.path) IN Res(Ok(e), e)
DeleteOutcomes(c, d) ==
  IF c.path = <<>> THEN {DeleteOutcomeM(c, d, m) : m \in EmptyKeyModes}
  ELSE {DeleteOutcomeM(c, d, "clear")}
FuwOutcomes(c, d, rs) ==
  IF c.uk = "bad" THEN {Res(Raise("LenaValueError"), d)}
  ELSE IF c.uk = "str" /\ HasField(c.tpl) /\ ~AllPresent(d, c.tpl) THEN {Res(Raise("LenaKeyError"), d)}
  ELSE IF c.path = <<>> THEN {Res(Raise("LenaValueError"), d)}
  ELSE LET e == UpdRec(d, Nest(c.path, IF c.uk = "simple" THEN c.uv ELSE rs)) IN {Res(Ok(e), e)}
FormatOutcome(c, d) ==
  IF c.uk = "bad" THEN Raise("LenaValueError")
  ELSE IF c.uk = "simple" THEN Raise("LenaTypeError")
  ELSE IF AllPresent(d, c.tpl) THEN Ok(Render(d, c.tpl)) ELSE Raise("LenaKeyError")
S2DOutcome(p) ==
  [ok |-> TRUE,
   withval |-> IF p = <<>> THEN Raise("LenaValueError") ELSE Ok(Nest(p, NoVal)),
   noval |-> IF p = <<>> THEN Ok(Empty)
             ELSE IF Len(p) = 1 THEN Raise("LenaValueError")
             ELSE Ok(Nest(Front(p), KeyLeaf(Last(p)))),
   list |-> p]
=============================================================================
