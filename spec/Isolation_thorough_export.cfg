SPECIFICATION Spec
CONSTANTS MaxBr = 3 MaxN = 4 CopyMode = "deep"
  BufSizes <- BufAll
  FillBr = 3
  FillTemplates <- FillFew
  Templates <- AllTemplates
INVARIANT Emitted
CHECK_DEADLOCK FALSE
