SPECIFICATION Spec
CONSTANTS MaxBr = 3 MaxN = 4 CopyMode = "deep"
  BufSizes <- BufAll
  Templates <- AllTemplates
INVARIANT Emitted
CHECK_DEADLOCK FALSE
