SPECIFICATION Spec
CONSTANTS MaxBr = 3 MaxN = 3 CopyMode = "deep"
  BufSizes <- BufAll
  FillBr = 3
  ExtraBr = 3
  Shapes <- AllShapes
  Classes <- AllClasses
  FillTemplates <- FillFew
  Templates <- AllTemplates
INVARIANT Emitted
CHECK_DEADLOCK FALSE
