--------------------------- MODULE SelectorsSem ---------------------------
(***************************************************************************)
(* Declarative semantics of lena.flow.Selector / Not / And / Or /          *)
(* SelectContext / Filter, written from the documentation.  No constants   *)
(* or variables: shared by Selectors.tla and Trace_Selectors.tla.          *)
(***************************************************************************)
EXTENDS Integers, Sequences, FiniteSets, TLC, Json

(***************************************************************************)
(* Values.  Context: Dict [k |-> "D", m |-> function from keys] or Leaf    *)
(* [k |-> "L", t |-> "int" | "str" | "none" | "bool" | "list" | "tuple" (of n items "x"), n |-> *)
(* integer value (0 otherwise), v |-> str(value)].  Data: [t |-> "int" |   *)
(* "bool" | "str" | "none" | "tuple", n |-> value (length for str/tuple)].  Flow value: [d, c, h] (h: a (data, context)     *)
(* pair; otherwise the context is empty).                                  *)
(***************************************************************************)
Dict(m) == [k |-> "D", m |-> m]
LInt(n, v) == [k |-> "L", t |-> "int", n |-> n, v |-> v]
LStr(v) == [k |-> "L", t |-> "str", n |-> 0, v |-> v]
\* the values an implementation might confuse with "absent": None, False, [] (and 0, "", {} above)
LNone == [k |-> "L", t |-> "none", n |-> 0, v |-> "None"]
LFalse == [k |-> "L", t |-> "bool", n |-> 0, v |-> "False"]
LList == [k |-> "L", t |-> "list", n |-> 0, v |-> "[]"]
\* scalars that *contain* what a string specification tests for at its last level without being equal to
\* it: a longer string, a list / tuple of n items "x" (v: str() of the value, as for every leaf)
LListX == [k |-> "L", t |-> "list", n |-> 1, v |-> "['x']"]
LTupX == [k |-> "L", t |-> "tuple", n |-> 2, v |-> "('x', 'x')"]
\* the strings of the universes in which "x" occurs
HasXStr(v) == v \in {"x", "xy", "yx", "x y"}
IsSeqLeaf(s) == s.k = "L" /\ s.t \in {"list", "tuple"}
Empty == Dict(<<>>)
Absent == [k |-> "A"]
Val(t, n, c, h) == [d |-> [t |-> t, n |-> n], c |-> c, h |-> h, sub |-> ""]   \* sub: shape hint for the harness
\* A flow value given as the Python object it is: a tuple or a list (kind) of items, each item data
\* [t, n] or a context Dict(..).  lena.flow.get_data / get_context: the value is a (data, context) pair
\* exactly when it is a tuple of two items whose second item is a dictionary; every other value -
\* (1, 2), (1, "s"), (1, [0]), (1, None), (1,), (1, {..}, 2), [1, {..}] - is its own data and has no
\* context.  The harness builds the object from the field raw; d, c, h follow from the rule here.
D(t, n) == [t |-> t, n |-> n]
IsCtxItem(x) == "k" \in DOMAIN x /\ x.k = "D"
IsPairShape(kind, items) == kind = "tuple" /\ Len(items) = 2 /\ IsCtxItem(items[2])
RawVal(kind, items) ==
  LET pair == IsPairShape(kind, items) IN
  [d |-> IF pair THEN items[1] ELSE D(kind, Len(items)),
   c |-> IF pair THEN items[2] ELSE Empty,
   h |-> pair, sub |-> "raw", raw |-> [kind |-> kind, items |-> items]]

(***************************************************************************)
(* Specifications (what the user writes).                                  *)
(*   raw:     Str(path)  Cls(name)  Fn(name)  List(xs)  Tup(xs)            *)
(*   objects: Sel(x, roe)  NotO(x, roe)  AndO(xs, roe)  OrO(xs, roe)       *)
(*            SC(path, pred, roe)                                          *)
(* A raw specification inherits raise_on_error from the constructor that   *)
(* converts it; an object keeps its own.                                   *)
(***************************************************************************)
Str(p) == [k |-> "str", p |-> p]
Cls(c) == [k |-> "cls", c |-> c]
Fn(f) == [k |-> "fn", f |-> f]
List(xs) == [k |-> "list", xs |-> xs]
Tup(xs) == [k |-> "tuple", xs |-> xs]
Sel(x, r) == [k |-> "Sel", x |-> x, roe |-> r]
NotO(x, r) == [k |-> "Not", x |-> x, roe |-> r]
AndO(xs, r) == [k |-> "And", xs |-> xs, roe |-> r]
OrO(xs, r) == [k |-> "Or", xs |-> xs, roe |-> r]
SC(p, q, r) == [k |-> "SC", p |-> p, q |-> q, roe |-> r]
\* leaves that raise an exception of a chosen class (the class is part of the result, see below):
\*   FnR(e): a callable that always raises e;  FnN(e): data > 0 for a number, raises e otherwise
\*   SCE(p, q, e, r): SelectContext whose predicate q is "raise" (always raises e) or "needx"
\*                    (sub["x"] == 1 for a dictionary holding "x", raises e otherwise)
FnR(e) == [k |-> "fn", f |-> "raise", e |-> e]
FnN(e) == [k |-> "fn", f |-> "num", e |-> e]
SCE(p, q, e, r) == [k |-> "SC", p |-> p, q |-> q, e |-> e, roe |-> r]
IsObj(x) == x.k \in {"Sel", "Not", "And", "Or", "SC"}
IsLeaf(x) == x.k \in {"str", "cls", "fn"}

(***************************************************************************)
(* Leaves.                                                                 *)
(***************************************************************************)
\* lena.context.contains(d, "p1.p2...pn"): walk n-1 keys, then test the last one as a key of a
\* dictionary or against str() of a scalar.  "U": the walk meets a scalar before that (the
\* behaviour of contains there is the subject of C08, not of this module).
RECURSIVE ContainsFrom(_, _, _)
ContainsFrom(cur, p, i) ==
  IF i = Len(p)
  THEN IF cur.k = "D" THEN (IF p[i] \in DOMAIN cur.m THEN "T" ELSE "F")
       ELSE (IF cur.v = p[i] THEN "T" ELSE "F")
  ELSE IF cur.k # "D" THEN "U"
  ELSE IF p[i] \notin DOMAIN cur.m THEN "F"
  ELSE ContainsFrom(cur.m[p[i]], p, i + 1)
Contains(c, p) == ContainsFrom(c, p, 1)

\* isinstance(data, cls)
\* ("ucls": a user class that happens to be callable - still a class, used for an isinstance test)
IsInst(d, c) == c = "object" \/ c = d.t \/ (d.t = "bool" /\ c = "int")

(***************************************************************************)
(* Results: "T", "F", or - an exception propagates - the name of its class. *)
(* An exception keeps its identity on the way out: what reaches the caller *)
(* of a selector is the exception raised by the leaf, so the class is part *)
(* of the outcome.  The classes of the universes: Python's own (TypeError, *)
(* ValueError, KeyError, LookupError, AttributeError), lena's (LenaKeyError *)
(* - the class that get_recursively raises for an absent key and that      *)
(* SelectContext catches around its lookup -, LenaTypeError,               *)
(* LenaValueError, LenaAttributeError, LenaException), and the harness's   *)
(* (Boom, a plain Exception; SubLenaKeyError, a subclass of LenaKeyError). *)
(***************************************************************************)
ExcKinds == {"Boom", "TypeError", "ValueError", "KeyError", "LookupError", "AttributeError",
             "LenaKeyError", "LenaTypeError", "LenaValueError", "LenaAttributeError", "LenaException",
             "SubLenaKeyError"}
IsE(r) == r \notin {"T", "F"}

\* the callables of the harness (lenaverif/sellib.py FUNCS)
B(b) == IF b THEN "T" ELSE "F"
FnEval(x, v) ==
  LET f == x.f IN
  CASE f = "yes" -> "T"
    [] f = "no" -> "F"
    [] f = "boom" -> "Boom"                                                \* always raises Boom
    [] f = "raise" -> x.e                                                  \* always raises the chosen class
    [] f = "num" -> IF v.d.t \in {"int", "bool"} THEN B(v.d.n > 0) ELSE x.e   \* like "pos", raising the chosen class
    [] f \in {"pos", "objpos"} -> IF v.d.t \in {"int", "bool"} THEN B(v.d.n > 0) ELSE "TypeError"   \* data > 0 (TypeError for str, None, (), lists)
                                                                          \* "objpos": the same as an object with __call__
    [] f = "len" -> IF v.d.t \in {"str", "tuple", "list"} THEN B(v.d.n > 0) ELSE "TypeError" \* len(data), not a bool
    [] f = "hasctx" -> B(v.c # Empty)                                      \* bool(get_context(v))
    [] f = "isnone" -> B(v.d.t = "none")                                   \* data is None
    [] f = "eq0" -> B(v.d.t \in {"int", "bool"} /\ v.d.n = 0)               \* data == 0

LeafEval(x, v) ==
  CASE x.k = "str" -> Contains(v.c, x.p)
    [] x.k = "cls" -> B(IsInst(v.d, x.c))
    [] x.k = "fn" -> FnEval(x, v)

\* lena.context.get_recursively(context, path) without default: Absent <=> LenaKeyError
RECURSIVE GetRec(_, _, _)
GetRec(cur, p, i) ==
  IF i > Len(p) THEN cur
  ELSE IF cur.k # "D" THEN Absent
  ELSE IF p[i] \notin DOMAIN cur.m THEN Absent
  ELSE GetRec(cur.m[p[i]], p, i + 1)
\* predicates on a sub-context (lenaverif/sellib.py PREDS)
Num(s) == s.k = "L" /\ s.t \in {"int", "bool"}
PredEval(q, s) ==
  CASE q = "isdict" -> B(s.k = "D")
    [] q = "isnone" -> B(s.k = "L" /\ s.t = "none")                        \* sub is None
    [] q = "eq0" -> B(Num(s) /\ s.n = 0)                                   \* sub == 0 (False == 0)
    [] q = "eq1" -> B(Num(s) /\ s.n = 1)                                   \* sub == 1
    [] q = "gt0" -> IF Num(s) THEN B(s.n > 0) ELSE "TypeError"             \* sub > 0 (TypeError otherwise)
    [] q = "hasx" -> IF s.k = "D" THEN B("x" \in DOMAIN s.m)               \* "x" in sub
                     ELSE IF s.t = "str" THEN B(HasXStr(s.v))                \* a substring test
                     ELSE IF IsSeqLeaf(s) THEN B(s.n > 0) ELSE "TypeError"    \* numbers, None: not iterable
    [] q = "truthy" -> IF s.k = "D" THEN B(s.m # <<>>)                     \* bool(sub)
                       ELSE IF Num(s) \/ IsSeqLeaf(s) THEN B(s.n # 0)
                       ELSE IF s.t = "str" THEN B(s.v # "") ELSE "F"
    [] q = "always" -> "T"
    [] q = "boom" -> "Boom"
    \* predicates that are classes: they are *called* with the sub-context (not used for an isinstance test)
    [] q = "cbool" -> IF s.k = "D" THEN B(s.m # <<>>)                      \* bool(sub)
                      ELSE IF Num(s) \/ IsSeqLeaf(s) THEN B(s.n # 0)
                      ELSE IF s.t = "str" THEN B(s.v # "") ELSE "F"
    [] q = "cstr" -> IF s.k = "L" /\ s.t = "str" THEN B(s.v # "") ELSE "T"  \* str(sub): "None", "0", "{}", "[]" are not empty
    [] q = "cint" -> IF Num(s) THEN B(s.n # 0)                             \* int(sub)
                     ELSE IF s.k = "L" /\ s.t = "str" THEN (IF s.v \in {"5", "1", "55"} THEN "T" ELSE "ValueError")
                     ELSE "TypeError"                                      \* int(None), int({}), int([])
    [] q = "cdict" -> IF s.k = "D" THEN B(s.m # <<>>)                      \* dict(sub)
                      ELSE IF (IsSeqLeaf(s) /\ s.n = 0) \/ (s.t = "str" /\ s.v = "") THEN "F"
                      ELSE IF IsSeqLeaf(s) \/ s.t = "str" THEN "ValueError"  \* items of length 1, not pairs
                      ELSE "TypeError"                                     \* numbers, None: not iterable
    [] q = "cuser" -> "T"                                                  \* an instance of a user class

\* the predicate of a SelectContext specification applied to the sub-context s
PredOf(o, s) ==
  IF "e" \notin DOMAIN o THEN PredEval(o.q, s)
  ELSE CASE o.q = "raise" -> o.e
         [] o.q = "needx" -> IF s.k = "D" /\ "x" \in DOMAIN s.m THEN B(Num(s.m["x"]) /\ s.m["x"].n = 1) ELSE o.e

(***************************************************************************)
(* Declarative semantics, written from the documentation.                  *)
(*   string: contains; class: isinstance of the data; callable: applied;   *)
(*   list: OR, tuple: AND (left to right, short circuit); Not negates;     *)
(*   raise_on_error = False: an exception counts as not selected (for Not: *)
(*   "a full negation including the case of an error"); SelectContext:     *)
(*   predicate on the addressed sub-context, False when that is absent -   *)
(*   and only then: an exception of the predicate itself is a leaf's       *)
(*   exception like any other, whatever its class.                         *)
(*   With raise_on_error = True the leaf's exception reaches the caller.   *)
(***************************************************************************)
Catch(roe, r) == IF IsE(r) /\ ~roe THEN "F" ELSE r
Neg(r) == CASE r = "T" -> "F" [] r = "F" -> "T" [] OTHER -> r

RECURSIVE EvalRaw(_, _, _), EvalObj(_, _), OrSeq(_, _, _, _), AndSeq(_, _, _, _)
\* an item of a list / tuple / And / Or: an object is used as it is, anything else is converted
\* with the raise_on_error of the container
Item(x, roe, v) == IF IsObj(x) THEN EvalObj(x, v) ELSE EvalRaw(x, roe, v)
OrSeq(xs, roe, v, i) ==
  IF i > Len(xs) THEN "F"
  ELSE LET r == Item(xs[i], roe, v) IN IF r = "F" THEN OrSeq(xs, roe, v, i + 1) ELSE r
AndSeq(xs, roe, v, i) ==
  IF i > Len(xs) THEN "T"
  ELSE LET r == Item(xs[i], roe, v) IN IF r = "T" THEN AndSeq(xs, roe, v, i + 1) ELSE r
\* Selector(x, raise_on_error=roe)(v)
EvalRaw(x, roe, v) ==
  Catch(roe, CASE IsLeaf(x) -> LeafEval(x, v)
               [] x.k = "list" -> OrSeq(x.xs, roe, v, 1)
               [] x.k = "tuple" -> AndSeq(x.xs, roe, v, 1)
               [] OTHER -> EvalObj(x, v))
EvalObj(o, v) ==
  CASE o.k = "Sel" -> EvalRaw(o.x, o.roe, v)
    [] o.k = "Not" -> Neg(EvalRaw(o.x, o.roe, v))
    [] o.k = "And" -> AndSeq(o.xs, o.roe, v, 1)
    [] o.k = "Or" -> OrSeq(o.xs, o.roe, v, 1)
    [] o.k = "SC" -> LET s == GetRec(v.c, o.p, 1) IN
                     IF s = Absent THEN "F" ELSE Catch(o.roe, PredOf(o, s))
Eval(o, v) == EvalObj(o, v)

\* Filter(selector).run(flow): the selected values; stops at the first value whose test raises
RECURSIVE FilterSem(_, _)
FilterSem(o, vs) ==
  IF vs = <<>> THEN [out |-> <<>>, raised |-> FALSE, exc |-> ""]
  ELSE LET r == Eval(o, Head(vs)) IN
       IF IsE(r) THEN [out |-> <<>>, raised |-> TRUE, exc |-> r]
       ELSE LET t == FilterSem(o, Tail(vs)) IN
            [out |-> (IF r = "T" THEN <<Head(vs)>> ELSE <<>>) \o t.out, raised |-> t.raised, exc |-> t.exc]

(***************************************************************************)
(* Which specifications are inside the statement.                          *)
(* The documentation of And / Or says raise_on_error "has the same meaning *)
(* as in Selector" and "will be applied to each newly initialized          *)
(* subselector"; whether And(.., raise_on_error=False) must also swallow   *)
(* the exception of a ready-made item built with raise_on_error=True is    *)
(* not fixed, so such specifications are left out (NoRaise items only).    *)
(***************************************************************************)
RECURSIVE WellFormed(_), NoRaise(_)
AllItems(xs, P(_)) == \A i \in 1..Len(xs) : P(xs[i])
NoRaise(x) == IsObj(x) => /\ ~x.roe
                          /\ x.k \in {"And", "Or"} => AllItems(x.xs, NoRaise)
WellFormed(x) ==
  CASE IsLeaf(x) -> TRUE
    [] x.k \in {"list", "tuple"} -> AllItems(x.xs, WellFormed)
    [] x.k \in {"Sel", "Not"} -> WellFormed(x.x)
    [] x.k \in {"And", "Or"} -> AllItems(x.xs, WellFormed) /\ (~x.roe => AllItems(x.xs, NoRaise))
    [] OTHER -> TRUE
\* no leaf meets the "U" case of contains on this value
RECURSIVE Defined(_, _)
Defined(x, v) ==
  CASE x.k = "str" -> Contains(v.c, x.p) # "U"
    [] x.k \in {"list", "tuple", "And", "Or"} -> \A i \in 1..Len(x.xs) : Defined(x.xs[i], v)
    [] x.k \in {"Sel", "Not"} -> Defined(x.x, v)
    [] OTHER -> TRUE

\* the exceptions the leaves of a specification raise on a value (each taken alone)
RECURSIVE LeafExcs(_, _)
LeafExcs(x, v) ==
  CASE IsLeaf(x) -> (IF IsE(LeafEval(x, v)) THEN {LeafEval(x, v)} ELSE {})
    [] x.k \in {"list", "tuple", "And", "Or"} -> UNION {LeafExcs(x.xs[i], v) : i \in 1..Len(x.xs)}
    [] x.k \in {"Sel", "Not"} -> LeafExcs(x.x, v)
    [] x.k = "SC" -> LET s == GetRec(v.c, x.p, 1) IN
                     IF s # Absent /\ IsE(PredOf(x, s)) THEN {PredOf(x, s)} ELSE {}

(***************************************************************************)
(* Classical reading: when no leaf raises, the result is plain two-valued  *)
(* logic, independent of evaluation order.                                 *)
(***************************************************************************)
RECURSIVE Total(_, _), Holds(_, _)
Total(x, v) ==
  CASE IsLeaf(x) -> ~IsE(LeafEval(x, v))
    [] x.k \in {"list", "tuple", "And", "Or"} -> \A i \in 1..Len(x.xs) : Total(x.xs[i], v)
    [] x.k \in {"Sel", "Not"} -> Total(x.x, v)
    [] x.k = "SC" -> LET s == GetRec(v.c, x.p, 1) IN s = Absent \/ ~IsE(PredOf(x, s))
Holds(x, v) ==
  CASE IsLeaf(x) -> LeafEval(x, v) = "T"
    [] x.k \in {"list", "Or"} -> \E i \in 1..Len(x.xs) : Holds(x.xs[i], v)
    [] x.k \in {"tuple", "And"} -> \A i \in 1..Len(x.xs) : Holds(x.xs[i], v)
    [] x.k = "Sel" -> Holds(x.x, v)
    [] x.k = "Not" -> ~Holds(x.x, v)
    [] x.k = "SC" -> LET s == GetRec(v.c, x.p, 1) IN s # Absent /\ PredOf(x, s) = "T"

=============================================================================
