SPECIFICATION SSpec
CONSTANTS MaxLen = 1 MaxN = 3 Infinite = TRUE MaxOut = 4
  Vals = "nat" Stops = FALSE MaxRuns = 1 MaxLead = 0 MaxHints = 1 Wrong = "buffer-if-sized"
  Alphabet <- AlphaSrc
  SrcKinds <- AllKinds
  Must <- NoMust
  Pairs <- OnlyPairs
INVARIANT LazyEqDen
CONSTRAINT Bounded
CHECK_DEADLOCK FALSE
