SPECIFICATION Spec
CONSTANTS MaxRuns = 3 MaxTouch = 1
  Scens <- ScenGroup2
  Settings <- SettingsDefault
  CreatedSetsChanged = TRUE
  Reuses = {FALSE, TRUE}
  AutoReload = TRUE
  KeepHistory = TRUE
INVARIANT Emitted
CHECK_DEADLOCK FALSE
