SPECIFICATION Spec
CONSTANTS
  K = {"a", "b"}
  NC = 2
  Levels <- LevelsThorough
  Ops <- AllOps
  UPair <- V3r
  UTriple <- V1
INVARIANT InterIsRef
INVARIANT DiffIsRef
INVARIANT UpdRecIsRef
INVARIANT InterKeepsClass
INVARIANT NestedIsRef
PROPERTY ArgsUnchanged
INVARIANT InterGlb
INVARIANT InterLevels
INVARIANT InterAlgebra
INVARIANT DiffLaws
INVARIANT UpdRecLaws
INVARIANT NestedLaws
CHECK_DEADLOCK FALSE
