------------------------ MODULE Trace_SelectiveValue ------------------------
(***************************************************************************)
(* Validation of what the real selective elements did to single values     *)
(* (C10, SelectiveValue.tla).  One record per value that an element pulled *)
(* from its input:                                                         *)
(*   [mode, depth, d, ck, cl, cv    the rule of the element and the shape  *)
(*                                  of the value (as exported by TLC)      *)
(*    same      the element yielded the very object                        *)
(*    touched   cells of the value that differ afterwards (ctx, data,      *)
(*              parts)                                                     *)
(*    cursor    1: a one-shot source inside the value has been advanced    *)
(*    raised    the element raised while it had this value in hand]        *)
(* The machine of SelectiveValue is started on the recorded rule and value *)
(* and must be able to end in a state with exactly that observation.       *)
(***************************************************************************)
EXTENDS SelectiveValue, IOUtils

Trace == JsonDeserialize(IOEnv.TRACE_FILE)
VARIABLE n
tvars == <<rule, val, pc, lvl, found, dok, yielded, written, cursor, raised, n>>

Ev == Trace[n]
RuleOf(e) == [mode |-> e.mode, depth |-> e.depth]
ValOf(e) == [d |-> e.d, c |-> [k |-> e.ck, l |-> e.cl, v |-> e.cv]]
ToSet(s) == {s[i] : i \in 1..Len(s)}

TInit == /\ n = 1 /\ TLCSet(1, 0)
         /\ InitWith(RuleOf(Trace[1]), ValOf(Trace[1]))
TSilent == /\ n <= Len(Trace) /\ pc # "done" /\ Next /\ n' = n
\* the record is an end state of the machine; go on with the next record
TMatch == /\ n <= Len(Trace) /\ pc = "done"
          /\ RuleOf(Ev) \in Rules /\ ValOf(Ev) \in Values(Ev.depth)
          /\ Ev.same = (yielded = "same")
          /\ ToSet(Ev.touched) = written
          /\ Ev.cursor = cursor
          /\ Ev.raised = raised
          /\ TLCSet(1, IF TLCGet(1) > n THEN TLCGet(1) ELSE n)
          /\ n' = n + 1
          /\ IF n < Len(Trace)
             THEN /\ rule' = RuleOf(Trace[n + 1]) /\ val' = ValOf(Trace[n + 1])
                  /\ pc' = "split" /\ lvl' = 0 /\ found' = "?" /\ dok' = FALSE
                  /\ yielded' = "none" /\ written' = {} /\ cursor' = 0 /\ raised' = FALSE
             ELSE UNCHANGED vars
TNext == TSilent \/ TMatch
TSpec == TInit /\ [][TNext]_tvars

Accepted == /\ PrintT(<<"ACCEPTED", TLCGet(1)>>)
            /\ TLCGet(1) = Len(Trace)
=============================================================================
