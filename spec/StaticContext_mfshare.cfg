SPECIFICATION Spec
CONSTANTS MaxDepth = 3
  Families <- FamMFShare
  StoreByCopy = TRUE
  TailKeepsSets = TRUE
  SplitContinues = TRUE
  SkipEmpty = TRUE
  SkipGetters = TRUE
  SplitCachesExport = FALSE
  SrcFRepass = TRUE
  MFRunCopies = FALSE
  AlterApplied = FALSE
PROPERTY RunKeepsStatic
CHECK_DEADLOCK FALSE
