SPECIFICATION Spec
CONSTANTS MaxTok = 4 MaxDepth = 3
  Leaves <- LeavesMin
  RootKinds <- SeqRoots
  StoreByCopy = FALSE
  TailKeepsSets = TRUE
INVARIANT SeenIsExpected
CHECK_DEADLOCK FALSE
