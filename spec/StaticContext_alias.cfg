SPECIFICATION Spec
CONSTANTS MaxDepth = 3
  Families <- FamAlias
  StoreByCopy = FALSE
  TailKeepsSets = TRUE
INVARIANT SeenIsExpected
CHECK_DEADLOCK FALSE
