SPECIFICATION Spec
CONSTANTS MaxDepth = 3
  Families <- FamAlias
  StoreByCopy = FALSE
  TailKeepsSets = TRUE
  SplitContinues = TRUE
INVARIANT SeenIsExpected
CHECK_DEADLOCK FALSE
