SPECIFICATION Spec
CONSTANTS MaxDepth = 3
  Families <- FamAlias
  StoreByCopy = FALSE
  TailKeepsSets = TRUE
  SplitContinues = TRUE
  SkipEmpty = TRUE
  SplitCachesExport = FALSE
  SrcFRepass = TRUE
  MFRunCopies = TRUE
  AlterApplied = FALSE
INVARIANT SeenIsExpected
CHECK_DEADLOCK FALSE
