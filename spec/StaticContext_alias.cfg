SPECIFICATION Spec
CONSTANTS MaxDepth = 3
  Families <- FamAlias
  StoreByCopy = FALSE
  TailKeepsSets = TRUE
  SplitContinues = TRUE
  SkipEmpty = TRUE
  SplitCachesExport = FALSE
  SrcFRepass = TRUE
INVARIANT SeenIsExpected
CHECK_DEADLOCK FALSE
