----------------------------- MODULE GroupBySem -----------------------------
(***************************************************************************)
(* The include / exclude longest-prefix rule of lena.flow.GroupBy          *)
(* (group_by = G, merge = M; sets of key paths).  No constants or          *)
(* variables: shared by GroupBy.tla and Trace_GroupBy.tla.                 *)
(***************************************************************************)
EXTENDS Integers, Sequences, FiniteSets, TLC, Json

\* contexts as in Selectors.tla
Dict(m) == [k |-> "D", m |-> m]
LInt(n, v) == [k |-> "L", t |-> "int", n |-> n, v |-> v]
LStr(v) == [k |-> "L", t |-> "str", n |-> 0, v |-> v]
LNone == [k |-> "L", t |-> "none", n |-> 0, v |-> "None"]
LFalse == [k |-> "L", t |-> "bool", n |-> 0, v |-> "False"]
LList == [k |-> "L", t |-> "list", n |-> 0, v |-> "[]"]
Empty == Dict(<<>>)
Absent == [k |-> "A"]
IsDict(c) == c.k = "D"

(***************************************************************************)
(* Declarative part.                                                       *)
(***************************************************************************)
PrefixOf(q, p) == Len(q) <= Len(p) /\ q = SubSeq(p, 1, Len(q))
\* the longest prefix of path p listed in group_by (G) or merge (M); the empty path is always listed
Owner(p, G, M) == CHOOSE q \in G \cup M : /\ PrefixOf(q, p)
                                          /\ \A q2 \in G \cup M : PrefixOf(q2, p) => Len(q2) <= Len(q)
\* "the longest listed prefix is a group_by entry", computed by shortening the path (OwnerIsLongest
\* below checks that this is the same thing)
RECURSIVE SelectedUpTo(_, _, _, _)
SelectedUpTo(p, n, G, M) == LET q == SubSeq(p, 1, n) IN
                            IF q \in G THEN TRUE ELSE IF q \in M THEN FALSE ELSE SelectedUpTo(p, n - 1, G, M)
Selected(p, G, M) == SelectedUpTo(p, Len(p), G, M)
\* what a context holds at a path: Absent, "a dictionary", or the leaf
RECURSIVE AtFrom(_, _, _)
AtFrom(cur, p, i) == IF i > Len(p) THEN (IF IsDict(cur) THEN [k |-> "D"] ELSE cur)
                     ELSE IF ~IsDict(cur) THEN Absent
                     ELSE IF p[i] \notin DOMAIN cur.m THEN Absent
                     ELSE AtFrom(cur.m[p[i]], p, i + 1)
At(c, p) == AtFrom(c, p, 1)
\* all key paths present in a context
RECURSIVE PathsFrom(_, _)
PathsFrom(cur, pre) == IF ~IsDict(cur) THEN {}
                       ELSE UNION {{Append(pre, key)} \cup PathsFrom(cur.m[key], Append(pre, key)) : key \in DOMAIN cur.m}
Paths(c) == PathsFrom(c, <<>>)
Agree(c1, c2, p) == At(c1, p) = At(c2, p)
\* C15: two values share a group exactly when their contexts agree on every key path whose longest
\* prefix listed in group_by or merge is a group_by entry (paths absent from both agree trivially)
SameGroup(c1, c2, G, M) == \A p \in Paths(c1) \cup Paths(c2) : Selected(p, G, M) => Agree(c1, c2, p)
\* the same relation in canonical form: what a context holds on its selected paths
Sig(c, G, M) == {<<p, At(c, p)>> : p \in {q \in Paths(c) : Selected(q, G, M)}}

(***************************************************************************)
(* Operational part: the selected sub-context (IncludeExcludeTree.get).    *)
(* A key is kept when its path is selected, or - as a path to them - when  *)
(* something below it is.                                                  *)
(***************************************************************************)
RECURSIVE ProjFrom(_, _, _, _)
ProjFrom(cur, pre, G, M) ==
  LET sub(key) == ProjFrom(cur.m[key], Append(pre, key), G, M)
      keep(key) == Selected(Append(pre, key), G, M) \/ (IsDict(cur.m[key]) /\ sub(key).m # <<>>)
  IN Dict([key \in {x \in DOMAIN cur.m : keep(x)} |-> IF IsDict(cur.m[key]) THEN sub(key) ELSE cur.m[key]])
Proj(c, G, M) == ProjFrom(c, <<>>, G, M)

=============================================================================
