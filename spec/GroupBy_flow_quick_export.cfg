SPECIFICATION Spec
CONSTANTS PairSrc = "file" CtxU = "ops3" MaxFlow = 3 KeyU = "six" Writ = "ends" NObj = 0
INVARIANT EmitFlow
CHECK_DEADLOCK FALSE
