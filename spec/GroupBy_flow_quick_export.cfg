SPECIFICATION Spec
CONSTANTS PairSrc = "file" CtxU = "tiny" MaxFlow = 2 KeyU = "six"
INVARIANT EmitFlow
CHECK_DEADLOCK FALSE
