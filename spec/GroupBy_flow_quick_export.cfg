SPECIFICATION Spec
CONSTANTS PairSrc = "file" CtxU = "ops3" MaxFlow = 3 KeyU = "six" Writ = "ends"
INVARIANT EmitFlow
CHECK_DEADLOCK FALSE
