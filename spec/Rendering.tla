------------------------------ MODULE Rendering ------------------------------
(***************************************************************************)
(* X05  Output rendering utilities of lena, as documented:                 *)
(*                                                                         *)
(*  tpl    RenderLaTeX: the rendered text is the template applied to the   *)
(*         context (or data) of the value, with lena's jinja delimiters    *)
(*         \BLOCK{ } \VAR{ } \#{ } %- %#, trim_blocks and lstrip_blocks.   *)
(*         A template is a sequence of SOURCE TOKENS (DESIGN.md 3.1:       *)
(*         literals and field paths, here extended with block tags).       *)
(*         Declarative: positional lexical rules (Dropped) + structural    *)
(*         evaluation by bracket matching (Ev).  Operational: a one-pass   *)
(*         lexer with flags (LexStep) and an interpreter with a frame      *)
(*         stack (EvalStep).                                               *)
(*  sel    RenderLaTeX: constructor checks, which values are selected,     *)
(*         which template is used, which keys the template sees, verbose.  *)
(*  table  iterable_to_table                                               *)
(*  csv    ToCSV for objects with rows() (and the row-ending law for       *)
(*         histograms)                                                     *)
(*  cmd    LaTeXToPDF / PDFToPNG: command line, yielded path, filetype,    *)
(*         create_command contract, timeout                                *)
(*  repr   lena.context.Context: representation (json.dumps, sorted keys,  *)
(*         indent 4) as lines                                              *)
(*  ctxop  lena.context.Context: attribute access, call, copies            *)
(*                                                                         *)
(* All strings are atomic tokens; the harness maps them to real text.      *)
(***************************************************************************)
EXTENDS Naturals, Integers, Sequences, FiniteSets, TLC, Json

CONSTANTS Parts,      \* families of scenarios enumerated by this run
          MaxSrc,     \* longest composed template source / document (tokens / entries)
          MaxRows,    \* most rows of a table or csv object
          Deep        \* TRUE: larger alphabets and option products

VARIABLES part, sc, ph, w, res
vars == <<part, sc, ph, w, res>>

Last(s) == s[Len(s)]
Max(S) == CHOOSE x \in S : \A y \in S : y <= x
Ok(o) == [ok |-> TRUE, out |-> o, exc |-> ""]
Err(e) == [ok |-> FALSE, out |-> <<>>, exc |-> e]
Then(a, b) == IF ~a.ok THEN a ELSE IF ~b.ok THEN b ELSE Ok(a.out \o b.out)
None == [none |-> TRUE]

(***************************************************************************)
(* Values a template can see (a context, or the data part with from_data)  *)
(***************************************************************************)
L(v) == [k |-> "L", v |-> v]          \* leaf; v = what str() gives
D(m) == [k |-> "D", m |-> m]          \* dictionary
S(s) == [k |-> "S", s |-> s]          \* list
Undef == [k |-> "U"]                  \* jinja's Undefined: prints as nothing, is false, iterates as empty
Bad == [k |-> "E"]                    \* attribute of an undefined value: jinja2.UndefinedError
Falsy == {"", "0", "None", "False"}
Truthy(x) == CASE x.k = "L" -> x.v \notin Falsy
               [] x.k = "D" -> DOMAIN x.m # {}
               [] x.k = "S" -> x.s # <<>>
               [] OTHER -> FALSE
RECURSIVE Get(_, _)
Get(x, p) == IF p = <<>> THEN x
             ELSE IF x.k \in {"U", "E"} THEN Bad
             ELSE IF x.k = "D" /\ Head(p) \in DOMAIN x.m THEN Get(x.m[Head(p)], Tail(p))
             ELSE Get(Undef, Tail(p))
\* env: the context and, inside a for loop, the loop variable "item"
Env(c) == [ctx |-> c, has |-> FALSE, lval |-> Undef]
Resolve(env, p) == IF env.has /\ Head(p) = "item" THEN Get(env.lval, Tail(p)) ELSE Get(env.ctx, p)

CtxFull == D([variable |-> D([name |-> L("x"), unit |-> L("keV")]),
              output |-> D([filepath |-> L("o/p.csv")]),
              group |-> S(<<D([output |-> D([filepath |-> L("a.csv")])]),
                            D([output |-> D([filepath |-> L("b.csv")])])>>)])
CtxNoUnit == D([variable |-> D([name |-> L("x"), unit |-> L("")]),
                output |-> D([filepath |-> L("o/p.csv")]),
                group |-> S(<<>>)])
CtxBare == D([output |-> D([filepath |-> L("o/p.csv")])])
Ctxs == <<CtxFull, CtxNoUnit, CtxBare>>

PName == <<"variable", "name">>
PUnit == <<"variable", "unit">>
PVarD == <<"variable">>
PNone == <<"nothing">>
PDeep == <<"nothing", "more">>
PFile == <<"output", "filepath">>
PItem == <<"item", "output", "filepath">>
PGroup == <<"group">>

(***************************************************************************)
(* Template source tokens (one record shape)                               *)
(***************************************************************************)
Tk(t, s, p, ln) == [t |-> t, s |-> s, p |-> p, ln |-> ln]
TLit(s) == Tk("lit", s, <<>>, FALSE)              \* plain text without newline
TNl == Tk("nl", "", <<>>, FALSE)                  \* a newline
TSp == Tk("sp", "", <<>>, FALSE)                  \* four spaces
TVar(p) == Tk("var", "", p, FALSE)                \* \VAR{ p }
TCom == Tk("com", "", <<>>, FALSE)                \* \#{ note }
TLCom == Tk("lcom", "", <<>>, FALSE)              \* %# note   (up to, excluding, the end of the line)
TIf(p, ln) == Tk("if", "", p, ln)                 \* \BLOCK{ if p }     or, ln, the line statement  %- if p
TElse(ln) == Tk("else", "", <<>>, ln)
TEndIf(ln) == Tk("endif", "", <<>>, ln)
TFor(p, ln) == Tk("for", "", p, ln)               \* \BLOCK{ for item in p }
TEndFor(ln) == Tk("endfor", "", <<>>, ln)
IsTag(x) == x.t \in {"if", "else", "endif", "for", "endfor"}
StripsLeft(x) == IsTag(x) \/ x.t = "com"          \* lstrip_blocks: blocks and comments, not variables

(***************************************************************************)
(* tpl, declarative 1: which source tokens never reach the output          *)
(***************************************************************************)
LineStart(src, k) == LET before == {j \in 1..(k - 1) : src[j].t # "sp"} IN
                     IF before = {} THEN TRUE ELSE src[Max(before)].t = "nl"
NextNonSp(src, k) == LET after == {j \in (k + 1)..Len(src) : src[j].t # "sp"} IN
                     IF after = {} THEN 0 ELSE CHOOSE j \in after : \A i \in after : j <= i
IsLineTag(x) == IsTag(x) /\ x.ln
Blank(src, a, b) == \A m \in a..b : src[m].t \in {"nl", "sp"}
\* a line statement takes the rest of its line and the blank lines after it (jinja: \s*(\n|$))
Swallowed(src, k) == \E j \in 1..(k - 1) :
                        /\ IsLineTag(src[j]) /\ Blank(src, j + 1, k)
                        /\ \/ \E m \in k..Len(src) : src[m].t = "nl" /\ Blank(src, j + 1, m)
                           \/ Blank(src, j + 1, Len(src))
Dropped(src, k) ==
    LET x == src[k] IN
    CASE x.t = "nl" -> \/ k = Len(src)                                   \* one trailing newline of the file
                       \/ (k > 1 /\ StripsLeft(src[k - 1]))              \* trim_blocks
                       \/ Swallowed(src, k)
      [] x.t = "sp" -> \/ Swallowed(src, k)
                       \/ LET j == NextNonSp(src, k) IN
                          j # 0 /\ (\/ src[j].t = "lcom"
                                    \/ (LineStart(src, k) /\ StripsLeft(src[j])))    \* lstrip_blocks
      [] x.t \in {"com", "lcom"} -> TRUE
      [] OTHER -> FALSE
RECURSIVE KeptFrom(_, _)
KeptFrom(src, k) == IF k > Len(src) THEN <<>>
                    ELSE (IF Dropped(src, k) THEN <<>> ELSE <<src[k]>>) \o KeptFrom(src, k + 1)
Kept(src) == KeptFrom(src, 1)

(***************************************************************************)
(* tpl, declarative 2: structural evaluation                               *)
(***************************************************************************)
RECURSIVE MatchEnd(_, _, _)
MatchEnd(ts, j, d) == IF j > Len(ts) THEN 0
                      ELSE IF ts[j].t \in {"if", "for"} THEN MatchEnd(ts, j + 1, d + 1)
                      ELSE IF ts[j].t \in {"endif", "endfor"} THEN (IF d = 0 THEN j ELSE MatchEnd(ts, j + 1, d - 1))
                      ELSE MatchEnd(ts, j + 1, d)
RECURSIVE ElsePos(_, _, _)
ElsePos(ts, j, d) == IF j > Len(ts) THEN 0
                     ELSE IF ts[j].t \in {"if", "for"} THEN ElsePos(ts, j + 1, d + 1)
                     ELSE IF ts[j].t \in {"endif", "endfor"} THEN (IF d = 0 THEN 0 ELSE ElsePos(ts, j + 1, d - 1))
                     ELSE IF ts[j].t = "else" /\ d = 0 THEN j
                     ELSE ElsePos(ts, j + 1, d)
Text(x) == CASE x.t = "lit" -> <<x.s>> [] x.t = "nl" -> <<"NL">> [] x.t = "sp" -> <<"SP">> [] OTHER -> <<>>
Shown(v) == IF v.k = "L" /\ v.v # "" THEN <<v.v>> ELSE <<>>
UE == "UndefinedError"
RECURSIVE Ev(_, _)
RECURSIVE Loop(_, _, _)
Ev(ts, env) ==
    IF ts = <<>> THEN Ok(<<>>)
    ELSE LET x == ts[1] IN
         IF x.t \in {"if", "for"}
         THEN LET e == MatchEnd(ts, 2, 0)
                  m == ElsePos(ts, 2, 0)
                  v == Resolve(env, x.p)
                  inner == IF v.k = "E" THEN Err(UE)
                           ELSE IF x.t = "if"
                           THEN IF Truthy(v) THEN Ev(SubSeq(ts, 2, (IF m > 0 THEN m ELSE e) - 1), env)
                                ELSE IF m > 0 THEN Ev(SubSeq(ts, m + 1, e - 1), env) ELSE Ok(<<>>)
                           ELSE IF v.k = "S" THEN Loop(SubSeq(ts, 2, e - 1), v.s, env) ELSE Ok(<<>>)
              IN Then(inner, Ev(SubSeq(ts, e + 1, Len(ts)), env))
         ELSE IF x.t = "var"
         THEN LET v == Resolve(env, x.p) IN
              IF v.k = "E" THEN Err(UE) ELSE Then(Ok(Shown(v)), Ev(Tail(ts), env))
         ELSE Then(Ok(Text(x)), Ev(Tail(ts), env))
Loop(body, items, env) ==
    IF items = <<>> THEN Ok(<<>>)
    ELSE Then(Ev(body, [env EXCEPT !.has = TRUE, !.lval = Head(items)]), Loop(body, Tail(items), env))
TplRef(src, c) == Ev(Kept(src), Env(c))

(***************************************************************************)
(* tpl: composing a well-formed source                                     *)
(***************************************************************************)
PlainToks == {TLit("A"), TNl, TSp, TVar(PName), TVar(PNone), TVar(PItem), TCom}
             \cup (IF Deep THEN {TLit("OLD"), TVar(PUnit), TVar(PDeep), TVar(PFile)} ELSE {})
IfPaths == IF Deep THEN {PUnit, PVarD, PNone, PDeep} ELSE {PUnit, PNone}
ForPaths == IF Deep THEN {PGroup, PNone, PDeep} ELSE {PGroup}
AtLineStart(src) == LineStart(src \o <<TNl>>, Len(src) + 1)
Closer(x) == IF x.ln THEN <<x, TNl>> ELSE <<x>>      \* a line statement takes the rest of its line
Room(n) == Len(sc.src) + n <= MaxSrc
InCompose == part = "tpl" /\ ph = "compose"
Compose(add, open2) == /\ InCompose
                       /\ Room(Len(add))
                       /\ sc' = [sc EXCEPT !.src = @ \o add]
                       /\ w' = [open |-> open2]
                       /\ UNCHANGED <<part, ph, res>>
AddPlain == InCompose /\ \E x \in PlainToks : Compose(<<x>>, w.open)
AddLCom == InCompose /\ Compose(<<TLCom, TNl>>, w.open)
AddIf == InCompose /\ \E p \in IfPaths, ln \in BOOLEAN :
            /\ Len(w.open) < 2 /\ (ln => AtLineStart(sc.src)) = TRUE
            /\ Compose(Closer(TIf(p, ln)), w.open \o <<"if">>)
AddElse == InCompose /\ \E ln \in BOOLEAN :
            /\ w.open # <<>> /\ Last(w.open) = "if" /\ (ln => AtLineStart(sc.src)) = TRUE
            /\ Compose(Closer(TElse(ln)), SubSeq(w.open, 1, Len(w.open) - 1) \o <<"ifelse">>)
AddEndIf == InCompose /\ \E ln \in BOOLEAN :
            /\ w.open # <<>> /\ Last(w.open) \in {"if", "ifelse"} /\ (ln => AtLineStart(sc.src)) = TRUE
            /\ Compose(Closer(TEndIf(ln)), SubSeq(w.open, 1, Len(w.open) - 1))
AddFor == InCompose /\ \E p \in ForPaths, ln \in BOOLEAN :
            /\ Len(w.open) < 2 /\ (\A k \in 1..Len(w.open) : w.open[k] # "for") /\ (ln => AtLineStart(sc.src)) = TRUE
            /\ Compose(Closer(TFor(p, ln)), w.open \o <<"for">>)
AddEndFor == InCompose /\ \E ln \in BOOLEAN :
            /\ w.open # <<>> /\ Last(w.open) = "for" /\ (ln => AtLineStart(sc.src)) = TRUE
            /\ Compose(Closer(TEndFor(ln)), SubSeq(w.open, 1, Len(w.open) - 1))
LexStart(src, ci) == /\ ph' = "lex"
                     /\ sc' = [src |-> src, ci |-> ci, ctx |-> Ctxs[ci]]
                     /\ w' = [k |-> 1, pend |-> 0, ls |-> TRUE, at |-> FALSE, sw |-> FALSE, kt |-> <<>>]
Render == /\ part = "tpl" /\ ph = "compose" /\ w.open = <<>> /\ sc.src # <<>>
          /\ \E ci \in 1..Len(Ctxs) : LexStart(sc.src, ci)
          /\ UNCHANGED <<part, res>>

(***************************************************************************)
(* tpl, operational 1: the lexer, one source token per step                *)
(***************************************************************************)
Sps(n) == [j \in 1..n |-> TSp]
LexStep ==
    /\ part = "tpl" /\ ph = "lex" /\ w.k <= Len(sc.src)
    /\ LET x == sc.src[w.k]
           final == w.k = Len(sc.src)
       IN IF x.t = "sp"
          THEN w' = [w EXCEPT !.k = @ + 1, !.pend = IF final THEN 0 ELSE @ + 1, !.at = FALSE,
                              !.kt = IF final /\ ~w.sw THEN @ \o Sps(w.pend + 1) ELSE @]
          ELSE IF x.t = "nl" /\ w.sw
          THEN w' = [w EXCEPT !.k = @ + 1, !.pend = 0, !.ls = TRUE, !.at = FALSE]      \* a blank line after a line statement
          ELSE LET flushed == IF x.t = "lcom" \/ (w.ls /\ StripsLeft(x)) THEN w.kt ELSE w.kt \o Sps(w.pend)
                   own == CASE x.t = "nl" -> IF final \/ w.at THEN <<>> ELSE <<x>>
                            [] x.t \in {"com", "lcom"} -> <<>>
                            [] OTHER -> <<x>>
               IN w' = [k |-> w.k + 1, pend |-> 0, ls |-> x.t = "nl", at |-> StripsLeft(x), sw |-> IsLineTag(x),
                        kt |-> flushed \o own]
    /\ UNCHANGED <<part, sc, ph, res>>
LexEnd == /\ part = "tpl" /\ ph = "lex" /\ w.k > Len(sc.src)
          /\ ph' = "eval"
          /\ w' = [kt |-> w.kt, pc |-> 1, stk |-> <<>>, acc |-> <<>>]
          /\ UNCHANGED <<part, sc, res>>

(***************************************************************************)
(* tpl, operational 2: the interpreter, one kept token per step            *)
(***************************************************************************)
Frame(kind, live, taken, start, items, lval) ==
    [kind |-> kind, live |-> live, taken |-> taken, start |-> start, items |-> items, lval |-> lval]
Alive(stk) == \A j \in 1..Len(stk) : stk[j].live
CurEnv(stk, c) == LET fs == {j \in 1..Len(stk) : stk[j].kind = "for" /\ stk[j].live} IN
                  IF fs = {} THEN Env(c) ELSE [ctx |-> c, has |-> TRUE, lval |-> stk[Max(fs)].lval]
Pop(stk) == SubSeq(stk, 1, Len(stk) - 1)
Fail(e) == /\ res' = Err(e) /\ ph' = "done" /\ UNCHANGED <<part, sc, w>>
Go(pc2, stk2, acc2) == /\ w' = [w EXCEPT !.pc = pc2, !.stk = stk2, !.acc = acc2] /\ UNCHANGED <<part, sc, ph, res>>
EvalStep ==
    /\ part = "tpl" /\ ph = "eval" /\ w.pc <= Len(w.kt)
    /\ LET x == w.kt[w.pc]
           live == Alive(w.stk)
           env == CurEnv(w.stk, sc.ctx)
           top == Last(w.stk)
       IN CASE x.t \in {"lit", "nl", "sp"} -> Go(w.pc + 1, w.stk, IF live THEN w.acc \o Text(x) ELSE w.acc)
            [] x.t = "var" -> IF ~live THEN Go(w.pc + 1, w.stk, w.acc)
                              ELSE LET v == Resolve(env, x.p) IN
                                   IF v.k = "E" THEN Fail(UE) ELSE Go(w.pc + 1, w.stk, w.acc \o Shown(v))
            [] x.t = "if" -> IF ~live THEN Go(w.pc + 1, w.stk \o <<Frame("if", FALSE, TRUE, 0, <<>>, Undef)>>, w.acc)
                             ELSE LET v == Resolve(env, x.p) IN
                                  IF v.k = "E" THEN Fail(UE)
                                  ELSE Go(w.pc + 1, w.stk \o <<Frame("if", Truthy(v), Truthy(v), 0, <<>>, Undef)>>, w.acc)
            [] x.t = "else" -> Go(w.pc + 1, Pop(w.stk) \o <<[top EXCEPT !.live = ~top.taken, !.taken = TRUE]>>, w.acc)
            [] x.t = "endif" -> Go(w.pc + 1, Pop(w.stk), w.acc)
            [] x.t = "for" -> IF ~live THEN Go(w.pc + 1, w.stk \o <<Frame("for", FALSE, TRUE, 0, <<>>, Undef)>>, w.acc)
                              ELSE LET v == Resolve(env, x.p) IN
                                   IF v.k = "E" THEN Fail(UE)
                                   ELSE IF v.k = "S" /\ v.s # <<>>
                                   THEN Go(w.pc + 1, w.stk \o <<Frame("for", TRUE, TRUE, w.pc + 1, Tail(v.s), Head(v.s))>>, w.acc)
                                   ELSE Go(w.pc + 1, w.stk \o <<Frame("for", FALSE, TRUE, 0, <<>>, Undef)>>, w.acc)
            [] x.t = "endfor" -> IF top.live /\ top.items # <<>>
                                 THEN Go(top.start, Pop(w.stk) \o <<[top EXCEPT !.items = Tail(@), !.lval = Head(top.items)]>>, w.acc)
                                 ELSE Go(w.pc + 1, Pop(w.stk), w.acc)
EvalEnd == /\ part = "tpl" /\ ph = "eval" /\ w.pc > Len(w.kt)
           /\ res' = Ok(w.acc) /\ ph' = "done"
           /\ UNCHANGED <<part, sc, w>>

\* hand-written sources in the style of the tutorial templates (blocks on their own indented lines, line statements)
Tutorial == <<TLit("A"), TNl,
              TSp, TIf(PUnit, FALSE), TNl,
              TSp, TSp, TLit("B"), TVar(PUnit), TNl,
              TSp, TElse(FALSE), TNl,
              TLit("OLD"), TNl,
              TSp, TEndIf(FALSE), TNl,
              TVar(PFile), TLCom, TNl>>
GroupTpl == <<TFor(PGroup, TRUE), TNl, TLit("A"), TVar(PItem), TSp, TCom, TNl, TSp, TEndFor(TRUE), TNl, TLit("B"), TNl>>
Nested == <<TIf(PVarD, FALSE), TNl, TFor(PGroup, FALSE), TVar(PItem), TIf(PUnit, FALSE), TVar(PUnit), TEndIf(FALSE), TNl,
            TEndFor(FALSE), TSp, TNl, TElse(TRUE), TNl, TVar(PNone), TLit("A"), TNl, TSp, TEndIf(TRUE), TNl>>
CatalogueSrc == {Tutorial, GroupTpl, Nested}

(***************************************************************************)
(* sel: RenderLaTeX constructor, selection, template choice, visible keys  *)
(***************************************************************************)
BadArgs(s) == (IF s.st = "bad" THEN {"LenaTypeError"} ELSE {})
              \cup (IF s.sd = "bad" THEN {"LenaTypeError"} ELSE {})
              \cup (IF s.env = "both" THEN {"LenaValueError"} ELSE {})
SelCanon(s) == /\ (s.sd # "callable" => ~s.pick)
               /\ (s.sd = "callable" => s.ft # "txt")
               /\ (BadArgs(s) # {} => s.ct = "none" /\ s.file /\ s.ft = "csv" /\ ~s.fd /\ s.vb = 0 /\ ~s.pick)
               /\ (~s.file => ~(s.st = "callable" /\ s.ct = "O"))
               /\ (~Deep => (s.vb = 2 => ~s.fd))
SelScen == {s \in [st : {"str", "empty", "callable", "bad"}, ct : {"none", "O"}, file : BOOLEAN,
                   env : {"dir", "custom", "both"}, sd : {"default", "callable", "bad"}, ft : {"csv", "txt", "none"},
                   pick : BOOLEAN, fd : BOOLEAN, vb : 0..2] : SelCanon(s)}
Selected(s) == IF s.sd = "default" THEN s.ft = "csv" ELSE s.pick
\* names of the templates that may be used ("none": no template can be found)
Names(s) == CASE s.st = "callable" -> IF s.ct = "none" THEN {"T"} ELSE {"T", "O"}   \* override of a callable: not documented
              [] s.st = "str" -> IF s.ct = "none" THEN {"T"} ELSE {"O"}
              [] OTHER -> IF s.ct = "none" THEN {"none"} ELSE {"O"}
SR(ok, exc, sel, out, ftype, printed) == [ok |-> ok, exc |-> exc, sel |-> sel, out |-> out, ftype |-> ftype, printed |-> printed]
Rendered(s, n) == IF n = "none" THEN SR(FALSE, "LenaRuntimeError", TRUE, <<>>, "", 0)
                  ELSE IF ~s.file THEN SR(FALSE, "TemplateNotFound", TRUE, <<>>, "", 0)
                  ELSE SR(TRUE, "", TRUE, <<n, IF s.fd THEN "dv" ELSE "cv">>, "tex", IF s.vb >= 1 THEN 1 ELSE 0)
SelRef(s) == IF BadArgs(s) # {} THEN {SR(FALSE, e, FALSE, <<>>, "", 0) : e \in BadArgs(s)}
             ELSE IF ~Selected(s) THEN {SR(TRUE, "", FALSE, <<>>, "", IF s.vb >= 2 THEN 1 ELSE 0)}
             ELSE {Rendered(s, n) : n \in Names(s)}
\* code-like: __init__ checks in order, then run()
s_bad(s) == IF s.st = "bad" THEN "LenaTypeError" ELSE IF s.sd = "bad" THEN "LenaTypeError"
            ELSE IF s.env = "both" THEN "LenaValueError" ELSE ""
SelConstruct == /\ part = "sel" /\ ph = "init"
                /\ IF s_bad(sc) # "" THEN res' = SR(FALSE, s_bad(sc), FALSE, <<>>, "", 0) /\ ph' = "done"
                   ELSE res' = res /\ ph' = "run"
                /\ UNCHANGED <<part, sc, w>>
SelRun == /\ part = "sel" /\ ph = "run"
          /\ IF ~Selected(sc) THEN res' = SR(TRUE, "", FALSE, <<>>, "", IF sc.vb >= 2 THEN 1 ELSE 0)
             ELSE LET n == IF sc.st = "callable" THEN "T" ELSE IF sc.ct # "none" THEN sc.ct
                           ELSE IF sc.st = "str" THEN "T" ELSE "none"
                  IN res' = Rendered(sc, n)
          /\ ph' = "done"
          /\ UNCHANGED <<part, sc, w>>

(***************************************************************************)
(* table: iterable_to_table                                                *)
(***************************************************************************)
T3(s, r, c) == [s |-> s, r |-> r, c |-> c]
Tok(s) == T3(s, 0, 0)
Cell(r, c) == T3("cell", r, c)
RowShapes == UNION {[1..n -> {0, 1, 2}] : n \in 0..MaxRows}       \* 0: a row that is not iterable; 1, 2: that many cells
TableScen == {s \in [rows : RowShapes, fmt : BOOLEAN, hdr : {"none", "plain", "fields"}, rs : BOOLEAN, re : BOOLEAN,
                     sep : {"C", "AMP"}, ftr : BOOLEAN] :
                 /\ (s.fmt => \A r \in 1..Len(s.rows) : s.rows[r] = 2)     \* one format per column
                 /\ (~Deep => (s.sep = "AMP" => s.rs = s.re))}
Width(s, r) == IF s.rows[r] = 0 THEN 1 ELSE s.rows[r]
RECURSIVE Cells(_, _, _)
Cells(s, r, c) == IF c > Width(s, r) THEN <<>>
                  ELSE (IF c > 1 THEN <<Tok(s.sep)>> ELSE <<>>) \o <<Cell(r, c)>> \o Cells(s, r, c + 1)
RowLine(s, r) == (IF s.rs THEN <<Tok("RS")>> ELSE <<>>) \o Cells(s, r, 1) \o (IF s.re THEN <<Tok("RE")>> ELSE <<>>)
HdrLine(s) == CASE s.hdr = "plain" -> << <<Tok("HDR")>> >>
                [] s.hdr = "fields" -> << <<Tok("HF1"), Tok(s.sep), Tok("HF2")>> >>
                [] OTHER -> <<>>
TableRef(s) == HdrLine(s) \o [r \in 1..Len(s.rows) |-> RowLine(s, r)] \o (IF s.ftr THEN << <<Tok("FTR")>> >> ELSE <<>>)
TableStep == /\ part = "table" /\ ph = "run"
             /\ IF w.r = 0 THEN w' = [r |-> 1, lines |-> HdrLine(sc)] /\ UNCHANGED <<ph, res>>
                ELSE IF w.r <= Len(sc.rows) THEN w' = [r |-> w.r + 1, lines |-> Append(w.lines, RowLine(sc, w.r))] /\ UNCHANGED <<ph, res>>
                ELSE /\ res' = Ok(IF sc.ftr THEN Append(w.lines, <<Tok("FTR")>>) ELSE w.lines)
                     /\ ph' = "done" /\ w' = w
             /\ UNCHANGED <<part, sc>>

(***************************************************************************)
(* csv: ToCSV for objects with rows(); the row-ending law                  *)
(***************************************************************************)
CsvScen == {s \in [obj : {"graph", "rows", "rowsctx", "hist"}, n : 1..MaxRows, sep : {"C", "AMP"}, hdr : BOOLEAN,
                   re : BOOLEAN, lre : BOOLEAN, dup : BOOLEAN, pair : BOOLEAN] :
               /\ (s.obj # "hist" => ~s.dup)
               /\ (~Deep => (s.sep = "AMP" => s.hdr))}
NRows(s) == IF s.dup THEN s.n + 1 ELSE s.n
\* a histogram row is (edge r, content of bin r); the duplicated last row repeats the content of the last bin
CsvRow(s, r) == IF s.obj = "hist" THEN <<Cell(r, 1), Tok(s.sep), Cell(IF r > s.n THEN s.n ELSE r, 2)>>
                ELSE <<Cell(r, 1), Tok(s.sep), Cell(r, 2)>>
RowEnd(s, r) == IF r < NRows(s) THEN (IF s.re THEN <<Tok("RE")>> ELSE <<>>) \o <<Tok("NL")>>
                ELSE IF s.lre THEN <<Tok("LRE")>> ELSE <<>>
RECURSIVE CsvRows(_, _)
CsvRows(s, r) == IF r > NRows(s) THEN <<>> ELSE CsvRow(s, r) \o RowEnd(s, r) \o CsvRows(s, r + 1)
\* "starting from header": whether the header line is ended like a row is not documented -> HEND = either
CsvText(s) == (IF s.hdr THEN <<Tok("HDR"), Tok("HEND")>> ELSE <<>>) \o CsvRows(s, 1)
CR(text, upd, keep) == [ok |-> TRUE, text |-> text, ftype |-> "csv", upd |-> upd, keep |-> keep]
CsvRef(s) == CR(CsvText(s), s.obj \in {"rowsctx", "hist"}, s.pair)
CsvStep == /\ part = "csv" /\ ph = "run"
           /\ IF w.r = 0 THEN w' = [r |-> 1, text |-> IF sc.hdr THEN <<Tok("HDR"), Tok("HEND")>> ELSE <<>>] /\ UNCHANGED <<ph, res>>
              ELSE IF w.r < NRows(sc)
              THEN w' = [r |-> w.r + 1, text |-> w.text \o CsvRow(sc, w.r) \o (IF sc.re THEN <<Tok("RE")>> ELSE <<>>) \o <<Tok("NL")>>]
                   /\ UNCHANGED <<ph, res>>
              ELSE /\ res' = CR(w.text \o CsvRow(sc, w.r) \o (IF sc.lre THEN <<Tok("LRE")>> ELSE <<>>),
                                sc.obj \in {"rowsctx", "hist"}, sc.pair)
                   /\ ph' = "done" /\ w' = w
           /\ UNCHANGED <<part, sc>>

(***************************************************************************)
(* cmd: LaTeXToPDF and PDFToPNG                                            *)
(***************************************************************************)
A4(s, dirs, stem, ext) == [s |-> s, dirs |-> dirs, stem |-> stem, ext |-> ext]
Word(s) == A4(s, <<>>, "", "")
Path(dirs, stem, ext) == A4("path", dirs, stem, ext)      \* dirs/stem.ext  (ext "" = no extension)
DirOf(dirs) == A4("dir", dirs, "", "")                    \* the directory part alone
DirNames == {"out", "a.tex.d", "b.pdf.d"}
Stems == IF Deep THEN {"plot", "my.texfile", "v1.pdfs"} ELSE {"plot", "my.texfile"}
DirSeqs == UNION {[1..n -> DirNames] : n \in 0..2}
CmdScen == {s \in [conv : {"latex", "png"}, dirs : DirSeqs, stem : Stems, abs : BOOLEAN, cc : BOOLEAN,
                   fmt : {"png", "jpeg"}, vb : BOOLEAN, slow : BOOLEAN] :
               /\ (s.conv = "latex" => s.fmt = "png" /\ ~s.slow)
               /\ (s.conv = "png" => ~s.cc)
               /\ (s.slow => s.dirs = <<>> /\ s.stem = "plot" /\ ~s.abs /\ ~s.vb /\ s.fmt = "png")
               /\ (~Deep => (Len(s.dirs) = 2 => ~s.abs /\ s.vb))}
FlagOf == [png |-> "-png", jpeg |-> "-jpeg", tiff |-> "-tiff"]
Tex(s) == Path(s.dirs, s.stem, "tex")
Pdf(s) == Path(s.dirs, s.stem, "pdf")
QR(ok, exc, argv, ccargs, out, ftype, printed) ==
    [ok |-> ok, exc |-> exc, argv |-> argv, ccargs |-> ccargs, out |-> out, ftype |-> ftype, printed |-> printed]
DefaultLatex(s) == <<Word("pdflatex"), Word("-halt-on-error"), Word("-interaction"), Word("errorstopmode"),
                     Word("-output-directory"), DirOf(s.dirs), Tex(s)>>
\* the harness's create_command returns [<stub>, "CUSTOM", texfile_name, outfilename]
CmdRef(s) == IF s.conv = "latex"
             THEN QR(TRUE, "", IF s.cc THEN <<Word("stub"), Word("CUSTOM"), Tex(s), Pdf(s)>> ELSE DefaultLatex(s),
                     IF s.cc THEN <<Tex(s), Pdf(s), DirOf(s.dirs), Word("CONTEXT")>> ELSE <<>>,
                     Pdf(s), "pdf", s.vb)
             ELSE IF s.slow THEN QR(FALSE, "TimeoutExpired", <<>>, <<>>, Word(""), "", FALSE)
             ELSE QR(TRUE, "", <<Word("pdftoppm"), Pdf(s), Path(s.dirs, s.stem, ""), Word(FlagOf[s.fmt]), Word("-singlefile")>>, <<>>,
                     Path(s.dirs, s.stem, s.fmt), s.fmt, s.vb)
\* code-like: split the incoming path at its last extension, build the command, launch, yield
CmdSplit == /\ part = "cmd" /\ ph = "run"
            /\ w' = [dir |-> DirOf(sc.dirs), root |-> Path(sc.dirs, sc.stem, ""),
                     inp |-> Path(sc.dirs, sc.stem, IF sc.conv = "latex" THEN "tex" ELSE "pdf")]
            /\ ph' = "launch" /\ UNCHANGED <<part, sc, res>>
WithExt(p, e) == [p EXCEPT !.ext = e]
CmdLaunch == /\ part = "cmd" /\ ph = "launch"
             /\ res' = IF sc.conv = "latex"
                       THEN LET outp == WithExt(w.root, "pdf") IN
                            QR(TRUE, "", IF sc.cc THEN <<Word("stub"), Word("CUSTOM"), w.inp, outp>>
                                         ELSE <<Word("pdflatex"), Word("-halt-on-error"), Word("-interaction"),
                                                Word("errorstopmode"), Word("-output-directory"), w.dir, w.inp>>,
                               IF sc.cc THEN <<w.inp, outp, w.dir, Word("CONTEXT")>> ELSE <<>>, outp, "pdf", sc.vb)
                       ELSE IF sc.slow THEN QR(FALSE, "TimeoutExpired", <<>>, <<>>, Word(""), "", FALSE)
                       ELSE QR(TRUE, "", <<Word("pdftoppm"), w.inp, w.root, Word(FlagOf[sc.fmt]), Word("-singlefile")>>, <<>>,
                               WithExt(w.root, sc.fmt), sc.fmt, sc.vb)
             /\ ph' = "done" /\ UNCHANGED <<part, sc, w>>

(***************************************************************************)
(* repr: Context as text.  A dictionary is a list of entries in pre-order  *)
(* with sorted keys:  [d depth >= 1, key, kind, v]                          *)
(*   kind L leaf (v = its JSON text), E empty dict, F empty list,          *)
(*        D dict with entries (they follow, depth d+1),                    *)
(*        S list with items (they follow as kind I, depth d+1, key "")     *)
(***************************************************************************)
En(d, key, kind, v) == [d |-> d, key |-> key, kind |-> kind, v |-> v]
KeyRank == [a |-> 1, b |-> 2, c |-> 3]
Keys == IF Deep THEN {"a", "b", "c"} ELSE {"a", "b"}
LeafTexts == IF Deep THEN {"1", "QS", "true", "null"} ELSE {"1", "QS"}
Ln(ind, key, val, comma) == [ind |-> ind, key |-> key, val |-> val, comma |-> comma]
HasSibling(es, i) == \E j \in (i + 1)..Len(es) : es[j].d = es[i].d /\ \A m \in (i + 1)..(j - 1) : es[m].d > es[i].d
OwnLine(es, i) == LET e == es[i] IN
                  Ln(e.d, e.key, CASE e.kind = "D" -> "{" [] e.kind = "S" -> "[" [] e.kind = "E" -> "{}"
                                   [] e.kind = "F" -> "[]" [] OTHER -> e.v,
                     e.kind \notin {"D", "S"} /\ HasSibling(es, i))
RECURSIVE Closers(_, _, _, _)
\* close the containers of levels c, c-1, .. lo that are open after entry i
Closers(es, i, c, lo) == IF c < lo THEN <<>>
                         ELSE IF c = 0 THEN <<Ln(0, "", "}", FALSE)>>
                         ELSE LET j == Max({m \in 1..i : es[m].d = c /\ es[m].kind \in {"D", "S"}}) IN
                              <<Ln(c, "", IF es[j].kind = "D" THEN "}" ELSE "]", HasSibling(es, j))>> \o Closers(es, i, c - 1, lo)
RECURSIVE EntryLines(_, _)
EntryLines(es, i) == IF i > Len(es) THEN <<>>
                     ELSE LET e == es[i]
                              nextd == IF i = Len(es) THEN 0 ELSE es[i + 1].d
                          IN <<OwnLine(es, i)>>
                             \o (IF e.kind \in {"D", "S"} THEN <<>> ELSE Closers(es, i, e.d - 1, nextd))
                             \o EntryLines(es, i + 1)
ReprRef(es) == IF es = <<>> THEN <<Ln(0, "", "{}", FALSE)>> ELSE <<Ln(0, "", "{", FALSE)>> \o EntryLines(es, 1)
\* composing a document
ParentIdx(es, d) == LET ps == {j \in 1..Len(es) : es[j].d = d - 1} IN IF ps = {} THEN 0 ELSE Max(ps)
PrevSibling(es, d) == LET p == ParentIdx(es, d)
                          ss == {j \in (p + 1)..Len(es) : es[j].d = d} IN IF ss = {} THEN 0 ELSE Max(ss)
CanAdd(es, e) ==
    /\ e.d >= 1 /\ e.d <= 3
    /\ IF es = <<>> THEN e.d = 1
       ELSE IF Last(es).kind \in {"D", "S"} THEN e.d = Last(es).d + 1 ELSE e.d <= Last(es).d
    /\ LET p == ParentIdx(es, e.d)
           inlist == e.d > 1 /\ p > 0 /\ es[p].kind = "S"
       IN /\ (e.d > 1 => p > 0 /\ es[p].kind \in {"D", "S"})
          /\ (inlist <=> e.kind = "I")
          /\ (inlist <=> e.key = "")
          /\ (~inlist => LET q == PrevSibling(es, e.d) IN IF q = 0 THEN TRUE ELSE KeyRank[es[q].key] < KeyRank[e.key])
Entries == {En(d, key, kind, v) : d \in 1..3, key \in Keys \cup {""}, kind \in {"L", "D", "S", "E", "F", "I"}, v \in LeafTexts \cup {""}}
EntryOK(e) == (e.kind \in {"L", "I"} <=> e.v # "") /\ (e.d = 3 => e.kind \in {"L", "I", "E", "F"})
ReprAdd == /\ part = "repr" /\ ph = "compose" /\ Len(sc.es) < MaxSrc
           /\ \E e \in Entries : (EntryOK(e) /\ CanAdd(sc.es, e)) = TRUE /\ sc' = [sc EXCEPT !.es = Append(@, e)]
           /\ UNCHANGED <<part, ph, w, res>>
ReprStart == /\ part = "repr" /\ ph = "compose"
             /\ (IF sc.es = <<>> THEN TRUE ELSE Last(sc.es).kind \notin {"D", "S"})
             /\ ph' = "run"
             /\ w' = [i |-> 1, stk |-> <<"D">>, lines |-> IF sc.es = <<>> THEN <<>> ELSE <<Ln(0, "", "{", FALSE)>>]
             /\ UNCHANGED <<part, sc, res>>
\* operational: a stack of open containers; closers are written when the next entry (or the end) shows how far to close
RECURSIVE CloseDown(_, _, _)
CloseDown(stk, d, last) == IF Len(stk) <= d THEN <<>>
                           ELSE <<Ln(Len(stk) - 1, "", IF Last(stk) = "D" THEN "}" ELSE "]", ~last /\ Len(stk) = d + 1)>>
                                \o CloseDown(Pop(stk), d, last)
ReprStep == /\ part = "repr" /\ ph = "run"
            /\ IF sc.es = <<>> THEN res' = Ok(<<Ln(0, "", "{}", FALSE)>>) /\ ph' = "done" /\ w' = w
               ELSE IF w.i > Len(sc.es)
               THEN res' = Ok(w.lines \o CloseDown(w.stk, 0, TRUE)) /\ ph' = "done" /\ w' = w
               ELSE LET e == sc.es[w.i]
                        closing == CloseDown(w.stk, e.d, FALSE)
                        stk1 == SubSeq(w.stk, 1, e.d)
                        comma == w.i < Len(sc.es) /\ sc.es[w.i + 1].d = e.d
                        line == Ln(e.d, e.key, CASE e.kind = "D" -> "{" [] e.kind = "S" -> "[" [] e.kind = "E" -> "{}"
                                                 [] e.kind = "F" -> "[]" [] OTHER -> e.v,
                                   e.kind \notin {"D", "S"} /\ comma)
                    IN /\ w' = [i |-> w.i + 1, lines |-> w.lines \o closing \o <<line>>,
                                stk |-> IF e.kind \in {"D", "S"} THEN Append(stk1, e.kind) ELSE stk1]
                       /\ UNCHANGED <<ph, res>>
            /\ UNCHANGED <<part, sc>>

(***************************************************************************)
(* ctxop: what the documentation of Context says about attribute access,   *)
(* calls and copies (and LaTeXToPDF about a create_command that is not     *)
(* callable)                                                               *)
(***************************************************************************)
CtxOps == {"get_present", "get_missing", "get_private", "set_public", "set_private", "call_pair", "call_ctxpair",
           "call_bare_int", "call_bare_str", "deepcopy", "pickle", "bad_formatter", "custom_formatter", "as_element",
           "bad_create_command"}       \* the last one belongs to LaTeXToPDF: create_command that is not callable
OR(ok, r, exc) == [ok |-> ok, r |-> r, exc |-> exc]
CtxOpRef(op) == CASE op = "get_present" -> OR(TRUE, "value", "")
                  [] op = "get_missing" -> OR(FALSE, "", "LenaAttributeError")
                  [] op = "get_private" -> OR(FALSE, "", "AttributeError")
                  [] op = "set_public" -> OR(TRUE, "item-set", "")
                  [] op = "set_private" -> OR(FALSE, "", "AttributeError")
                  [] op \in {"call_pair", "call_ctxpair", "as_element"} -> OR(TRUE, "data-with-Context-of-its-context", "")
                  [] op \in {"call_bare_int", "call_bare_str"} -> OR(TRUE, "value-with-empty-Context", "")
                  [] op \in {"deepcopy", "pickle"} -> OR(TRUE, "equal-Context-same-representation", "")
                  [] op \in {"bad_formatter", "bad_create_command"} -> OR(FALSE, "", "LenaTypeError")
                  [] OTHER -> OR(TRUE, "formatter-output", "")
CtxOpStep == /\ part = "ctxop" /\ ph = "run"
             /\ res' = CtxOpRef(sc.op) /\ ph' = "done" /\ UNCHANGED <<part, sc, w>>

(***************************************************************************)
(* The machine                                                             *)
(***************************************************************************)
Init == /\ part \in Parts
        /\ res = None
        /\ CASE part = "tpl" -> \/ (ph = "compose" /\ sc = [src |-> <<>>] /\ w = [open |-> <<>>])
                                \/ \E src \in CatalogueSrc, ci \in 1..Len(Ctxs) :
                                      /\ ph = "lex" /\ sc = [src |-> src, ci |-> ci, ctx |-> Ctxs[ci]]
                                      /\ w = [k |-> 1, pend |-> 0, ls |-> TRUE, at |-> FALSE, sw |-> FALSE, kt |-> <<>>]
             [] part = "sel" -> ph = "init" /\ sc \in SelScen /\ w = None
             [] part = "table" -> ph = "run" /\ sc \in TableScen /\ w = [r |-> 0, lines |-> <<>>]
             [] part = "csv" -> ph = "run" /\ sc \in CsvScen /\ w = [r |-> 0, text |-> <<>>]
             [] part = "cmd" -> ph = "run" /\ sc \in CmdScen /\ w = None
             [] part = "repr" -> ph = "compose" /\ sc = [es |-> <<>>] /\ w = None
             [] part = "ctxop" -> ph = "run" /\ (\E op \in CtxOps : sc = [op |-> op]) /\ w = None
Next == \/ AddPlain \/ AddLCom \/ AddIf \/ AddElse \/ AddEndIf \/ AddFor \/ AddEndFor \/ Render
        \/ LexStep \/ LexEnd \/ EvalStep \/ EvalEnd
        \/ SelConstruct \/ SelRun \/ TableStep \/ CsvStep \/ CmdSplit \/ CmdLaunch
        \/ ReprAdd \/ ReprStart \/ ReprStep \/ CtxOpStep
Spec == Init /\ [][Next]_vars

(***************************************************************************)
(* Properties: the operational parts meet the declarative ones             *)
(***************************************************************************)
LexMeetsRules == (part = "tpl" /\ ph = "eval" /\ w.pc = 1 /\ w.acc = <<>> /\ w.stk = <<>>) => w.kt = Kept(sc.src)
TplMeetsRef == (part = "tpl" /\ ph = "done") => res = TplRef(sc.src, sc.ctx)
\* what is rendered never contains a tag, and a live frame stack is empty at the end
TplBalanced == (part = "tpl" /\ ph = "done" /\ res.ok) => w.stk = <<>>
SelMeetsRef == (part = "sel" /\ ph = "done") => res \in SelRef(sc)
TableMeetsRef == (part = "table" /\ ph = "done") => res = Ok(TableRef(sc))
CsvMeetsRef == (part = "csv" /\ ph = "done") => res = CsvRef(sc)
\* every row but the last ends with a newline, the last one does not
CsvRowLaw == (part = "csv" /\ ph = "done") =>
                 /\ Cardinality({k \in 1..Len(res.text) : res.text[k].s = "NL"}) = NRows(sc) - 1
                 /\ Last(res.text).s # "NL" /\ Last(res.text).s # "RE"
CmdMeetsRef == (part = "cmd" /\ ph = "done") => res = CmdRef(sc)
\* the file that is yielded lies in the directory of the file that was given, under the same name
CmdSamePlace == (part = "cmd" /\ ph = "done" /\ res.ok) => res.out.dirs = sc.dirs /\ res.out.stem = sc.stem
ReprMeetsRef == (part = "repr" /\ ph = "done") => res = Ok(ReprRef(sc.es))
\* braces balance and indentation follows the nesting
ReprBalanced == (part = "repr" /\ ph = "done") =>
                   LET ls == res.out
                       opens == {k \in 1..Len(ls) : ls[k].val \in {"{", "["}}
                       closes == {k \in 1..Len(ls) : ls[k].val \in {"}", "]"}}
                   IN /\ Cardinality(opens) = Cardinality(closes)
                      /\ ~Last(ls).comma
                      /\ \A k \in 1..(Len(ls) - 1) :
                            ls[k + 1].ind = ls[k].ind + (IF ls[k].val \in {"{", "["} THEN 1 ELSE 0)
                                                      - (IF ls[k + 1].val \in {"}", "]"} THEN 1 ELSE 0)
CtxOpMeetsRef == (part = "ctxop" /\ ph = "done") => res = CtxOpRef(sc.op)

Emitted == ph = "done" => PrintT(ToJson([part |-> part, sc |-> sc, res |-> res,
                                         allowed |-> IF part = "sel" THEN SelRef(sc) ELSE {}]))
=============================================================================
