SPECIFICATION USpec
CONSTANTS MaxN = 10 Bound = 7 MaxStep = 4 MaxOps = 6
  UNs = {0, 4}
INVARIANT UEmitted
CHECK_DEADLOCK FALSE
