SPECIFICATION Spec
CONSTANTS
  Plans <- PlansPinned
  CreatedSetsChanged = FALSE
  AutoReload = TRUE
  KeepHistory = FALSE
VIEW view
INVARIANT TypeOK
INVARIANT AllCurrent
INVARIANT Regenerated
INVARIANT ChangedOK
INVARIANT NoRedo
INVARIANT NoRedoPlot
INVARIANT SkippedUntouched
INVARIANT GroupRedone
CHECK_DEADLOCK FALSE
