SPECIFICATION Spec
CONSTANTS NP = 1 MaxRuns = 3 MaxTouch = 99
  Settings <- SettingsDefault
  CreatedSetsChanged = FALSE
  KeepHistory = FALSE
VIEW view
INVARIANT TypeOK
INVARIANT AllCurrent
INVARIANT Regenerated
INVARIANT ChangedOK
INVARIANT NoRedo
INVARIANT NoRedoPlot
INVARIANT SkippedUntouched
CHECK_DEADLOCK FALSE
