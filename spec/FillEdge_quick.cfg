SPECIFICATION Spec
CONSTANTS MaxN = 3
  Chains <- ChainsQuick
  Drivers = {"run", "fill", "split"}
  Bufs <- BufQuick
  FillTruth = "truth"
  RunStop = "error"
INVARIANT DriversAgree
INVARIANT NoQuietEnd
INVARIANT TruthOnly
INVARIANT BufBound

CHECK_DEADLOCK FALSE
