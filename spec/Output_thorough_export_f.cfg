SPECIFICATION Spec
CONSTANTS MaxRuns = 2 MaxTouch = 2
  Scens <- ScenExpF
  Settings <- SettingsQuick
  CreatedSetsChanged = TRUE
  Reuses = {FALSE, TRUE}
  AutoReload = TRUE
  KeepHistory = TRUE
INVARIANT Emitted
CHECK_DEADLOCK FALSE
