SPECIFICATION Spec
CONSTANTS MaxLen = 4
  Pool <- Pool3U
  Starts <- StartsAll
  Xs = {2}
  Nested = FALSE
  CopyVarContext = TRUE
  ExtendByCompose = TRUE
INVARIANT Emitted
CHECK_DEADLOCK FALSE
