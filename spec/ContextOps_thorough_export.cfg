SPECIFICATION Spec
CONSTANTS
  KeyOrder <- KO2
  Ctxs <- CtxT2
  Flows <- SingleFlows
  Calls <- CallsThorough
INVARIANT Emit
CHECK_DEADLOCK FALSE
