SPECIFICATION Spec
CONSTANTS MaxBr = 2 MaxN = 1 CopyMode = "top"
  BufSizes <- BufAll
  Kinds <- NumericKinds
  Templates <- AllTemplates
INVARIANT Isolated
CHECK_DEADLOCK FALSE
