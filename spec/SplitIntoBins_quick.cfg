SPECIFICATION Spec
CONSTANTS U = "quick"
INVARIANT TypeOK
INVARIANT PerCell
INVARIANT CellsPartition
INVARIANT Borders
INVARIANT ComputeZip
INVARIANT OutIsPrefix
INVARIANT LastIsLastInside
INVARIANT IterOnceEach
INVARIANT MapShape
PROPERTY NoCrossTalk
PROPERTY OutsideIgnored
CHECK_DEADLOCK FALSE
