------------------------------ MODULE GroupBy ------------------------------
(***************************************************************************)
(* lena.flow.GroupBy(group_by, merge): partition of the filled values by   *)
(* the part of their context selected with the include / exclude           *)
(* longest-prefix rule.                                                    *)
(*                                                                         *)
(* Code: lena/flow/group_by.py (GroupBy.fill: key = to_string(tree.get(    *)
(* context)); groups[key].append(value)), lena/context/                    *)
(* include_exclude_tree.py (make_include_exclude_tree, IncludeExcludeTree. *)
(* get).                                                                   *)
(*                                                                         *)
(* Declarative part: Owner (longest listed prefix), Selected, Agree,       *)
(* SameGroup - the statement of C15 word by word.                          *)
(* Operational part: Proj (the selected sub-context, what get computes),   *)
(* groups keyed by it in arrival order, one action per fill.               *)
(***************************************************************************)
EXTENDS GroupBySem, IOUtils, SequencesExt

(***************************************************************************)
(* Universes.                                                              *)
(***************************************************************************)
CONSTANTS PairSrc,   \* "all": every (G, M) over Keys; "file": the pairs accepted by the implementation
          CtxU,      \* name of the universe of contexts
          MaxFlow,   \* flows of 0..MaxFlow values
          KeyU,      \* "six": keys "", a, b, a.b, a.c, a.b.c; "five": without a.c
          Writ,      \* the orders in which a key set is written: "all", or "ends" (shortest first / deepest first)
          NObj       \* number of context objects that are shared between values and modified in place by the
                     \* source between fills (0: every value brings a context object of its own)

Keys == {<<>>, <<"a">>, <<"b">>, <<"a", "b">>, <<"a", "b", "c">>} \cup (IF KeyU = "six" THEN {<<"a", "c">>} ELSE {})
\* the root (empty) key must be in exactly one of group_by and merge; no key in both
AllPairs(u) == {gm \in (SUBSET Keys) \X (SUBSET Keys) :
                  gm[1] \cap gm[2] = {} /\ <<>> \in gm[1] \cup gm[2]}
SetOf(s) == {s[i] : i \in DOMAIN s}
FilePairs(u) == LET j == JsonDeserialize(IOEnv.GM_FILE) IN {<<SetOf(j[i].G), SetOf(j[i].M)>> : i \in DOMAIN j}
\* "small" / "filesmall": the (accepted) pairs that list, besides the root, at most one of the keys a, a.b
\* (the key sets that tell the contexts of the universes "ops3" / "ops4" apart)
Small(gm) == Cardinality(gm[1] \cup gm[2]) <= 2 /\ gm[1] \cup gm[2] \subseteq {<<>>, <<"a">>, <<"a", "b">>}
GMs == CASE PairSrc = "all" -> AllPairs(PairSrc)
         [] PairSrc = "file" -> FilePairs(PairSrc)
         [] PairSrc = "filesmall" -> {gm \in FilePairs(PairSrc) : Small(gm)}
         [] PairSrc = "small" -> {gm \in AllPairs(PairSrc) : Small(gm)}

(***************************************************************************)
(* group_by and merge are *sets* of keys, but the user writes them as      *)
(* sequences - in any order.  A writing is a pair of sequences [g, m]      *)
(* enumerating G and M.  SelectedW finds the longest listed prefix by one  *)
(* scan through a writing; WritingIrrelevant: the order does not matter.   *)
(***************************************************************************)
Perms(S) == {f \in [1..Cardinality(S) -> S] : \A i, j \in 1..Cardinality(S) : i # j => f[i] # f[j]}
Asc(S) == CHOOSE f \in Perms(S) : \A i, j \in 1..Len(f) : i < j => Len(f[i]) <= Len(f[j])
Rev(f) == [i \in 1..Len(f) |-> f[Len(f) + 1 - i]]
Writings(g, m) == IF Writ = "all" THEN {[g |-> a, m |-> b] : a \in Perms(g), b \in Perms(m)}
                  ELSE {[g |-> Asc(g), m |-> Asc(m)], [g |-> Rev(Asc(g)), m |-> Rev(Asc(m))]}
Entries(w) == [i \in 1..(Len(w.g) + Len(w.m)) |-> IF i <= Len(w.g) THEN [key |-> w.g[i], inc |-> TRUE]
                                                  ELSE [key |-> w.m[i - Len(w.g)], inc |-> FALSE]]
RECURSIVE ScanBest(_, _, _, _)
ScanBest(p, es, i, best) ==
  IF i > Len(es) THEN best
  ELSE ScanBest(p, es, i + 1, IF PrefixOf(es[i].key, p) /\ Len(es[i].key) > best.n
                              THEN [n |-> Len(es[i].key), inc |-> es[i].inc] ELSE best)
SelectedW(p, w) == ScanBest(p, Entries(w), 1, [n |-> -1, inc |-> FALSE]).inc

L1 == LInt(1, "1")
L2 == LInt(2, "2")
MkDict(f) == Dict([key \in {x \in DOMAIN f : f[x] # Absent} |-> f[key]])
One(key, x) == [y \in {key} |-> x]
\* contexts over a, b, a.b, a.c, a.b.c with scalars or dictionaries at every level
Scal(full) == IF full THEN {Absent, L1, L2} ELSE {Absent, L1}
CtxSet(full) ==
  LET abc == Scal(full) \cup {Empty}
      ab == {Absent, L1, L2} \cup {MkDict(One("c", x)) : x \in abc}
      ac == Scal(full) \cup {Empty}
      a == {Absent, L1, L2} \cup {MkDict(One("b", x) @@ One("c", y)) : x \in ab, y \in ac}
      b == Scal(full) \cup {Empty}
  IN {MkDict(One("a", x) @@ One("b", y)) : x \in a, y \in b}
\* a hand-picked universe: scalar / dictionary / absent at each listed path
CtxFew == {Empty,
           Dict(One("a", L1)), Dict(One("a", L2)), Dict(One("a", Empty)), Dict(One("b", L1)),
           Dict(One("a", Dict(One("b", L1)))), Dict(One("a", Dict(One("b", L2)))),
           Dict(One("a", Dict(One("b", Empty)))), Dict(One("a", Dict(One("c", L1)))),
           Dict(One("a", Dict(One("b", Dict(One("c", L1)))))), Dict(One("a", Dict(One("b", Dict(One("c", Empty)))))),
           Dict(One("a", Dict(One("b", L1) @@ One("c", L1)))),
           Dict(One("a", Dict(One("b", Dict(One("c", L1))) @@ One("c", L1))) @@ One("b", L1))}
CtxTiny == {Empty, Dict(One("a", L1)), Dict(One("a", Empty)), Dict(One("a", Dict(One("b", L1)))),
            Dict(One("a", Dict(One("c", L1)))), Dict(One("a", LNone)), Dict(One("a", Dict(One("b", LNone))))}
\* contexts holding, at the listed paths, what could be confused with an absent key: None, 0, "", [], False, {}
\* (0 and False never at the same path: whether they "agree" is not settled by the statement)
L0 == LInt(0, "0")
LE == LStr("")
CtxFalsy(full) ==
  LET abc == {Absent, LNone, Empty} \cup (IF full THEN {L1, L0} ELSE {})
      ab == {Absent, LNone, LFalse, L1} \cup (IF full THEN {LList, LE} ELSE {}) \cup {MkDict(One("c", x)) : x \in abc}
      ac == {Absent, LNone} \cup (IF full THEN {Empty, L1} ELSE {})
      a == {Absent, LNone, L0, L1, L2} \cup (IF full THEN {LE, LList} ELSE {})
           \cup {MkDict(One("b", x) @@ One("c", y)) : x \in ab, y \in ac}
      b == {Absent, LNone, Empty} \cup (IF full THEN {L0} ELSE {})
  IN {MkDict(One("a", x) @@ One("b", y)) : x \in a, y \in b}
CtxSeq == SetToSeq(CASE CtxU = "tiny" -> CtxTiny [] CtxU = "few" -> CtxFew \cup CtxTiny
                     [] CtxU = "mid" -> CtxSet(FALSE) [] CtxU = "full" -> CtxSet(TRUE)
                     [] CtxU = "falsyq" -> CtxFalsy(FALSE) [] CtxU = "falsy" -> CtxFalsy(TRUE)
                     [] CtxU = "ops3" -> {Empty, Dict(One("a", L1)), Dict(One("a", LNone))}
                     [] CtxU = "ops4" -> {Empty, Dict(One("a", L1)), Dict(One("a", LNone)), Dict(One("a", Dict(One("b", L1))))})
NC == Len(CtxSeq)

(***************************************************************************)
(* The machine: GroupBy(G, M) used as an object with state: fill(value),   *)
(* compute() (yields the groups as they are, filling goes on afterwards)   *)
(* and reset() (removes all groups) in any order.  A flow item is          *)
(*   [op |-> "fill", o, c]   a value is filled whose context is the object *)
(*        o and holds CtxSeq[c].  o = 0: a context object of its own, used *)
(*        for this value only.  o in 1..NObj: an object that the source    *)
(*        keeps: it was modified in place to hold CtxSeq[c] (if it held    *)
(*        something else) and is handed on with this value - the earlier   *)
(*        values filled with o carry the very same, now modified, object;  *)
(*   [op |-> "compute"], [op |-> "reset"]  (only in the universes "ops3" / *)
(*        "ops4").                                                         *)
(* Values are identified by their position in the flow.                    *)
(***************************************************************************)
VARIABLES G, M, flow, pos,
          groups,    \* sequence of [key |-> selected sub-context, vals |-> positions], in order of creation
          base,      \* position of the last reset() (0: none)
          snaps,     \* what the compute() calls yielded: [at, base, groups, heap]
          heap       \* what the shared context objects hold now (index into CtxSeq; 0: not used yet)
vars == <<G, M, flow, pos, groups, base, snaps, heap>>

Fill(o, c) == [op |-> "fill", o |-> o, c |-> c]
ICompute == [op |-> "compute", o |-> 0, c |-> 0]
IReset == [op |-> "reset", o |-> 0, c |-> 0]
Items == {Fill(o, c) : o \in 0..NObj, c \in 1..NC} \cup (IF CtxU \in {"ops3", "ops4"} THEN {ICompute, IReset} ELSE {})
Heap0 == [o \in 1..NObj |-> 0]
Init == /\ \E gm \in GMs : G = gm[1] /\ M = gm[2]
        /\ flow \in UNION {[1..n -> Items] : n \in 0..MaxFlow}
        /\ pos = 0 /\ groups = <<>> /\ base = 0 /\ snaps = <<>> /\ heap = Heap0
IsVal(i) == flow[i].op = "fill"
\* the context of value i when it was filled
FillCtx(i) == CtxSeq[flow[i].c]
\* the source modifies its context object in place before it hands the next value on
Store(i) == IF flow[i].o = 0 THEN heap ELSE [heap EXCEPT ![flow[i].o] = flow[i].c]
\* key = to_string(tree.get(context)): computed from what the context object holds when fill is called
KeyOf(i) == LET h == Store(i)  cont == IF flow[i].o = 0 THEN flow[i].c ELSE h[flow[i].o] IN Proj(CtxSeq[cont], G, M)
\* groups[key].append(val)
FillOld == /\ pos < Len(flow) /\ IsVal(pos + 1)
           /\ \E g \in 1..Len(groups) :
                /\ groups[g].key = KeyOf(pos + 1)
                /\ groups' = [groups EXCEPT ![g].vals = Append(@, pos + 1)]
           /\ heap' = Store(pos + 1)
           /\ pos' = pos + 1 /\ UNCHANGED <<G, M, flow, base, snaps>>
\* groups[key] = [val]
FillNew == /\ pos < Len(flow) /\ IsVal(pos + 1)
           /\ \A g \in 1..Len(groups) : groups[g].key # KeyOf(pos + 1)
           /\ groups' = Append(groups, [key |-> KeyOf(pos + 1), vals |-> <<pos + 1>>])
           /\ heap' = Store(pos + 1)
           /\ pos' = pos + 1 /\ UNCHANGED <<G, M, flow, base, snaps>>
\* compute(): the groups as they are now; nothing is forgotten
Compute == /\ pos < Len(flow) /\ flow[pos + 1] = ICompute
           /\ snaps' = Append(snaps, [at |-> pos, base |-> base, groups |-> [g \in 1..Len(groups) |-> groups[g].vals],
                                      heap |-> heap])
           /\ pos' = pos + 1 /\ UNCHANGED <<G, M, flow, groups, base, heap>>
\* reset(): all groups are removed (the source's objects are what they are)
Reset == /\ pos < Len(flow) /\ flow[pos + 1] = IReset
         /\ groups' = <<>> /\ base' = pos + 1
         /\ pos' = pos + 1 /\ UNCHANGED <<G, M, flow, snaps, heap>>
Next == FillOld \/ FillNew \/ Compute \/ Reset
Spec == Init /\ [][Next]_vars
Done == pos = Len(flow)

(***************************************************************************)
(* Properties.                                                             *)
(***************************************************************************)
\* the values filled since the last reset()
Live(lo, hi) == {i \in (lo + 1)..hi : IsVal(i)}
GroupOf(i) == CHOOSE g \in 1..Len(groups) : \E j \in 1..Len(groups[g].vals) : groups[g].vals[j] = i
\* the groups are a partition of the values filled since the last reset()
IsPartition == /\ \A i \in Live(base, pos) : Cardinality({g \in 1..Len(groups) : \E j \in 1..Len(groups[g].vals) : groups[g].vals[j] = i}) = 1
               /\ \A g \in 1..Len(groups) : \A j \in 1..Len(groups[g].vals) : groups[g].vals[j] \in Live(base, pos)
\* C15: same group exactly when the contexts agree on every selected path
\* (checked for the value filled last against all earlier ones; earlier pairs were checked in the
\* predecessor states, and the actions never move a value)
PartitionExact == (pos > 0 /\ IsVal(pos)) =>
                    \A i \in Live(base, pos) :
                      (GroupOf(i) = GroupOf(pos)) <=> SameGroup(FillCtx(i), FillCtx(pos), G, M)
(***************************************************************************)
(* Shared context objects.  "Their contexts" in the statement can be read  *)
(* as what a value's context held when the value was filled (FillCtx) or   *)
(* as what it holds when the groups are looked at (NowCtx); the two differ *)
(* only for a value whose context object the source modified afterwards.   *)
(* A pair of values is *settled* when both readings give the same answer;  *)
(* the machine - which reads a context when fill is called and keeps       *)
(* nothing about the object - is right on every settled pair under either  *)
(* reading, whatever objects carried the contexts and whatever was filled  *)
(* or reset before.  Only settled pairs are compared with an               *)
(* implementation.                                                         *)
(***************************************************************************)
NowCtxIn(h, i) == IF flow[i].o = 0 THEN FillCtx(i) ELSE CtxSeq[h[flow[i].o]]
SettledIn(h, i, j) == SameGroup(FillCtx(i), FillCtx(j), G, M) <=> SameGroup(NowCtxIn(h, i), NowCtxIn(h, j), G, M)
Together(i, j) == GroupOf(i) = GroupOf(j)
AliasingIrrelevant ==
  \A i, j \in Live(base, pos) :
     /\ SettledIn(heap, i, j) => (Together(i, j) <=> SameGroup(NowCtxIn(heap, i), NowCtxIn(heap, j), G, M))
     \* a value whose context object was not touched since is settled with every other such value
     /\ (NowCtxIn(heap, i) = FillCtx(i) /\ NowCtxIn(heap, j) = FillCtx(j)) => SettledIn(heap, i, j)
\* the pairs of live values that are not settled at an observation
OpenIn(h, lo, hi) == {p \in Live(lo, hi) \X Live(lo, hi) : p[1] < p[2] /\ ~SettledIn(h, p[1], p[2])}
HeapOK == \A o \in 1..NObj : heap[o] \in 0..NC
\* fill and compute() never move or drop a value; only reset() empties the groups
Stable == [][(groups' # <<>> \/ groups = <<>>) =>
               \A g \in 1..Len(groups) : /\ groups'[g].key = groups[g].key
                                          /\ SubSeq(groups'[g].vals, 1, Len(groups[g].vals)) = groups[g].vals]_vars
\* what compute() yielded: the partition, by SameGroup, of the values filled between the last reset()
\* and that call - every one of them, in arrival order
SnapshotsRight == \A k \in 1..Len(snaps) :
  LET sn == snaps[k]  live == Live(sn.base, sn.at) IN
  /\ UNION {{sn.groups[g][j] : j \in 1..Len(sn.groups[g])} : g \in 1..Len(sn.groups)} = live
  /\ \A g \in 1..Len(sn.groups) : \A j \in 1..(Len(sn.groups[g]) - 1) : sn.groups[g][j] < sn.groups[g][j + 1]
  /\ \A g, g2 \in 1..Len(sn.groups) : \A x \in 1..Len(sn.groups[g]) : \A y \in 1..Len(sn.groups[g2]) :
        (g = g2) <=> SameGroup(FillCtx(sn.groups[g][x]), FillCtx(sn.groups[g2][y]), G, M)
ResetEmpties == [][(pos < Len(flow) /\ flow[pos + 1] = IReset /\ pos' = pos + 1) => groups' = <<>>]_vars
\* arrival order is preserved inside a group (and groups appear in order of their first value)
OrderPreserved == /\ \A g \in 1..Len(groups) : \A j \in 1..(Len(groups[g].vals) - 1) : groups[g].vals[j] < groups[g].vals[j + 1]
                  /\ \A g \in 1..(Len(groups) - 1) : groups[g].vals[1] < groups[g + 1].vals[1]
NoEmptyGroup == \A g \in 1..Len(groups) : groups[g].vals # <<>>
\* the three formulations coincide on the whole universe of contexts; SameGroup is an equivalence
AtStart == pos = 0 /\ flow = <<>>
KeyChar(i) ==
  \A j \in 1..NC : i <= j =>
     LET s == SameGroup(CtxSeq[i], CtxSeq[j], G, M) IN
       /\ s <=> (Sig(CtxSeq[i], G, M) = Sig(CtxSeq[j], G, M))
       /\ s <=> (Proj(CtxSeq[i], G, M) = Proj(CtxSeq[j], G, M))
       /\ s <=> SameGroup(CtxSeq[j], CtxSeq[i], G, M)
KeyCharacterises == AtStart => \A i \in 1..NC : KeyChar(i)
PartitionIsEquivalence == AtStart =>
  LET R(i, j) == SameGroup(CtxSeq[i], CtxSeq[j], G, M) IN
  /\ \A i \in 1..NC : R(i, i)
  /\ \A i, j \in 1..NC : R(i, j) => /\ R(j, i)
                                    /\ \A l \in 1..NC : R(j, l) => R(i, l)
\* the fast form of Selected is the literal one
AllPaths == UNION {[1..n -> {"a", "b", "c"}] : n \in 1..3}
OwnerIsLongest == AtStart => \A p \in AllPaths : Selected(p, G, M) <=> (Owner(p, G, M) \in G)
\* the order in which the keys are written does not matter
WritingIrrelevant == AtStart => \A w \in Writings(G, M) :
                       /\ SetOf(w.g) = G /\ SetOf(w.m) = M /\ Len(w.g) = Cardinality(G) /\ Len(w.m) = Cardinality(M)
                       /\ \A p \in AllPaths : SelectedW(p, w) <=> Selected(p, G, M)
\* default arguments: merge takes priority, everything in one group; whole context otherwise
DefaultsOneGroup == (G = {} /\ M = {<<>>}) => Len(groups) <= 1
WholeContext == (G = {<<>>} /\ M = {}) => \A i, j \in Live(base, pos) : (GroupOf(i) = GroupOf(j)) <=> flow[i].c = flow[j].c
\* the selected part is a sub-context: nothing is invented
ProjPart(i) == \A p \in Paths(Proj(CtxSeq[i], G, M)) : At(Proj(CtxSeq[i], G, M), p) = At(CtxSeq[i], p)
ProjIsPart == AtStart => \A i \in 1..NC : ProjPart(i)

\* The same relation checks over a large universe of contexts, one context per state so that
\* TLC's workers share them: pos walks through the universe.
RInit == /\ \E gm \in GMs : G = gm[1] /\ M = gm[2]
         /\ flow = <<>> /\ pos = 0 /\ groups = <<>> /\ base = 0 /\ snaps = <<>> /\ heap = Heap0
RNext == pos < NC /\ pos' = pos + 1 /\ UNCHANGED <<G, M, flow, groups, base, snaps, heap>>
RSpec == RInit /\ [][RNext]_vars
KeyCharStep == pos > 0 => KeyChar(pos)
ProjPartStep == pos > 0 => ProjPart(pos)
OwnerStep == pos = 0 => \A p \in AllPaths : Selected(p, G, M) <=> (Owner(p, G, M) \in G)

(***************************************************************************)
(* Export (S2C).                                                           *)
(***************************************************************************)
PathSeq(S) == SetToSeq(S)
\* the writings of the key sets, for the harness to construct GroupBy with
WSeq == SetToSeq(Writings(G, M))
\* the class of every context of the universe (index of a representative of the class), by Sig
XInit == /\ \E gm \in GMs : G = gm[1] /\ M = gm[2]
         /\ flow = <<>> /\ pos = 0 /\ groups = <<>> /\ base = 0 /\ snaps = <<>> /\ heap = Heap0
XSpec == XInit /\ [][FALSE]_vars
\* (the universe of contexts itself is attached to the record of one pair)
FirstGM == CHOOSE gm \in GMs : TRUE
ClsOf(sg) == [i \in 1..NC |-> CHOOSE j \in 1..NC : sg[j] = sg[i]]     \* one representative per class
EmitClasses ==
  PrintT(ToJson([G |-> PathSeq(G), M |-> PathSeq(M), W |-> WSeq, cls |-> ClsOf([i \in 1..NC |-> Sig(CtxSeq[i], G, M)]),
                 ctxs |-> IF <<G, M>> = FirstGM THEN CtxSeq ELSE <<>>]))
\* behaviours of the machine; with every observation the pairs that are not settled there
PairSeq(S) == LET q == SetToSeq(S) IN [k \in 1..Len(q) |-> <<q[k][1], q[k][2]>>]
EmitFlow == Done => PrintT(ToJson([G |-> PathSeq(G), M |-> PathSeq(M), W |-> WSeq,
                                   flow |-> [i \in 1..Len(flow) |-> [op |-> flow[i].op, o |-> flow[i].o,
                                                                     c |-> IF IsVal(i) THEN FillCtx(i) ELSE Empty]],
                                   snaps |-> [k \in 1..Len(snaps) |-> snaps[k].groups],
                                   snapopen |-> [k \in 1..Len(snaps) |-> PairSeq(OpenIn(snaps[k].heap, snaps[k].base, snaps[k].at))],
                                   groups |-> [g \in 1..Len(groups) |-> groups[g].vals],
                                   open |-> PairSeq(OpenIn(heap, base, pos))]))
=============================================================================
