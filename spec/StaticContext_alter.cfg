SPECIFICATION Spec
CONSTANTS MaxDepth = 3
  Families <- FamAlter
  StoreByCopy = TRUE
  TailKeepsSets = TRUE
  SplitContinues = TRUE
  SkipEmpty = TRUE
  SkipGetters = TRUE
  SplitCachesExport = FALSE
  SrcFRepass = TRUE
  MFRunCopies = TRUE
  AlterApplied = TRUE
INVARIANT SeenIsExpected
CHECK_DEADLOCK FALSE
