-------------------------------- MODULE Heap --------------------------------
(***************************************************************************)
(* Object-identity view of flow values, shared by Isolation.tla (Split/Zip *)
(* branches) and Alias.tla (accumulator contexts).  No constants or        *)
(* variables.                                                              *)
(*                                                                         *)
(* A *pure* value is [d |-> <<ints>>, c |-> context] with context a        *)
(* function from key strings; the keys in NestedKeys hold a nested         *)
(* dictionary (a function with leaf values), all other keys hold leaves.   *)
(*                                                                         *)
(* A *heap* M = [h |-> function id -> cell, n |-> next free id] holds the  *)
(* mutable objects: a list cell (data) or a dict cell (context, nested     *)
(* dict).  In a dict cell the nested keys hold [ref |-> id].  A value on   *)
(* the heap is a VRef [d |-> id, c |-> id] (the tuple itself is immutable).*)
(* copy.deepcopy is Snap followed by Alloc: fresh ids for every object.    *)
(*                                                                         *)
(* Mutators (what branch elements do to a value, in place):                *)
(*   inc   user element: context[key] += 1 (1 if absent)                   *)
(*   app   user element: data.append(x)                                    *)
(*   set   lena.context.UpdateContext(key, x)                              *)
(*   setn  UpdateContext("nk.key", x) (ia = FALSE) /                       *)
(*         lena.output.MakeFilename(s): output.filename := s if absent     *)
(*   var   lena.variables.Variable(s, lambda d: d + [x]): new data object, *)
(*         context.variable.name := s                                      *)
(*   cnt   lena.flow.Count(s) inside a Sequence: the last value of every   *)
(*         run gets context[s] := running count                            *)
(* Each exists twice: H.. on the heap (operational) and P.. on pure values *)
(* (declarative).                                                          *)
(***************************************************************************)
EXTENDS Integers, Sequences, FiniteSets, TLC

None == -1000
NestedKeys == {"n", "output", "variable"}
NKSeq == <<"n", "output", "variable">>
ListKey == "l"            \* a context key that holds a list (a mutable object of its own)
RefKeys == NestedKeys \cup {ListKey}
Put(c, k, v) == [x \in (DOMAIN c) \cup {k} |-> IF x = k THEN v ELSE c[x]]
Mut(t, nk, key, x, s, ia) == [t |-> t, nk |-> nk, key |-> key, x |-> x, s |-> s, ia |-> ia]
Inc(key) == Mut("inc", "", key, 0, "", FALSE)
App(x) == Mut("app", "", "", x, "", FALSE)
SetK(key, x) == Mut("set", "", key, x, "", FALSE)
SetN(nk, key, x) == Mut("setn", nk, key, x, "", FALSE)
MakeFn(s) == Mut("setn", "output", "filename", 0, s, TRUE)
Var(s, x) == Mut("var", "variable", "name", x, s, FALSE)
Cnt(s) == Mut("cnt", "", s, 0, "", FALSE)
LApp(x) == Mut("lapp", "", ListKey, x, "", FALSE)      \* user element: context["l"].append(x) (created if absent)
\* what a nested write stores: MakeFilename and Variable store strings, UpdateContext ints
Stored(mu) == IF mu.s = "" THEN mu.x ELSE mu.s

(***************************************************************************)
(* Heap.                                                                   *)
(***************************************************************************)
LCell(v) == [k |-> "L", v |-> v, m |-> <<>>]
DCell(m) == [k |-> "D", v |-> <<>>, m |-> m]
EmptyHeap == [h |-> <<>>, n |-> 1]
\* the new object gets id M.n
NewCell(M, cell) == [h |-> [i \in 1..M.n |-> IF i = M.n THEN cell ELSE M.h[i]], n |-> M.n + 1]

RECURSIVE AllocNested(_, _, _, _)
AllocNested(M, c, j, m) ==
  IF j > Len(NKSeq) THEN [M |-> M, m |-> m]
  ELSE LET nk == NKSeq[j] IN
       IF nk \in DOMAIN c
       THEN AllocNested(NewCell(M, DCell(c[nk])), c, j + 1, [m EXCEPT ![nk] = [ref |-> M.n]])
       ELSE AllocNested(M, c, j + 1, m)
AllocCtx(M, c) == LET r0 == AllocNested(M, c, 1, c)
                      r == IF ListKey \in DOMAIN c
                           THEN [M |-> NewCell(r0.M, LCell(c[ListKey])), m |-> [r0.m EXCEPT ![ListKey] = [ref |-> r0.M.n]]]
                           ELSE r0
                  IN [M |-> NewCell(r.M, DCell(r.m)), id |-> r.M.n]
AllocVal(M, x) == LET M1 == NewCell(M, LCell(x.d))
                      r == AllocCtx(M1, x.c)
                  IN [M |-> r.M, v |-> [d |-> M.n, c |-> r.id]]
SnapCtx(h, id) == LET m == h[id].m IN
                  [key \in DOMAIN m |-> IF key \in NestedKeys THEN h[m[key].ref].m
                                        ELSE IF key = ListKey THEN h[m[key].ref].v ELSE m[key]]
SnapVal(h, v) == [d |-> h[v.d].v, c |-> SnapCtx(h, v.c)]
DeepCopyVal(M, v) == AllocVal(M, SnapVal(M.h, v))
DeepCopyCtx(M, id) == AllocCtx(M, SnapCtx(M.h, id))
\* copy.copy-like: new list, new top-level dict, the nested dicts are shared
ShallowCopyVal(M, v) == LET M1 == NewCell(M, LCell(M.h[v.d].v))
                            M2 == NewCell(M1, DCell(M.h[v.c].m))
                        IN [M |-> M2, v |-> [d |-> M.n, c |-> M1.n]]
ReachCtx(h, id) == {id} \cup {h[id].m[k].ref : k \in RefKeys \cap DOMAIN h[id].m}
Reach(h, v) == {v.d} \cup ReachCtx(h, v.c)

\* copy.deepcopy of a list of values
RECURSIVE DeepCopyAll(_, _)
DeepCopyAll(M, vs) == IF vs = <<>> THEN [M |-> M, vs |-> <<>>]
                      ELSE LET r == DeepCopyVal(M, Head(vs))
                               rest == DeepCopyAll(r.M, Tail(vs))
                           IN [M |-> rest.M, vs |-> <<r.v>> \o rest.vs]
RECURSIVE ShallowCopyAll(_, _)
ShallowCopyAll(M, vs) == IF vs = <<>> THEN [M |-> M, vs |-> <<>>]
                         ELSE LET r == ShallowCopyVal(M, Head(vs))
                                  rest == ShallowCopyAll(r.M, Tail(vs))
                              IN [M |-> rest.M, vs |-> <<r.v>> \o rest.vs]
RECURSIVE AllocAll(_, _)
AllocAll(M, xs) == IF xs = <<>> THEN [M |-> M, vs |-> <<>>]
                   ELSE LET r == AllocVal(M, Head(xs))
                            rest == AllocAll(r.M, Tail(xs))
                        IN [M |-> rest.M, vs |-> <<r.v>> \o rest.vs]

(***************************************************************************)
(* Mutators on the heap: [M, v] -> [M, v]  (cnt is handled by the caller). *)
(***************************************************************************)
HSetKey(M, cid, key, x) == [M EXCEPT !.h[cid].m = Put(@, key, x)]
HSetNested(M, cid, mu) ==
  LET m == M.h[cid].m IN
  IF mu.nk \in DOMAIN m
  THEN LET nid == m[mu.nk].ref IN
       IF mu.ia /\ mu.key \in DOMAIN M.h[nid].m THEN M
       ELSE [M EXCEPT !.h[nid].m = Put(@, mu.key, Stored(mu))]
  ELSE LET M2 == NewCell(M, DCell(Put(<<>>, mu.key, Stored(mu))))
       IN [M2 EXCEPT !.h[cid].m = Put(@, mu.nk, [ref |-> M.n])]
HListApp(M, cid, x) ==
  LET m == M.h[cid].m IN
  IF ListKey \in DOMAIN m THEN [M EXCEPT !.h[m[ListKey].ref].v = Append(@, x)]
  ELSE LET M2 == NewCell(M, LCell(<<x>>)) IN [M2 EXCEPT !.h[cid].m = Put(@, ListKey, [ref |-> M.n])]
HApply(M, v, mu) ==
  CASE mu.t = "lapp" -> [M |-> HListApp(M, v.c, mu.x), v |-> v]
    [] mu.t = "inc" -> LET m == M.h[v.c].m IN
                       [M |-> HSetKey(M, v.c, mu.key, (IF mu.key \in DOMAIN m THEN m[mu.key] ELSE 0) + 1), v |-> v]
    [] mu.t = "app" -> [M |-> [M EXCEPT !.h[v.d].v = Append(@, mu.x)], v |-> v]
    [] mu.t = "set" -> [M |-> HSetKey(M, v.c, mu.key, mu.x), v |-> v]
    [] mu.t = "setn" -> [M |-> HSetNested(M, v.c, mu), v |-> v]
    [] mu.t = "var" -> LET M2 == NewCell(M, LCell(Append(M.h[v.d].v, mu.x)))      \* getter builds a new list
                       IN [M |-> HSetNested(M2, v.c, mu), v |-> [d |-> M.n, c |-> v.c]]
    [] mu.t = "cnt" -> [M |-> M, v |-> v]
RECURSIVE HApplyAll(_, _, _)
HApplyAll(M, v, mus) == IF mus = <<>> THEN [M |-> M, v |-> v]
                        ELSE LET r == HApply(M, v, Head(mus)) IN HApplyAll(r.M, r.v, Tail(mus))

(***************************************************************************)
(* The same mutators on pure values.                                       *)
(***************************************************************************)
PSetNested(c, mu) ==
  IF mu.nk \in DOMAIN c
  THEN IF mu.ia /\ mu.key \in DOMAIN c[mu.nk] THEN c
       ELSE Put(c, mu.nk, Put(c[mu.nk], mu.key, Stored(mu)))
  ELSE Put(c, mu.nk, Put(<<>>, mu.key, Stored(mu)))
PApply(x, mu) ==
  CASE mu.t = "lapp" -> [x EXCEPT !.c = Put(@, ListKey, Append((IF ListKey \in DOMAIN x.c THEN x.c[ListKey] ELSE <<>>), mu.x))]
    [] mu.t = "inc" -> [x EXCEPT !.c = Put(@, mu.key, (IF mu.key \in DOMAIN x.c THEN x.c[mu.key] ELSE 0) + 1)]
    [] mu.t = "app" -> [x EXCEPT !.d = Append(@, mu.x)]
    [] mu.t = "set" -> [x EXCEPT !.c = Put(@, mu.key, mu.x)]
    [] mu.t = "setn" -> [x EXCEPT !.c = PSetNested(@, mu)]
    [] mu.t = "var" -> [d |-> Append(x.d, mu.x), c |-> PSetNested(x.c, mu)]
    [] mu.t = "cnt" -> x
RECURSIVE PApplyAll(_, _)
PApplyAll(x, mus) == IF mus = <<>> THEN x ELSE PApplyAll(PApply(x, Head(mus)), Tail(mus))

(***************************************************************************)
(* Freshness of a sequence of yielded contexts, as a fact about reach sets *)
(* (sets of object ids): result j shares nothing with any filled value's   *)
(* context nor with an earlier result.                                     *)
(***************************************************************************)
FreshSets(srcReach, resReach) ==
  \A j \in 1..Len(resReach) :
     /\ \A i \in 1..Len(srcReach) : resReach[j] \cap srcReach[i] = {}
     /\ \A m \in 1..(j - 1) : resReach[j] \cap resReach[m] = {}
=============================================================================
