-------------------------------- MODULE Heap --------------------------------
(***************************************************************************)
(* Object-identity view of flow values, shared by Isolation.tla (Split/Zip *)
(* branches) and Alias.tla (accumulator contexts).  No constants or        *)
(* variables.                                                              *)
(*                                                                         *)
(* A *pure* value is [d |-> <<ints>>, c |-> context] with context a        *)
(* function from key strings; the keys in NestedKeys hold a nested         *)
(* dictionary (a function with leaf values), all other keys hold leaves.   *)
(*                                                                         *)
(* A *heap* M = [h |-> function id -> cell, n |-> next free id] holds the  *)
(* mutable objects: a list cell (data) or a dict cell (context, nested     *)
(* dict).  In a dict cell the nested keys hold [ref |-> id].  A value on   *)
(* the heap is a VRef [d |-> id, c |-> id] (the tuple itself is immutable).*)
(* copy.deepcopy is Snap followed by Alloc: fresh ids for every object.    *)
(*                                                                         *)
(* Mutators (what branch elements do to a value, in place):                *)
(*   inc   user element: context[key] += 1 (1 if absent)                   *)
(*   app   user element: data.append(x)                                    *)
(*   set   lena.context.UpdateContext(key, x)                              *)
(*   setn  UpdateContext("nk.key", x) (ia = FALSE) /                       *)
(*         lena.output.MakeFilename(s): output.filename := s if absent     *)
(*   var   lena.variables.Variable(s, lambda d: d + [x]): new data object, *)
(*         context.variable.name := s                                      *)
(*   cnt   lena.flow.Count(s) inside a Sequence: the last value of every   *)
(*         run gets context[s] := running count                            *)
(*   vart  Variable(s, getter, type="coordinate", unit="cm"): new data     *)
(*         object, context.variable := a copy of the element's var_context *)
(*         [name, type, unit, coordinate |-> [name, unit]] - a dictionary  *)
(*         with a sub-dictionary (depth 2)                                 *)
(*   setv  UpdateContext("variable.coordinate.unit", s): a write BELOW     *)
(*         context.variable                                                *)
(* The list cell of a value stands for any mutable data object (a list, a  *)
(* user object with attributes, the first member of a tuple of objects).   *)
(* Each exists twice: H.. on the heap (operational) and P.. on pure values *)
(* (declarative).                                                          *)
(***************************************************************************)
EXTENDS Integers, Sequences, FiniteSets, TLC

None == -1000
NestedKeys == {"n", "output", "variable"}
NKSeq == <<"n", "output", "variable">>
ListKey == "l"            \* a context key that holds a list (a mutable object of its own)
RefKeys == NestedKeys \cup {ListKey}
Put(c, k, v) == [x \in (DOMAIN c) \cup {k} |-> IF x = k THEN v ELSE c[x]]
Mut(t, nk, key, x, s, ia) == [t |-> t, nk |-> nk, key |-> key, x |-> x, s |-> s, ia |-> ia]
Inc(key) == Mut("inc", "", key, 0, "", FALSE)
App(x) == Mut("app", "", "", x, "", FALSE)
SetK(key, x) == Mut("set", "", key, x, "", FALSE)
SetN(nk, key, x) == Mut("setn", nk, key, x, "", FALSE)
MakeFn(s) == Mut("setn", "output", "filename", 0, s, TRUE)
Var(s, x) == Mut("var", "variable", "name", x, s, FALSE)
Cnt(s) == Mut("cnt", "", s, 0, "", FALSE)
LApp(x) == Mut("lapp", "", ListKey, x, "", FALSE)      \* user element: context["l"].append(x) (created if absent)
SubKey == "coordinate"    \* the key of a nested dictionary that holds a dictionary itself (a typed Variable)
VarT(s, x) == Mut("vart", "variable", "name", x, s, FALSE)
SetV(s) == Mut("setv", "variable", "unit", 0, s, FALSE)
VarSub(s) == [name |-> s, unit |-> "cm"]
VarCtx(s) == [name |-> s, type |-> SubKey, unit |-> "cm", coordinate |-> VarSub(s)]
\* what a nested write stores: MakeFilename and Variable store strings, UpdateContext ints
Stored(mu) == IF mu.s = "" THEN mu.x ELSE mu.s

(***************************************************************************)
(* Heap.                                                                   *)
(***************************************************************************)
\* classes of context objects (used by Isolation and Alias; the heap does not depend on the class)
AllClasses == {"dict", "Context", "OrderedDict", "defaultdict", "UserDict"}
QuickClasses == {"dict", "Context"}
LCell(v) == [k |-> "L", v |-> v, m |-> <<>>]
DCell(m) == [k |-> "D", v |-> <<>>, m |-> m]
EmptyHeap == [h |-> <<>>, n |-> 1]
\* the new object gets id M.n
NewCell(M, cell) == [h |-> [i \in 1..M.n |-> IF i = M.n THEN cell ELSE M.h[i]], n |-> M.n + 1]

\* a nested dictionary d: its sub-dictionary (if any) is an object of its own
AllocDict(M, d) ==
  IF SubKey \in DOMAIN d
  THEN LET M1 == NewCell(M, DCell(d[SubKey])) IN
       [M |-> NewCell(M1, DCell([d EXCEPT ![SubKey] = [ref |-> M.n]])), id |-> M1.n]
  ELSE [M |-> NewCell(M, DCell(d)), id |-> M.n]
SnapDict(h, id) == LET d == h[id].m IN [k \in DOMAIN d |-> IF k = SubKey THEN h[d[k].ref].m ELSE d[k]]
RECURSIVE AllocNested(_, _, _, _)
AllocNested(M, c, j, m) ==
  IF j > Len(NKSeq) THEN [M |-> M, m |-> m]
  ELSE LET nk == NKSeq[j] IN
       IF nk \in DOMAIN c
       THEN LET r == AllocDict(M, c[nk]) IN AllocNested(r.M, c, j + 1, [m EXCEPT ![nk] = [ref |-> r.id]])
       ELSE AllocNested(M, c, j + 1, m)
AllocCtx(M, c) == LET r0 == AllocNested(M, c, 1, c)
                      r == IF ListKey \in DOMAIN c
                           THEN [M |-> NewCell(r0.M, LCell(c[ListKey])), m |-> [r0.m EXCEPT ![ListKey] = [ref |-> r0.M.n]]]
                           ELSE r0
                  IN [M |-> NewCell(r.M, DCell(r.m)), id |-> r.M.n]
AllocVal(M, x) == LET M1 == NewCell(M, LCell(x.d))
                      r == AllocCtx(M1, x.c)
                  IN [M |-> r.M, v |-> [d |-> M.n, c |-> r.id]]
SnapCtx(h, id) == LET m == h[id].m IN
                  [key \in DOMAIN m |-> IF key \in NestedKeys THEN SnapDict(h, m[key].ref)
                                        ELSE IF key = ListKey THEN h[m[key].ref].v ELSE m[key]]
SnapVal(h, v) == [d |-> h[v.d].v, c |-> SnapCtx(h, v.c)]
DeepCopyVal(M, v) == AllocVal(M, SnapVal(M.h, v))
DeepCopyCtx(M, id) == AllocCtx(M, SnapCtx(M.h, id))
\* a copy of the top level only (what a __deepcopy__ of a dict subclass that rebuilds itself from its items does)
ShallowCopyCtx(M, id) == [M |-> NewCell(M, DCell(M.h[id].m)), id |-> M.n]
\* copy.copy-like: new list, new top-level dict, the nested dicts are shared
ShallowCopyVal(M, v) == LET M1 == NewCell(M, LCell(M.h[v.d].v))
                            M2 == NewCell(M1, DCell(M.h[v.c].m))
                        IN [M |-> M2, v |-> [d |-> M.n, c |-> M1.n]]
SubRefs(h, id) == IF SubKey \in DOMAIN h[id].m THEN {h[id].m[SubKey].ref} ELSE {}
ReachCtx(h, id) == {id} \cup {h[id].m[k].ref : k \in RefKeys \cap DOMAIN h[id].m}
                        \cup UNION {SubRefs(h, h[id].m[k].ref) : k \in NestedKeys \cap DOMAIN h[id].m}
Reach(h, v) == {v.d} \cup ReachCtx(h, v.c)

\* copy.deepcopy of a list of values
RECURSIVE DeepCopyAll(_, _)
DeepCopyAll(M, vs) == IF vs = <<>> THEN [M |-> M, vs |-> <<>>]
                      ELSE LET r == DeepCopyVal(M, Head(vs))
                               rest == DeepCopyAll(r.M, Tail(vs))
                           IN [M |-> rest.M, vs |-> <<r.v>> \o rest.vs]
RECURSIVE ShallowCopyAll(_, _)
ShallowCopyAll(M, vs) == IF vs = <<>> THEN [M |-> M, vs |-> <<>>]
                         ELSE LET r == ShallowCopyVal(M, Head(vs))
                                  rest == ShallowCopyAll(r.M, Tail(vs))
                              IN [M |-> rest.M, vs |-> <<r.v>> \o rest.vs]
RECURSIVE AllocAll(_, _)
AllocAll(M, xs) == IF xs = <<>> THEN [M |-> M, vs |-> <<>>]
                   ELSE LET r == AllocVal(M, Head(xs))
                            rest == AllocAll(r.M, Tail(xs))
                        IN [M |-> rest.M, vs |-> <<r.v>> \o rest.vs]

(***************************************************************************)
(* Mutators on the heap: [M, v] -> [M, v]  (cnt is handled by the caller). *)
(***************************************************************************)
HSetKey(M, cid, key, x) == [M EXCEPT !.h[cid].m = Put(@, key, x)]
HSetNested(M, cid, mu) ==
  LET m == M.h[cid].m IN
  IF mu.nk \in DOMAIN m
  THEN LET nid == m[mu.nk].ref IN
       IF mu.ia /\ mu.key \in DOMAIN M.h[nid].m THEN M
       ELSE [M EXCEPT !.h[nid].m = Put(@, mu.key, Stored(mu))]
  ELSE LET M2 == NewCell(M, DCell(Put(<<>>, mu.key, Stored(mu))))
       IN [M2 EXCEPT !.h[cid].m = Put(@, mu.nk, [ref |-> M.n])]
HListApp(M, cid, x) ==
  LET m == M.h[cid].m IN
  IF ListKey \in DOMAIN m THEN [M EXCEPT !.h[m[ListKey].ref].v = Append(@, x)]
  ELSE LET M2 == NewCell(M, LCell(<<x>>)) IN [M2 EXCEPT !.h[cid].m = Put(@, ListKey, [ref |-> M.n])]
\* UpdateContext("variable.coordinate.<key>", s): the dictionaries on the path are created if absent
HSetSub(M, cid, mu) ==
  LET m == M.h[cid].m IN
  IF "variable" \notin DOMAIN m
  THEN LET M1 == NewCell(M, DCell(Put(<<>>, mu.key, Stored(mu))))
           M2 == NewCell(M1, DCell(Put(<<>>, SubKey, [ref |-> M.n])))
       IN [M2 EXCEPT !.h[cid].m = Put(@, "variable", [ref |-> M1.n])]
  ELSE LET nid == m["variable"].ref IN
       IF SubKey \notin DOMAIN M.h[nid].m
       THEN LET M1 == NewCell(M, DCell(Put(<<>>, mu.key, Stored(mu)))) IN
            [M1 EXCEPT !.h[nid].m = Put(@, SubKey, [ref |-> M.n])]
       ELSE [M EXCEPT !.h[M.h[nid].m[SubKey].ref].m = Put(@, mu.key, Stored(mu))]
\* a typed Variable: new data object; context.variable := a NEW dictionary with the attributes of the element.
\* es = 0: a deep copy of the element's var_context (the code); es > 0: what if the copy were shallow - the
\* sub-dictionary put into the context is the element's own object (heap id es), shared by every value that
\* passes this element
HVarT(M, v, mu, es) ==
  LET M1 == NewCell(M, LCell(Append(M.h[v.d].v, mu.x)))
      sub == IF es > 0 THEN [M |-> M1, id |-> es] ELSE [M |-> NewCell(M1, DCell(VarSub(mu.s))), id |-> M1.n]
      M3 == NewCell(sub.M, DCell([name |-> mu.s, type |-> SubKey, unit |-> "cm", coordinate |-> [ref |-> sub.id]]))
  IN [M |-> [M3 EXCEPT !.h[v.c].m = Put(@, "variable", [ref |-> sub.M.n])], v |-> [d |-> M.n, c |-> v.c]]
HApplyS(M, v, mu, es) ==
  CASE mu.t = "setv" -> [M |-> HSetSub(M, v.c, mu), v |-> v]
    [] mu.t = "vart" -> HVarT(M, v, mu, es)
    [] mu.t = "lapp" -> [M |-> HListApp(M, v.c, mu.x), v |-> v]
    [] mu.t = "inc" -> LET m == M.h[v.c].m IN
                       [M |-> HSetKey(M, v.c, mu.key, (IF mu.key \in DOMAIN m THEN m[mu.key] ELSE 0) + 1), v |-> v]
    [] mu.t = "app" -> [M |-> [M EXCEPT !.h[v.d].v = Append(@, mu.x)], v |-> v]
    [] mu.t = "set" -> [M |-> HSetKey(M, v.c, mu.key, mu.x), v |-> v]
    [] mu.t = "setn" -> [M |-> HSetNested(M, v.c, mu), v |-> v]
    [] mu.t = "var" -> LET M2 == NewCell(M, LCell(Append(M.h[v.d].v, mu.x)))      \* getter builds a new list
                       IN [M |-> HSetNested(M2, v.c, mu), v |-> [d |-> M.n, c |-> v.c]]
    [] mu.t = "cnt" -> [M |-> M, v |-> v]
HApply(M, v, mu) == HApplyS(M, v, mu, 0)
RECURSIVE HApplyAllS(_, _, _, _)
HApplyAllS(M, v, mus, es) == IF mus = <<>> THEN [M |-> M, v |-> v]
                             ELSE LET r == HApplyS(M, v, Head(mus), es) IN HApplyAllS(r.M, r.v, Tail(mus), es)
HApplyAll(M, v, mus) == HApplyAllS(M, v, mus, 0)

(***************************************************************************)
(* The same mutators on pure values.                                       *)
(***************************************************************************)
PSetNested(c, mu) ==
  IF mu.nk \in DOMAIN c
  THEN IF mu.ia /\ mu.key \in DOMAIN c[mu.nk] THEN c
       ELSE Put(c, mu.nk, Put(c[mu.nk], mu.key, Stored(mu)))
  ELSE Put(c, mu.nk, Put(<<>>, mu.key, Stored(mu)))
PSetSub(c, mu) ==
  LET var == IF "variable" \in DOMAIN c THEN c["variable"] ELSE <<>>
      sub == IF SubKey \in DOMAIN var THEN var[SubKey] ELSE <<>>
  IN Put(c, "variable", Put(var, SubKey, Put(sub, mu.key, Stored(mu))))
PApply(x, mu) ==
  CASE mu.t = "setv" -> [x EXCEPT !.c = PSetSub(@, mu)]
    [] mu.t = "vart" -> [d |-> Append(x.d, mu.x), c |-> Put(x.c, "variable", VarCtx(mu.s))]
    [] mu.t = "lapp" -> [x EXCEPT !.c = Put(@, ListKey, Append((IF ListKey \in DOMAIN x.c THEN x.c[ListKey] ELSE <<>>), mu.x))]
    [] mu.t = "inc" -> [x EXCEPT !.c = Put(@, mu.key, (IF mu.key \in DOMAIN x.c THEN x.c[mu.key] ELSE 0) + 1)]
    [] mu.t = "app" -> [x EXCEPT !.d = Append(@, mu.x)]
    [] mu.t = "set" -> [x EXCEPT !.c = Put(@, mu.key, mu.x)]
    [] mu.t = "setn" -> [x EXCEPT !.c = PSetNested(@, mu)]
    [] mu.t = "var" -> [d |-> Append(x.d, mu.x), c |-> PSetNested(x.c, mu)]
    [] mu.t = "cnt" -> x
RECURSIVE PApplyAll(_, _)
PApplyAll(x, mus) == IF mus = <<>> THEN x ELSE PApplyAll(PApply(x, Head(mus)), Tail(mus))

(***************************************************************************)
(* Freshness of a sequence of yielded contexts, as a fact about reach sets *)
(* (sets of object ids): result j shares nothing with any filled value's   *)
(* context nor with an earlier result.                                     *)
(***************************************************************************)
FreshSets(srcReach, resReach) ==
  \A j \in 1..Len(resReach) :
     /\ \A i \in 1..Len(srcReach) : resReach[j] \cap srcReach[i] = {}
     /\ \A m \in 1..(j - 1) : resReach[j] \cap resReach[m] = {}
=============================================================================
