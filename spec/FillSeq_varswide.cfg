SPECIFICATION Spec
CONSTANTS MaxPre = 2 MaxN = 3
  PreAlphabet <- AlphaVarsWide
  Accs <- AccsVarsWide
  Posts <- PostsVarsWide
  FlowKinds = {"bare", "ctx"}
  Drivers = {"run", "fill", "persist", "split"}
  Places = {"alone", "afterstop"}
  StopFlag = "per_branch"
  CopyMode = "per_branch"
  AdapterHides = TRUE
  VarCopy = "per_value"
  Bufs <- BufThree
INVARIANT DriversAgree
INVARIANT FillReaches
INVARIANT StopSound
INVARIANT ComputeOnce
INVARIANT BufBound
INVARIANT ComposeAsSequence
INVARIANT AdaptersHide
CHECK_DEADLOCK FALSE
