SPECIFICATION Spec
CONSTANTS MaxLen = 5
  Pool <- Pool4U
  Starts <- StartsAll
  Xs = {1, 2}
  Nested = FALSE
  Ys <- NoData
  Extra <- NoElems
  Variant = "doc"
  CopyVarContext = TRUE
  ExtendByCompose = TRUE
INVARIANT Emitted
CHECK_DEADLOCK FALSE
