SPECIFICATION Spec
CONSTANTS MaxLen = 5
  Pool <- Pool5
  Starts <- StartsAll
  Xs = {1, 2}
  Nested = FALSE
  CopyVarContext = TRUE
  ExtendByCompose = TRUE
INVARIANT Emitted
CHECK_DEADLOCK FALSE
