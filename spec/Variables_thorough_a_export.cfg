SPECIFICATION Spec
CONSTANTS MaxLen = 5
  Pool <- Pool4U
  Starts <- StartsAll
  Xs = {1, 2}
  Nested = FALSE
  CopyVarContext = TRUE
  ExtendByCompose = TRUE
INVARIANT Emitted
CHECK_DEADLOCK FALSE
