----------------------------- MODULE Trace_Alias -----------------------------
(***************************************************************************)
(* Validation of object-identity logs recorded from the real accumulators  *)
(* (lenaverif/aliaslib.py).  Events of one history:                        *)
(*   [ev |-> "new"]                       a new accumulator                *)
(*   [ev |-> "f", ids |-> <<ids>>]        fill: the dict/list objects      *)
(*                                        reachable from the filled        *)
(*                                        value's context (id() renumbered *)
(*                                        in order of first appearance)    *)
(*   [ev |-> "c", outs |-> <<<<ids>>>>]   compute()/request(): the objects *)
(*                                        reachable from every yielded     *)
(*                                        context                          *)
(* Every compute must keep Fresh (Heap!FreshSets, the invariant of         *)
(* Alias.tla stated on reach sets).                                        *)
(***************************************************************************)
EXTENDS Heap, Json, IOUtils

Trace == JsonDeserialize(IOEnv.TRACE_FILE)
VARIABLES i, srcR, resR
ToSet(s) == {s[j] : j \in 1..Len(s)}
Init == i = 1 /\ srcR = <<>> /\ resR = <<>>
Next == /\ i <= Len(Trace) /\ i' = i + 1
        /\ LET e == Trace[i] IN
             \/ e.ev = "new" /\ srcR' = <<>> /\ resR' = <<>>
             \/ e.ev = "f" /\ srcR' = Append(srcR, ToSet(e.ids)) /\ UNCHANGED resR
             \/ /\ e.ev = "c" /\ UNCHANGED srcR
                /\ resR' = resR \o [j \in 1..Len(e.outs) |-> ToSet(e.outs[j])]
                /\ FreshSets(srcR, resR')
Spec == Init /\ [][Next]_<<i, srcR, resR>>
Fresh == FreshSets(srcR, resR)
Accepted == /\ PrintT(<<"ACCEPTED", TLCGet("stats").diameter - 1>>)
            /\ TLCGet("stats").diameter - 1 = Len(Trace)
=============================================================================
