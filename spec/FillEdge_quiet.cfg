SPECIFICATION Spec
CONSTANTS MaxN = 3
  Chains <- ChainsGuard
  Drivers = {"run", "fill", "split"}
  Bufs <- BufQuick
  FillTruth = "truth"
  RunStop = "quiet"
INVARIANT DriversAgree
INVARIANT NoQuietEnd
INVARIANT TruthOnly
INVARIANT BufBound

CHECK_DEADLOCK FALSE
