SPECIFICATION Spec
CONSTANTS
  K = {"a", "b", "c"}
  NC = 2
  Levels <- LevelsThorough
  Ops <- AllOps
  UPair <- V1
  UTriple <- V1
INVARIANT InterIsRef
INVARIANT DiffIsRef
INVARIANT UpdRecIsRef
INVARIANT InterKeepsClass
INVARIANT NestedIsRef
PROPERTY ArgsUnchanged
INVARIANT InterGlb
INVARIANT InterGlbU
INVARIANT InterLevels
INVARIANT InterAlgebra
INVARIANT DiffLaws
INVARIANT UpdRecLaws
INVARIANT UpdRecLeastU
INVARIANT NestedLaws
CHECK_DEADLOCK FALSE
