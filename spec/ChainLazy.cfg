SPECIFICATION Spec
CONSTANTS MaxArity = 4 MaxLen = 2
INVARIANT EqChain
INVARIANT PrefixOfChain
INVARIANT OpenedLate
INVARIANT NotMutatedWhileIterated
INVARIANT Emitted
CHECK_DEADLOCK FALSE
