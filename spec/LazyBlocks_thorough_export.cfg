SPECIFICATION Spec
CONSTANTS MaxN = 6 Infinite = TRUE MaxOut = 4 MaxPos = 20 Stops = FALSE Guard = "none"
  Scen <- ScenThorough
INVARIANT Emitted
CONSTRAINT Bounded
CHECK_DEADLOCK FALSE
