SPECIFICATION Spec
CONSTANTS Parts = {"tpl"} MaxSrc = 4 MaxRows = 3 Deep = TRUE
INVARIANT Emitted
CHECK_DEADLOCK FALSE
