-------------------------- MODULE Trace_GraphStruct --------------------------
(***************************************************************************)
(* Validation of results recorded from the real graph / hist_to_graph /    *)
(* Graph on scenarios beyond the exhaustive bounds (more fields, random    *)
(* token names, larger histograms, random point lists).  One record per    *)
(* call:  [k, sc, arg, res]  with sc shaped like the scenarios of          *)
(* GraphStruct.tla; the record is accepted iff the observed result is what *)
(* the declarative operators of GraphStruct.tla allow.                     *)
(*   k = "construct"  res = [ok, exc] | [ok, dim, errs]                    *)
(*       "iter"       res = list of points                                 *)
(*       "ctx"        res = list of [key, index] entered under error       *)
(*       "add"        res = [names, coords]   (arg = scale of the other)   *)
(*       "h2g"        res = [coords, scale]                                *)
(*       "dg"         sc = [pts, sort, scale], op, arg, res as DGOp        *)
(***************************************************************************)
EXTENDS GraphStruct, IOUtils

Trace == JsonDeserialize(IOEnv.TRACE_FILE)
VARIABLE i

SetOf(s) == {s[k] : k \in 1..Len(s)}
GOf(sc0) == [names |-> sc0.names, coords |-> Coords(sc0), scale |-> sc0.scale,
             dim |-> DocDim(sc0.names), errs |-> DocErrs(sc0.names)]
ConstructOk(r) ==
    /\ (Problems(r.sc) # {} => ~r.res.ok /\ r.res.exc \in Problems(r.sc))
    /\ (Problems(r.sc) = {} /\ ~Ambiguous(r.sc) =>
            r.res.ok /\ r.res.dim = DocDim(r.sc.names) /\ SetOf(r.res.errs) = DocErrs(r.sc.names))
    /\ (Problems(r.sc) = {} /\ Ambiguous(r.sc) =>
            (~r.res.ok /\ r.res.exc = VE) \/ (r.res.ok /\ r.res.dim = DocDim(r.sc.names)))
DGOk(r) == IF r.op \in {"points", "rows"} /\ r.res.ok
           THEN IF r.sc.sort THEN IsSortedPerm(r.sc.pts, r.res.val) ELSE r.res.val = r.sc.pts
           ELSE r.res = DGOp(r.sc, r.op, r.arg)
RecOk(r) == CASE r.k = "construct" -> ConstructOk(r)
              [] r.k = "iter" -> r.res = PointsRef(GOf(r.sc))
              [] r.k = "ctx" -> SetOf(r.res) = CtxRef(GOf(r.sc))
              [] r.k = "add" -> AddRef(GOf(r.sc), Other(GOf(r.sc), r.arg), r.res)
              [] r.k = "h2g" -> H2GRef(r.sc, r.res)
              [] r.k = "dg" -> DGOk(r)
              [] OTHER -> FALSE

\* the machine of GraphStruct.tla is not run here: its variables are parked
TInit == /\ i = 1
         /\ part = "trace" /\ sc = <<>> /\ g = <<>> /\ op = "none" /\ arg = "" /\ res = <<>> /\ phase = "trace"
TNext == i <= Len(Trace) /\ RecOk(Trace[i]) /\ i' = i + 1 /\ UNCHANGED vars
TSpec == TInit /\ [][TNext]_<<vars, i>>
Accepted == /\ PrintT(<<"ACCEPTED", TLCGet("stats").diameter - 1>>)
            /\ TLCGet("stats").diameter - 1 = Len(Trace)
=============================================================================
