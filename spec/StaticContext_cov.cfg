SPECIFICATION Spec
CONSTANTS MaxDepth = 3
  Families <- FamCov
  StoreByCopy = TRUE
  TailKeepsSets = TRUE
  SplitContinues = TRUE
  SkipEmpty = TRUE
  SplitCachesExport = FALSE
  SrcFRepass = TRUE
INVARIANT SeenIsExpected
INVARIANT PrefixOnly
INVARIANT SiblingIndependent
INVARIANT RootExpected
INVARIANT NoLeakToRuntime
PROPERTY Causal
PROPERTY PeekIsPure
PROPERTY RunKeepsStatic
CHECK_DEADLOCK FALSE
