SPECIFICATION Spec
POSTCONDITION Accepted
CHECK_DEADLOCK FALSE
