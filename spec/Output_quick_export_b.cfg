SPECIFICATION Spec
CONSTANTS NP = 1 MaxRuns = 2 MaxTouch = 2
  Settings <- SettingsQuick
  CreatedSetsChanged = TRUE
  KeepHistory = TRUE
INVARIANT Emitted
CHECK_DEADLOCK FALSE
