SPECIFICATION Spec
CONSTANTS
  K = {"a", "b"}
  NC = 2
  Variant = "diffempty"
  Kinds <- KindsGuardResults
INVARIANT InitOK
INVARIANT MutatedIsPrivate
PROPERTY StepsOK
CHECK_DEADLOCK FALSE
