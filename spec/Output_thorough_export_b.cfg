SPECIFICATION Spec
CONSTANTS NP = 1 MaxRuns = 2 MaxTouch = 99
  Settings <- SettingsAll
  CreatedSetsChanged = TRUE
  KeepHistory = TRUE
INVARIANT Emitted
CHECK_DEADLOCK FALSE
