SPECIFICATION Spec
CONSTANTS MaxRuns = 2 MaxTouch = 99
  Scens <- ScenExpB
  Settings <- SettingsAll
  CreatedSetsChanged = TRUE
  Reuses = {FALSE, TRUE}
  AutoReload = TRUE
  KeepHistory = TRUE
INVARIANT Emitted
CHECK_DEADLOCK FALSE
