-------------------------------- MODULE Alias --------------------------------
(***************************************************************************)
(* C04, model B: the contexts yielded by an accumulator's compute() /       *)
(* request() are fresh objects.                                            *)
(*                                                                         *)
(* Heap view (Heap.tla).  The producer keeps the values it filled (src);   *)
(* the accumulator keeps the context object of the last filled value       *)
(* (cur = _cur_context, an alias of the producer's dict); the consumer     *)
(* keeps every context it was yielded (res) and mutates them in place      *)
(* (Mutate: top-level write, write into a nested dict, creation of a       *)
(* nested dict).                                                           *)
(*   Fill(c)   the producer creates (data, c); cur := its context object   *)
(*   Compute   Count first writes its own key into cur (in place, as the   *)
(*             code does); every one of the kind.nres results of the call  *)
(*             carries copy.deepcopy(cur) (CopyOnCompute = "each", the     *)
(*             code), one copy shared by the results of the call ("once":  *)
(*             a deepcopy hoisted out of the yield loop) or cur itself     *)
(*             ("none": Histogram / VarianceMeanCount before their fix)    *)
(*   Mutate(j) the consumer changes res[j] in place                        *)
(* (reset() is left to C09.)                                               *)
(* Fresh: res[j] shares no object with any filled context nor with an      *)
(* earlier result.  MutateIsLocal (frame property): a Mutate changes only  *)
(* res[j]: not the producer's values, not the other results, not what the  *)
(* next compute() yields.  With CopyOnCompute = "none" TLC refutes both,   *)
(* with "once" it refutes Fresh between the results of one call            *)
(* (Alias_nocopy*.cfg, Alias_once.cfg: sensitivity guards).                *)
(***************************************************************************)
EXTENDS Heap, Json

CONSTANTS MaxLen, CopyOnCompute,
          Classes       \* classes of the context objects ("dict", "Context", ..: see IsolationSem); the semantics do
                        \* not depend on it; CopyOnCompute = "clsshallow": what if the deep copy of a context that is
                        \* not a plain dict copied the top level only

\* nres: number of results of one compute() / request() call (SplitIntoBins, Vectorize, Split or Zip of
\* accumulators, FillRequest over such elements, Mean with a multi-result sum_seq yield several);
\* every one of them carries its own copy of the stored context
Plain == [t |-> "plain", name |-> "", nres |-> 1]
Plain2 == [t |-> "plain", name |-> "", nres |-> 2]
CountK == [t |-> "count", name |-> "count", nres |-> 1]
AKinds == {Plain, Plain2, CountK}
\* contexts with nested dicts and with a list; mutations at the top level, inside a nested dict, creating a
\* nested dict, inside / creating a list
CtxVals == {[a |-> 1], [a |-> 2, n |-> [b |-> 1]], [k |-> 1, n |-> [b |-> 3], output |-> [filename |-> "f"], l |-> <<1, 2>>]}
Muts == {Inc("a"), SetK("z", 9), SetN("n", "b", 7), MakeFn("g"), SetN("variable", "name", 5), LApp(5)}
Del(c, ks) == [x \in (DOMAIN c) \ ks |-> c[x]]
Own(k) == IF k.t = "count" THEN {k.name} ELSE {}

\* cfg: a configuration object of the element that the caller passed in (the var_context of the Variable of a
\* SplitIntoBins, edges ..): no action changes it (CopyOnCompute = "cfgwrite": what if compute() wrote into it)
CfgVal == [name |-> 1, n |-> [b |-> 2]]
VARIABLES kind, cls, cfg, M, src, srcx, cur, nf, res, op, mj, h
vars == <<kind, cls, cfg, M, src, srcx, cur, nf, res, op, mj, h>>

Init == /\ kind \in AKinds /\ cls \in Classes /\ (cls # "dict" => kind = Plain)
        /\ LET r == AllocCtx(EmptyHeap, <<>>)  r2 == AllocCtx(r.M, CfgVal) IN M = r2.M /\ cur = r.id /\ cfg = r2.id
        /\ src = <<>> /\ srcx = <<>> /\ nf = 0 /\ res = <<>> /\ op = "init" /\ mj = 0 /\ h = <<>>

SrcSnaps(hh) == [i \in 1..Len(src) |-> SnapCtx(hh, src[i].c)]
ResSnaps(hh, rs) == [j \in 1..Len(rs) |-> SnapCtx(hh, rs[j].c)]
Log(name, arg, MM, ss, rs) == [op |-> name, arg |-> arg,
                              srcs |-> [i \in 1..Len(ss) |-> SnapCtx(MM.h, ss[i].c)],
                              ress |-> ResSnaps(MM.h, rs)]

FillA(c) == /\ LET r == AllocVal(M, [d |-> <<1>>, c |-> c]) IN
                 /\ M' = r.M /\ src' = Append(src, r.v) /\ cur' = r.v.c
            /\ srcx' = Append(srcx, c) /\ nf' = nf + 1 /\ op' = "fill" /\ mj' = 0
            /\ UNCHANGED <<kind, cls, cfg, res>>
\* what compute() would yield now (the context, as a pure value)
YieldNow(MM, cid, n) == LET c == SnapCtx(MM.h, cid) IN IF kind.t = "count" THEN Put(c, kind.name, n) ELSE c
\* the contexts of the results of one call: [M, ids]
RECURSIVE YieldCopies(_, _, _, _)
YieldCopies(MM, cid, k, first) ==
  IF k = 0 THEN [M |-> MM, ids |-> <<>>]
  ELSE CASE CopyOnCompute \in {"each", "clsshallow", "cfgwrite"} ->          \* the code: copy.deepcopy for every result
              LET r == IF CopyOnCompute = "clsshallow" /\ cls # "dict" THEN ShallowCopyCtx(MM, cid) ELSE DeepCopyCtx(MM, cid)
                  rest == YieldCopies(r.M, cid, k - 1, first)
              IN [M |-> rest.M, ids |-> <<r.id>> \o rest.ids]
         [] CopyOnCompute = "once" ->          \* one copy per call, shared by its results
              IF first = 0 THEN LET r == DeepCopyCtx(MM, cid)  rest == YieldCopies(r.M, cid, k - 1, r.id)
                                IN [M |-> rest.M, ids |-> <<r.id>> \o rest.ids]
              ELSE LET rest == YieldCopies(MM, cid, k - 1, first) IN [M |-> rest.M, ids |-> <<first>> \o rest.ids]
         [] OTHER ->                           \* "none": the stored context itself
              LET rest == YieldCopies(MM, cid, k - 1, first) IN [M |-> rest.M, ids |-> <<cid>> \o rest.ids]
ComputeA == /\ LET M0 == IF CopyOnCompute = "cfgwrite" THEN HSetNested(M, cfg, SetN("n", "compose", 1)) ELSE M
                   M1 == IF kind.t = "count" THEN HSetKey(M0, cur, kind.name, nf) ELSE M0
                   r == YieldCopies(M1, cur, kind.nres, 0)
               IN /\ M' = r.M
                  /\ res' = res \o [j \in 1..Len(r.ids) |-> [c |-> r.ids[j], x |-> SnapCtx(r.M.h, r.ids[j])]]
            /\ op' = "compute" /\ mj' = 0 /\ UNCHANGED <<kind, cls, cfg, src, srcx, cur, nf>>
MutCtx(MM, cid, mu) ==
  CASE mu.t = "inc" -> HSetKey(MM, cid, mu.key, (IF mu.key \in DOMAIN MM.h[cid].m THEN MM.h[cid].m[mu.key] ELSE 0) + 1)
    [] mu.t = "set" -> HSetKey(MM, cid, mu.key, mu.x)
    [] mu.t = "setn" -> HSetNested(MM, cid, mu)
    [] mu.t = "lapp" -> HListApp(MM, cid, mu.x)
MutateA(j, mu) == /\ j \in 1..Len(res)
                  /\ M' = MutCtx(M, res[j].c, mu)
                  /\ res' = [res EXCEPT ![j].x = SnapCtx(M'.h, res[j].c)]
                  /\ op' = "mutate" /\ mj' = j /\ UNCHANGED <<kind, cls, cfg, src, srcx, cur, nf>>

Fill == Len(h) < MaxLen /\ \E c \in CtxVals : FillA(c) /\ h' = Append(h, Log("f", c, M', src', res'))
Compute == Len(h) < MaxLen /\ ComputeA /\ h' = Append(h, Log("c", 0, M', src', res'))
Mutate == Len(h) < MaxLen /\ \E j \in 1..Len(res), mu \in Muts :
             MutateA(j, mu) /\ h' = Append(h, Log("m", [j |-> j, mu |-> mu], M', src', res'))
Next == Fill \/ Compute \/ Mutate
Spec == Init /\ [][Next]_vars

(***************************************************************************)
(* Properties.                                                             *)
(***************************************************************************)
Fresh == FreshSets([i \in 1..Len(src) |-> ReachCtx(M.h, src[i].c)],
                   [j \in 1..Len(res) |-> ReachCtx(M.h, res[j].c)])
\* a yielded context never aliases the dict the accumulator itself holds
NotTheStored == \A j \in 1..Len(res) : ReachCtx(M.h, res[j].c) \cap ReachCtx(M.h, cur) = {}
\* frame property of the consumer's mutation
MutateIsLocal ==
  [][op' = "mutate" =>
       /\ SrcSnaps(M'.h) = SrcSnaps(M.h)
       /\ \A m \in 1..Len(res) : m # mj' => SnapCtx(M'.h, res[m].c) = SnapCtx(M.h, res[m].c)
       /\ YieldNow(M', cur, nf) = YieldNow(M, cur, nf)]_vars
\* every result keeps the value it had when yielded, up to the consumer's own changes
ResultsStable == \A j \in 1..Len(res) : SnapCtx(M.h, res[j].c) = res[j].x
\* the producer's contexts keep their value (Count's own key aside)
SourceIntact == \A i \in 1..Len(src) : Del(SnapCtx(M.h, src[i].c), Own(kind)) = Del(srcx[i], Own(kind))
\* compute() yields the context of the last filled value whatever happened to earlier results
YieldsLast == op = "compute" =>
   \A j \in (Len(res) - kind.nres + 1)..Len(res) :
      Del(res[j].x, Own(kind)) = Del((IF nf = 0 THEN <<>> ELSE srcx[Len(srcx)]), Own(kind))

\* the element's configuration keeps its value and shares nothing with what is yielded
ConfigIntact == /\ SnapCtx(M.h, cfg) = CfgVal
                /\ \A j \in 1..Len(res) : ReachCtx(M.h, res[j].c) \cap ReachCtx(M.h, cfg) = {}
Emitted == (Len(h) = MaxLen) => PrintT(ToJson([kind |-> kind, cls |-> cls, h |-> h]))
=============================================================================
