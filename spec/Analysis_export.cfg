SPECIFICATION Spec
CONSTANTS MaxRuns = 2
  DataSets <- DataExport
  BranchLists <- BrExport
  BufSizes = {1, 2}
  Edges1 <- E1
  EdgesY <- EY
  Caches = {FALSE, TRUE}
  WriteAlways = FALSE
INVARIANT PerBranch
INVARIANT FilesRef
INVARIANT NoRedo
INVARIANT RedoRef
INVARIANT RunIsSem
INVARIANT CacheRef
INVARIANT Emitted
CHECK_DEADLOCK FALSE
