SPECIFICATION Spec
CONSTANTS Parts = {"tpl"} MaxSrc = 5 MaxRows = 3 Deep = FALSE
INVARIANT LexMeetsRules
INVARIANT TplMeetsRef
INVARIANT TplBalanced
INVARIANT SelMeetsRef
INVARIANT TableMeetsRef
INVARIANT CsvMeetsRef
INVARIANT CsvRowLaw
INVARIANT CmdMeetsRef
INVARIANT CmdSamePlace
INVARIANT ReprMeetsRef
INVARIANT ReprBalanced
INVARIANT CtxOpMeetsRef
CHECK_DEADLOCK FALSE
