------------------------------ MODULE Selective ------------------------------
(***************************************************************************)
(* C10: a generic selective run element                                    *)
(*   for val in flow:                                                      *)
(*       if not selected(val): yield val; continue                         *)
(*       ... transform, maybe touch the file system / start a process ...  *)
(*       yield result(s)                                                   *)
(* (ToCSV, Write, RenderLaTeX, LaTeXToPDF, PDFToPNG, HistToGraph, MapBins, *)
(* IterateBins, RunIf, MapGroup(map_scalars=False)).                       *)
(*                                                                         *)
(* The input flow is an interleaving `pat` (TRUE = selected) of a list A   *)
(* of selected values and a list B of unselected values.  What the element *)
(* produces for the selected values is a function of A alone: running the  *)
(* element on A gives the reference results 1..NRef, result r stemming     *)
(* from the own[r]-th selected value (fan[k] results for the k-th one).    *)
(*                                                                         *)
(* Operational part, one action per step of the loop:                      *)
(*   Consume         next(flow)                                            *)
(*   Flush(r)        an asynchronous element (LaTeXToPDF) yields a result  *)
(*                   whose process has finished: right after a value has   *)
(*                   been read, or at the end                              *)
(*   PassUnselected  yield val   - the same object, nothing else happens   *)
(*   EmitSel         yield the next result for the current selected value  *)
(*   FsSel           file system / process event while a selected value is *)
(*                   being handled                                         *)
(*   Launch          asynchronous: the results of the current selected     *)
(*                   value are left to a process                           *)
(*   LaunchFail / Reap   ... to a process that fails: it is removed from   *)
(*                   the pool at some later poll, nothing is yielded       *)
(*   DoneSel, EndInput, Finish                                             *)
(*   EndFirstRun / StartSecond / Abort   the same element object is run a  *)
(*                   second time (after the first run ended, or after the  *)
(*                   input raised): processes started in the first run are *)
(*                   waited for at its end - or are still in the pool      *)
(* Declarative part: Expected = the input with every selected value        *)
(* replaced by its reference results (run(interleave(A,B)) =               *)
(* interleave(run(A), B)).                                                 *)
(***************************************************************************)
EXTENDS Naturals, Sequences, FiniteSets, TLC, Json

CONSTANTS MaxA, MaxB, MaxFan, AsyncModes,
          Repeats,     \* TRUE: the same unselected object may occur twice in the flow
          Cuts         \* TRUE: the flow may be fed in two runs of the same element (second run after the first ended or was aborted)

U(i) == [k |-> "u", i |-> i]        \* the i-th unselected value itself
S(r) == [k |-> "s", i |-> r]        \* the r-th reference result

RECURSIVE Pats(_, _)
Pats(a, b) == IF a = 0 /\ b = 0 THEN {<<>>}
              ELSE (IF a > 0 THEN {<<TRUE>> \o p : p \in Pats(a - 1, b)} ELSE {})
                   \cup (IF b > 0 THEN {<<FALSE>> \o p : p \in Pats(a, b - 1)} ELSE {})
AllPats == UNION {Pats(a, b) : a \in 0..MaxA, b \in 0..MaxB}

Count(p, v) == Cardinality({i \in 1..Len(p) : p[i] = v})
RECURSIVE OwnOf(_, _)
OwnOf(f, k) == IF k > Len(f) THEN <<>> ELSE [j \in 1..f[k] |-> k] \o OwnOf(f, k + 1)

VARIABLES pat, fan, own, async,     \* scenario
          xs,                       \* scenario, extras: [bobj, cut, kind]
                                    \*   bobj[k] = index of the first unselected position holding the same OBJECT as
                                    \*             the k-th one (k itself unless the object is repeated)
                                    \*   cut     = 0, or the number of values fed in a first run of the same element
                                    \*   kind    = "end" (the first run is exhausted) | "abort" (the input raised)
          pos, na, nb,              \* consumed so far: values, selected, unselected
          j,                        \* results emitted for the current selected value
          out, pending, fs, phase, cutdone
vars == <<pat, fan, own, async, xs, pos, na, nb, j, out, pending, fs, phase, cutdone>>

NRef == Len(own)
ResOf(k) == {r \in 1..NRef : own[r] = k}
Min(X) == CHOOSE x \in X : \A y \in X : x <= y
Emitted == {out[i].i : i \in {x \in 1..Len(out) : out[x].k = "s"}}

IdObj(n) == [k \in 1..n |-> k]
\* identity, or exactly one object occurring at two unselected positions
BObjs(n) == {IdObj(n)} \cup (IF Repeats THEN {[IdObj(n) EXCEPT ![k] = i] : i \in 1..n, k \in 1..n} \ {[k \in 1..n |-> 0]} ELSE {})
GoodObj(b) == \A k \in 1..Len(b) : b[k] <= k /\ b[b[k]] = b[k]
XSets(p) == [bobj : {b \in BObjs(Count(p, FALSE)) : GoodObj(b)},
             cut : {0} \cup (IF Cuts THEN 1..(Len(p) - 1) ELSE {}), kind : {"end", "abort"}]
InitWith(p, f, o, a, x) ==
    /\ pat = p /\ fan = f /\ own = o /\ async = a /\ xs = x
    /\ pos = 0 /\ na = 0 /\ nb = 0 /\ j = 0
    /\ out = <<>> /\ pending = {} /\ fs = {} /\ phase = "idle" /\ cutdone = FALSE
Init == \E p \in AllPats : \E f \in [1..Count(p, TRUE) -> 0..MaxFan] : \E a \in AsyncModes :
        \E x \in {y \in XSets(p) : y.cut # 0 \/ y.kind = "end"} :
            InitWith(p, f, OwnOf(f, 1), a, x)

AtCut == xs.cut # 0 /\ pos = xs.cut /\ ~cutdone
Consume == /\ phase = "idle" /\ pos < Len(pat) /\ ~AtCut
           /\ pos' = pos + 1
           /\ IF pat[pos + 1] THEN /\ na' = na + 1 /\ nb' = nb /\ phase' = (IF async THEN "polls" ELSE "sel")
                              ELSE /\ nb' = nb + 1 /\ na' = na /\ phase' = (IF async THEN "pollu" ELSE "unsel")
           /\ j' = 0
           /\ UNCHANGED <<pat, fan, own, async, xs, out, pending, fs, cutdone>>

\* results of earlier selected values whose process has terminated
Flush(r) == /\ phase \in {"polls", "pollu", "drain", "drain1"} /\ r \in pending /\ r <= NRef
            /\ out' = Append(out, S(r))
            /\ pending' = pending \ {r}
            /\ UNCHANGED <<pat, fan, own, async, xs, pos, na, nb, j, fs, phase, cutdone>>
PollDone == /\ phase \in {"polls", "pollu"}
            /\ phase' = (IF phase = "polls" THEN "sel" ELSE "unsel")
            /\ UNCHANGED <<pat, fan, own, async, xs, pos, na, nb, j, out, pending, fs, cutdone>>

PassUnselected == /\ phase = "unsel"
                  /\ out' = Append(out, U(xs.bobj[nb]))        \* the object itself (it may have passed before)
                  /\ phase' = "idle"
                  /\ UNCHANGED <<pat, fan, own, async, xs, pos, na, nb, j, pending, fs, cutdone>>

Todo == {r \in ResOf(na) : r \notin Emitted /\ r \notin pending}
EmitSel == /\ phase = "sel" /\ Todo # {}
           /\ out' = Append(out, S(Min(Todo)))
           /\ j' = j + 1
           /\ UNCHANGED <<pat, fan, own, async, xs, pos, na, nb, pending, fs, phase, cutdone>>
FsSel == /\ phase = "sel"
         /\ fs' = fs \cup {pos}
         /\ UNCHANGED <<pat, fan, own, async, xs, pos, na, nb, j, out, pending, phase, cutdone>>
Launch == /\ phase = "sel" /\ async /\ j = 0 /\ Todo # {}
          /\ pending' = pending \cup Todo
          /\ fs' = fs \cup {pos}          \* a process is started
          /\ phase' = "idle"
          /\ UNCHANGED <<pat, fan, own, async, xs, pos, na, nb, j, out, cutdone>>
\* asynchronous: the process of the current selected value is started and FAILS (fan-out 0): it stays in the pool
\* under the identifier NRef + na until some later poll (or the end of the run) removes it - silently, wherever
\* that happens: nothing is ever yielded for it
FailId(k) == NRef + k
LaunchFail == /\ phase = "sel" /\ async /\ j = 0 /\ Todo = {} /\ fan[na] = 0
              /\ pending' = pending \cup {FailId(na)}
              /\ fs' = fs \cup {pos}
              /\ phase' = "idle"
              /\ UNCHANGED <<pat, fan, own, async, xs, pos, na, nb, j, out, cutdone>>
Reap(r) == /\ phase \in {"polls", "pollu", "drain", "drain1"} /\ r \in pending /\ r > NRef
           /\ pending' = pending \ {r}
           /\ UNCHANGED <<pat, fan, own, async, xs, pos, na, nb, j, out, fs, phase, cutdone>>
DoneSel == /\ phase = "sel" /\ Todo = {}
           /\ phase' = "idle"
           /\ UNCHANGED <<pat, fan, own, async, xs, pos, na, nb, j, out, pending, fs, cutdone>>

EndInput == /\ phase = "idle" /\ pos = Len(pat)
            /\ phase' = "drain"
            /\ UNCHANGED <<pat, fan, own, async, xs, pos, na, nb, j, out, pending, fs, cutdone>>
Finish == /\ phase = "drain" /\ pending = {}
          /\ phase' = "done"
          /\ UNCHANGED <<pat, fan, own, async, xs, pos, na, nb, j, out, pending, fs, cutdone>>

\* two runs of one element object: the first run ends normally (its processes are waited for) ...
EndFirstRun == /\ phase = "idle" /\ AtCut /\ xs.kind = "end"
               /\ phase' = "drain1"
               /\ UNCHANGED <<pat, fan, own, async, xs, pos, na, nb, j, out, pending, fs, cutdone>>
StartSecond == /\ phase = "drain1" /\ pending = {}
               /\ phase' = "idle" /\ cutdone' = TRUE
               /\ UNCHANGED <<pat, fan, own, async, xs, pos, na, nb, j, out, pending, fs>>
\* ... or the input raises while the element asks for the next value: nothing is drained, run() is called again
Abort == /\ phase = "idle" /\ AtCut /\ xs.kind = "abort"
         /\ cutdone' = TRUE
         /\ UNCHANGED <<pat, fan, own, async, xs, pos, na, nb, j, out, pending, fs, phase>>

FlushAny == \E r \in 1..NRef : Flush(r)
ReapAny == \E k \in 1..Count(pat, TRUE) : Reap(FailId(k))
Next == Consume \/ FlushAny \/ ReapAny \/ PollDone \/ PassUnselected \/ EmitSel \/ FsSel \/ Launch \/ LaunchFail
        \/ DoneSel \/ EndInput \/ Finish \/ EndFirstRun \/ StartSecond \/ Abort
Spec == Init /\ [][Next]_vars

(***************************************************************************)
(* Properties                                                              *)
(***************************************************************************)
Proj(kind) == LET idx == {x \in 1..Len(out) : out[x].k = kind}
                  RECURSIVE Build(_)
                  Build(X) == IF X = {} THEN <<>> ELSE <<out[Min(X)].i>> \o Build(X \ {Min(X)})
              IN  Build(idx)
Iota(n) == [i \in 1..n |-> i]

\* every unselected value consumed so far has been yielded: itself, once, in order - and immediately
UnselIdentityOrder ==
    /\ Proj("u") = SubSeq(xs.bobj, 1, IF phase \in {"unsel", "pollu"} THEN nb - 1 ELSE nb)
    /\ phase = "done" => Proj("u") = xs.bobj

\* the results for the selected values are the reference results: each exactly once; in the reference
\* order unless the element is asynchronous; nothing is yielded for a selected value not yet read
SelIndependent ==
    /\ \A x, y \in 1..Len(out) : (x # y /\ out[x].k = "s" /\ out[y].k = "s") => out[x].i # out[y].i
    /\ \A x \in 1..Len(out) : out[x].k = "s" => own[out[x].i] <= na
    /\ ~async => Proj("s") = Iota(Len(Proj("s")))
    /\ phase = "done" => Emitted = 1..NRef
    /\ \A x \in 1..Len(out) : out[x].k = "s" => fan[own[out[x].i]] > 0       \* a failed job yields nothing

\* file system and process events happen only on behalf of selected values
NoFsForUnsel == \A p \in fs : pat[p]

RECURSIVE Expected(_, _, _)
Expected(p, ia, ib) ==
    IF p = <<>> THEN <<>>
    ELSE IF Head(p) THEN [x \in 1..fan[ia] |-> S(Min(ResOf(ia)) + x - 1)] \o Expected(Tail(p), ia + 1, ib)
         ELSE <<U(xs.bobj[ib])>> \o Expected(Tail(p), ia, ib + 1)
\* run(interleave(A, B)) = interleave(run(A), B)
Metamorphic == (phase = "done" /\ ~async) => out = Expected(pat, 1, 1)

TypeOK == /\ pos \in 0..Len(pat) /\ na = Count(SubSeq(pat, 1, pos), TRUE) /\ nb = Count(SubSeq(pat, 1, pos), FALSE)
          /\ pending \subseteq 1..(NRef + Count(pat, TRUE)) /\ pending \cap Emitted = {}
          /\ \A k \in 1..Count(pat, TRUE) : FailId(k) \in pending => (k <= na /\ fan[k] = 0)
          /\ (~async => pending = {})

\* export of the expected output layout for every interleaving and fan-out (S2C)
Emitted_ == phase = "done" => PrintT(ToJson([pat |-> pat, fan |-> fan, own |-> own, out |-> out, bobj |-> xs.bobj,
                                                  cut |-> xs.cut, kind |-> xs.kind]))
=============================================================================
