SPECIFICATION Spec
CONSTANTS MaxOps = 4
  EdgeChoices <- EdgesEl
  InitVars = {"plain", "bins", "make", "iv"}
VIEW view
INVARIANT TypeOK
INVARIANT Conservation
PROPERTY StepOK
CHECK_DEADLOCK FALSE
