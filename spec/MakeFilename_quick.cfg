SPECIFICATION Spec
CONSTANTS MaxLen = 2
  Vocabulary <- SmallElements
INVARIANT OpEqDen
INVARIANT AffixOnce
INVARIANT PendingOnce
PROPERTY NameStable
PROPERTY AffixConsumed
CHECK_DEADLOCK FALSE
