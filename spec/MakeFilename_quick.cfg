SPECIFICATION Spec
CONSTANTS MaxLen = 2
  Vocabulary <- SmallElements
  Contexts <- InitsQuick
INVARIANT OpEqDen
INVARIANT IncomingKept
INVARIANT AffixOnce
INVARIANT PendingOnce
PROPERTY NameStable
PROPERTY AffixConsumed
CHECK_DEADLOCK FALSE
