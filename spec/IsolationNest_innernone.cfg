SPECIFICATION Spec
CONSTANTS Ns = {0, 2} CopyMode = "innernone"
  BufSizes <- BufAll
  Classes <- DictOnly
  Family = "guard"
INVARIANT Isolated
CHECK_DEADLOCK FALSE
