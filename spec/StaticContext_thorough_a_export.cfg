SPECIFICATION Spec
CONSTANTS MaxTok = 5 MaxDepth = 3
  Leaves <- LeavesQuick
  RootKinds <- AllRoots
  StoreByCopy = TRUE
  TailKeepsSets = TRUE
INVARIANT Emitted
CHECK_DEADLOCK FALSE
