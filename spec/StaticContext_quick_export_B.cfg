SPECIFICATION Spec
CONSTANTS MaxDepth = 3
  Families <- FamQuickB
  StoreByCopy = TRUE
  TailKeepsSets = TRUE
  SplitContinues = TRUE
  SkipEmpty = TRUE
  SkipGetters = TRUE
  SplitCachesExport = FALSE
  SrcFRepass = TRUE
  MFRunCopies = TRUE
  AlterApplied = FALSE
INVARIANT Emitted
CHECK_DEADLOCK FALSE
