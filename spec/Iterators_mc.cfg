SPECIFICATION Spec
CONSTANTS MaxN = 8 MaxK = 5
INVARIANT EqRef
INVARIANT ChunkLazy
INVARIANT CountDefaults
INVARIANT CountLinear
INVARIANT CountNeverEndsByItself
CHECK_DEADLOCK FALSE
