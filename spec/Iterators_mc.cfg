SPECIFICATION Spec
CONSTANTS MaxN = 8 MaxK = 5
INVARIANT EqRef
INVARIANT ChunkLazy
CHECK_DEADLOCK FALSE
