SPECIFICATION Spec
CONSTANTS MaxN = 8 MaxK = 5
INVARIANT EqRef
INVARIANT ChunkLazy
INVARIANT CountDefaults
CHECK_DEADLOCK FALSE
