SPECIFICATION Spec
CONSTANTS MaxN = 8 MaxK = 5 ShareBuffer = FALSE
INVARIANT EqRef
INVARIANT ChunkLazy
INVARIANT CountDefaults
INVARIANT CountLinear
INVARIANT CountNeverEndsByItself
INVARIANT HeldFrozen
INVARIANT HeldEqRef
INVARIANT FreshResults
CHECK_DEADLOCK FALSE
