SPECIFICATION Spec
CONSTANTS MaxFields = 4 Deep = TRUE
  CoordNames <- CoordNamesQ
  Tails <- TailsQ
INVARIANT Emitted
CHECK_DEADLOCK FALSE
