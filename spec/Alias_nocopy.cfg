SPECIFICATION Spec
CONSTANTS MaxLen = 4 CopyOnCompute = FALSE
INVARIANT Fresh
CHECK_DEADLOCK FALSE
