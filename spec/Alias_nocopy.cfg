SPECIFICATION Spec
CONSTANTS MaxLen = 4 Classes <- QuickClasses CopyOnCompute = "none"
INVARIANT Fresh
CHECK_DEADLOCK FALSE
