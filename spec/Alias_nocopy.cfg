SPECIFICATION Spec
CONSTANTS MaxLen = 4 CopyOnCompute = "none"
INVARIANT Fresh
CHECK_DEADLOCK FALSE
