-------------------------- MODULE Trace_LazyBlocks --------------------------
(***************************************************************************)
(* Validation of runs recorded from real lena pipelines with a fill /      *)
(* request block stage (X09) against the declarative part of LazyBlocks.   *)
(* Record: [sc, n, out, pulls, lazy, alive, end, at_run]                   *)
(*   out     results delivered by the real pipeline                        *)
(*   pulls   source values pulled at each delivery (checked when lazy):    *)
(*           at most the least number that makes the result available,     *)
(*           i.e. with one value less the result was not available yet     *)
(*   end     values pulled when the run was over                           *)
(*   at_run  values pulled by building the pipeline and calling run()      *)
(*   alive   largest number of source values alive (weak references) at    *)
(*           any pull or delivery: a block, the block being read, the      *)
(*           value in hand - however long the flow is                      *)
(* The variables of LazyBlocks are not used (frozen).                      *)
(***************************************************************************)
EXTENDS LazyBlocks, IOUtils

Trace == JsonDeserialize(IOEnv.TRACE_FILE)
VARIABLE i
AliveLimit(s) == 2 * RetainBound(s) + 2
Ok(r) == LET s == r.sc
             n == r.n
         IN /\ r.at_run = 0
            /\ r.out = Take(SemFull(s, Passed(s, n)), s.k)
            /\ r.end <= n
            /\ r.lazy => /\ Len(r.pulls) = Len(r.out)
                         /\ \A j \in 1..Len(r.pulls) : r.pulls[j] >= 1 /\ Len(Avail(s, n, r.pulls[j] - 1)) < j
                         /\ (s.k > 0 /\ Len(r.out) = s.k) => r.end = r.pulls[Len(r.pulls)]
            /\ r.alive <= AliveLimit(s)
Frozen == /\ sc = 0 /\ N = 0 /\ pos = 0 /\ vs = 0 /\ cnt = 0 /\ st = 0 /\ blk = 0 /\ acc = 0 /\ ready = 0 /\ out = 0
          /\ pulls = 0 /\ demand = 0 /\ phase = 0 /\ eof = 0 /\ stash = 0 /\ stoppedAt = 0
TInit == i = 1 /\ Frozen
TNext == i <= Len(Trace) /\ Ok(Trace[i]) /\ i' = i + 1 /\ UNCHANGED vars
TSpec == TInit /\ [][TNext]_<<i, vars>>
Accepted == /\ PrintT(<<"ACCEPTED", TLCGet("stats").diameter - 1>>)
            /\ TLCGet("stats").diameter - 1 = Len(Trace)
=============================================================================
