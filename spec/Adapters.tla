------------------------------ MODULE Adapters ------------------------------
(***************************************************************************)
(* lena/core/adapters.py  Call, SourceEl, Run, FillInto, FillCompute as    *)
(* decision tables over the capabilities of the wrapped element.           *)
(*                                                                         *)
(* An element is abstracted to its capability record                       *)
(*   run, fill, compute, request, fill_into, m   each "no" (absent),       *)
(*        "meth" (callable attribute) or "attr" (present, not callable);   *)
(*        m is a method with a custom name                                 *)
(*   call   the element itself is callable                                 *)
(*   iter   it has __iter__                                                *)
(*   cbf    it has an attribute _can_break_flow                            *)
(* and the construction argument to                                        *)
(*   "default"            no method name given                             *)
(*   "name:<x>"           the method name x is given                       *)
(*   "fill:<x>", "compute:<x>"   FillCompute(el, fill=x) / (compute=x)     *)
(*   "none"               Run(None, run=<generator function>)              *)
(*                                                                         *)
(* Construct  builds the adapter: Decide mirrors the order of the tests in *)
(*            the code; the result is rejection (LenaTypeError) or the way *)
(*            the adapter's method is bound.                               *)
(* Invoke     calls the adapter's interface on a fixed probe (twice on the *)
(*            same adapter object); the expected                           *)
(*            calls of the element's methods (log), what reaches a sink    *)
(*            (FillInto) and what is returned are state.                   *)
(* Wrap       puts the adapter object into a second adapter (no method     *)
(*            name): the adapter object is itself an element, and what the *)
(*            outer adapter, a Sequence or a FillSeq make of it is decided *)
(*            by what it exposes (AdapterTable.Exposed) - its own          *)
(*            interface, whatever the wrapped element can do.              *)
(* InvokeOuter  probes the outer adapter (twice); the calls reach the      *)
(*            element through the inner adapter.                           *)
(* The declarative side (Usable + Precedence) is written from the          *)
(* docstrings.                                                             *)
(***************************************************************************)
EXTENDS AdapterTable, Json

CONSTANTS FalsyAll, \* TRUE: falsy elements with every capability record; FALSE (quick tier): only those without
                    \* request and _can_break_flow
          Tri,     \* the method names that may also be "attr": present as a data attribute, not callable
          Hides,   \* TRUE: an adapter object has the interface of its kind only (documented: adapters hide unused
                   \* methods); FALSE: it lets the public attributes of the wrapped element through (must be rejected)
          NestAll  \* TRUE: every accepted adapter is wrapped again; FALSE (both tiers; three-valued Tri in the thorough
                   \* one): those around truthy elements without request and _can_break_flow

StatesOf(x) == IF x \in Tri THEN {"no", "meth", "attr"} ELSE {"no", "meth"}
Caps == [run : StatesOf("run"), fill : StatesOf("fill"), compute : StatesOf("compute"), request : StatesOf("request"),
         fill_into : StatesOf("fill_into"), m : StatesOf("m"), call : BOOLEAN, iter : BOOLEAN, cbf : BOOLEAN,
         truth : BOOLEAN]       \* truth value of the element (FALSE: __bool__ / __len__ make it falsy)

VARIABLES adapter, caps, arg, phase, res, log, sink, ret, uses,
          outer, res2      \* the second adapter ("" = none) and its binding to the first
vars == <<adapter, caps, arg, phase, res, log, sink, ret, uses, outer, res2>>

(***************************************************************************)
(* Machine.                                                                *)
(***************************************************************************)
Init == /\ adapter \in Adapters /\ caps \in Caps /\ arg \in ArgsOf(adapter)
        /\ (FalsyAll \/ caps.truth \/ (~caps.cbf /\ caps.request = "no"))
        /\ phase = "new" /\ res = Reject /\ log = <<>> /\ sink = <<>> /\ ret = <<>> /\ uses = 0
        /\ outer = "" /\ res2 = Reject
Construct == /\ phase = "new" /\ res' = Decide(adapter, caps, arg)
             /\ phase' = (IF res'.ok THEN "built" ELSE "rejected")
             /\ UNCHANGED <<adapter, caps, arg, log, sink, ret, uses, outer, res2>>
\* the same adapter object is used twice: every use calls the bound method(s) again
Invoke == /\ phase = "built" /\ uses < 2
          /\ LET e == Effect(adapter, res) IN log' = log \o e.log /\ sink' = sink \o e.sink /\ ret' = e.ret
          /\ uses' = uses + 1 /\ phase' = (IF uses' = 2 THEN "done" ELSE "built")
          /\ UNCHANGED <<adapter, caps, arg, res, outer, res2>>
\* what the adapter object shows to whoever looks for methods on it
Shown == Exposed(adapter, caps, Hides)
Wrap == /\ phase = "built" /\ uses = 0 /\ arg # "none"
        /\ (NestAll \/ (caps.truth /\ ~caps.cbf /\ caps.request = "no"))
        /\ \E o \in Adapters : /\ Fits(o, adapter) /\ outer' = o
                                /\ res2' = Decide(o, Shown, "default")
                                /\ phase' = (IF res2'.ok THEN "built2" ELSE "rejected2")
        /\ UNCHANGED <<adapter, caps, arg, res, log, sink, ret, uses>>
InvokeOuter == /\ phase = "built2" /\ uses < 2
               /\ LET e == NestedEffect(outer, res2, adapter, res) IN
                     log' = log \o e.log /\ sink' = sink \o e.sink /\ ret' = e.ret
               /\ uses' = uses + 1 /\ phase' = (IF uses' = 2 THEN "done2" ELSE "built2")
               /\ UNCHANGED <<adapter, caps, arg, res, outer, res2>>
Next == Construct \/ Invoke \/ Wrap \/ InvokeOuter
Spec == Init /\ [][Next]_vars

(***************************************************************************)
(* Properties.                                                             *)
(***************************************************************************)
Decided == phase # "new"
\* accepted exactly when the documentation names something usable, bound to the first such
AsDocumented == Decided => /\ res.ok = (FirstUsable(adapter, caps, arg) # "LenaTypeError")
                           /\ res.ok => (IF adapter = "FillCompute" THEN res.bind = "fill_compute"
                                         ELSE res.bind = FirstUsable(adapter, caps, arg))
\* a given method name is never replaced by a type cast
NamedNeverCasts == (Decided /\ res.ok /\ arg \notin {"default", "none"} /\ adapter # "FillCompute")
                      => res.bind = "method:" \o NameOf(arg)
\* FillCompute: the named fill; the named compute if callable, else request
FillComputeBinds == (Decided /\ adapter = "FillCompute" /\ res.ok) =>
    /\ Has(caps, res.f) /\ Has(caps, res.c)
    /\ res.f = (IF arg = "fill:m" THEN "m" ELSE "fill")
    /\ res.c \in {IF arg = "compute:m" THEN "m" ELSE "compute", "request"}
    /\ res.c = "request" => ~Has(caps, IF arg = "compute:m" THEN "m" ELSE "compute")
\* an element with nothing callable is rejected by every adapter (except Run(None, run=f))
Blank(c) == ~c.call /\ ~c.iter /\ \A x \in {"run", "fill", "compute", "request", "fill_into", "m"} : ~Has(c, x)
BlankRejected == (Decided /\ Blank(caps) /\ arg # "none") => ~res.ok
\* a present but non-callable attribute counts as absent; _can_break_flow matters to FillInto only
NoAttr(v) == IF v = "attr" THEN "no" ELSE v
AsCallable(c) == [c EXCEPT !.run = NoAttr(@), !.fill = NoAttr(@), !.compute = NoAttr(@), !.request = NoAttr(@),
                           !.fill_into = NoAttr(@), !.m = NoAttr(@)]
AttrIsAbsent == Decided => res = Decide(adapter, AsCallable(caps), arg)
CbfOnlyFillInto == (Decided /\ adapter # "FillInto") => res = Decide(adapter, [caps EXCEPT !.cbf = ~@], arg)
\* the decision does not depend on the truth value of the element (an empty Sequence, a container-like element that
\* is still empty, an element with __bool__ / __len__ are elements like any other)
TruthIrrelevant == Decided => res = Decide(adapter, [caps EXCEPT !.truth = ~@], arg)
\* gaining a capability never turns acceptance into rejection (one capability at a time; any larger
\* element is reached by such steps)
Gain(c) == {[c EXCEPT ![x] = "meth"] : x \in {"run", "fill", "compute", "request", "fill_into", "m"}}
              \cup {[c EXCEPT !.call = TRUE], [c EXCEPT !.iter = TRUE], [c EXCEPT !.cbf = TRUE]}
Monotone == (Decided /\ res.ok) => \A c2 \in Gain(caps) : Decide(adapter, c2, arg).ok
\* using the adapter does not change what it is bound to; the second use has the effect of the first
BindingStable == [][phase # "new" => res' = res]_vars
RepeatedUse == phase = "done" => LET e == Effect(adapter, res) IN
                  log = e.log \o e.log /\ sink = e.sink \o e.sink /\ ret = e.ret
\* the probe calls only methods the element has
LogWithinCaps == phase = "done" => \A i \in 1..Len(log) :
   \/ log[i].n \in {"call", "iter", "function"} /\ (log[i].n = "call" => caps.call) /\ (log[i].n = "iter" => caps.iter)
   \/ log[i].n \in {"run", "fill", "compute", "request", "fill_into", "m"} /\ Has(caps, log[i].n)

\* ---- adapter objects as elements
Wrapped2 == phase \in {"built2", "rejected2", "done2"}
\* the adapter object has the interface of its kind and nothing else, whatever it wraps: what a second adapter
\* (hence a Sequence, a FillSeq, a Split) makes of it does not depend on the wrapped element
HidesWrapped == Decided /\ res.ok => Shown = Interface(adapter)
OuterIndependent == Wrapped2 => res2 = Decide(outer, Interface(adapter), "default")
\* an adapter is accepted again by an adapter of its own kind, and a Call / FillCompute adapter is a Call / FillCompute
\* element for Run and FillInto ("a Run element can be initialized from a Call or a FillCompute element")
SameKindAccepted == (Wrapped2 /\ outer = adapter) => res2.ok
CastsAsDocumented == Wrapped2 =>
    /\ (outer = "Run" /\ adapter = "Call") => res2.bind = "call_per_value"
    /\ (outer = "Run" /\ adapter = "FillCompute") => res2.bind = "fill_then_compute"
    /\ (outer = "FillInto" /\ adapter = "Call") => res2.bind = "fill_call"
    /\ (outer # adapter /\ <<outer, adapter>> \notin {<<"Run", "Call">>, <<"Run", "FillCompute">>, <<"FillInto", "Call">>,
                                                       <<"Call", "SourceEl">>, <<"SourceEl", "Call">>}) => ~res2.ok
\* through two adapters the element is asked for nothing but what the inner adapter is bound to
OuterCallsBound == phase = "done2" => \A i \in 1..Len(log) : \E j \in 1..Len(Effect(adapter, res).log) :
                                         log[i].n = Effect(adapter, res).log[j].n
RepeatedUseOuter == phase = "done2" => LET e == NestedEffect(outer, res2, adapter, res) IN
                  log = e.log \o e.log /\ sink = e.sink \o e.sink /\ ret = e.ret

EmittedNest == (phase \in {"done2", "rejected2"}) =>
   PrintT(ToJson([adapter |-> adapter, caps |-> caps, arg |-> arg, res |-> res, outer |-> outer, res2 |-> res2,
                  shown |-> Interface(adapter), log |-> log, sink |-> sink, ret |-> ret]))
Emitted == (phase \in {"done", "rejected"}) =>
   PrintT(ToJson([adapter |-> adapter, caps |-> caps, arg |-> arg, res |-> res, log |-> log, sink |-> sink, ret |-> ret]))
=============================================================================
