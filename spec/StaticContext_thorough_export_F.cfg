SPECIFICATION Spec
CONSTANTS MaxDepth = 3
  Families <- FamT_F
  StoreByCopy = TRUE
  TailKeepsSets = TRUE
INVARIANT Emitted
CHECK_DEADLOCK FALSE
