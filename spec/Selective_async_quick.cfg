SPECIFICATION Spec
CONSTANTS MaxA = 3 MaxB = 3 MaxFan = 1
  AsyncModes = {TRUE}
  Repeats = FALSE Cuts = FALSE
INVARIANT TypeOK
INVARIANT UnselIdentityOrder
INVARIANT SelIndependent
INVARIANT NoFsForUnsel
INVARIANT Metamorphic
CHECK_DEADLOCK FALSE
