SPECIFICATION Spec
CONSTANTS MaxN = 4 Infinite = FALSE MaxOut = 3 MaxPos = 14 Stops = FALSE Guard = "predemand"
  Scen <- ScenGuard
INVARIANT TypeOK
INVARIANT NoWorkBeforeDemand
INVARIANT BlockPrefixOnly
INVARIANT RetentionBound
INVARIANT StoppedNoPull
INVARIANT ResultsAreSem
INVARIANT MachineIsSem
CONSTRAINT Bounded
CHECK_DEADLOCK FALSE
