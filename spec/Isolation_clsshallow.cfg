SPECIFICATION Spec
CONSTANTS MaxBr = 2 MaxN = 2 CopyMode = "clsshallow"
  BufSizes <- BufAll
  FillBr = 2
  ExtraBr = 2
  Shapes <- QuickShapes
  Classes <- QuickClasses
  FillTemplates <- FillFew
  Templates <- FewTemplates
INVARIANT Isolated
CHECK_DEADLOCK FALSE
