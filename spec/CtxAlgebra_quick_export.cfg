SPECIFICATION Spec
CONSTANTS
  K = {"a", "b"}
  NC = 2
  Levels <- LevelsQuick
  Ops <- AllOps
  UPair <- V2rq
  UTriple <- V1
INVARIANT Emit
CHECK_DEADLOCK FALSE
