---------------------------- MODULE AnalysisSem ----------------------------
(***************************************************************************)
(* Constant-level part of Analysis.tla (no constants, no variables): the   *)
(* branches of a tutorial-style analysis, what each computes, the files a  *)
(* run leaves.  Shared by Analysis.tla (the machine) and                   *)
(* Trace_Analysis.tla (validation of recorded runs).  ed = <<edges of the  *)
(* coordinate histograms, y edges of the "xy" histograms>>.                *)
(***************************************************************************)
EXTENDS HistOpsSem

(***************************************************************************)
(* Branches, variables, names.                                             *)
(***************************************************************************)
\* branch kinds: [p |-> "positron" | "neutron", c |-> "x" | "y" | "xy", a |-> "hist" | "mean"]
\* a = "hist": (variables, Histogram) - a plot;  a = "mean": (Compose(particle, coord), Mean()) - a number that no
\* element of the output chain selects: it must come out at the end unchanged, named but not written
Br(p, c) == [p |-> p, c |-> c, a |-> "hist"]
BrMean(p, c) == [p |-> p, c |-> c, a |-> "mean"]
IsHist(b) == b.a = "hist"
Plots(brl) == {i \in 1..Len(brl) : IsHist(brl[i])}
Dim(b) == IF b.c = "xy" THEN 2 ELSE 1
EdgesOfP(b, ed) == IF Dim(b) = 2 THEN <<ed[1], ed[2]>> ELSE <<ed[1]>>
Particle(b, ev) == IF b.p = "positron" THEN ev[1] ELSE ev[2]
\* the data a branch's histogram is filled with: Compose(particle, coord) / particle then Combine(x, y)
Proj(b, ev) == LET v == Particle(b, ev) IN
               CASE b.c = "x" -> <<v[1]>> [] b.c = "y" -> <<v[2]>> [] b.c = "xy" -> <<v[1], v[2]>>
\* the file name: the outer MakeFilename(particle/variable name) for the coordinate branches; the "xy" branches
\* name themselves inside the branch (particle/2d_xy) and the outer MakeFilename, although it could be formatted,
\* never replaces an existing name
Name(b) == <<b.p, IF b.c = "xy" THEN "2d_xy" ELSE b.c>>
\* context.variable as the variables describe themselves (Variables.tla): what the harness looks at
VarCtx(b) == [name |-> b.c, particle |-> b.p, coordinate |-> IF Dim(b) = 1 THEN b.c ELSE "-",
              compose |-> IF Dim(b) = 1 THEN <<"particle", "coordinate">> ELSE <<"particle">>, dim |-> Dim(b),
              source |-> "data"]      \* what the reader said about the event survives in every branch, nothing else is added

\* the state of a branch's accumulator: a histogram [bins, oor], or for Mean the pair [bins |-> <<sum, count>>, oor |-> 0]
EmptyP(b, ed) == IF IsHist(b) THEN [bins |-> InitBins(EdgesOfP(b, ed), 1, 0), oor |-> 0] ELSE [bins |-> <<0, 0>>, oor |-> 0]
RECURSIVE FillAllP(_, _, _, _)
FillAllP(b, st, evs, ed) == IF evs = <<>> THEN st
                            ELSE IF IsHist(b)
                            THEN LET r == FillOp(st.bins, st.oor, EdgesOfP(b, ed), Proj(b, Head(evs)), 1)
                                 IN FillAllP(b, [bins |-> r.bins, oor |-> r.oor], Tail(evs), ed)
                            ELSE FillAllP(b, [bins |-> <<st.bins[1] + Proj(b, Head(evs))[1], st.bins[2] + 1>>, oor |-> 0], Tail(evs), ed)
\* declarative: every cell holds the number of events whose projection lies in it
ExpectedP(b, evs, ed) ==
  LET E == EdgesOfP(b, ed)
      In(cell) == Cardinality({k \in 1..Len(evs) : Inside(Proj(b, evs[k]), cell, E)})
  IN [cell \in Cells(E) |-> In(cell)]
OutsideP(b, evs, ed) == Cardinality({k \in 1..Len(evs) : CellsOf(Proj(b, evs[k]), EdgesOfP(b, ed)) = {}})

(***************************************************************************)
(* File contents.                                                          *)
(***************************************************************************)
Absent == [a |-> TRUE]
File(c) == [a |-> FALSE, c |-> c]
\* csv: the rows ToCSV prints (duplicate_last_bin); tex: the template (by dimension) and its version, rendered for
\* this plot; pdf: made from that tex and that csv; png: made from that pdf
CsvOfP(b, st, ed) == CsvRef(st.bins, EdgesOfP(b, ed), TRUE)
TexOf(b, v) == [kind |-> Dim(b), ver |-> v, name |-> Name(b), var |-> b.c]
Key(b, ext) == <<Name(b), ext>>
Has(f, k) == k \in DOMAIN f
Get2(f, k) == IF Has(f, k) THEN f[k] ELSE Absent
Put(f, k, c) == [x \in DOMAIN f \cup {k} |-> IF x = k THEN File(c) ELSE f[x]]


(***************************************************************************)
(* One whole run as a function of the directory before it (declarative).   *)
(***************************************************************************)
\* the histogram of branch b after the run: built cell by cell from the definition
RECURSIVE BuildBins(_, _, _, _, _)
BuildBins(b, evs, ed, d, prefix) ==
  LET E == EdgesOfP(b, ed) IN
  [j \in 1..NB(E[d]) |-> IF d = Len(E) THEN ExpectedP(b, evs, ed)[Append(prefix, j - 1)]
                         ELSE BuildBins(b, evs, ed, d + 1, Append(prefix, j - 1))]
HistRef(b, evs, ed) == IF IsHist(b) THEN [bins |-> BuildBins(b, evs, ed, 1, <<>>), oor |-> OutsideP(b, evs, ed)]
                       ELSE [bins |-> <<SumSeq([k \in 1..Len(evs) |-> Proj(b, evs[k])[1]]), Len(evs)>>, oor |-> 0]
\* files after the run / written / launched, given the files before (F0), for pairwise differently named branches
RunFiles(F0, brl, evs, t, ed) ==
  LET keys == {Key(brl[i], e) : i \in Plots(brl), e \in {"csv", "tex", "pdf", "png"}}
      Of(k) == LET b == brl[CHOOSE i \in Plots(brl) : Name(brl[i]) = k[1]]
                   csv == CsvOfP(b, HistRef(b, evs, ed), ed)
                   tex == TexOf(b, t)
               IN CASE k[2] = "csv" -> File(csv) [] k[2] = "tex" -> File(tex)
                    [] OTHER -> File([tex |-> tex, csv |-> csv])
  IN [k \in keys \cup DOMAIN F0 |-> IF k \in keys THEN Of(k) ELSE F0[k]]
RunWrote(F0, F1, brl) == {k \in {Key(brl[i], e) : i \in Plots(brl), e \in {"csv", "tex"}} : Get2(F0, k) # F1[k]}
RunLaunched(F0, F1, brl) ==
  LET W == RunWrote(F0, F1, brl)
      Pdf(b) == ~Has(F0, Key(b, "pdf")) \/ Key(b, "csv") \in W \/ Key(b, "tex") \in W
  IN {Key(brl[i], "pdf") : i \in {j \in Plots(brl) : Pdf(brl[j])}}
     \cup {Key(brl[i], "png") : i \in {j \in Plots(brl) : Pdf(brl[j]) \/ ~Has(F0, Key(brl[j], "png"))}}
RunOut(brl, evs, ed) == [i \in 1..Len(brl) |-> LET st == HistRef(brl[i], evs, ed) IN
                           [name |-> Name(brl[i]), var |-> VarCtx(brl[i]), dim |-> IF IsHist(brl[i]) THEN Dim(brl[i]) ELSE 0,
                            \* a mean is reported as the normalised rational sum / count
                            bins |-> IF IsHist(brl[i]) THEN st.bins ELSE R(st.bins[1], st.bins[2]), oor |-> st.oor]]
=============================================================================
