SPECIFICATION Spec
CONSTANTS MaxPre = 0 MaxN = 2
  PreAlphabet <- AlphaGuard
  Accs <- AccsGuard
  Posts <- PostsGuard
  FlowKinds = {"ctx"}
  Drivers = {"run", "fill", "persist", "split"}
  Places = {"alone"}
  StopFlag = "per_branch"
  CopyMode = "per_branch"
  AdapterHides = FALSE
  VarCopy = "per_value"
  Bufs <- BufOne
INVARIANT DriversAgree
INVARIANT FillReaches
INVARIANT StopSound
INVARIANT ComputeOnce
INVARIANT BufBound
CHECK_DEADLOCK FALSE
