------------------------------- MODULE Convert -------------------------------
(***************************************************************************)
(* Conversions of a histogram that must keep every cell once and in order: *)
(* hist_to_graph, iter_bins, iter_bins_with_edges, iter_cells,             *)
(* hist1d_to_csv / hist2d_to_csv / ToCSV.                                  *)
(*                                                                         *)
(* Code: lena/structures/hist_functions.py, lena/output/to_csv.py.         *)
(* One action per conversion of the (unchanged) histogram; the operators   *)
(* written like the code (HistOpsSem.tla: IterBinsOp, IterBinsWithEdgesOp, *)
(* IterCellsOp, HistToGraphOp, Csv1Op, Csv2Op) are checked against the     *)
(* declarative cell list CellList / CsvRef.  Edges are even integers (the  *)
(* "middle" stays integral), contents integers.                            *)
(***************************************************************************)
EXTENDS HistOpsSem, TLC, Json

CONSTANTS ConvChoices,   \* histograms [edges, bins]
          RangeLows,     \* lower limits tried per axis in iter_cells (None = no limit)
          RangeUps       \* upper limits, relative: None, or k meaning "NB - k" for k >= 0, "NB + 1" for k = -1

VARIABLES hist,   \* [edges, bins]
          last    \* the conversion made and its output
vars == <<hist, last>>

\* contents: 1, 2, 3, ... in iteration order, or a mix with zeros and negatives
RECURSIVE PatB(_, _, _, _)
PatB(E, d, base, p) == IF d > Len(E) THEN (IF p = 1 THEN base + 1 ELSE ((base * 7) % 6) - 2)
                       ELSE [j \in 1..NB(E[d]) |-> PatB(E, d + 1, base + (j - 1) * NCellsFrom(E, d + 1), p)]
H(E, p) == [edges |-> E, bins |-> PatB(E, 1, 0, p)]
Meshes1 == {<<<<0, 2>>>>, <<<<0, 2, 6>>>>, <<<<-4, 0, 2, 12>>>>, <<<<0, 2, 4, 6, 8, 20>>>>}
Meshes2 == {<<<<0, 2, 6>>, <<2, 4, 8>>>>, <<<<0, 2, 6, 8>>, <<-2, 4, 8>>>>, <<<<0, 4>>, <<0, 2, 4, 10>>>>, <<<<0, 2, 4, 10>>, <<6, 8>>>>}
Meshes3 == {<<<<0, 2, 6>>, <<2, 4, 8>>, <<0, 10, 12>>>>, <<<<0, 2, 6>>, <<2, 4>>, <<0, 4, 6, 8>>>>}
ConvQuick == {H(E, p) : E \in Meshes1 \cup Meshes2 \cup Meshes3, p \in {1, 2}}
ConvThorough == ConvQuick \cup {H(E, p) : E \in {<<<<0, 2, 4, 6>>, <<0, 2, 4, 6>>>>, <<<<0, 2, 4, 6>>, <<0, 2, 4>>, <<0, 2, 4, 6>>>>,
                                             <<<<0, 2>>, <<0, 2>>, <<0, 2>>>>}, p \in {1, 2}}
LowsAll == {None, 0, 1, 2, -1}
UpsAll == {None, 0, 1, 2, -1}
LowsSmall == {None, 1, -1}
UpsSmall == {None, 1, -1}

Start == [op |-> "none", mode |-> "", dup |-> FALSE, ranges |-> <<>>, ok |-> TRUE, exc |-> "",
          cols |-> <<>>, cells |-> <<>>, rows |-> <<>>, names |-> "tuple", both |-> FALSE, elem |-> "plain", ends |-> <<>>]
Init == hist \in ConvChoices /\ last = Start
E == hist.edges
B == hist.bins
Fresh == last.op = "none" /\ hist' = hist

\* hist_to_graph(hist, get_coordinate=mode, field_names=...)
\* field_names as a tuple or as one comma separated string; any other get_coordinate raises LenaValueError
ToGraph == Fresh /\ \E mode \in {"left", "right", "middle", "center"}, names \in {"tuple", "string"} :
             last' = IF mode = "center"
                     THEN [Start EXCEPT !.op = "to_graph", !.mode = mode, !.names = names, !.ok = FALSE, !.exc = "LenaValueError"]
                     ELSE [Start EXCEPT !.op = "to_graph", !.mode = mode, !.names = names, !.cols = HistToGraphOp(B, E, mode)]
\* list(iter_bins(hist.bins)): (index, content)
IterBins == Fresh /\ LET it == IterBinsOp(B, Len(E)) IN
              last' = [Start EXCEPT !.op = "iter_bins",
                                    !.cells = [j \in 1..Len(it) |-> [idx |-> it[j].idx, v |-> it[j].v, e |-> <<>>]]]
\* list(iter_bins_with_edges(hist.bins, hist.edges)): (content, edges)
IterBinsWithEdges == Fresh /\ LET it == IterBinsWithEdgesOp(B, E) IN
              last' = [Start EXCEPT !.op = "iter_bins_with_edges",
                                    !.cells = [j \in 1..Len(it) |-> [idx |-> <<>>, v |-> it[j].v, e |-> it[j].e]]]
\* list(iter_cells(hist, ranges)): HistCell(edges, bin, index)
Up(d, k) == IF k = None THEN None ELSE IF k = -1 THEN NB(E[d]) + 1 ELSE IF NB(E[d]) - k >= 0 THEN NB(E[d]) - k ELSE 0
RangeChoices == LET One(d) == {<<lo, Up(d, up)>> : lo \in RangeLows, up \in RangeUps} IN
                CASE Len(E) = 1 -> {<<r>> : r \in One(1)}
                  [] Len(E) = 2 -> {<<r, s>> : r \in One(1), s \in One(2)}
                  [] Len(E) = 3 -> {<<r, s, t>> : r \in One(1), s \in One(2), t \in One(3)}
\* both: coord_ranges given as well - "If both coord_ranges and ranges are provided, LenaTypeError is raised"
AllNone(ranges) == \A d \in 1..Len(ranges) : ranges[d][1] = None /\ ranges[d][2] = None
IterCells == Fresh /\ \E ranges \in RangeChoices, both \in BOOLEAN :
               /\ both => AllNone(ranges)
               /\ LET r == IterCellsOp(B, E, ranges) IN
                  last' = IF both THEN [Start EXCEPT !.op = "iter_cells", !.ranges = ranges, !.both = TRUE, !.ok = FALSE, !.exc = "LenaTypeError"]
                          ELSE [Start EXCEPT !.op = "iter_cells", !.ranges = ranges, !.ok = r.ok, !.exc = r.exc, !.cells = r.out]
\* hist1d_to_csv / hist2d_to_csv / ToCSV(duplicate_last_bin=dup): rows of numbers
\* elem: "plain" (functions or element with defaults), "ends" (ToCSV(row_end=E, last_row_end=L): "Every row except the
\* last one is ended with row_end and a newline.  The last row is ended with last_row_end"), "skip" (context.output.to_csv
\* is False: "the value is skipped", i.e. passed on unchanged)
Csv == Fresh /\ Len(E) <= 2 /\ \E dup \in BOOLEAN, elem \in {"plain", "ends", "skip"} :
         LET rows == IF Len(E) = 1 THEN Csv1Op(B, E, dup) ELSE Csv2Op(B, E, dup) IN
         last' = IF elem = "skip" THEN [Start EXCEPT !.op = "csv", !.dup = dup, !.elem = elem, !.exc = "unchanged"]
                 ELSE [Start EXCEPT !.op = "csv", !.dup = dup, !.elem = elem, !.rows = rows,
                                    !.ends = IF elem = "ends" THEN [k \in 1..Len(rows) |-> IF k < Len(rows) THEN "E" ELSE "L"] ELSE <<>>]
\* ToCSV is "implemented only for 1- and 2-dimensional histograms": others pass unchanged
Csv3d == Fresh /\ Len(E) = 3 /\ last' = [Start EXCEPT !.op = "csv", !.elem = "3d", !.exc = "unchanged"]
Next == ToGraph \/ IterBins \/ IterBinsWithEdges \/ IterCells \/ Csv \/ Csv3d
Spec == Init /\ [][Next]_vars

(***************************************************************************)
(* Properties.                                                             *)
(***************************************************************************)
CL == CellList(B, E)
\* hist_to_graph yields one point per cell, in order, at its left/right/middle coordinate with that cell's value
BadModeRaises == last.op = "to_graph" => (last.ok <=> last.mode \in {"left", "right", "middle"}) /\ (~last.ok => last.exc = "LenaValueError")
OnePointPerCell == (last.op = "to_graph" /\ last.ok) =>
  /\ Len(last.cols) = Len(E) + 1
  /\ \A k \in 1..Len(last.cols) : Len(last.cols[k]) = NCells(E)
  /\ \A j \in 1..NCells(E) :
       /\ last.cols[Len(E) + 1][j] = CL[j].v
       /\ \A d \in 1..Len(E) :
            LET lo == CL[j].e[d][1]
                hi == CL[j].e[d][2]
                x == last.cols[d][j]
            IN CASE last.mode = "left" -> x = lo
                 [] last.mode = "right" -> x = hi
                 [] last.mode = "middle" -> 2 * x = lo + hi
\* iter_bins, iter_bins_with_edges and iter_cells agree on content, index and edges: every cell once, in order
IteratorsAgree ==
  /\ last.op = "iter_bins" =>
       /\ Len(last.cells) = NCells(E)
       /\ \A j \in 1..NCells(E) : last.cells[j].idx = CL[j].idx /\ last.cells[j].v = CL[j].v
  /\ last.op = "iter_bins_with_edges" =>
       /\ Len(last.cells) = NCells(E)
       /\ \A j \in 1..NCells(E) : last.cells[j].e = CL[j].e /\ last.cells[j].v = CL[j].v
  /\ (last.op = "iter_cells" /\ last.ok) =>
       \* exactly the cells of the full list that lie within the ranges, in the same order
       LET In(c) == \A d \in 1..Len(E) :
                      /\ (last.ranges[d][1] # None => c[d] >= last.ranges[d][1])
                      /\ (last.ranges[d][2] # None => c[d] < last.ranges[d][2])
           sel == SelectSeq(CL, LAMBDA x : In(x.idx))
       IN /\ Len(last.cells) = Len(sel)
          /\ \A j \in 1..Len(sel) : last.cells[j] = [e |-> sel[j].e, v |-> sel[j].v, idx |-> sel[j].idx]
\* iter_cells refuses index ranges outside 0..nbins
BothRangesRaise == (last.op = "iter_cells" /\ last.both) => (~last.ok /\ last.exc = "LenaTypeError")
RangesChecked == (last.op = "iter_cells" /\ ~last.both) =>
  (last.ok <=> \A d \in 1..Len(E) : /\ (last.ranges[d][1] # None => last.ranges[d][1] >= 0)
                                    /\ (last.ranges[d][2] # None => last.ranges[d][2] <= NB(E[d])))
\* CSV: one row per cell (plus the rows duplicating the last edge when requested), lower edges and content
CsvEnds == (last.op = "csv" /\ last.elem = "ends") =>
  /\ Len(last.ends) = Len(last.rows)
  /\ \A k \in 1..Len(last.ends) : last.ends[k] = (IF k = Len(last.ends) THEN "L" ELSE "E")
CsvPasses == (last.op = "csv" /\ last.elem \in {"skip", "3d"}) => (last.rows = <<>> /\ last.exc = "unchanged")
CsvOneRowPerCell == (last.op = "csv" /\ last.elem \in {"plain", "ends"}) =>
  /\ last.rows = CsvRef(B, E, last.dup)
  /\ ~last.dup =>
       /\ Len(last.rows) = NCells(E)
       /\ \A j \in 1..NCells(E) :
            /\ last.rows[j][Len(E) + 1] = CL[j].v
            /\ \A d \in 1..Len(E) : last.rows[j][d] = CL[j].e[d][1]
  /\ last.dup => Len(last.rows) = (IF Len(E) = 1 THEN NB(E[1]) + 1 ELSE (NB(E[1]) + 1) * (NB(E[2]) + 1))

Emitted == last.op # "none" => PrintT(ToJson([hist |-> hist, conv |-> last]))
=============================================================================
