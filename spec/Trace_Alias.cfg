SPECIFICATION Spec
INVARIANT Fresh
POSTCONDITION Accepted
CHECK_DEADLOCK FALSE
