---------------------------- MODULE Trace_Split ----------------------------
(***************************************************************************)
(* Validation of Split.run executions recorded from the real code on       *)
(* configurations beyond the exhaustive bounds: [brs, N, bs, out].         *)
(***************************************************************************)
EXTENDS SplitSem, IOUtils
Trace == JsonDeserialize(IOEnv.TRACE_FILE)
VARIABLE i
Ok(r) == r.out = SplitSem(r.brs, r.bs, Iota(r.N))
Init == i = 1
Next == i <= Len(Trace) /\ Ok(Trace[i]) /\ i' = i + 1
Spec == Init /\ [][Next]_i
Accepted == /\ PrintT(<<"ACCEPTED", TLCGet("stats").diameter - 1>>)
            /\ TLCGet("stats").diameter - 1 = Len(Trace)
=============================================================================
