------------------------------ MODULE CtxValue ------------------------------
(***************************************************************************)
(* Nested dictionaries ("contexts") of lena and the documented meaning of  *)
(* the functions of lena/context/functions.py that combine them.           *)
(*                                                                         *)
(* Encoding (DESIGN.md 3.1): a dictionary is [k |-> "D", m |-> f] with f a *)
(* function from key strings to values; every other Python value is a leaf *)
(* [k |-> "L", v |-> <repr string>, e |-> <equality class>].  The class e  *)
(* models Python == on leaves (0 == False == 0.0); it is computed by the   *)
(* harness for recorded values and equals the symbolic name in the bounded *)
(* universes enumerated by TLC.  A dictionary never equals a leaf.         *)
(* No constants or variables: shared by CtxAlgebra, ContextOps and the     *)
(* trace specifications.                                                   *)
(***************************************************************************)
EXTENDS Integers, Sequences, FiniteSets

Dict(f) == [k |-> "D", m |-> f]
Leaf(v, e) == [k |-> "L", v |-> v, e |-> e]
Empty == Dict(<<>>)
IsD(x) == x.k = "D"
Keys(x) == DOMAIN x.m
IsEmpty(x) == IsD(x) /\ Keys(x) = {}
BothD(x, y) == IsD(x) /\ IsD(y)

\* Python ==
RECURSIVE Eq(_, _)
Eq(x, y) == IF IsD(x) /\ IsD(y)
              THEN Keys(x) = Keys(y) /\ \A k \in Keys(x) : Eq(x.m[k], y.m[k])
            ELSE IF ~IsD(x) /\ ~IsD(y) THEN x.e = y.e
            ELSE FALSE

\* d with d[k] = v
With(d, k, v) == Dict([j \in Keys(d) \cup {k} |-> IF j = k THEN v ELSE d.m[j]])
Without(d, k) == Dict([j \in Keys(d) \ {k} |-> d.m[j]])

(***************************************************************************)
(* Containment: every item of c is in d, recursively ("c is a nested       *)
(* sub-dictionary of d").                                                  *)
(***************************************************************************)
RECURSIVE Contained(_, _)
Contained(c, d) ==
  \A k \in Keys(c) : /\ k \in Keys(d)
                     /\ \/ Eq(c.m[k], d.m[k])
                        \/ BothD(c.m[k], d.m[k]) /\ Contained(c.m[k], d.m[k])

\* all sub-dictionaries of d (every c with Contained(c, d), up to Eq)
RECURSIVE SubsOver(_, _)
SubsOver(d, ks) ==
  IF ks = {} THEN {Empty}
  ELSE LET k == CHOOSE j \in ks : TRUE
           rest == SubsOver(d, ks \ {k})
           vals == IF IsD(d.m[k]) THEN SubsOver(d.m[k], Keys(d.m[k])) ELSE {d.m[k]}
       IN rest \cup {Dict([j \in Keys(c) \cup {k} |-> IF j = k THEN v ELSE c.m[j]]) :
                        c \in rest, v \in vals}
Subs(d) == SubsOver(d, Keys(d))

(***************************************************************************)
(* intersection(d1, d2, level): level 0 compares whole dictionaries, level *)
(* 1 keeps the keys with equal values, deeper levels recurse into pairs of *)
(* sub-dictionaries; negative = unbounded.  Values come from the first     *)
(* argument.                                                               *)
(***************************************************************************)
RECURSIVE Inter2(_, _, _)
Inter2(a, b, lv) ==
  IF lv = 0 THEN (IF Eq(a, b) THEN a ELSE Empty)
  ELSE LET keep == {k \in Keys(a) \cap Keys(b) :
                      \/ Eq(a.m[k], b.m[k])
                      \/ lv # 1 /\ BothD(a.m[k], b.m[k])}
       IN Dict([k \in keep |-> IF Eq(a.m[k], b.m[k]) THEN a.m[k]
                               ELSE Inter2(a.m[k], b.m[k], lv - 1)])
RECURSIVE InterFold(_, _, _, _)
InterFold(res, ds, i, lv) == IF i > Len(ds) THEN res
                             ELSE InterFold(Inter2(res, ds[i], lv), ds, i + 1, lv)
InterN(ds, lv) == IF Len(ds) = 0 THEN Empty ELSE InterFold(ds[1], ds, 2, lv)

(***************************************************************************)
(* difference(d1, d2, level): the items of d1 not contained in d2.  A key  *)
(* of d1 is dropped when d2 has an equal value, or when both values are    *)
(* dictionaries compared recursively and nothing of d1[key] is left.       *)
(* A differing value that is not compared recursively (a non-dictionary on *)
(* either side, or the level is exhausted) is an item of the difference    *)
(* whatever its truth value.                                               *)
(***************************************************************************)
RECURSIVE Diff(_, _, _)
Diff(a, b, lv) ==
  IF Eq(a, b) THEN Empty
  ELSE IF lv = 0 THEN a
  ELSE LET whole == {k \in Keys(a) : \/ k \notin Keys(b)
                                     \/ /\ ~Eq(a.m[k], b.m[k])
                                        /\ (lv = 1 \/ ~BothD(a.m[k], b.m[k]))}
           deep  == {k \in (Keys(a) \cap Keys(b)) \ whole :
                       /\ ~Eq(a.m[k], b.m[k])
                       /\ ~IsEmpty(Diff(a.m[k], b.m[k], lv - 1))}
       IN Dict([k \in whole \cup deep |-> IF k \in whole THEN a.m[k]
                                          ELSE Diff(a.m[k], b.m[k], lv - 1)])

(***************************************************************************)
(* update_recursively(d, other): the value of d afterwards.                *)
(***************************************************************************)
RECURSIVE UpdRec(_, _)
UpdRec(d, o) ==
  Dict([k \in Keys(d) \cup Keys(o) |->
          IF k \notin Keys(o) THEN d.m[k]
          ELSE IF ~IsD(o.m[k]) \/ k \notin Keys(d) THEN o.m[k]
          ELSE UpdRec(IF IsD(d.m[k]) THEN d.m[k] ELSE Empty, o.m[k])])

(***************************************************************************)
(* Paths (sequences of keys).                                              *)
(***************************************************************************)
RECURSIVE Has(_, _)
Has(d, p) == \/ p = <<>>
             \/ IsD(d) /\ Head(p) \in Keys(d) /\ Has(d.m[Head(p)], Tail(p))
RECURSIVE Get(_, _)
Get(d, p) == IF p = <<>> THEN d ELSE Get(d.m[Head(p)], Tail(p))
\* set the value at p, creating intermediate dictionaries (replacing leaves on the way)
RECURSIVE Put(_, _, _)
Put(d, p, v) ==
  IF p = <<>> THEN v
  ELSE LET k == Head(p)
           base == IF IsD(d) THEN d ELSE Empty
           sub == IF k \in Keys(base) THEN base.m[k] ELSE Empty
       IN With(base, k, Put(sub, Tail(p), v))
RECURSIVE Del(_, _)
Del(d, p) == IF Len(p) = 1 THEN Without(d, p[1])
             ELSE With(d, Head(p), Del(d.m[Head(p)], Tail(p)))
Repeat(k, n) == [j \in 1..n |-> k]

\* terminal items: paths to leaves and to empty dictionaries
RECURSIVE Terminals(_)
Terminals(d) ==
  IF ~IsD(d) \/ IsEmpty(d) THEN {<<>>}
  ELSE UNION {{<<k>> \o p : p \in Terminals(d.m[k])} : k \in Keys(d)}
\* is the terminal item (p, v) of some dictionary contained in b ?
ItemIn(b, p, v) == /\ Has(b, p)
                   /\ IF IsD(v) THEN IsD(Get(b, p)) ELSE Eq(Get(b, p), v)

(***************************************************************************)
(* update_nested(key, d, other): length of the chain other.key.key... of   *)
(* dictionaries containing key, and the values of d and other afterwards.  *)
(***************************************************************************)
RECURSIVE ChainLen(_, _)
ChainLen(o, key) == IF IsD(o) /\ key \in Keys(o) THEN 1 + ChainLen(o.m[key], key) ELSE 0
\* the chain must end in a dictionary (one cannot insert into a scalar)
ChainOk(o, key) == IsD(Get(o, Repeat(key, ChainLen(o, key))))
NestedOther(key, d, o) ==
  IF key \in Keys(d) THEN Put(o, Repeat(key, ChainLen(o, key) + 1), d.m[key]) ELSE o
NestedD(key, d, o) == With(d, key, NestedOther(key, d, o))
=============================================================================
