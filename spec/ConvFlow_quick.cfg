SPECIFICATION Spec
CONSTANTS MaxLen = 3
  MaxRuns = 2
  Kinds = {"ToCSV", "HistToGraph", "ScaleTo"}
  ConvOpts = {"absent", "F"}
  Memory = "none"
INVARIANT ElementStateless
INVARIANT OneOutputPerValue
INVARIANT RowCount
INVARIANT Emitted
CHECK_DEADLOCK FALSE
