SPECIFICATION Spec
CONSTANTS
  KeyOrder <- KO2
  Ctxs <- FlowCtxs
  Flows <- FlowsAll3
  Calls <- CallsFlowThorough
INVARIANT Emit
CHECK_DEADLOCK FALSE
