---------------------------- MODULE SeqStructRef ----------------------------
(***************************************************************************)
(* X01, declarative side (no constants, no variables): element kinds as    *)
(* capability sets, the documented constructor contracts of the sequence   *)
(* classes, the Python sequence protocol, trees of elements with flatten / *)
(* alter_sequence / repr references, and the classification table of a     *)
(* Split branch.  Shared by SeqStruct.tla and Trace_SeqStruct.tla.         *)
(***************************************************************************)
EXTENDS Integers, Sequences, FiniteSets

(***************************************************************************)
(* Element kinds and capabilities                                          *)
(***************************************************************************)
Caps == [call   |-> {"call"},                          \* a function of one value
         run    |-> {"run"},                           \* has run(flow)
         runb   |-> {"run", "break"},                  \* run + _can_break_flow
         fc     |-> {"fill", "compute"},
         fcr    |-> {"fill", "compute", "run"},
         fr     |-> {"fill", "request", "reset"},
         fi     |-> {"fill_into"},
         fill   |-> {"fill"},
         iter   |-> {"iter"},                          \* an iterable that is not callable
         none   |-> {},                                \* e.g. the number 5
         nodata |-> {"nodata"},                        \* static-context element (_has_no_data)
         uni    |-> {"call", "run", "fill", "compute", "request", "reset"}]
ElKinds == DOMAIN Caps
Has(k, c) == c \in Caps[k]
IsFC(k) == Has(k, "fill") /\ Has(k, "compute")          \* is_fill_compute_el
IsFR(k) == Has(k, "fill") /\ Has(k, "request")          \* is_fill_request_el
IsRun(k) == Has(k, "run")                               \* is_run_el
NoData(k) == Has(k, "nodata")
\* usable in a Sequence: has run, or convertible to Run (callable, FillCompute element)
SeqOK(k) == NoData(k) \/ Has(k, "run") \/ Has(k, "call") \/ IsFC(k)
\* usable before the filled element: fill_into, or convertible to FillInto
FillIntoOK(k) == NoData(k) \/ Has(k, "fill_into") \/ Has(k, "call") \/ (Has(k, "run") /\ Has(k, "break"))
SrcFirstOK(k) == Has(k, "call") \/ Has(k, "iter")

SeqKinds == {"Sequence", "Source", "FillSeq", "FillComputeSeq", "FillRequestSeq"}
Seqs(S, lo, hi) == UNION {[1..n -> S] : n \in lo..hi}
Range(s) == {s[j] : j \in DOMAIN s}
\* index of the first element satisfying P, 0 if none
FirstIdx(els, P(_)) == IF \E j \in DOMAIN els : P(els[j])
                         THEN CHOOSE j \in DOMAIN els : P(els[j]) /\ \A i \in 1..(j - 1) : ~P(els[i])
                       ELSE 0
LTE == "LenaTypeError"
LVE == "LenaValueError"

(***************************************************************************)
(* Constructors.  BuildExcs(kind, els, kw, single): the set of outcomes    *)
(* the documentation allows: "" = the sequence is built (and then contains *)
(* exactly els, in order), or exception names.                             *)
(*   kw (FillRequestSeq only): "ok" (reset=False, buffer_input=True),      *)
(*   "noreset", "nobuf", "unknown".   single: the elements are passed as   *)
(*   one tuple (documented for Sequence only).                             *)
(***************************************************************************)
StructExc(kind, els) ==
  CASE kind = "Sequence" -> IF \A j \in DOMAIN els : SeqOK(els[j]) THEN "" ELSE LTE
    [] kind = "Source" ->
         IF Len(els) = 0 THEN LTE
         ELSE IF ~SrcFirstOK(els[1]) THEN LTE
         ELSE IF \A j \in 2..Len(els) : SeqOK(els[j]) THEN "" ELSE LTE
    [] kind = "FillSeq" ->
         IF Len(els) = 0 THEN LTE
         ELSE IF ~Has(els[Len(els)], "fill") THEN LTE
         ELSE IF \A j \in 1..(Len(els) - 1) : FillIntoOK(els[j]) THEN "" ELSE LTE
    [] kind \in {"FillComputeSeq", "FillRequestSeq"} ->
         LET i == IF kind = "FillComputeSeq" THEN FirstIdx(els, IsFC) ELSE FirstIdx(els, IsFR) IN
           IF i = 0 THEN LTE
           ELSE IF ~(\A j \in 1..(i - 1) : FillIntoOK(els[j])) THEN LTE
           ELSE IF \A j \in (i + 1)..Len(els) : SeqOK(els[j]) THEN "" ELSE LTE
KwExc(kw) == CASE kw = "ok" -> "" [] kw = "noreset" -> LTE [] kw = "nobuf" -> LVE [] kw = "unknown" -> LTE
BuildExcs(kind, els, kw, single) ==
  IF single /\ kind # "Sequence"
    \* a single tuple argument: documented for Sequence only
    THEN {"", LTE} \cup (IF kind = "FillRequestSeq" THEN {KwExc(kw)} ELSE {})
  ELSE LET s == StructExc(kind, els)
           k == IF kind = "FillRequestSeq" THEN KwExc(kw) ELSE "" IN
         IF s = "" THEN {k}
         ELSE IF k = "" THEN {s} ELSE {s, k}         \* two reasons: either may be reported

(***************************************************************************)
(* Python sequence protocol on n elements: positions 1..n                  *)
(***************************************************************************)
None == -1000
PyIndex(n, i) == IF i >= 0 /\ i < n THEN i + 1 ELSE IF i < 0 /\ i >= -n THEN n + i + 1 ELSE 0   \* 0: IndexError
Clamp(x, lo, hi) == IF x < lo THEN lo ELSE IF x > hi THEN hi ELSE x
RECURSIVE Walk(_, _, _)
Walk(i, stop, s) == IF (s > 0 /\ i >= stop) \/ (s < 0 /\ i <= stop) THEN <<>>
                    ELSE <<i + 1>> \o Walk(i + s, stop, s)
\* positions selected by seq[a:b:s] (s # 0), like slice.indices
PySliceIdx(n, a, b, s0) ==
  LET s == IF s0 = None THEN 1 ELSE s0
      start == IF a = None THEN (IF s > 0 THEN 0 ELSE n - 1)
               ELSE IF s > 0 THEN Clamp(IF a < 0 THEN a + n ELSE a, 0, n)
               ELSE Clamp(IF a < 0 THEN a + n ELSE a, -1, n - 1)
      stop  == IF b = None THEN (IF s > 0 THEN n ELSE -1)
               ELSE IF s > 0 THEN Clamp(IF b < 0 THEN b + n ELSE b, 0, n)
               ELSE Clamp(IF b < 0 THEN b + n ELSE b, -1, n - 1)
  IN Walk(start, stop, s)

(***************************************************************************)
(* Trees: [t |-> "el" | "Sequence" | "Source" | "tuple", k |-> leaf kind,  *)
(* c |-> children].  Leaf kinds of trees: "call" (plain callable), "same"  *)
(* (its alter_sequence returns the sequence it is given), "cut" (returns a *)
(* new Sequence of the elements from itself to the end, like Cache).       *)
(***************************************************************************)
Leaf(k) == [t |-> "el", k |-> k, c |-> <<>>]
Node(t, cs) == [t |-> t, k |-> "", c |-> cs]
IsSeqNode(x) == x.t \in {"Sequence", "Source"}            \* a LenaSequence
Alters(x) == x.t = "el" /\ x.k \in {"same", "cut"}
RECURSIVE Sub(_, _)
Sub(x, p) == IF p = <<>> THEN x ELSE Sub(x.c[Head(p)], Tail(p))
\* leaves below x in order, as paths; nested LenaSequences are opened, anything else is an element
RECURSIVE LeavesAt(_, _)
LeavesAt(x, p) ==
  LET F[j \in 0..Len(x.c)] ==
        IF j = 0 THEN <<>>
        ELSE F[j - 1] \o (IF IsSeqNode(x.c[j]) THEN LeavesAt(x.c[j], Append(p, j)) ELSE <<Append(p, j)>>)
  IN F[Len(x.c)]
IsFlat(x) == \A j \in DOMAIN x.c : ~IsSeqNode(x.c[j])
\* flatten(x): "same" (x itself is returned) or the list of leaves
FlattenRef(x) == IF x.t = "el" \/ IsFlat(x) THEN [same |-> TRUE, els |-> <<>>]
                 ELSE [same |-> FALSE, els |-> LeavesAt(x, <<>>)]

(***************************************************************************)
(* alter_sequence: which elements may be consulted, when nothing may change *)
(***************************************************************************)
AltLeaves(x) == IF x.t = "el" THEN (IF Alters(x) THEN {<<>>} ELSE {})
                ELSE {p \in Range(LeavesAt(x, <<>>)) : Alters(Sub(x, p))}
AllSame(x) == \A p \in AltLeaves(x) : Sub(x, p).k = "same"

(***************************************************************************)
(* classification of a Split branch: form = class of the instance given,   *)
(* "tuple", or "el" (one element, els has length 1)                        *)
(***************************************************************************)
TypeOf(kind) == CASE kind = "Source" -> "source" [] kind = "FillComputeSeq" -> "fill_compute"
                  [] kind = "FillRequestSeq" -> "fill_request" [] kind = "Sequence" -> "sequence"
Res(type, built, kept, exc) == [ok |-> exc = "", type |-> type, built |-> built, kept |-> kept, exc |-> exc]
\* what a sequence class makes of these elements
Made(kind, els) == IF StructExc(kind, els) = "" THEN Res(TypeOf(kind), kind, FALSE, "") ELSE Res("", "", FALSE, LTE)
AnyK(els, P(_)) == \E j \in DOMAIN els : P(els[j])
ClassRef(form, els) ==
  IF form \in {"Source", "FillComputeSeq", "FillRequestSeq", "Sequence"}
    THEN {Res(TypeOf(form), form, TRUE, "")}                     \* of a sequence type: kept as it is
  ELSE IF form = "el" THEN
    LET k == els[1] IN
      (IF IsFC(k) THEN {Res("fill_compute", "el", TRUE, "")} ELSE {})
      \cup (IF IsFR(k) THEN {Res("fill_request", "el", TRUE, "")} ELSE {})
      \cup (IF ~IsFC(k) /\ ~IsFR(k) THEN {Made("Sequence", els)} ELSE {})
  ELSE \* a tuple of elements
      (IF AnyK(els, IsFC) THEN {Made("FillComputeSeq", els)} ELSE {})
      \cup (IF AnyK(els, IsFR) THEN {Made("FillRequestSeq", els)} ELSE {})
      \cup (IF ~AnyK(els, IsFC) /\ ~AnyK(els, IsFR) THEN {Made("Sequence", els)} ELSE {})
\* the public predicates of check_sequence_type on a branch object of the given form
PredsOf(form, els) ==
  LET seen == IF form = "el" THEN <<>> ELSE els IN            \* what iterating the object gives
  [is_source |-> form = "Source",
   is_fill_compute_seq |-> form # "Source" /\ (AnyK(seen, IsFC) \/ (form = "el" /\ IsFC(els[1]))
                                                 \/ form = "FillComputeSeq"),
   is_fill_request_seq |-> form # "Source" /\ (AnyK(seen, IsFR) \/ (form = "el" /\ IsFR(els[1]))
                                                 \/ form = "FillRequestSeq"),
   is_run_el |-> CASE form = "el" -> IsRun(els[1])
                   [] form \in {"Sequence", "FillRequestSeq"} -> TRUE
                   [] OTHER -> FALSE]

(***************************************************************************)
(* representation pieces                                                   *)
(***************************************************************************)
Piece(ind, kind, name, p) == [ind |-> ind, kind |-> kind, name |-> name, p |-> p]
RECURSIVE ReprAt(_, _, _)
\* nested style: "Name(", one line per element (nested sequences indented further), ")";
\* an empty sequence is "Name()"; elements are separated by a comma at the end of the line
ReprAt(x, p, lvl) ==
  IF x.t = "el" THEN <<Piece(lvl, "el", "", p)>>
  ELSE IF Len(x.c) = 0 THEN <<Piece(lvl, "empty", x.t, <<>>)>>
  ELSE LET F[j \in 0..Len(x.c)] ==
             IF j = 0 THEN <<>>
             ELSE F[j - 1] \o ReprAt(x.c[j], Append(p, j), lvl + 1)
                  \o (IF j < Len(x.c) THEN <<Piece(0, "comma", "", <<>>)>> ELSE <<>>)
       IN <<Piece(lvl, "open", x.t, <<>>)>> \o F[Len(x.c)] \o <<Piece(lvl, "close", "", <<>>)>>
=============================================================================
