SPECIFICATION Spec
CONSTANTS MaxLen = 3 MaxN = 5 Infinite = TRUE MaxOut = 4
  Alphabet <- AlphaC02
  Pairs <- OnlyPairs
CONSTRAINT Bounded
INVARIANT Emitted
CHECK_DEADLOCK FALSE
