SPECIFICATION Spec
CONSTANTS
  KeyOrder <- KO2
  Ctxs <- CtxT3
  Flows <- SingleFlows
  Calls <- CallsDeep
INVARIANT Emit
CHECK_DEADLOCK FALSE
