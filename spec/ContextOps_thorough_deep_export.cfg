SPECIFICATION Spec
CONSTANTS
  KeyOrder <- KO2
  Ctxs <- CtxT3
  Calls <- CallsDeep
INVARIANT Emit
CHECK_DEADLOCK FALSE
