SPECIFICATION Spec
CONSTANTS MaxN = 3
  LenProfiles <- LensThorough
  Forms <- FormsThorough
  StopKinds = {"close", "abandon"}
  Scenarios <- ScenAll
  Reruns = {FALSE, TRUE}
  RerunScenarios <- ScenRerunThorough
  RerunLens <- LensRerunThorough
  RerunForms <- FormsAll
  KeepHistory = FALSE
  Design = "allowed"
VIEW view
INVARIANT TypeOK
INVARIANT NoTruncated
INVARIANT StoredIsLastComplete
INVARIANT FirstRunTransparent
INVARIANT LoadIsStored
INVARIANT LoadNoPull
INVARIANT RestoreFirstRun
INVARIANT FirstRunWhenNothingLoadable
PROPERTY CompleteIsComplete
PROPERTY DropRestores
PROPERTY InterruptKeepsLoaded
CHECK_DEADLOCK FALSE
