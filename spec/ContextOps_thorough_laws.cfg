SPECIFICATION Spec
CONSTANTS
  KeyOrder <- KO2
  Ctxs <- CtxT2
  Flows <- SingleFlows
  Calls <- CallsThorough
INVARIANT ContainsAgreesWithGet
INVARIANT GetAfterStrToDict
INVARIANT FormatExact
INVARIANT CanonInjective
INVARIANT Frame
INVARIANT UpdateTarget
INVARIANT UpdateMissing
INVARIANT DeleteExact
INVARIANT FuwExact
INVARIANT OnlyDocumentedExceptions
CHECK_DEADLOCK FALSE
