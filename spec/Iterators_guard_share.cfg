SPECIFICATION Spec
CONSTANTS MaxN = 8 MaxK = 5 ShareBuffer = TRUE
INVARIANT HeldFrozen
CHECK_DEADLOCK FALSE
