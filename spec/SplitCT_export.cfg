SPECIFICATION Spec
CONSTANTS MaxBr = 3 MaxN = 2 MaxM = 2
INVARIANT Emitted
CHECK_DEADLOCK FALSE
