SPECIFICATION USpec
CONSTANTS MaxN = 10 Bound = 7 MaxStep = 4 MaxOps = 7
  UNs = {0, 3, 4}
INVARIANT UEmitted
CHECK_DEADLOCK FALSE
