----------------------------- MODULE MathFnsSem -----------------------------
(***************************************************************************)
(* lena.math (meshes, utils, vector3) and the histogram helper functions   *)
(* of lena.structures.hist_functions that C06 / C12 do not cover (X02).    *)
(* Pure operators, shared by MathFns.tla, Vector3.tla, Trace_MathFns.tla.  *)
(*                                                                         *)
(* Numbers are exact rationals <<num, den>> (HistOpsSem.tla).  Python      *)
(* containers are tagged trees:                                            *)
(*    [t |-> "n", v |-> rational]   a number                               *)
(*    [t |-> "s", v |-> string]     a string / other atomic object         *)
(*    [t |-> "l", xs |-> <<..>>]    a list        [t |-> "t", xs]  a tuple  *)
(* Results of calls: [ok, exc, v].                                         *)
(***************************************************************************)
EXTENDS HistOpsSem

\* (all nodes carry the same fields, so that TLC can compare any two of them: v = number, s = string, xs = elements)
Num(p) == [t |-> "n", v |-> p, s |-> "", xs |-> <<>>]
Str(s) == [t |-> "s", v |-> <<0, 0>>, s |-> s, xs |-> <<>>]
Lst(xs) == [t |-> "l", v |-> <<0, 0>>, s |-> "", xs |-> xs]
Tup(xs) == [t |-> "t", v |-> <<0, 0>>, s |-> "", xs |-> xs]
IsSeq(x) == x.t = "l" \/ x.t = "t"
OkV(v) == [ok |-> TRUE, exc |-> "", v |-> v]
Err(e) == [ok |-> FALSE, exc |-> e, v |-> Str("")]
RLt(p, q) == p[1] * q[2] < q[1] * p[2]
RMin(p, q) == IF RLe(p, q) THEN p ELSE q

(***************************************************************************)
(* lena.math.meshes                                                        *)
(***************************************************************************)
\* mesh((lo, hi), n), like the code: itertools.count(lo, step) for n points, then hi itself
RECURSIVE CountFrom(_, _, _)
CountFrom(start, step, k) == IF k = 0 THEN <<>> ELSE <<start>> \o CountFrom(RAdd(start, step), step, k - 1)
MeshOp(lo, hi, n) == Append(CountFrom(lo, RDiv(RSub(hi, lo), RI(n)), n), hi)
\* "equally spaced mesh of nbins cells in the given range": n + 1 points, end points included
MeshRef(lo, hi, n) == [k \in 1..(n + 1) |-> RAdd(lo, RMul(RI(k - 1), RDiv(RSub(hi, lo), RI(n))))]
\* refine_mesh(arr, r), like the code
RefineOp(arr, r) ==
  <<arr[1]>> \o Concat([j \in 1..(Len(arr) - 1) |-> Tail(MeshOp(arr[j], arr[j + 1], r))])
\* "refinement is the number of subdivisions": every interval is cut into r equal parts, old points stay
RefineRef(arr, r) ==
  [k \in 1..((Len(arr) - 1) * r + 1) |->
     LET j == ((k - 1) \div r) + 1          \* interval (or the last point)
         i == (k - 1) % r
     IN IF j = Len(arr) THEN arr[j]
        ELSE RAdd(arr[j], RMul(RI(i), RDiv(RSub(arr[j + 1], arr[j]), RI(r))))]

\* functions mapped by md_map (harness: lambda x: -x, 2*x, x+1, x (identity), len(x))
ApplyF(F, x) == CASE F = "neg" -> Num(RMul(x.v, RI(-1)))
                  [] F = "dbl" -> Num(RMul(x.v, RI(2)))
                  [] F = "inc" -> Num(RAdd(x.v, RI(1)))
                  [] F = "id" -> x
                  [] F = "len" -> Num(RI(Len(x.xs)))
ApplyF2(F, x, y) == IF F = "add" THEN Num(RAdd(x.v, y.v)) ELSE Num(RSub(x.v, y.v))
\* md_map(f, array), like the code: the first element decides whether to descend
RECURSIVE MdMapOp(_, _)
MdMapOp(a, F) ==
  IF a.t # "l" THEN Err("LenaTypeError")
  ELSE IF Len(a.xs) = 0 THEN OkV(Lst(<<>>))
  ELSE IF a.xs[1].t = "l"
  THEN LET rs == [i \in 1..Len(a.xs) |-> MdMapOp(a.xs[i], F)] IN
       IF \E i \in 1..Len(rs) : ~rs[i].ok THEN Err("LenaTypeError")
       ELSE OkV(Lst([i \in 1..Len(rs) |-> rs[i].v]))
  ELSE OkV(Lst([i \in 1..Len(a.xs) |-> ApplyF(F, a.xs[i])]))
RECURSIVE MdMap2Op(_, _, _)
MdMap2Op(a, b, F) ==
  IF a.t # "l" \/ b.t # "l" THEN Err("LenaTypeError")
  ELSE IF Len(a.xs) = 0 \/ Len(b.xs) = 0 THEN OkV(Lst(<<>>))
  ELSE IF a.xs[1].t = "l"
  THEN LET rs == [i \in 1..Len(a.xs) |-> MdMap2Op(a.xs[i], b.xs[i], F)] IN
       IF \E i \in 1..Len(rs) : ~rs[i].ok THEN Err("LenaTypeError")
       ELSE OkV(Lst([i \in 1..Len(rs) |-> rs[i].v]))
  ELSE OkV(Lst([i \in 1..Len(a.xs) |-> ApplyF2(F, a.xs[i], b.xs[i])]))
\* regular arrays ("a list of (possibly nested) lists"): at every level either all elements are lists
\* or none is; the elements that are not lists are the contents
RECURSIVE Regular(_)
Regular(a) == /\ a.t = "l"
              /\ \/ \A i \in 1..Len(a.xs) : a.xs[i].t # "l"
                 \/ \A i \in 1..Len(a.xs) : Regular(a.xs[i])
\* paths to the contents of a regular array / to the leaves when lists and tuples are expanded
RECURSIVE ContentPaths(_)
ContentPaths(a) == IF a.t # "l" THEN {<<>>}
                   ELSE UNION {{<<i>> \o p : p \in ContentPaths(a.xs[i])} : i \in 1..Len(a.xs)}
RECURSIVE Sub(_, _)
Sub(a, p) == IF Len(p) = 0 THEN a ELSE Sub(a.xs[p[1]], Tail(p))
RECURSIVE SameShape(_, _)
\* "Returned array has same dimensions as those of the initial ones"
SameShape(a, b) == IF a.t = "l" THEN b.t = "l" /\ Len(a.xs) = Len(b.xs) /\ \A i \in 1..Len(a.xs) : SameShape(a.xs[i], b.xs[i])
                   ELSE b.t # "l"
\* flatten(array), like the code: depth first, lists and tuples are expanded
RECURSIVE FlattenOp(_)
FlattenOp(a) == Concat([i \in 1..Len(a.xs) |-> IF IsSeq(a.xs[i]) THEN FlattenOp(a.xs[i]) ELSE <<a.xs[i]>>])
RECURSIVE LeafPaths(_)
LeafPaths(a) == IF ~IsSeq(a) THEN {<<>>}
                ELSE UNION {{<<i>> \o p : p \in LeafPaths(a.xs[i])} : i \in 1..Len(a.xs)}
\* lexicographic order of index paths = depth-first order
RECURSIVE PathLess(_, _)
PathLess(p, q) == IF Len(p) = 0 THEN Len(q) > 0 ELSE IF Len(q) = 0 THEN FALSE
                  ELSE IF p[1] # q[1] THEN p[1] < q[1] ELSE PathLess(Tail(p), Tail(q))

(***************************************************************************)
(* lena.math.utils                                                         *)
(***************************************************************************)
\* clip(a, interval): interval is a tree (a sequence of numbers, or not a container at all)
ClipOp(a, iv) ==
  IF ~IsSeq(iv) THEN Err("LenaTypeError")
  ELSE IF Len(iv.xs) # 2 THEN Err("LenaValueError")
  ELSE IF RLt(iv.xs[2].v, iv.xs[1].v) THEN Err("LenaValueError")
  ELSE OkV(Num(RMax(RMin(iv.xs[2].v, a), iv.xs[1].v)))          \* max(min(a_max, a), a_min)
\* "values of a outside the interval are clipped to the interval edges"
ClipRef(a, lo, hi, r) == /\ RLe(lo, r) /\ RLe(r, hi)
                         /\ (RLe(lo, a) /\ RLe(a, hi)) => r = a
                         /\ RLt(a, lo) => r = lo
                         /\ RLt(hi, a) => r = hi
\* isclose(a, b) on trees, like the code: numbers by the formula, containers elementwise over a
\* (a perturbed leaf carries its tolerance decision: see PertClose in HistOpsSem.tla)
RECURSIVE AllNums(_)
AllNums(a) == IF IsSeq(a) THEN \A i \in 1..Len(a.xs) : AllNums(a.xs[i]) ELSE a.t = "n"
RECURSIVE SameDims(_, _)
\* "lists/tuples of same dimensions (may be nested)": a list may stand against a tuple
SameDims(a, b) == IF IsSeq(a) THEN IsSeq(b) /\ Len(a.xs) = Len(b.xs) /\ \A i \in 1..Len(a.xs) : SameDims(a.xs[i], b.xs[i])
                  ELSE ~IsSeq(b)

(***************************************************************************)
(* lena.math.vector3: the ring operations, like the code (vectors are      *)
(* triples of rationals).  The rest of vector3 is in Vector3.tla.          *)
(***************************************************************************)
V(x, y, z) == <<RI(x), RI(y), RI(z)>>
VAdd(p, q) == <<RAdd(p[1], q[1]), RAdd(p[2], q[2]), RAdd(p[3], q[3])>>
VMulS(p, s) == <<RMul(p[1], s), RMul(p[2], s), RMul(p[3], s)>>          \* __rmul__ (and __mul__ = c * self)
VSub(p, q) == VAdd(p, VMulS(q, RI(-1)))                                  \* self + B * (-1)
VNeg(p) == VMulS(p, RI(-1))
VDiv(p, s) == VMulS(p, RDiv(RI(1), s))                                   \* 1./c * self
Dot(p, q) == RAdd(RAdd(RMul(p[1], q[1]), RMul(p[2], q[2])), RMul(p[3], q[3]))
Cross(p, q) == <<RSub(RMul(p[2], q[3]), RMul(p[3], q[2])),
                 RSub(RMul(p[3], q[1]), RMul(q[3], p[1])),
                 RSub(RMul(p[1], q[2]), RMul(p[2], q[1]))>>
Mag2(p) == Dot(p, p)
Rho2(p) == RAdd(RMul(p[1], p[1]), RMul(p[2], p[2]))

(***************************************************************************)
(* lena.structures.hist_functions helpers (edges: sequences of integers)   *)
(***************************************************************************)
\* check_edges_increasing(edges), like the code.  edges is a tree: a sequence of numbers (1-d) or a
\* sequence of such sequences
Check1dOp(arr) == IF Len(arr.xs) <= 1 THEN Err("LenaValueError")
                  ELSE IF \A j \in 1..(Len(arr.xs) - 1) : RLt(arr.xs[j].v, arr.xs[j + 1].v) THEN OkV(Str("None"))
                  ELSE Err("LenaValueError")
CheckEdgesOp(e) ==
  IF Len(e.xs) = 0 THEN Err("LenaValueError")
  ELSE IF ~IsSeq(e.xs[1]) THEN Check1dOp(e)
  ELSE IF \E i \in 1..Len(e.xs) : Len(e.xs[i].xs) <= 1 \/ ~Check1dOp(e.xs[i]).ok THEN Err("LenaValueError")
  ELSE OkV(Str("None"))
\* "If length of edges or its subarray is less than 2 or if some subarray of edges contains not strictly
\* increasing values, LenaValueError is raised."
IncrTree(arr) == Len(arr.xs) >= 2 /\ \A i \in 1..Len(arr.xs), j \in 1..Len(arr.xs) : i < j => RLt(arr.xs[i].v, arr.xs[j].v)
CheckEdgesRef(e) == IF Len(e.xs) = 0 THEN FALSE
                    ELSE IF ~IsSeq(e.xs[1]) THEN IncrTree(e)
                    ELSE \A i \in 1..Len(e.xs) : IncrTree(e.xs[i])
\* get_bin_edges(index, edges) for E as in HistSem.tla: CellEdges(E, cell)
\* get_bin_on_index(index, bins): index may be shorter than the dimension (a subarray is returned)
RECURSIVE BinOnIndexOp(_, _, _)
BinOnIndexOp(b, idx, d) == IF d > Len(idx) THEN [ok |-> TRUE, exc |-> "", v |-> b]
                           ELSE IF idx[d] >= Len(b) THEN [ok |-> FALSE, exc |-> "LenaIndexError", v |-> <<>>]
                           ELSE BinOnIndexOp(b[idx[d] + 1], idx, d + 1)
\* get_example_bin: "bin with zero index on each axis"
RECURSIVE ExampleBin(_, _)
ExampleBin(b, k) == IF k = 0 THEN b ELSE ExampleBin(b[1], k - 1)
\* cell_to_string: the pieces (low, name, high) in the order they are joined
CellPieces(pairs, names, reverse) ==
  LET n == Len(pairs)
      one(i) == [lo |-> pairs[i][1], name |-> names[i], hi |-> pairs[i][2]]
  IN [k \in 1..n |-> one(IF reverse THEN n + 1 - k ELSE k)]
=============================================================================
