SPECIFICATION Spec
CONSTANTS MaxN = 3
  Chains <- ChainsGuard
  Drivers = {"run", "fill", "split"}
  Bufs <- BufQuick
  FillTruth = "truth"
  RunStop = "error"
INVARIANT DriversAgree
INVARIANT NoQuietEnd
INVARIANT TruthOnly
INVARIANT BufBound
INVARIANT Census
CHECK_DEADLOCK FALSE
