SPECIFICATION Spec
CONSTANTS MaxPre = 1 MaxN = 2
  PreAlphabet <- AlphaSmall
  Accs <- AccsSmall
  Posts <- PostsSmall
  FlowKinds = {"ctx"}
  Drivers = {"run", "fill", "persist", "split"}
  Places = {"alone", "middle", "afterstop"}
  StopFlag = "per_branch"
  CopyMode = "per_branch"
  AdapterHides = TRUE
  VarCopy = "per_value"
  Bufs <- BufOne
INVARIANT DriversAgree
INVARIANT FillReaches
INVARIANT StopSound
INVARIANT ComputeOnce
INVARIANT BufBound
INVARIANT Census
CHECK_DEADLOCK FALSE
