--------------------------- MODULE Trace_Adapters ---------------------------
(***************************************************************************)
(* Validation of adapter constructions recorded on real elements (lambdas, *)
(* builtins, lena elements, containers, ...): the harness extracts the     *)
(* capability record of the object by introspection and records whether    *)
(* the adapter accepted it and, if so, which way of invoking the element   *)
(* reproduces the adapter's result.                                        *)
(*   [adapter, caps, arg, ok, bind]   bind = "" when rejected or unknown   *)
(***************************************************************************)
EXTENDS AdapterTable, Json, IOUtils

Trace == JsonDeserialize(IOEnv.TRACE_FILE)
VARIABLE i
Ok(r) == LET d == Decide(r.adapter, r.caps, r.arg) IN
         /\ r.ok = d.ok
         /\ (d.ok /\ r.bind # "") => r.bind = (IF r.adapter = "FillCompute" THEN d.f \o "+" \o d.c ELSE d.bind)
Init == i = 1
Next == i <= Len(Trace) /\ Ok(Trace[i]) /\ i' = i + 1
Spec == Init /\ [][Next]_i
Accepted == /\ PrintT(<<"ACCEPTED", TLCGet("stats").diameter - 1>>)
            /\ TLCGet("stats").diameter - 1 = Len(Trace)
=============================================================================
