SPECIFICATION Spec
CONSTANTS
  Plans <- PlansThoroughExport1
  CreatedSetsChanged = TRUE
  AutoReload = TRUE
  KeepHistory = TRUE
INVARIANT Emitted
CHECK_DEADLOCK FALSE
