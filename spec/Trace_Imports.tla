---------------------------- MODULE Trace_Imports ----------------------------
(***************************************************************************)
(* Validation of import event logs recorded in real fresh interpreters     *)
(* (a sys.meta_path hook that wraps exec_module of every module of the     *)
(* tree) against the import machine of Imports.tla.                        *)
(*                                                                         *)
(* Trace = sequence of events, several interpreter runs one after another: *)
(*   [ev |-> "begin", entries |-> <<"lena.flow", ...>>]   new interpreter  *)
(*   [ev |-> "start", m |-> module]           body of m starts (LoadModule)*)
(*   [ev |-> "end", m |-> module, names |-> [name |-> kind]]               *)
(*                                            body of m finished: its      *)
(*                                            namespace at that moment     *)
(*   [ev |-> "fail", kind |-> exception class]  a statement of a body      *)
(*                                            raised (logged where it      *)
(*                                            arises; unwinding and        *)
(*                                            handlers are silent steps)   *)
(*   [ev |-> "ready", order |-> sys.modules order, mods |-> [m |-> names]] *)
(*                                            all entries imported         *)
(* kind of a name = the module it is bound to if that is a module of the   *)
(* tree, else "-".  Steps of the machine that the hook cannot see (bind,   *)
(* def, use) are taken silently; the machine is deterministic, so the log  *)
(* is accepted iff the one behaviour of the model produces it.             *)
(***************************************************************************)
EXTENDS Imports, IOUtils

\* @@BODY   (the check appends the text from here on to the generated Imports module, see Imports.tla)
Trace == JsonDeserialize(IOEnv.TRACE_FILE)
VARIABLE i
tvars == <<entries, ms, g, stack, order, phase, cur, fail, caught, i>>

Ev == Trace[i]
More == i <= Len(Trace)
Kind(v) == IF v \in Modules THEN v ELSE "-"
SameNames(m, names) == /\ DOMAIN names = DOMAIN g[m]
                       /\ \A n \in DOMAIN names : names[n] = Kind(g[m][n])
\* (branches make the machine nondeterministic: the register keeps the longest accepted prefix)
Accept == TLCSet(1, IF i > TLCGet(1) THEN i ELSE TLCGet(1)) /\ i' = i + 1

TInit == /\ Trace[1].ev = "begin" /\ InitWith(Trace[1].entries)
         /\ i = 2 /\ TLCSet(1, 1)

TStart == /\ More /\ Ev.ev = "start"
          /\ LoadModule /\ order'[Len(order')] = Ev.m
          /\ Accept
TEnd == /\ More /\ Ev.ev = "end"
        /\ AtEnd("mod") /\ Top.id = Ev.m /\ SameNames(Ev.m, Ev.names)
        /\ EndModule
        /\ Accept
\* the hook sees an exception only when it leaves the body of a module: one that a handler of the same body
\* catches is a silent step
TFail == /\ More /\ Ev.ev = "fail"
         /\ (ImportFails \/ UseFails \/ ReflFails) /\ fail'.kind = Ev.kind
         /\ HandlerOf(Stmt, fail'.kind) = 0
         /\ Accept
TCaughtInBody == /\ (ImportFails \/ UseFails \/ ReflFails)
                 /\ HandlerOf(Stmt, fail'.kind) # 0
                 /\ i' = i
TReady == /\ More /\ Ev.ev = "ready"
          /\ EndUser
          /\ Ev.order = order
          /\ DOMAIN Ev.mods = Loaded
          /\ \A m \in Loaded : SameNames(m, Ev.mods[m])
          /\ Accept
TSilent == /\ (BindImport \/ BindFrom \/ StarImport \/ DefName \/ DelName \/ UseName \/ ReflUse
               \/ Unwind \/ Jump \/ Branch \/ CallF \/ EndCallF)
           /\ i' = i
TRestart == /\ More /\ Ev.ev = "begin" /\ phase \in {"ready", "failed"}
            /\ entries' = Ev.entries
            /\ ms' = [m \in Modules |-> "absent"]
            /\ g' = [m \in Modules |-> <<>>]
            /\ stack' = <<[k |-> "user", id |-> "__main__", pc |-> 1]>>
            /\ order' = <<>> /\ phase' = "import" /\ cur' = "" /\ fail' = NoFail /\ caught' = FALSE
            /\ Accept

TNext == TStart \/ TEnd \/ TFail \/ TCaughtInBody \/ TReady \/ TSilent \/ TRestart
TSpec == TInit /\ [][TNext]_tvars

Accepted == /\ PrintT(<<"ACCEPTED", TLCGet(1)>>)
            /\ TLCGet(1) = Len(Trace)
=============================================================================
