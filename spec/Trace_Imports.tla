---------------------------- MODULE Trace_Imports ----------------------------
(***************************************************************************)
(* Validation of import event logs recorded in real fresh interpreters     *)
(* (a sys.meta_path hook that wraps exec_module of every module of the     *)
(* tree) against the import machine of Imports.tla.                        *)
(*                                                                         *)
(* Trace = sequence of events, several interpreter runs one after another: *)
(*   [ev |-> "begin", entries |-> <<"lena.flow", ...>>]   new interpreter  *)
(*   [ev |-> "start", m |-> module]           body of m starts (LoadModule)*)
(*   [ev |-> "end", m |-> module, names |-> [name |-> kind]]               *)
(*                                            body of m finished: its      *)
(*                                            namespace at that moment     *)
(*   [ev |-> "fail", kind |-> exception class]  an import statement raised *)
(*   [ev |-> "ready", order |-> sys.modules order, mods |-> [m |-> names]] *)
(*                                            all entries imported         *)
(* kind of a name = the module it is bound to if that is a module of the   *)
(* tree, else "-".  Steps of the machine that the hook cannot see (bind,   *)
(* def, use) are taken silently; the machine is deterministic, so the log  *)
(* is accepted iff the one behaviour of the model produces it.             *)
(***************************************************************************)
EXTENDS Imports, IOUtils

\* @@BODY   (the check appends the text from here on to the generated Imports module, see Imports.tla)
Trace == JsonDeserialize(IOEnv.TRACE_FILE)
VARIABLE i
tvars == <<entries, ms, g, stack, order, phase, cur, fail, i>>

Ev == Trace[i]
More == i <= Len(Trace)
Kind(v) == IF v \in Modules THEN v ELSE "-"
SameNames(m, names) == /\ DOMAIN names = DOMAIN g[m]
                       /\ \A n \in DOMAIN names : names[n] = Kind(g[m][n])
Accept == TLCSet(1, i) /\ i' = i + 1

TInit == /\ Trace[1].ev = "begin" /\ InitWith(Trace[1].entries)
         /\ i = 2 /\ TLCSet(1, 1)

TStart == /\ More /\ Ev.ev = "start"
          /\ LoadModule /\ order'[Len(order')] = Ev.m
          /\ Accept
TEnd == /\ More /\ Ev.ev = "end"
        /\ AtEnd("mod") /\ Top.id = Ev.m /\ SameNames(Ev.m, Ev.names)
        /\ EndModule
        /\ Accept
TFail == /\ More /\ Ev.ev = "fail"
         /\ (ImportFails \/ UseFails) /\ fail'.kind = Ev.kind
         /\ Accept
TReady == /\ More /\ Ev.ev = "ready"
          /\ EndUser
          /\ Ev.order = order
          /\ DOMAIN Ev.mods = Loaded
          /\ \A m \in Loaded : SameNames(m, Ev.mods[m])
          /\ Accept
TSilent == /\ (BindImport \/ BindFrom \/ StarImport \/ DefName \/ DelName \/ UseName)
           /\ i' = i
TRestart == /\ More /\ Ev.ev = "begin" /\ phase \in {"ready", "failed"}
            /\ entries' = Ev.entries
            /\ ms' = [m \in Modules |-> "absent"]
            /\ g' = [m \in Modules |-> <<>>]
            /\ stack' = <<[k |-> "user", id |-> "__main__", pc |-> 1]>>
            /\ order' = <<>> /\ phase' = "import" /\ cur' = "" /\ fail' = NoFail
            /\ Accept

TNext == TStart \/ TEnd \/ TFail \/ TReady \/ TSilent \/ TRestart
TSpec == TInit /\ [][TNext]_tvars

Accepted == /\ PrintT(<<"ACCEPTED", TLCGet(1)>>)
            /\ TLCGet(1) = Len(Trace)
=============================================================================
