SPECIFICATION Spec
CONSTANTS MaxTok = 7 MaxDepth = 3
  Leaves <- LeavesNested
  RootKinds <- SeqRoot
  StoreByCopy = TRUE
  TailKeepsSets = TRUE
INVARIANT SeenIsExpected
INVARIANT PrefixOnly
INVARIANT SiblingIndependent
INVARIANT RootExpected
INVARIANT NoLeakToRuntime
PROPERTY Causal
PROPERTY RunKeepsStatic
CHECK_DEADLOCK FALSE
