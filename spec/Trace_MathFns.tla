--------------------------- MODULE Trace_MathFns ---------------------------
(***************************************************************************)
(* Validation of calls recorded from the real lena.math functions and      *)
(* histogram helpers on seeded random arguments (X02).  Floats are logged  *)
(* as the small rationals they are within 1e-9 of; containers as tagged    *)
(* trees (MathFnsSem.tla).  One record per call, field k = the function:   *)
(*   mesh [lo, hi, n, v]      refine [arr, r, v]      clip [a, lo, hi, ok, exc, v] *)
(*   flatten [a, v]           md_map [a, F, v]        check [e, ok, exc]    *)
(*   vector [a, b, s, add, sub, mul, neg, dot, cross, eq, r2]               *)
(*   isclose [x, pert, tol, ok]  (numbers at any magnitude, see HistOpsSem) *)
(***************************************************************************)
EXTENDS MathFnsSem, TLC, Json, IOUtils

Trace == JsonDeserialize(IOEnv.TRACE_FILE)
VARIABLE i

RecOk(r) ==
  CASE r.k = "mesh" -> r.v = MeshRef(r.lo, r.hi, r.n) /\ r.v = MeshOp(r.lo, r.hi, r.n)
    [] r.k = "refine" -> r.v = RefineRef(r.arr, r.r) /\ r.v = RefineOp(r.arr, r.r)
    [] r.k = "clip" ->
         LET x == ClipOp(r.a, Tup(<<Num(r.lo), Num(r.hi)>>)) IN
         /\ r.ok = x.ok /\ (~r.ok => r.exc = x.exc)
         /\ r.ok => (r.v = x.v.v /\ ClipRef(r.a, r.lo, r.hi, r.v))
    [] r.k = "flatten" -> r.v = FlattenOp(r.a)
    [] r.k = "md_map" -> LET x == MdMapOp(r.a, r.F) IN x.ok /\ r.v = x.v /\ SameShape(r.a, r.v)
    [] r.k = "check" -> LET x == CheckEdgesOp(r.e) IN r.ok = x.ok /\ (~r.ok => r.exc = x.exc) /\ r.ok = CheckEdgesRef(r.e)
    [] r.k = "vector" ->
         /\ r.add = VAdd(r.a, r.b) /\ r.sub = VSub(r.a, r.b) /\ r.mul = VMulS(r.a, r.s) /\ r.neg = VNeg(r.a)
         /\ r.dot = Dot(r.a, r.b) /\ r.cross = Cross(r.a, r.b) /\ r.eq = (r.a = r.b) /\ r.r2 = Mag2(r.a)
         /\ RAdd(Mag2(r.cross), RMul(r.dot, r.dot)) = RMul(r.r2, Mag2(r.b))             \* Lagrange's identity
    [] r.k = "isclose" ->
         /\ r.ok = PertClose(r.x, r.pert, r.tol)
         /\ (r.tol.kind # "default" /\ r.pert.kind # "none") =>
              (r.ok = DocClose(RI(r.x), PertY(r.x, r.pert, r.tol), r.tol.rel, r.tol.abs))

Init == i = 1
Next == i <= Len(Trace) /\ RecOk(Trace[i]) /\ i' = i + 1
Spec == Init /\ [][Next]_i
Accepted == /\ PrintT(<<"ACCEPTED", TLCGet("stats").diameter - 1>>)
            /\ TLCGet("stats").diameter - 1 = Len(Trace)
=============================================================================
