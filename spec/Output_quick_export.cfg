SPECIFICATION Spec
CONSTANTS
  Plans <- PlansQuickExport
  CreatedSetsChanged = TRUE
  AutoReload = TRUE
  KeepHistory = TRUE
INVARIANT Emitted
CHECK_DEADLOCK FALSE
