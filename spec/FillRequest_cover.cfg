SPECIFICATION Spec
CONSTANTS MaxBlock = 2 MaxOps = 4 MaxLen = 3
  Ms = {1}
  Takes = {0}
  Srcs = {"iter"}
  SplitBufs <- SplitBufsQuick
  Variant = "intended"
INVARIANT RunIsBlocks
INVARIANT Terminates
INVARIANT Accounted
INVARIANT ConcatEqRun
INVARIANT Census
CHECK_DEADLOCK FALSE
