SPECIFICATION Spec
CONSTANTS MaxBlock = 2 MaxOps = 4 MaxLen = 3
  Ms = {1}
  Takes = {0}
  Srcs = {"iter"}
  SplitBufs <- SplitBufsQuick
  Rets = {"gen"}
  Variant = "intended"
INVARIANT RunIsBlocks
INVARIANT Terminates
INVARIANT Accounted
INVARIANT ConcatEqRun
INVARIANT RetIndependent
INVARIANT Census
CHECK_DEADLOCK FALSE
