SPECIFICATION Spec
CONSTANTS MaxN = 4 Infinite = TRUE MaxOut = 3 MaxPos = 20 Stops = FALSE Guard = "none"
  Scen <- ScenExportQuick
INVARIANT Emitted
CONSTRAINT Bounded
CHECK_DEADLOCK FALSE
