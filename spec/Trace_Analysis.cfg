SPECIFICATION Spec
INVARIANT Complete
POSTCONDITION Accepted
CHECK_DEADLOCK FALSE
