------------------------------ MODULE Variables ------------------------------
(***************************************************************************)
(* lena/variables/variable.py as a machine.                                *)
(*                                                                         *)
(* A scenario is a chain of variable expressions (plain Variables with     *)
(* pairwise distinct non-empty types; optionally a nested Compose of two   *)
(* variables, and a Combine of two variables in the last position) and a   *)
(* starting value: data x, and a context that has no variable, an          *)
(* unrelated key, an untyped variable, a typed variable, or a typed        *)
(* variable that already carries a compose list.                           *)
(*                                                                         *)
(* DATA KINDS.  The data x is an integer (Xs) or one of Ys: None, a tuple, *)
(* a "hit" ((x, x+1), {"layer": x}) - a pair that itself looks like a      *)
(* (data, context) value.  Getters produce such data as well (none, pair,  *)
(* hit) and take them (first, len, layer; dflt / isnone take anything,     *)
(* also None).  A chain is run on a starting value when no getter raises   *)
(* on the way (DefChain); Combine(chain) is applied when every member can  *)
(* take the starting data (CombOk).  Extra = further chain elements        *)
(* (Combines of variables that take tuples, anywhere in the chain).        *)
(*                                                                         *)
(* Actions = public calls:                                                 *)
(*   ApplyVar      the next element of Sequence(v1..vn) is applied to the  *)
(*                 running value (Variable.__call__)                       *)
(*   ApplyCompose  Compose(v1..vn)(value)                                  *)
(*   ApplyCombine  Combine(v1..vn)(value)                                  *)
(*   Repeat        the whole sequence is applied once more to an equal     *)
(*                 value                                                   *)
(*                                                                         *)
(* vars[j] is the var_context object of the j-th chain element.            *)
(* Variable.__call__ installs a deep copy of it in the context             *)
(* (variable.py:143); _update_context then updates the *previous*          *)
(* context.variable in place (cvar["compose"] = ..., variable.py:203-211)  *)
(* before replacing it.  CopyVarContext = FALSE models a __call__ that     *)
(* installs var_context itself: the in-place update then reaches the       *)
(* variable (al = chain position whose var_context object is installed).   *)
(***************************************************************************)
EXTENDS VarSem, Json

CONSTANTS MaxLen, Pool, Starts, Xs, Ys, Extra, Nested, CopyVarContext, PathKeys

(***************************************************************************)
(* THE ALPHABET OF KEYS.  A type is an ATOMIC key of context.variable (so  *)
(* is the name of an attribute); the specification never looks inside the  *)
(* string.  The strings that are used as types / attribute names / names   *)
(* are therefore a dimension of their own: KeyKind classifies the ones of  *)
(* the pools below (the harness recomputes the class from the characters   *)
(* of the string and refuses a table that disagrees):                      *)
(*   dotted     contains a dot (the context helpers of lena read a string  *)
(*              key as a dot-separated PATH - Variable must not)           *)
(*   spaces     contains a space        char   a single character          *)
(*   machinery  equals a key lena itself writes somewhere (dim, combine,   *)
(*              variable, range, latex_name, name, compose, type)          *)
(*   plain      anything else (also keys that are prefixes of one another) *)
(* ReservedKeys: as a type these make the statement contradict itself      *)
(* (context.variable.name is the name of the variable AND the attributes   *)
(* of the variable of type "name"); chains with such a type, or with a     *)
(* type that is an attribute name of a chain member, are outside the       *)
(* quantifier (Variables_reserved.cfg: TLC refutes TypedDeclarative).      *)
(* PathKeys = TRUE is the defect model "descriptions of earlier types are  *)
(* carried over with the path-reading helper": a dotted type is no longer  *)
(* found under its key (Variables_pathkeys.cfg: TLC refutes                *)
(* TypesAvailable).                                                        *)
(***************************************************************************)
KeyKind == "detector.near" :> "dotted" @@ "detector.near.x" :> "dotted" @@ "range.min" :> "dotted"
           @@ "energy.kinetic" :> "dotted" @@ "unit.si" :> "dotted" @@ "pair.of" :> "dotted"
           @@ "title.en" :> "dotted" @@ "note.x" :> "dotted" @@ "dim.x" :> "dotted"
           @@ "far side" :> "spaces" @@ "two words" :> "spaces"
           @@ "x" :> "char" @@ "u" :> "char" @@ "1" :> "char"
           @@ "dim" :> "machinery" @@ "combine" :> "machinery" @@ "variable" :> "machinery"
           @@ "range" :> "machinery" @@ "latex_name" :> "machinery"
           @@ "name" :> "machinery" @@ "compose" :> "machinery" @@ "type" :> "machinery"
KindOf(key) == IF key \in DOMAIN KeyKind THEN KeyKind[key] ELSE "plain"
ReservedKeys == {"name", "type", "compose"}

VARIABLES chain, start, k, sv, cv, bv, rv, vars, al, done
vars_ == <<chain, start, k, sv, cv, bv, rv, vars, al, done>>

RECURSIVE VarsOf(_)
VarsOf(e) == IF e.k = "var" THEN {e.v} ELSE UNION {VarsOf(e.ch[j]) : j \in 1..Len(e.ch)}
NVars(e) == Cardinality(VarsOf(e))

Plain == {Var(v) : v \in Pool}
Pairs == {<<Var(a), Var(b)>> : a, b \in Pool} \ {<<Var(a), Var(a)>> : a \in Pool}
\* Combine(a, b, name="K", type="pair", title="T")
KwPair == [name |-> <<"K">>, type |-> "pair", attrs |-> ("title" :> S(<<"T">>)), g |-> ""]
V(name, type, attrs, g) == [name |-> <<name>>, type |-> type, attrs |-> attrs, g |-> g]
KwAttr == [name |-> <<>>, type |-> "", attrs |-> ("title" :> S(<<"T">>)), g |-> ""]
\* getters that return None / a pair / the first component of a tuple
VNone == V("nothing", "flag", <<>>, "none")
VPair == V("pp", "pairtype", <<>>, "pair")
VFirst == V("fst", "component", <<>>, "first")
Elems == Plain \cup (IF Nested THEN {Cmp(p) : p \in Pairs} \cup {Cmb(p) : p \in Pairs}
                                     \cup {CmbKw(p, KwPair) : p \in Pairs}
                                     \cup {CmpKw(p, KwAttr) : p \in Pairs}
                                     \* Combine inside Compose, Compose inside Combine
                                     \cup {Cmp(<<Cmb(p), Var(VFirst)>>) : p \in Pairs}
                                     \cup {Cmb(<<Cmp(p), Var(c)>>) : p \in Pairs, c \in Pool}
                                     \cup {Var(VNone), Var(VPair), Cmp(<<Var(VPair), Var(VFirst)>>)}
                      ELSE {}) \cup Extra
\* chains by total number of underlying variables: elements use pairwise different variables
\* (which element may follow which is decided by the data: Init admits a chain for a starting
\* value when no getter raises, DefChain)
RECURSIVE VarsOfChain(_), ChainsW(_)
VarsOfChain(ch) == IF ch = <<>> THEN {} ELSE VarsOf(Head(ch)) \cup VarsOfChain(Tail(ch))
OkAppend(c, e) == VarsOf(e) \cap VarsOfChain(c) = {}
ElemsW(n) == {e \in Elems : NVars(e) = n}
ChainsW(w) ==
  IF w = 0 THEN {<<>>}
  ELSE UNION {{Append(c, e) : c \in ChainsW(w - n), e \in ElemsW(n)} : n \in 1..w}
Chains == {ch \in UNION {ChainsW(w) : w \in 1..MaxLen} :
             \A j \in 1..Len(ch) : OkAppend(SubSeq(ch, 1, j - 1), ch[j])}

Unset == [d |-> DI(0), c |-> EmptyD]
Init == /\ chain \in Chains
        /\ start \in {[d |-> d, c |-> c] : d \in {DI(x) : x \in Xs} \cup Ys, c \in Starts}
        /\ DefChain(chain, start.d)
        /\ k = 0 /\ sv = start /\ cv = Unset /\ bv = Unset /\ rv = Unset
        /\ vars = [j \in 1..Len(chain) |-> VC(chain[j])]
        /\ al = 0
        /\ done = {}

\* the list _update_context writes into the previous context.variable before replacing it
Composed(cvar, vc) ==
  IF cvar.m # <<>> /\ Has(cvar, "type") THEN UpdateVar(cvar, vc).m["compose"].l ELSE <<>>

\* the defect model PathKeys: what was carried over from the previous context.variable under a
\* dotted key went to a nested path instead and is not there under the key
Carry(ctx, vc) ==
  IF PathKeys /\ Has(ctx, "variable") /\ IsD(ctx.m["variable"])
  THEN LET var == ctx.m["variable"]
           lost == {t \in DOMAIN var.m : KindOf(t) = "dotted" /\ t \notin DOMAIN vc.m}
       IN With(ctx, "variable", D([x \in DOMAIN var.m \ lost |-> var.m[x]]))
  ELSE ctx

ApplyVar ==
  /\ k < Len(chain)
  /\ LET e == chain[k + 1]
         cvar == IF Has(sv.c, "variable") THEN sv.c.m["variable"] ELSE EmptyD
         comp == Composed(cvar, vars[k + 1])
     IN /\ sv' = [d |-> CallData(e, sv.d), c |-> Carry(UpdateCtx(sv.c, vars[k + 1]), vars[k + 1])]
        /\ vars' = IF al # 0 /\ comp # <<>> THEN [vars EXCEPT ![al] = With(@, "compose", L(comp))] ELSE vars
        /\ al' = IF CopyVarContext THEN 0 ELSE k + 1
  /\ k' = k + 1
  /\ UNCHANGED <<chain, start, cv, bv, rv, done>>

ApplyCompose == /\ "compose" \notin done
                /\ cv' = Apply(Cmp(chain), start) /\ done' = done \cup {"compose"}
                /\ UNCHANGED <<chain, start, k, sv, bv, rv, vars, al>>
\* every member of Combine(chain) can take the starting data
CombOk == \A j \in 1..Len(chain) : Def(chain[j], start.d)
ApplyCombine == /\ "combine" \notin done /\ CombOk
                /\ bv' = Apply(Cmb(chain), start) /\ done' = done \cup {"combine"}
                /\ UNCHANGED <<chain, start, k, sv, cv, rv, vars, al>>

RECURSIVE ApplyWith(_, _, _, _)
ApplyWith(ch, vcs, j, val) ==
  IF j > Len(ch) THEN val
  ELSE ApplyWith(ch, vcs, j + 1, [d |-> CallData(ch[j], val.d), c |-> UpdateCtx(val.c, vcs[j])])
Repeat == /\ k = Len(chain) /\ "repeat" \notin done
          /\ rv' = ApplyWith(chain, vars, 1, start) /\ done' = done \cup {"repeat"}
          /\ UNCHANGED <<chain, start, k, sv, cv, bv, vars, al>>

Next == ApplyVar \/ ApplyCompose \/ ApplyCombine \/ Repeat
Spec == Init /\ [][Next]_vars_
Done == k = Len(chain) /\ done = {"compose", "repeat"} \cup (IF CombOk THEN {"combine"} ELSE {})

(***************************************************************************)
(* Properties.                                                             *)
(***************************************************************************)
SeqDone == k = Len(chain)
\* same data: vn.getter(...v1.getter(x)...) - also every prefix of the sequence
DataEq == /\ (SeqDone /\ "compose" \in done) => sv.d = cv.d /\ cv.d = GetChain(chain, start.d)
          /\ sv.d = GetChain(SubSeq(chain, 1, k), start.d)
\* same context
\* (a chain with an untyped variable applied to a value whose context.variable is typed: the
\* quantifier speaks of variables with distinct types and the documentation warns that an untyped
\* variable loses the earlier descriptions - the Sequence drops them, Compose does not; not demanded;
\* a Combine without type followed by another variable is such an untyped variable)
ComposeEqSeq == (SeqDone /\ "compose" \in done /\ ~(LosesTypes(chain) /\ PrevTypes(start.c) # <<>>))
                   => sv.c = cv.c
\* Combine produces the tuple of the getters' results, and describes its variables
CombineTuple ==
  "combine" \in done =>
    /\ bv.d = DT([j \in 1..Len(chain) |-> Get(chain[j], start.d)])
    /\ bv.d.k = "T" /\ Len(bv.d.t) = Len(chain)
    /\ LET v == bv.c.m["variable"] IN
       /\ v.m["dim"] = I(ToString(Len(chain)))
       /\ v.m["combine"] = T([j \in 1..Len(chain) |-> VC(chain[j])])
       /\ v.m["name"] = S(JoinNames([j \in 1..Len(chain) |-> VC(chain[j]).m["name"].l]))
\* plain typed chains: closed form
TypedDeclarative ==
  (AllTyped(chain) /\ DistinctTypes(chain)) =>
     /\ SeqDone => sv.c.m["variable"] = Described(start.c, chain)
     /\ "compose" \in done => cv.c.m["variable"] = Described(start.c, chain)
     \* every prefix of the sequence as well
     /\ k > 0 => sv.c.m["variable"] = Described(start.c, SubSeq(chain, 1, k))
\* THE STATEMENT, read directly: the attributes of every composed variable are available under its
\* type (whatever string the type is), after every step of the sequence and after Compose
RECURSIVE KeysOf(_)
KeysOf(e) == (IF e.v.type = "" THEN {} ELSE {e.v.type}) \cup DOMAIN e.v.attrs
             \cup UNION {KeysOf(e.ch[j]) : j \in 1..Len(e.ch)}
AttrKeys(ch) == UNION {DOMAIN ch[j].v.attrs : j \in 1..Len(ch)}
ReservedIn(ch) == \E j \in 1..Len(ch) : ch[j].v.type \in ReservedKeys \cup AttrKeys(ch)
AvailableIn(var, ch, n) ==
  \A j \in 1..n : Has(var, ch[j].v.type) /\ var.m[ch[j].v.type] = Attrs(ch[j].v)
TypesAvailable ==
  (AllTyped(chain) /\ DistinctTypes(chain) /\ ~ReservedIn(chain)) =>
     /\ k > 0 => AvailableIn(sv.c.m["variable"], chain, k)
     /\ "compose" \in done => AvailableIn(cv.c.m["variable"], chain, Len(chain))
     /\ "repeat" \in done => AvailableIn(rv.c.m["variable"], chain, Len(chain))
\* flattening: a nested Compose contributes its types in application order
RECURSIVE Flat(_)
Flat(ch) == IF ch = <<>> THEN <<>>
            ELSE (IF Head(ch).k = "cmp" THEN Flat(Head(ch).ch) ELSE <<Head(ch)>>) \o Flat(Tail(ch))
NestedFlattens ==
  (SeqDone /\ AllTyped(Flat(chain)) /\ DistinctTypes(Flat(chain))
           /\ \A j \in 1..Len(chain) : chain[j].k = "var" \/ (chain[j].k = "cmp" /\ chain[j].v.attrs = <<>>
                                                                    /\ AllTyped(chain[j].ch))) =>
     sv.c.m["variable"] = Described(start.c, Flat(chain))
\* context.variable carries the name (and attributes) of the resulting variable
CarriesName ==
  /\ k > 0 => sv.c.m["variable"].m["name"] = VC(chain[k]).m["name"]
  /\ "compose" \in done => cv.c.m["variable"].m["name"] = VC(chain[Len(chain)]).m["name"]
\* ... and everything the last applied variable describes itself with (its own compose list is
\* replaced by the list of all types)
CarriesAttributes ==
  /\ k > 0 => Contains(sv.c.m["variable"], LastVC(SubSeq(chain, 1, k)))
  /\ "compose" \in done => Contains(cv.c.m["variable"], LastVC(chain))
  /\ "combine" \in done => Contains(bv.c.m["variable"], VC(Cmb(chain)))
\* nothing but context.variable changes
Frame(val) == Without(val.c, "variable") = Without(start.c, "variable")
FrameVariableOnly == Frame(sv) /\ ("compose" \in done => Frame(cv)) /\ ("combine" \in done => Frame(bv))
\* applying a variable does not change the variable
VarUnchanged == vars = [j \in 1..Len(chain) |-> VC(chain[j])]
\* repeated application to an equal value gives an equal result
Repeatable == "repeat" \in done => rv = sv

(***************************************************************************)
(* Pools and starting contexts.                                            *)
(***************************************************************************)
\* attribute NAMES that collide with the element protocol (a Sequence looks for "run", other
\* containers for fill / compute / request / reset / fill_into) and with Variable's own members
ProtocolAttrs == "run" :> I("1234") @@ "fill" :> S(<<"f">>) @@ "compute" :> N @@ "request" :> L(<<>>)
                 @@ "reset" :> I("0") @@ "fill_into" :> S(<<"g">>) @@ "var_context" :> S(<<"vc">>)
Pool5 == {V("positron", "particle", "latex" :> S(<<"e+">>) @@ ProtocolAttrs, "inc"),
          \* attribute values that look like nothing: 0, None, "", [], {}
          V("x", "coordinate", "scale" :> I("0") @@ "note" :> N @@ "label" :> S(<<>>)
                               @@ "bins" :> L(<<>>) @@ "opts" :> EmptyD, "dbl"),
          V("mm", "length", "unit" :> S(<<"mm">>) @@ "range" :> L(<<"0", "100">>), "tri"),
          V("sq", "area", "unit" :> S(<<"mm2">>), "sq"),
          V("far", "detector", <<>>, "add5")}
Untyped == V("u", "", "unit" :> S(<<"au">>), "add5")
Pool4 == {v \in Pool5 : v.type # "detector"}
Pool4U == Pool4 \cup {Untyped}
Pool5U == Pool5 \cup {V("raw", "", <<>>, "inc")}
Pool3U == {v \in Pool4 : v.type # "area"} \cup {Untyped}
Pool3 == {v \in Pool4 : v.type # "area"}
\* variables for the data kinds: getters that return / take None, tuples, hits
PoolK == {V("hit", "measurement", "unit" :> S(<<"cm">>), "hit"),
          V("fst", "component", <<>>, "first"),
          V("nf", "size", "note" :> N, "len"),
          V("lay", "layerno", <<>>, "layer"),
          V("nothing", "flag", <<>>, "none"),
          V("filled", "default", "scale" :> I("0"), "dflt"),
          V("missing", "missflag", <<>>, "isnone"),
          V("x", "coordinate", "label" :> S(<<>>), "dbl")}
NameIn(names) == {v \in PoolK : v.name[1] \in names}
OrdPairs(P) == {<<Var(a), Var(b)>> : a, b \in P} \ {<<Var(a), Var(a)>> : a \in P}
\* Combines of variables that can take a tuple / None
ExtraK == {Cmb(p) : p \in OrdPairs(NameIn({"fst", "nf", "filled", "missing"}))}
          \cup {CmbKw(<<Var(a), Var(b)>>, KwPair) : a \in NameIn({"lay"}), b \in NameIn({"fst"})}
\* the quick tier: six variables, three Combines of tuple-taking variables and a typed one;
\* starting data: integer, None, hit
PoolK6 == NameIn({"hit", "fst", "nf", "lay", "nothing", "filled"})
ExtraK6 == {Cmb(<<Var(a), Var(b)>>) : a \in NameIn({"fst"}), b \in NameIn({"nf", "filled"})}
           \cup {Cmb(<<Var(a), Var(b)>>) : a \in NameIn({"filled"}), b \in NameIn({"fst"})}
           \cup {CmbKw(<<Var(a), Var(b)>>, KwPair) : a \in NameIn({"lay"}), b \in NameIn({"fst"})}
DataK6 == {DN, Hit(DI(2))}
NoElems == {}
NoData == {}
\* THE ALPHABET POOL: types, names and attribute names that are dotted, prefixes of one another
\* (detector / detector.near / detector.near.x; latex / latex_name), one character, with spaces, equal
\* to keys the machinery writes; no type is an attribute name or reserved
PoolA == {V("det.near", "detector.near", "unit" :> S(<<"cm">>) @@ "range.min" :> I("0"), "inc"),
          V("name", "detector", "unit.si" :> S(<<"m">>), "dbl"),
          V("compose", "detector.near.x", "note.x" :> L(<<"a", "b">>), "tri"),
          V("x", "x", "two words" :> S(<<"w">>) @@ "u" :> EmptyD, "sq"),
          V("two words", "far side", "variable" :> D("type" :> S(<<"detector">>)), "add5"),
          V("type", "range", "latex" :> S(<<"r">>), "inc"),
          V("d.e", "dim", <<>>, "dbl"),
          V("a", "latex_name", "1" :> S(<<"one">>), "tri"),
          V("c", "combine", "dim.x" :> I("0"), "sq")}
ByName(P, n) == CHOOSE v \in P : v.name = <<n>>
PoolA7 == {v \in PoolA : v.type \notin {"range", "combine"}}
KwPairA == [name |-> <<"K.k">>, type |-> "pair.of", attrs |-> ("title.en" :> S(<<"T">>)), g |-> ""]
KwAttrA == [name |-> <<>>, type |-> "", attrs |-> ("note.x" :> S(<<"T">>)), g |-> ""]
ExtraA == {Cmp(<<Var(ByName(PoolA, "det.near")), Var(ByName(PoolA, "compose"))>>),
           Cmp(<<Var(ByName(PoolA, "name")), Var(ByName(PoolA, "d.e"))>>),
           CmbKw(<<Var(ByName(PoolA, "x")), Var(ByName(PoolA, "two words"))>>, KwPairA),
           CmpKw(<<Var(ByName(PoolA, "a")), Var(ByName(PoolA, "det.near"))>>, KwAttrA)}
\* a type that is a reserved key (the statement contradicts itself: Variables_reserved.cfg)
PoolReserved == {V("n", "name", <<>>, "inc"), V("y", "coordinate", <<>>, "dbl")}
OldDotted == V("E.kin", "energy.kinetic", "unit.si" :> S(<<"J">>), "inc")
DataK == {DN, Hit(DI(2)), DT(<<DI(2), DI(3)>>)}
OldTyped == V("E", "energy", "unit" :> S(<<"MeV">>), "inc")
OldTyped2 == V("t", "time", <<>>, "inc")
SameType == V("electron", "particle", "latex" :> S(<<"e-">>), "inc")
StartsAll ==
  { EmptyD,
    D("data" :> D("run" :> S(<<"r1">>))),
    \* a context.variable that looks like nothing
    D("variable" :> EmptyD),
    D("variable" :> N),
    D("variable" :> D("name" :> S(<<"old">>) @@ "unit" :> S(<<"u">>))),
    D("variable" :> VarContext(OldTyped)),
    D("variable" :> VarContext(OldTyped) @@ "data" :> D("run" :> S(<<"r1">>))),
    D("variable" :> UpdateVar(VarContext(OldTyped2), VarContext(OldTyped))),
    \* a pre-existing variable whose type equals the type of a pool variable (the chains are all
    \* permutations, so the colliding member is first, in the middle and last): plain, as the
    \* last and as an earlier type of an existing composition
    D("variable" :> VarContext(SameType)),
    D("variable" :> UpdateVar(VarContext(OldTyped2), VarContext(SameType))),
    D("variable" :> UpdateVar(VarContext(SameType), VarContext(OldTyped))) }

\* a subset for the nested quick run: none, other key, empty, typed, typed composition,
\* composition with a colliding type
\* for the data kinds: none, other key, typed, typed composition
StartsK == { EmptyD, D("data" :> D("run" :> S(<<"r1">>))),
             D("variable" :> VarContext(OldTyped)),
             D("variable" :> UpdateVar(VarContext(OldTyped2), VarContext(OldTyped))) }
StartsK6 == { EmptyD, D("variable" :> VarContext(OldTyped)),
              D("variable" :> UpdateVar(VarContext(OldTyped2), VarContext(OldTyped)) @@ "data" :> D("run" :> S(<<"r1">>))) }
StartsA == { EmptyD, D("variable" :> VarContext(OldDotted)),
            D("variable" :> UpdateVar(VarContext(OldTyped2), VarContext(OldDotted)) @@ "data" :> D("run" :> S(<<"r1">>))) }
StartsB == { EmptyD, D("data" :> D("run" :> S(<<"r1">>))), D("variable" :> EmptyD),
             D("variable" :> VarContext(OldTyped)),
             D("variable" :> UpdateVar(VarContext(OldTyped2), VarContext(OldTyped))),
             D("variable" :> UpdateVar(VarContext(SameType), VarContext(OldTyped))) }

\* barable: the value may also be handed in as bare data (no context, and the data does not look
\* like a (data, context) pair itself)
Emitted == Done => PrintT(ToJson([chain |-> chain, start |-> start, seq |-> sv, compose |-> cv, combine |-> bv,
                                  combok |-> CombOk,
                                  barable |-> start.c = EmptyD /\ ~LooksLikeValue(start.d),
                                  typed |-> AllTyped(chain) /\ DistinctTypes(chain),
                                  lastvc |-> LastVC(chain),
                                  keykinds |-> LET ks == UNION {KeysOf(chain[j]) : j \in 1..Len(chain)}
                                               IN [x \in ks |-> KindOf(x)]]))
=============================================================================
