SPECIFICATION Spec
CONSTANTS ConvChoices <- ConvQuick
  RangeLows <- LowsSmall
  RangeUps <- UpsSmall
INVARIANT OnePointPerCell
INVARIANT BadModeRaises
INVARIANT BothRangesRaise
INVARIANT CsvEnds
INVARIANT CsvPasses
INVARIANT IteratorsAgree
INVARIANT RangesChecked
INVARIANT CsvOneRowPerCell
INVARIANT Emitted
CHECK_DEADLOCK FALSE
