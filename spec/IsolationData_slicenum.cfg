SPECIFICATION Spec
CONSTANTS MaxBr = 2 MaxN = 2 CopyMode = "slice"
  BufSizes <- BufAll
  Kinds <- NumericKinds
  Templates <- AllTemplates
INVARIANT Isolated
INVARIANT YieldedStable
INVARIANT SourceByLastOnly
CHECK_DEADLOCK FALSE
