-------------------------- MODULE Trace_Histogram --------------------------
(***************************************************************************)
(* Validation of fills recorded from the real lena histogram / Histogram   *)
(* on float and integer meshes beyond the exhaustive bounds.               *)
(*                                                                         *)
(* The harness rank-abstracts, per axis, the edges and all coordinates of  *)
(* a session jointly (monotone, so every comparison is preserved) and      *)
(* scales the dyadic weights to integers.  One record per fill:            *)
(*   [new   TRUE for the first fill of a freshly constructed histogram,    *)
(*    kind  "structure" | "element",                                       *)
(*    edges rank arrays, c coordinate ranks, w weight,                     *)
(*    idx   what get_bin_on_value(coord, edges) returned,                  *)
(*    bins, oor   histogram.bins and n_out_of_range after the fill]        *)
(* The state carried between records is the histogram before the fill.     *)
(***************************************************************************)
EXTENDS HistSem, TLC, Json, IOUtils

Trace == JsonDeserialize(IOEnv.TRACE_FILE)
VARIABLES i, E, bins, oor, total
vars == <<i, E, bins, oor, total>>

Init == i = 1 /\ E = <<>> /\ bins = <<>> /\ oor = 0 /\ total = 0

FillStep(r) ==
  LET b0 == IF r.new THEN InitBins(r.edges, 1, 0) ELSE bins
      o0 == IF r.new THEN 0 ELSE oor
      t0 == IF r.new THEN 0 ELSE total
  IN /\ AllIncreasing(r.edges)
     /\ r.new \/ r.edges = E                                   \* a fill leaves the edges alone
     /\ r.kind = "element" => r.w = 1
     /\ r.idx = IdxVec(r.c, r.edges)                            \* reported bin index
     /\ FillRefOK(b0, o0, r.bins, r.oor, r.edges, r.c, r.w)     \* declarative effect
     /\ FillOp(b0, o0, r.edges, r.c, r.w) = [bins |-> r.bins, oor |-> r.oor]   \* the code's walk
     /\ E' = r.edges /\ bins' = r.bins /\ oor' = r.oor /\ total' = t0 + r.w

Next == i <= Len(Trace) /\ FillStep(Trace[i]) /\ i' = i + 1
Spec == Init /\ [][Next]_vars

Conservation == E # <<>> => SumB(bins, Len(E)) + oor = total
Accepted == /\ PrintT(<<"ACCEPTED", TLCGet("stats").diameter - 1>>)
            /\ TLCGet("stats").diameter - 1 = Len(Trace)
=============================================================================
