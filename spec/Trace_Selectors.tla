-------------------------- MODULE Trace_Selectors --------------------------
(***************************************************************************)
(* Validation of behaviour recorded from the real lena selectors on        *)
(* specifications and values beyond the exhaustive bounds.  Records:       *)
(*   [op |-> "sel", ast, val, res]     res: "T", "F" or the class of the   *)
(*                                     exception that reached the caller   *)
(*   [op |-> "filter", ast, flow, out, raised, exc]  Filter(ast).run(flow) *)
(* Specifications outside the statement (WellFormed, Defined in            *)
(* SelectorsSem.tla) are not constrained.                                  *)
(***************************************************************************)
EXTENDS SelectorsSem, IOUtils
Trace == JsonDeserialize(IOEnv.TRACE_FILE)
VARIABLE i
Inside(a, v) == WellFormed(a) /\ Defined(a, v)
SelOk(r) == Inside(r.ast, r.val) => r.res = Eval(r.ast, r.val)
IsPre(a, b) == Len(a) <= Len(b) /\ a = SubSeq(b, 1, Len(a))
FilterOk(r) == (\A j \in 1..Len(r.flow) : Inside(r.ast, r.flow[j])) =>
                 LET e == FilterSem(r.ast, r.flow) IN
                 \* the selector's exception reaches the caller of Filter.run; what was yielded before it is exact
                 IF e.raised THEN IsPre(e.out, r.out) /\ r.raised /\ r.exc = e.exc
                 ELSE r.out = e.out /\ ~r.raised
Ok(r) == IF r.op = "sel" THEN SelOk(r) ELSE FilterOk(r)
Init == i = 1
Next == i <= Len(Trace) /\ Ok(Trace[i]) /\ i' = i + 1
Spec == Init /\ [][Next]_i
Accepted == /\ PrintT(<<"ACCEPTED", TLCGet("stats").diameter - 1>>)
            /\ TLCGet("stats").diameter - 1 = Len(Trace)
=============================================================================
