--------------------------- MODULE Trace_Grouping ---------------------------
(***************************************************************************)
(* Validation of runs of the real GroupPlots / GroupScale / MapGroup /     *)
(* DropContext recorded on random members and contexts beyond the          *)
(* exhaustive bounds.  Records:                                            *)
(*   [mode |-> "gplots", cfg, ms, vals, grps, status]                      *)
(*   [mode |-> "scale", cfg, ms, members, status]                          *)
(*   [mode |-> "mapgroup", q, scal, vals, out, status]                     *)
(*   [mode |-> "drop", q, ms, out]                                         *)
(* The order in which GroupPlots yields its groups is not documented:      *)
(* groups are compared as a collection.                                    *)
(***************************************************************************)
EXTENDS GroupingSem, IOUtils
Trace == JsonDeserialize(IOEnv.TRACE_FILE)
VARIABLE i
SameBag(a, b) == /\ Len(a) = Len(b)
                 /\ \A x \in 1..Len(a) : Cardinality({y \in 1..Len(a) : a[y] = a[x]}) = Cardinality({y \in 1..Len(b) : b[y] = a[x]})
GPOk(r) == LET e == GPRunSem(r.cfg, r.ms) IN
           /\ r.status = e.status /\ r.vals = e.vals
           /\ e.status = "done" => SameBag(r.grps, [n \in 1..Len(e.grps) |-> e.grps[n].g])
ScaleOk(r) == LET e == ScaleSem(r.cfg, r.ms) IN
              IF e.ok THEN r.status = "done" /\ r.members = Brief(e.ms) ELSE r.status = e.exc
WithCtx(ms) == [n \in 1..Len(ms) |-> [id |-> ms[n].id, s |-> ms[n].s, c |-> CtxOf(ms[n])]]
\* what is compared of a value yielded by MapGroup: members with their contexts, the common context
\* outside output, and "True wins" for output.changed
MGEq(a, b) == /\ a.grp = b.grp
              /\ IF b.grp THEN /\ a.ms = WithCtx(b.ms)
                               /\ Del(a.common, "output") = Del(b.common, "output")
                               /\ AnyChanged(Ctxs(b.ms)) => Changed(a.common) = LTrue
                 ELSE a.ms = WithCtx(<<b.m>>)
MGOk(r) == LET e == MapGroupSem(r.q, r.scal, r.vals) IN
           /\ r.status = e.status
           /\ e.status = "done" => (Len(r.out) = Len(e.out) /\ \A n \in 1..Len(e.out) : MGEq(r.out[n], e.out[n]))
DropOk(r) == r.out = DropSem(r.q, r.ms)
Ok(r) == CASE r.mode = "gplots" -> GPOk(r) [] r.mode = "scale" -> ScaleOk(r)
           [] r.mode = "mapgroup" -> MGOk(r) [] r.mode = "drop" -> DropOk(r)
Init == i = 1
Next == i <= Len(Trace) /\ Ok(Trace[i]) /\ i' = i + 1
Spec == Init /\ [][Next]_i
Accepted == /\ PrintT(<<"ACCEPTED", TLCGet("stats").diameter - 1>>)
            /\ TLCGet("stats").diameter - 1 = Len(Trace)
=============================================================================
