SPECIFICATION Spec
CONSTANTS Parts = {"tpl"} MaxSrc = 4 MaxRows = 2 Deep = FALSE
INVARIANT LexMeetsRules
INVARIANT TplMeetsRef
INVARIANT TplBalanced
INVARIANT SelMeetsRef
INVARIANT TableMeetsRef
INVARIANT CsvMeetsRef
INVARIANT CsvRowLaw
INVARIANT CmdMeetsRef
INVARIANT CmdSamePlace
INVARIANT ReprMeetsRef
INVARIANT ReprBalanced
INVARIANT CtxOpMeetsRef
CHECK_DEADLOCK FALSE
