SPECIFICATION Spec
CONSTANTS PairSrc = "all" CtxU = "ops3" MaxFlow = 3 KeyU = "five" Writ = "all" NObj = 0
INVARIANT IsPartition
INVARIANT SnapshotsRight
PROPERTY ResetEmpties
INVARIANT PartitionExact
INVARIANT OrderPreserved
INVARIANT NoEmptyGroup
INVARIANT OwnerIsLongest
INVARIANT WritingIrrelevant
PROPERTY Stable
INVARIANT DefaultsOneGroup
INVARIANT WholeContext
INVARIANT KeyCharacterises
INVARIANT PartitionIsEquivalence
CHECK_DEADLOCK FALSE
