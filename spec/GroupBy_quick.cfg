SPECIFICATION Spec
CONSTANTS PairSrc = "all" CtxU = "tiny" MaxFlow = 2 KeyU = "five"
INVARIANT IsPartition
INVARIANT PartitionExact
INVARIANT OrderPreserved
INVARIANT NoEmptyGroup
INVARIANT OwnerIsLongest
PROPERTY Stable
INVARIANT DefaultsOneGroup
INVARIANT WholeContext
INVARIANT KeyCharacterises
INVARIANT PartitionIsEquivalence
CHECK_DEADLOCK FALSE
