SPECIFICATION Spec
CONSTANTS MaxN = 2
  LenProfiles <- LensQuick
  Forms <- FormsQuick
  StopKinds = {"close"}
  Scenarios <- ScenQuick
  Reruns = {FALSE, TRUE}
  RerunScenarios <- ScenRerunQuick
  RerunLens <- LensRerunQuick
  RerunForms <- FormsRerunQuick
  KeepHistory = FALSE
  Design = "allowed"
VIEW view
INVARIANT TypeOK
INVARIANT NoTruncated
INVARIANT StoredIsLastComplete
INVARIANT FirstRunTransparent
INVARIANT LoadIsStored
INVARIANT LoadNoPull
INVARIANT RestoreFirstRun
INVARIANT FirstRunWhenNothingLoadable
PROPERTY CompleteIsComplete
PROPERTY DropRestores
PROPERTY InterruptKeepsLoaded
CHECK_DEADLOCK FALSE
