SPECIFICATION Spec
CONSTANTS MaxN = 2
  DataProfiles <- DataQuick
  Forms <- FormsQuick
  StopKinds = {"close", "keep"}
  Scenarios <- ScenQuick
  Reruns = {FALSE, TRUE}
  RerunScenarios <- ScenRerunQuick
  RerunData <- DataRerunQuick
  RerunForms <- FormsRerunQuick
  Holds = {TRUE}
  HoldScenarios <- ScenHoldQuick
  HoldData <- DataHoldQuick
  HoldForms <- FormsHoldQuick
  HoldRc = {FALSE}
  Muts = {TRUE}
  MutScenarios <- ScenMutQuick
  MutData <- DataMutQuick
  MutForms <- FormsMutQuick
  MutRc = {FALSE}
  MaxRep = 2
  KeepHistory = FALSE
  Design = "allowed"
VIEW view
INVARIANT TypeOK
INVARIANT NoTruncated
INVARIANT StoredIsLastComplete
INVARIANT FirstRunTransparent
INVARIANT LoadIsStored
INVARIANT LoadNoPull
INVARIANT RestoreFirstRun
INVARIANT FirstRunWhenNothingLoadable
PROPERTY CompleteIsComplete
PROPERTY DropRestores
PROPERTY InterruptKeepsLoaded
PROPERTY ReleaseNeverFills
CHECK_DEADLOCK FALSE
