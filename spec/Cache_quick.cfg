SPECIFICATION Spec
CONSTANTS MaxN = 2
  LenProfiles <- LensQuick
  Forms = {"seq", "source", "seq_calter", "source_calter", "seq_malter", "source_malter"}
  StopKinds = {"close", "abandon"}
  Scenarios <- ScenQuick
  KeepHistory = FALSE
  Design = "allowed"
VIEW view
INVARIANT TypeOK
INVARIANT NoTruncated
INVARIANT StoredIsLastComplete
INVARIANT FirstRunTransparent
INVARIANT LoadIsStored
INVARIANT LoadNoPull
INVARIANT RestoreFirstRun
INVARIANT FirstRunWhenNothingLoadable
PROPERTY CompleteIsComplete
PROPERTY DropRestores
PROPERTY InterruptKeepsLoaded
CHECK_DEADLOCK FALSE
