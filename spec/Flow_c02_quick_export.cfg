SPECIFICATION Spec
CONSTANTS MaxLen = 2 MaxN = 4 Infinite = TRUE MaxOut = 4
  Vals = "nat" Stops = FALSE MaxRuns = 1 MaxLead = 0
  Alphabet <- AlphaC02
  Must <- NoMust
  Pairs <- OnlyPairs
INVARIANT Emitted
CONSTRAINT Bounded
CHECK_DEADLOCK FALSE
