SPECIFICATION Spec
CONSTANTS MaxLen = 2 MaxN = 4 Infinite = TRUE MaxOut = 4
  Alphabet <- AlphaC02
  Pairs <- OnlyPairs
CONSTRAINT Bounded
INVARIANT Emitted
CHECK_DEADLOCK FALSE
