SPECIFICATION Spec
CONSTANTS
  K = {"a", "b"}
  NC = 2
  Levels <- LevelsQuick
  Ops <- AllOps
  UPair <- V2rq
  UTriple <- V1
INVARIANT InterGlb
INVARIANT InterGlbU
INVARIANT InterLevels
INVARIANT InterAlgebra
INVARIANT DiffLaws
INVARIANT UpdRecLaws
INVARIANT UpdRecLeastU
INVARIANT NestedLaws
CHECK_DEADLOCK FALSE
