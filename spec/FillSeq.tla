------------------------------- MODULE FillSeq -------------------------------
(***************************************************************************)
(* One analysis chain  pre* acc post*  driven in three ways.               *)
(*                                                                         *)
(* Code: lena/core/fill_seq.py (FillSeq chains _Fill objects so that       *)
(* fill(value) runs every fill_into), fill_compute_seq.py (FillSeq before  *)
(* the accumulator + Sequence after it), adapters.py FillInto (callables,  *)
(* run elements that can break the flow), flow/filter.py Filter.fill_into, *)
(* flow/iterators.py Slice.fill_into, flow/elements.py RunIf,              *)
(* core/split.py (fill_compute branch; LenaStopFill -> compute and drop),  *)
(* core/sequence.py + adapters.Run._fc_run (the run driver).               *)
(*                                                                         *)
(*  drv = "run"    Sequence(pre.., acc, post..).run(flow): values are      *)
(*                 pushed through the run side of the stages (FlowSem      *)
(*                 OnHave / EarlyDone), the accumulator is filled, at the  *)
(*                 end of the flow it computes and the results run through *)
(*                 post                                                    *)
(*       RunFeed, RunEof                                                   *)
(*  drv = "fill"   FillComputeSeq / FillSeq filled value by value until    *)
(*                 LenaStopFill, then computed                             *)
(*       FillValue, FillCompute                                            *)
(*  drv = "persist" the same object filled with every value although it    *)
(*                 raised LenaStopFill, then computed twice                *)
(*       PersistValue, PersistCompute, ComputeAgain                        *)
(*  drv = "split"  Split([(pre.., acc, post..)], bufsize = bs).run(flow)   *)
(*       SplitRead, SplitFill (the loop over the block; on LenaStopFill    *)
(*       the branch computes at once and is dropped), SplitEnd             *)
(*                                                                         *)
(* Fill side of the pre elements (FillIntoStep): callable / Variable ->    *)
(* fill(f(v)); Filter -> fill if selected; Slice(start, stop, step) ->     *)
(* index bookkeeping of Slice.fill_into, LenaStopFill when no index is     *)
(* left; RunIf -> run [v] through it and fill the results.                 *)
(* Declarative reference: ChainSem, from FlowSem.Sem.                      *)
(***************************************************************************)
EXTENDS FillSem, Json

CONSTANTS MaxPre, MaxN, PreAlphabet, Accs, Posts, FlowKinds, Drivers, Bufs,
          Places,      \* Split: the chain is the only branch ("alone") or has sibling branches: "first" [chain, A, B],
                       \* "middle" [A, chain, B], "last" [A, B, chain], "afterstop" [S, chain, S']; A changes the context of the values it is
                       \* given in place (a Variable), B is an ordinary branch, S = (Slice(1), acc) and S' = (Slice(2), acc)
                       \* are fill chains that raise LenaStopFill at the values with index SibStop = 1 and 2
          StopFlag,    \* "per_branch": LenaStopFill of one branch concerns that branch only (documented);
                       \* "per_buffer": the flag is kept for the later branches of the block (must be rejected)
          CopyMode,    \* "per_branch": every branch but the last gets its own deep copy of the block (documented);
                       \* "shared": one copy handed to all branches but the last (must be rejected)
          AdapterHides, \* TRUE: an explicit adapter (Call, FillCompute) presents its own interface only (documented);
                       \* FALSE: it lets the other public methods of the wrapped element through (must be rejected)
          VarCopy      \* "per_value": a Variable gives every value its own copy of its description (documented);
                       \* "per_flow": its run side hands the nested parts of one copy to all values of a flow, so
                       \* that a compose list grows with every value that passes a later Variable (must be rejected)

AT == INSTANCE AdapterTable

(***************************************************************************)
(* Chains and the machine.                                                 *)
(***************************************************************************)
\* ---- variables: typed, untyped, composed
Vmm == VarD("mm", "length", "dbl")
Vsq == VarD("sq", "area", "inc")
Vhalf == VarD("half", "fraction", "dbl")
Vid == VarD("ident", "", "id")
Vlen2 == VarD("cm", "length", "inc")              \* a second variable of the type length
Vars1 == {TVar(<<Vmm>>), TVar(<<Vhalf>>), TVar(<<Vid>>)}
Composes == {TVar(<<Vmm, Vsq>>), TVar(<<Vsq, Vid>>), TVar(<<Vmm, Vsq, Vhalf>>), TVar(<<Vid, Vsq>>), TVar(<<Vsq, Vlen2>>)}
\* ---- elements with conflicting interfaces behind an explicit adapter.  How a driver binds the adapter object
\* follows from the decision tables applied to what the adapter object exposes.
AmbCaps == [run |-> "meth", fill |-> "meth", compute |-> "meth", request |-> "meth", fill_into |-> "meth", m |-> "meth",
            call |-> TRUE, iter |-> FALSE, cbf |-> FALSE, truth |-> TRUE]
CountCaps == [AT!NoCaps EXCEPT !.run = "meth", !.fill = "meth", !.compute = "meth", !.fill_into = "meth"]
SumCaps == [AT!NoCaps EXCEPT !.fill = "meth", !.compute = "meth"]
AccCaps(a) == CASE a = "fc_count" -> CountCaps [] a = "fc_sum" -> SumCaps [] OTHER -> AmbCaps
Seen(adapter, caps) == AT!Exposed(adapter, caps, AdapterHides)
WMap(f, w) == WMapB(f, w, AT!Decide("Run", Seen("Call", AmbCaps), "default").bind,
                          AT!Decide("FillInto", Seen("Call", AmbCaps), "default").bind)
\* Sequence turns the accumulator into a Run element
AccRunBind(a) == IF a \in Wrapped THEN AT!Decide("Run", Seen("FillCompute", AccCaps(a)), "default").bind
                 ELSE "fill_then_compute"
AlphaVars == {TVar(<<Vhalf>>), TVar(<<Vmm, Vsq>>), TVar(<<Vsq, Vid>>), Map("var"), WMap("inc", "m"), Slice(1, None, 1)}
AlphaVarsWide == AlphaVars \cup Vars1 \cup Composes \cup {WMap("dbl", "call"), CFilter("variable", "str"), RunIfDup("variable")}
PostsVars == {<<>>, <<TVar(<<Vhalf>>)>>, <<WMap("inc", "call")>>}
PostsVarsWide == PostsVars \cup {<<TVar(<<Vsq, Vid>>), Sum>>}
AccsVars == {"store1", "fc_count", "fc_named"}
AccsVarsWide == {"store1"} \cup Wrapped
BufTwo == {1, None}
BufThree == {1, 2, None}
AlphaGuard == {TVar(<<Vmm, Vsq>>), TVar(<<Vhalf>>)}       \* smallest alphabets for the variants that must be rejected
AccsGuard == {"store1", "fc_count"}
PostsGuard == {<<>>, <<WMap("inc", "call")>>}

\* RunIf around flow-dependent inner sequences: all but the first value / the first value / reversed / all but the
\* last / a callable and then the first value - of the one-value flow
SkipFirst == <<Slice(1, None, 1)>>
InnerSeqs == {RunIfSeq("lt2", SkipFirst), RunIfSeq("all", <<Slice(0, 1, 1)>>), RunIfSeq("even", <<Reverse>>),
              RunIfSeq("all", <<LagK(1)>>), RunIfSeq("lt2", <<Map("inc"), Slice(0, 1, 1)>>), RunIfSeq("all", <<Reverse, LastK(1)>>)}
Composed == {SFilter("not_even"), SFilter("and_even_lt2"), SFilter("or_even_lt2"), SFilter("not_or"), SFilter("and_not"),
             SFilter("roe"), SFilter("not_roe")}
AllSlices == {Slice(a, b, s) : a \in 0..3, b \in (0..3) \cup {None}, s \in 1..2}
CtxSel == {CFilter("odd", "str"), CFilter("variable", "fn"), CFilter("t", "str"), CFilter("odd", "fn"),
           CRunIf("odd", "inc"), CRunIf("variable", "drop"), CRunIf("t", "dbl")}
AlphaQuick == CtxSel \cup {Map("tag"), Map("inc"), Map("var"), Filter("even"), Filter("none"), Slice(0, 2, 1), Slice(1, None, 2), Slice(1, 3, 2),
               Slice(0, 0, 1), RunIf("even", "inc"), RunIf("lt2", "drop")}
AlphaMid == AlphaQuick \cup {Map("dbl"), Map("tag"), Filter("lt2"), Slice(2, 3, 1), Slice(0, 3, 2), Slice(3, None, 1),
                             RunIf("all", "dbl")}
AlphaFull == AlphaMid \cup AllSlices \cup InnerSeqs \cup Composed \cup Vars1 \cup Composes \cup {WMap("inc", "call"), WMap("dbl", "m"), NMap("none_odd"), NMap("none_all"), NMap("zero_odd"), VarAttr("all"), RunIfDup("odd"), RunIfDup("variable"), VarAttr("run"), VarAttr("fill"), VarAttr("compute"), VarAttr("request"),
              VarAttr("fill_into"), Map("upd"), Filter("all"), RunIf("even", "drop")}
AlphaSmall == {Map("inc"), VarAttr("all"), SFilter("not_even"), Slice(0, 2, 1), Slice(1, 3, 2), RunIfSeq("lt2", SkipFirst),
               CFilter("odd", "str"), SFilter("not_roe"), RunIfDup("odd"), NMap("none_odd")}
AlphaThorough == AlphaSmall \cup {Filter("even"), CFilter("variable", "fn"), NMap("zero_odd"), SFilter("and_not"), RunIf("lt2", "drop"), RunIfSeq("all", <<Slice(0, 1, 1)>>), CRunIf("odd", "inc"), Map("var"), VarAttr("fill"), Map("tag"), CFilter("t", "str")}
AlphaDeep == {TVar(<<Vmm, Vsq>>), Map("inc"), Map("var"), Filter("even"), Slice(0, 2, 1), RunIfSeq("all", <<Slice(0, 1, 1)>>), CFilter("odd", "str"), RunIfDup("odd")}
PostsSmall == {<<>>, <<Map("inc")>>, <<Sum>>}
AccsSmall == {"sum", "store1"}
BufQuick == {1, 2, 3, 1000, None}
BufOne == {2}
PostsQuick == {<<>>, <<Map("inc")>>, <<Filter("even")>>, <<Sum>>}
PostsMid == PostsQuick \cup {<<Map("var"), Slice(0, 1, 1)>>, <<Count>>}
AccsQuick == {"sum", "store1", "last", "sumrun"}
AccsAll == {"sum", "store1", "last", "cnt", "sumrun", "fc_count"}

RECURSIVE Pres(_)
Pres(n) == IF n = 0 THEN {<<>>}
           ELSE LET P == Pres(n - 1) IN P \cup {Append(p, x) : p \in {y \in P : Len(y) = n - 1}, x \in PreAlphabet}
Chains == {c \in {[pre |-> p, acc |-> a, post |-> q] : p \in Pres(MaxPre), a \in Accs, q \in Posts} : WellTyped(c)}
BufAll == (1..(MaxN + 1)) \cup {1000, None}

VARIABLES ch, N, fk, drv, bs, place,   \* scenario
          pos,                         \* values taken from the flow
          locs, aloc,                  \* per pre element state (run side or fill side); accumulator
          buf, active, stopped,        \* Split: current block, branch still active; LenaStopFill seen
          reach, out, computes, stopAt, phase,
          act                          \* name of the action taken last (vacuity census)
vars == <<ch, N, fk, drv, bs, place, pos, locs, aloc, buf, active, stopped, reach, out, computes, stopAt, phase, act>>

xs == FlowOf(N, fk)
Init == /\ ch \in Chains /\ N \in 0..MaxN /\ fk \in FlowKinds /\ drv \in Drivers
        /\ bs \in (IF drv = "split" THEN Bufs ELSE {None})
        /\ place \in (IF drv = "split" THEN Places ELSE {"alone"})
        /\ pos = 0
        /\ locs = [i \in 1..Len(ch.pre) |-> IF drv = "run" THEN InitLoc(ch.pre[i]) ELSE FillLoc(ch.pre[i])]
        /\ aloc = AccInit(ch.acc)
        /\ buf = <<>> /\ active = TRUE /\ stopped = FALSE
        /\ reach = <<>> /\ out = <<>> /\ computes = 0 /\ stopAt = None
        /\ phase = (IF drv = "split" THEN "read" ELSE "feed")
        /\ act = "Init"

Scenario == UNCHANGED <<ch, N, fk, drv, bs, place>>
\* the post elements form a Sequence whatever the driver
Results == SemOp(ch.post, AccCompute(ch.acc, aloc))
\* VarCopy = "per_flow": the value that is the (k+1)-th to pass a Variable behind a composed one finds the shared
\* compose list already extended k times
Stale(v, k) == IF VarCopy = "per_flow" /\ Len(VcOf(v).compose) >= 3
               THEN LET cmp == v.vc.compose IN [v EXCEPT !.vc.compose = cmp \o [j \in 1..k |-> cmp[Len(cmp)]]]
               ELSE v

\* ---- Sequence.run
RunFeed == /\ act' = "RunFeed" /\ drv = "run" /\ phase = "feed" /\ pos < N
           /\ LET r == FeedVals(ch.pre, locs, 1, <<xs[pos + 1]>>)
                  got == [j \in 1..Len(r.reach) |-> Stale(r.reach[j], pos)] IN
              /\ locs' = r.locs /\ aloc' = AccFillAll(ch.acc, aloc, got) /\ reach' = reach \o got
           /\ pos' = pos + 1
           /\ Scenario /\ UNCHANGED <<buf, active, stopped, out, computes, stopAt, phase>>
\* Run(acc): fill ... compute, unless the object handed to Sequence shows a run method of its own
RunEof == /\ act' = "RunEof" /\ drv = "run" /\ phase = "feed" /\ pos = N
          /\ out' = (IF AccRunBind(ch.acc) = "fill_then_compute" THEN Results ELSE SemOp(ch.post, AccOwnRun(ch.acc, reach)))
          /\ computes' = computes + 1 /\ phase' = "done"
          /\ Scenario /\ UNCHANGED <<pos, locs, aloc, buf, active, stopped, reach, stopAt>>

\* ---- FillComputeSeq / FillSeq filled value by value
FillValue == /\ act' = "FillValue" /\ drv = "fill" /\ phase = "feed" /\ pos < N /\ ~stopped
             /\ LET r == FillVals(ch.pre, locs, 1, <<xs[pos + 1]>>) IN
                /\ locs' = r.locs /\ aloc' = AccFillAll(ch.acc, aloc, r.reach) /\ reach' = reach \o r.reach
                /\ stopped' = r.stop /\ stopAt' = (IF r.stop THEN pos ELSE None)
             /\ pos' = pos + 1
             /\ Scenario /\ UNCHANGED <<buf, active, out, computes, phase>>
FillCompute == /\ act' = "FillCompute" /\ drv = "fill" /\ phase = "feed" /\ (pos = N \/ stopped)
               /\ out' = Results /\ computes' = computes + 1 /\ phase' = "done"
               /\ Scenario /\ UNCHANGED <<pos, locs, aloc, buf, active, stopped, reach, stopAt>>

\* ---- FillComputeSeq that is filled with every value although LenaStopFill was raised, and computed twice
PersistValue == /\ act' = "PersistValue" /\ drv = "persist" /\ phase = "feed" /\ pos < N
                /\ LET r == FillVals(ch.pre, locs, 1, <<xs[pos + 1]>>) IN
                   /\ locs' = r.locs /\ aloc' = AccFillAll(ch.acc, aloc, r.reach) /\ reach' = reach \o r.reach
                   /\ stopped' = (stopped \/ r.stop) /\ stopAt' = (IF r.stop /\ ~stopped THEN pos ELSE stopAt)
                /\ pos' = pos + 1
                /\ Scenario /\ UNCHANGED <<buf, active, out, computes, phase>>
PersistCompute == /\ act' = "PersistCompute" /\ drv = "persist" /\ phase = "feed" /\ pos = N
                  /\ out' = Results /\ computes' = computes + 1 /\ phase' = "done"
                  /\ Scenario /\ UNCHANGED <<pos, locs, aloc, buf, active, stopped, reach, stopAt>>
ComputeAgain == /\ act' = "ComputeAgain" /\ drv = "persist" /\ phase = "done" /\ Recomputable(ch)
                /\ out' = Results /\ phase' = "done2"
                /\ Scenario /\ UNCHANGED <<pos, locs, aloc, buf, active, stopped, reach, computes, stopAt>>

\* ---- Split.run with the chain as its only branch
SplitRead == /\ act' = "SplitRead" /\ drv = "split" /\ phase = "read"
             /\ LET k == IF bs = None THEN N - pos ELSE Min(bs, N - pos) IN
                IF k = 0 THEN phase' = "final" /\ UNCHANGED <<buf, pos>>
                ELSE /\ buf' = SubSeq(xs, pos + 1, pos + k) /\ pos' = pos + k /\ phase' = "fill"
             /\ Scenario /\ UNCHANGED <<locs, aloc, active, stopped, reach, out, computes, stopAt>>
\* the values of the block are filled until LenaStopFill
RECURSIVE FillBlock(_, _, _)
FillBlock(pre, l, vs) ==
  IF vs = <<>> THEN [locs |-> l, reach |-> <<>>, stop |-> FALSE, n |-> 0]
  ELSE LET r == FillVals(pre, l, 1, <<Head(vs)>>) IN
       IF r.stop THEN [locs |-> r.locs, reach |-> r.reach, stop |-> TRUE, n |-> 0]
       ELSE LET rest == FillBlock(pre, r.locs, Tail(vs)) IN
            [locs |-> rest.locs, reach |-> r.reach \o rest.reach, stop |-> rest.stop, n |-> rest.n + 1]
\* what the chain's branch is given: the block itself or a deep copy of it - equal values; with one shared
\* copy a branch that is neither first nor last sees what the sibling before it did to the contexts in place
Touched(v) == IF v.h THEN [v EXCEPT !.c = @ \cup {"variable"}] ELSE v
Given(blk) == IF CopyMode = "shared" /\ place = "middle" THEN [j \in 1..Len(blk) |-> Touched(blk[j])] ELSE blk
\* the sibling S listed before the chain raises LenaStopFill in the block that holds the value with index SibStop
SibStop == 1
SiblingStopsInBlock == place = "afterstop" /\ N > SibStop /\ pos - Len(buf) <= SibStop /\ SibStop < pos
SplitFill == /\ act' = "SplitFill" /\ drv = "split" /\ phase = "fill"
             /\ IF ~active THEN UNCHANGED <<locs, aloc, reach, stopped, active, out, computes, stopAt>>
                ELSE LET r == FillBlock(ch.pre, locs, Given(buf))
                         a2 == AccFillAll(ch.acc, aloc, r.reach)
                         \* with a flag shared by the block a stop of the sibling before counts for this branch too
                         gone == r.stop \/ (StopFlag = "per_buffer" /\ SiblingStopsInBlock) IN
                     /\ locs' = r.locs /\ aloc' = a2 /\ reach' = reach \o r.reach
                     /\ stopped' = r.stop /\ active' = ~gone
                     /\ stopAt' = (IF r.stop THEN pos - Len(buf) + r.n ELSE None)
                     /\ IF gone THEN /\ out' = SemOp(ch.post, AccCompute(ch.acc, a2)) /\ computes' = computes + 1
                        ELSE UNCHANGED <<out, computes>>
             /\ phase' = "read"
             /\ Scenario /\ UNCHANGED <<pos, buf>>
SplitEnd == /\ act' = "SplitEnd" /\ drv = "split" /\ phase = "final"
            /\ IF active THEN out' = Results /\ computes' = computes + 1 ELSE UNCHANGED <<out, computes>>
            /\ phase' = "done"
            /\ Scenario /\ UNCHANGED <<pos, locs, aloc, buf, active, stopped, reach, stopAt>>

Next == RunFeed \/ RunEof \/ FillValue \/ FillCompute \/ PersistValue \/ PersistCompute \/ ComputeAgain
           \/ SplitRead \/ SplitFill \/ SplitEnd
Spec == Init /\ [][Next]_vars
Done == phase \in {"done", "done2"}

(***************************************************************************)
(* Properties.                                                             *)
(***************************************************************************)
\* every driver yields the declarative result, hence all drivers agree, for every bufsize
DriversAgree == Done => out = ChainSem(ch, xs)
\* the accumulator receives exactly what the pre elements let through
FillReaches == Done => reach = Reach(ch, xs)
\* LenaStopFill is raised only when no later value could reach the accumulator, and it is final: the accumulator
\* has then received everything it will ever receive (the call that raised may itself have delivered values:
\* an element can yield several values for one), whatever is filled afterwards (driver "persist")
StopSound == stopped => reach = Reach(ch, xs)
\* the accumulator computes exactly once (Split: at once when the branch stops, else at the end)
ComputeOnce == /\ computes <= 1
               /\ Done => computes = 1
               /\ (drv = "split" /\ stopped) => computes = 1
\* a Compose is its variables one after the other (first pre element split into single variables)
Unfold(vs) == [j \in 1..Len(vs) |-> TVar(<<vs[j]>>)]
ComposeAsSequence == (Done /\ ch.pre # <<>> /\ ch.pre[1].t = "tvar") =>
     out = ChainSem([ch EXCEPT !.pre = Unfold(ch.pre[1].vars) \o Tail(ch.pre)], xs)
\* an adapter object shows the interface of its kind, whatever the wrapped element has
AdaptersHide == \A a \in AT!Adapters : \A c \in {AmbCaps, CountCaps, SumCaps, AT!NoCaps} : Seen(a, c) = AT!Interface(a)
\* Split holds at most one block
BufBound == bs # None => Len(buf) <= bs

\* vacuity census (cheaper than TLC's -coverage): prints the action that led to each state
Census == PrintT(<<"ACT", act>>)
Emitted == (phase = "done" /\ drv = "fill") =>
   PrintT(ToJson([ch |-> ch, N |-> N, fk |-> fk, out |-> out, reach |-> reach, stopAt |-> stopAt]))
=============================================================================
