"""Binding of spec/StaticSem.tla / StaticContext.tla to the real lena static-context machinery.

A tree is the list `els` of the spec (construction order, ids are 1-based indices):
    {"k": kind, "p": key path, "v": {"t": "int"|"str"|"fmt", "toks": [...]}, "ch": [ids]}
kinds: set store ucfs mf write cache data acc | seq src split.

build()    constructs the real objects in the same order as the machine (inside-out, left to right)
observe()  projects the real objects onto the observables of the specification, using public
           behaviour only: StoreContext.context, the run-time context an UpdateContextFromStatic
           produces for (0, {}), the name MakeFilename gives to (0, {}), Write.output_directory,
           the file name in repr(Cache), _get_context() of every Sequence/Source/Split (the hook
           the static-context protocol itself is made of), contexts that leave the pipeline
enc()/dec() translate between Python dictionaries and the Leaf/Dict records of DESIGN.md 3.1.
"""
import re

from .util import exc_name


# ------------------------------------------------------------------ encoding
def dec(v):
    """spec value -> Python (Dict -> dict, Leaf -> int / str)."""
    if v["k"] == "D":
        m = v["m"] or {}
        return dict((key, dec(x)) for key, x in m.items())
    s = "".join(v["s"])
    if v["t"] == "none":
        return None
    return int(s) if v["t"] == "int" else s


def prune(d):
    """Remove empty sub-dictionaries (an empty nested dictionary carries no item)."""
    if not isinstance(d, dict):
        return d
    out = {}
    for key, x in d.items():
        x = prune(x)
        if isinstance(x, dict) and not x:
            continue
        out[key] = x
    return out


def enc(x):
    """Python -> spec value.  Anything outside the modelled universe becomes a leaf of type
    'other' that no specification value equals."""
    if isinstance(x, dict):
        if not all(isinstance(key, str) for key in x):
            return {"k": "L", "t": "other", "s": [repr(x)], "m": {}}
        return {"k": "D", "t": "", "s": [], "m": dict((key, enc(v)) for key, v in x.items())}
    if isinstance(x, bool):
        return {"k": "L", "t": "other", "s": [repr(x)], "m": {}}
    if x is None:
        return {"k": "L", "t": "none", "s": list("None"), "m": {}}
    if isinstance(x, int) and 0 <= x <= 9:
        return {"k": "L", "t": "int", "s": [str(x)], "m": {}}
    if isinstance(x, str):
        return {"k": "L", "t": "str", "s": list(x), "m": {}}
    return {"k": "L", "t": "other", "s": [repr(x)], "m": {}}


def template(v):
    """Template record -> the Python argument (int, plain string or formatting string)."""
    out = []
    for tok in v["toks"]:
        out.append("{{" + ".".join(tok["p"]) + "}}" if tok["f"] else tok["l"])
    s = "".join(out)
    if v["t"] == "none":
        return None
    return int(s) if v["t"] == "int" else s


NODE_KINDS = ("seq", "src", "srcf", "split")
MF_KINDS = ("mf", "mfd", "mfe")
MF_FIELD = {"mf": "filename", "mfd": "dirname", "mfe": "fileext"}


def fields(v):
    return [tok["p"] for tok in v["toks"] if tok["f"]]


def sig(els, i=None):
    """Compact rendering of the (sub)tree, e.g. Seq(ka=1,MF({{ka}}_{{kb}}),kb=2)."""
    if i is None:
        i = len(els)
    e = els[i - 1]
    k = e["k"]
    if k == "set":
        t = template(e["v"])
        return "%s=%s" % (".".join(e["p"]), repr(t) if isinstance(t, str) else t)
    if k in ("mf", "mfd", "mfe", "write", "cache"):
        return "%s(%s)" % ({"mf": "MF", "mfd": "MFdir", "mfe": "MFext", "write": "Write", "cache": "Cache"}[k],
                           template(e["v"]))
    if k in NODE_KINDS:
        name = {"seq": "Seq", "src": "Src", "srcf": "SrcF", "split": "Split"}[k]
        return "%s(%s)" % (name, ",".join(sig(els, c) for c in e["ch"]))
    return {"store": "Store", "ucfs": "UCFS", "data": "data", "acc": "Sum"}[k]


def parents(els):
    par = {}
    for n, e in enumerate(els, 1):
        for c in e["ch"]:
            par[c] = n
    return par


# ------------------------------------------------------------------ real objects
DEFAULT_VIN = ({"rt": 0}, {"rt": 1})


def values_of(vin=None):
    """The callable that generates the incoming values: data 0 with a fresh copy of each of the
    run-time contexts *vin* (by default {"rt": 0}, {"rt": 1})."""
    import copy
    ctxs = DEFAULT_VIN if vin is None else tuple(vin)

    def values():
        for c in ctxs:
            yield (0, copy.deepcopy(c))
    return values


two_values = values_of()


def ident(val):
    return val


BARE_BRANCH = ("data", "ucfs", "mf", "mfd", "mfe")
DOWNGRADED = {"split_branches_unknown": 0, "cache_repr_unparsed": 0}


class ConstructFailed(Exception):
    """A lena constructor (or a _get_context() requested right after it) raised: *exc*.
    Anything else that goes wrong in build() is the harness's own fault and propagates as it is."""

    def __init__(self, exc):
        Exception.__init__(self, repr(exc))
        self.exc = exc


def _lena(fn, *args, **kwargs):
    """Call a lena constructor; only its exceptions are attributed to lena."""
    try:
        return fn(*args, **kwargs)
    except Exception as exc:     # noqa
        raise ConstructFailed(exc)


def build(els, tuples=False, peek=0, vin=None):
    """Construct the real objects; objs[i-1] is the object of id i.
    vin = run-time contexts of the values a Source generates (see values_of).

    tuples=True selects the alternative spellings of the same tree: a Sequence branch of a Split is
    given as a tuple (Split makes the Sequence), a one-element branch as the bare element (Split
    wraps it), and the callable of a Source comes after its leading SetContext / StoreContext
    elements (Source(SetContext(..), callable, ...)).
    peek = id of a node whose _get_context() is requested right after it is built (before it is
    placed in its parent); the request must not change anything."""
    import lena.core
    import lena.flow
    import lena.math
    import lena.output
    from lena.meta.elements import SetContext, StoreContext, UpdateContextFromStatic
    par = parents(els)
    objs = []
    two_values = values_of(vin)
    for n, e in enumerate(els, 1):
        k = e["k"]
        if k == "set":
            o = _lena(SetContext, ".".join(e["p"]), template(e["v"]))
        elif k == "store":
            o = _lena(StoreContext)
        elif k == "ucfs":
            o = _lena(UpdateContextFromStatic)
        elif k == "mf":
            o = _lena(lena.output.MakeFilename, template(e["v"]))
        elif k == "mfd":
            o = _lena(lena.output.MakeFilename, dirname=template(e["v"]))
        elif k == "mfe":
            o = _lena(lena.output.MakeFilename, fileext=template(e["v"]))
        elif k == "write":
            o = _lena(lena.output.Write, template(e["v"]), verbose=False)
        elif k == "cache":
            o = _lena(lena.flow.Cache, template(e["v"]))
        elif k == "data":
            o = ident
        elif k == "acc":
            o = _lena(lena.math.Sum)
        elif k == "seq":
            ch = [objs[c - 1] for c in e["ch"]]
            if (tuples and n in par and els[par[n] - 1]["k"] == "split"
                    and not any(els[c - 1]["k"] == "split" for c in e["ch"])):
                # Split turns a tuple into a Sequence itself (a tuple that ends with a
                # fill/compute Split would become a FillComputeSeq instead: not used);
                # a single run-time element is handed over bare
                if len(ch) == 1 and els[e["ch"][0] - 1]["k"] in BARE_BRANCH:
                    o = ch[0]
                else:
                    o = tuple(ch)
            else:
                o = _lena(lena.core.Sequence, *ch)
        elif k == "src":
            ch = [objs[c - 1] for c in e["ch"]]
            lead = 0
            if tuples:
                while lead < len(ch) and els[e["ch"][lead] - 1]["k"] in ("set", "store"):
                    lead += 1
            o = _lena(lena.core.Source, *(ch[:lead] + [two_values] + ch[lead:]))
        elif k == "srcf":
            # the flow comes from the first data element (a Source or a Split of Sources)
            o = _lena(lena.core.Source, *[objs[c - 1] for c in e["ch"]])
        elif k == "split":
            o = _lena(lena.core.Split, [objs[c - 1] for c in e["ch"]])
            if tuples:
                # the Sequence objects Split made out of tuples are the branch objects.  They are
                # only reachable through a private attribute: if it is not there (or does not
                # fit) the tuple branches are simply not observed (coverage downgraded)
                real_seqs = getattr(o, "_seqs", None)
                if isinstance(real_seqs, (list, tuple)) and len(real_seqs) == len(e["ch"]):
                    for c, real in zip(e["ch"], real_seqs):
                        objs[c - 1] = real
                else:
                    DOWNGRADED["split_branches_unknown"] += 1
        else:
            raise ValueError(k)
        if n == peek and hasattr(o, "_get_context"):
            try:
                o._get_context()
            except lena.core.LenaKeyError:
                pass
            except Exception as exc:     # noqa
                raise ConstructFailed(exc)
        objs.append(o)
    return objs


_CACHE_RE = re.compile(r'^Cache\("([^"]*)"')


def observe_element(kind, o):
    """Observation of one object through public behaviour: {"ctx": ..} | {"name": ..} |
    {"ok": ..}; {"raised": ..} when the lena call itself raised; {"skip": True} when the harness
    can not observe it (never a violation)."""
    import lena.core
    import lena.flow
    if kind in NODE_KINDS:
        if isinstance(o, tuple) or not hasattr(o, "_get_context"):
            return {"skip": True}
        try:
            c = o._get_context()
        except lena.core.LenaKeyError as exc:
            return {"ok": False, "exc": "LenaKeyError", "msg": str(exc)}
        except Exception as exc:     # noqa
            return {"ok": False, "exc": exc_name(exc), "msg": str(exc)}
        return {"ok": True, "ctx": prune(c)}
    if kind == "cache":
        try:
            text = repr(o)
        except Exception as exc:     # noqa
            return {"raised": exc_name(exc), "msg": str(exc)[:200]}
        m = _CACHE_RE.match(text)
        if not m:
            DOWNGRADED["cache_repr_unparsed"] += 1
            return {"skip": True}
        return {"name": m.group(1)}
    if kind not in ("store", "ucfs", "write") + MF_KINDS:
        return {}
    try:        # the lena call
        if kind == "store":
            raw = o.context
        elif kind == "ucfs":
            raw = list(o.run(iter([(0, {})])))
        elif kind == "write":
            raw = o.output_directory
        else:
            raw = o((0, {}))
    except Exception as exc:     # noqa
        return {"raised": exc_name(exc), "msg": str(exc)[:200]}
    # the harness's own projection
    if kind == "store":
        return {"ctx": prune(raw)}
    if kind == "ucfs":
        return {"ctx": prune(lena.flow.get_context(raw[0]))}
    if kind == "write":
        return {"name": raw}
    c = lena.flow.get_context(raw)
    return {"name": c.get("output", {}).get(MF_FIELD[kind]) if isinstance(c, dict) else None}


def run_root(els, objs, vin=None):
    """Contexts of the values that leave the pipeline for the incoming values
    (0, c) for c in vin (by default (0, {"rt": 0}), (0, {"rt": 1}))."""
    import lena.flow
    root = objs[-1]
    if els[-1]["k"] in ("src", "srcf"):
        out = list(root())
    else:
        out = list(root.run(values_of(vin)()))
    return [prune(lena.flow.get_context(v)) for v in out]


def observe(els, objs, run=True, vin=None):
    """Observations of every object, then (optionally) the values are run through the root and
    everything is observed again: running the pipeline must not change what the elements hold
    (changed = [(id, before, after)]) - whatever run-time contexts the values carry."""
    obs = [observe_element(e["k"], o) for e, o in zip(els, objs)]
    rt = None
    changed = []
    if run and exact_runtime(els):
        try:
            rt = run_root(els, objs, vin)
        except Exception as exc:     # noqa
            rt = "raised " + exc_name(exc) + ": " + str(exc)[:200]
        again = [observe_element(e["k"], o) for e, o in zip(els, objs)]
        changed = [(i, a, b) for i, (a, b) in enumerate(zip(obs, again), 1) if a != b]
        # the file a (single) Cache wrote carries the name the element reports
        if isinstance(rt, list):
            import os
            for i, (e, o) in enumerate(zip(els, obs), 1):
                if e["k"] == "cache" and "name" in o and not os.path.exists(o["name"]):
                    changed.append((i, {"name": o["name"]}, {"files": sorted(os.listdir("."))}))
    return obs, rt, changed


# ------------------------------------------------------------------ comparison with one expectation
def _contains(big, small):
    """small is a sub-dictionary of big (recursively)."""
    if not isinstance(big, dict) or not isinstance(small, dict):
        return big == small and type(big) is type(small)
    return all(key in big and _contains(big[key], v) for key, v in small.items())


def _same(a, b):
    """Equality that keeps 1 and '1' (and True) apart, as Python == on contexts does for the
    modelled values."""
    if isinstance(a, dict) and isinstance(b, dict):
        return set(a) == set(b) and all(_same(a[key], b[key]) for key in a)
    return type(a) is type(b) and a == b


def render(v, c):
    """Own rendering of a template against a Python dictionary (diagnosis only)."""
    out = []
    for tok in v["toks"]:
        if tok["f"]:
            x = c
            for key in tok["p"]:
                if not isinstance(x, dict) or key not in x:
                    return None
                x = x[key]
            out.append(str(x))
        else:
            out.append(tok["l"])
    return "".join(out)


def _what(observed, expected, late=()):
    if any(_same(observed, x) for x in late):
        return "of-later-position"    # exactly what a later position of the same sequence receives
    if _contains(observed, expected):
        return "extra"       # observed has everything expected plus more
    if _contains(expected, observed):
        return "missing"
    return "differs"


def key_words(msg):
    return set(re.findall(r"[A-Za-z_][A-Za-z_0-9]*", msg))


def compare(els, exp, obs, rt):
    """Mismatches between the observations and one expectation record of the specification.

    Returns a list of (kind, what, parent kind, element id, expected, observed)."""
    par = parents(els)
    bad = []
    used_other_key = 0
    for i, (e, x0, o) in enumerate(zip(els, exp["obs"], obs), 1):
        # object sharing: an object placed at several positions has one expectation per position
        # (alt); what the one object holds must be what the fold gives one of its positions (free
        # if one of them lies behind an unresolved key).  An object placed once has one.
        alts = x0.get("alt") or [x0]
        if len(alts) > 1 and any(a["free"] for a in alts):
            continue
        res = [_compare_one(els, par, i, e, dict(a, late=x0.get("late", ())), o) for a in alts]
        best = min(res, key=lambda r: len(r[0]))
        bad.extend(best[0] if len(alts) == 1 else
                   [(k, what + "-at-every-position", pk, j, want, got) for (k, what, pk, j, want, got) in best[0]])
        used_other_key += best[1]
    return _compare_runtime(els, exp, rt, bad, used_other_key)


def _compare_one(els, par, i, e, x, o):
    """One object against one expectation: (mismatches, other unresolved key named)."""
    bad = []
    used_other_key = 0
    if True:
        k = e["k"]
        pk = els[par[i] - 1]["k"] if i in par else "root"
        if not o or o.get("skip"):
            return bad, used_other_key
        if o.get("raised"):
            bad.append((k, "observation-raised-" + o["raised"], pk, i, None, o.get("msg")))
            return bad, used_other_key
        if x["free"]:
            return bad, used_other_key
        if k in ("store", "ucfs"):
            want = prune(dec(x["ctx"]))
            if not _same(o["ctx"], want):
                late = [prune(dec(c)) for c in x.get("late", ())]
                bad.append((k, "context-" + _what(o["ctx"], want, late), pk, i, want, o["ctx"]))
        elif k in MF_KINDS:
            want = "".join(x["s"]) if x["ok"] else None
            if o["name"] != want:
                late = [render(e["v"], prune(dec(c))) for c in x.get("late", ())]
                what = "extra" if want is None else ("missing" if o["name"] is None else "differs")
                if o["name"] is not None and o["name"] in late:
                    what = "of-later-position"
                bad.append((k, "name-" + what, pk, i, want, o["name"]))
        elif k in ("write", "cache"):
            if x["ok"]:
                want = "".join(x["s"])
                if o["name"] != want:
                    late = [render(e["v"], prune(dec(c))) for c in x.get("late", ())]
                    what = "missing" if "{" in str(o["name"]) else "differs"
                    if o["name"] in late:
                        what = "of-later-position"
                    bad.append((k, "name-" + what, pk, i, want, o["name"]))
        elif k in NODE_KINDS:
            if x["ok"]:
                want = prune(dec(x["ctx"]))
                if not o["ok"]:
                    bad.append((k, "get_context-raised-" + o["exc"], pk, i, want, o["msg"]))
                elif not _same(o["ctx"], want):
                    bad.append((k, "get_context-" + _what(o["ctx"], want), pk, i, want, o["ctx"]))
            else:
                if o["ok"]:
                    bad.append((k, "unresolved-key-not-surfaced", pk, i, "LenaKeyError(%s)" % x["key"], o["ctx"]))
                elif o["exc"] != "LenaKeyError":
                    bad.append((k, "unresolved-key-raises-" + o["exc"], pk, i, "LenaKeyError(%s)" % x["key"], o["msg"]))
                else:
                    words = key_words(o["msg"])
                    # the message must name a key that is unresolvable below this node: the first
                    # one, or (the statement does not say which when several are) another one
                    if x["key"] not in words:
                        if words & set(x.get("un", ())):
                            used_other_key += 1
                        else:
                            bad.append((k, "unresolved-key-not-named", pk, i, sorted(x.get("un", ())), o["msg"]))
    return bad, used_other_key


def _compare_runtime(els, exp, rt, bad, used_other_key):
    if rt is not None:
        has_ucfs = any(e["k"] == "ucfs" for e in els)
        if isinstance(rt, str):
            bad.append(("runtime", "raised", els[-1]["k"], len(els), None, rt))
        else:
            vin = vin_of(exp)
            if not has_ucfs:
                # a value leaves with the context it came with (MakeFilename adds to "output" only)
                came = set(_canon(_noout(c)) for c in vin) | set([_canon({})])
                leaked = [c for c in rt if _canon(_noout(c)) not in came]
                if leaked:
                    bad.append(("runtime", "static-key-leaked", els[-1]["k"], len(els), "no static key", leaked))
            if exp["noerr"] and exact_runtime(els):
                # one list per reading of "the run-time context has higher precedence" (nested
                # dictionaries replaced or merged); where they agree there is one
                wants = [[prune(dec(c)) for c in alt] for alt in [exp["rt"]] + ([exp["rtm"]] if exp.get("rtm") else [])]
                # order and multiplicity of the values belong to C01/C03: compare as sets
                a = sorted(set(_canon(c) for c in rt))
                if not any(a == sorted(set(_canon(c) for c in want)) for want in wants):
                    bad.append(("runtime", "contexts", els[-1]["k"], len(els), wants[0], rt))
    return bad, used_other_key


def vin_of(exp):
    """Run-time contexts of the incoming values of an expectation record (Python dictionaries)."""
    return [dec(c) for c in exp["vin"]] if exp.get("vin") else [dict(c) for c in DEFAULT_VIN]


def _noout(c):
    return prune(dict((key, v) for key, v in c.items() if key != "output")) if isinstance(c, dict) else c


def exact_runtime(els):
    """Two Cache elements may name the same file and then feed or block each other (that is
    C18's subject): a pipeline with more than one Cache is not run."""
    return sum(1 for e in els if e["k"] == "cache") <= 1


def _canon(c):
    import json
    return json.dumps(_typed(c), sort_keys=True)


def _typed(c):
    if isinstance(c, dict):
        return dict((key, _typed(v)) for key, v in c.items())
    return [type(c).__name__, c]


def subtree(els, n):
    out = [n]
    for c in els[n - 1]["ch"]:
        out.extend(subtree(els, c))
    return out


# ------------------------------------------------------------------ recording for the trace spec
def record(els, obs, rt, stable=True, vin=None, gen=1):
    """Observations in the vocabulary of Trace_StaticContext.tla (homogeneous records)."""
    rows = []
    for e, o in zip(els, obs):
        row = {"has": False, "ctx": enc({}), "ok": True, "name": [], "noname": True, "exc": "", "words": []}
        k = e["k"]
        if o and not o.get("skip") and not o.get("raised"):
            row["has"] = True
            if k in ("store", "ucfs"):
                row["ctx"] = enc(o["ctx"])
            elif k in ("mf", "mfd", "mfe", "write", "cache"):
                if o["name"] is not None:
                    row["name"] = list(o["name"]) if k in MF_KINDS else _name_tokens(o["name"])
                    row["noname"] = False
            elif k in NODE_KINDS:
                row["ok"] = o["ok"]
                if o["ok"]:
                    row["ctx"] = enc(o["ctx"])
                else:
                    row["exc"] = o["exc"]
                    row["words"] = sorted(key_words(o["msg"]))
            else:
                row["has"] = False
        rows.append(row)
    return {"els": els, "obs": rows,
            "ran": rt is None or isinstance(rt, list),
            "rtx": isinstance(rt, list),
            "stable": bool(stable),
            "rt": [enc(c) for c in rt] if isinstance(rt, list) else [],
            "vin": [enc(c) for c in (DEFAULT_VIN if vin is None else vin)],
            "gen": gen,
            "only": 0}


def _name_tokens(name):
    """Names are compared as character sequences; the literal '.pkl' is one token of the spec."""
    name = str(name)
    if name.endswith(".pkl"):
        return list(name[:-4]) + [".pkl"]
    return list(name)
