"""Helpers shared by the C09 / C04 checks: one TLC run that both checks the invariants and exports the
behaviours (quick tier), and an order-preserving parallel map for replaying exported behaviours on the real
code (the replays are independent of each other; results are merged deterministically by the caller)."""
import hashlib
import multiprocessing
import os

from . import core


def plain(obj):
    """JSON-safe copy of a findings dictionary (what ctx.violation would store anyway): picklable."""
    import json
    return json.loads(core.canon(obj))


def case_hash(scenario):
    return hashlib.md5(core.canon(scenario).encode()).hexdigest()


def add_cases(ctx, cases):
    """cases: [(hash, nontrivial)] computed by the workers; same bookkeeping as ctx.case"""
    ctx.evaluations += len(cases)
    ctx.traces += len(cases)
    for h, nontrivial in cases:
        if nontrivial:
            ctx.distinct.add(h)


def nprocs():
    return max(1, int(os.environ.get("VERIF_REPLAY_PROCS", min(8, multiprocessing.cpu_count()))))


def pmap(fn, items, chunksize=None):
    """[fn(x) for x in items] computed by forked workers (fn: module-level function, small results)."""
    items = list(items)
    n = nprocs()
    if n == 1 or len(items) < 64:
        return [fn(x) for x in items]
    if chunksize is None:
        chunksize = max(1, len(items) // (n * 8))
    pool = multiprocessing.get_context("fork").Pool(n)
    try:
        return pool.map(fn, items, chunksize)
    finally:
        pool.close()
        pool.join()


def mc_and_export(ctx, module, cfg, must_cover=(), min_records=1, timeout=3000, coverage=True, workers=1):
    """One TLC run (one worker, coverage on) whose config lists the invariants *and* the emitting
    invariant: the design-level check and the export of the behaviours at once.
    coverage=False: TLC's coverage statistics are not collected (the caller guards against vacuity itself);
    several workers may then be used, the records are returned in a canonical order."""
    res = core.run_tlc(module, cfg, ctx.workdir, workers=workers, coverage=coverage, timeout=timeout)
    ctx._account("mc+export", module, cfg, res)
    if res.exit != 0:
        raise core.MachineryError("TLC %s/%s failed (exit %s, violated %s):\n%s" % (
            module, cfg, res.exit, res.violated, res.out[-3000:]))
    for a in must_cover:
        if res.coverage.get(a, 0) == 0:
            raise core.MachineryError("vacuous model: action %s of %s/%s never taken" % (a, module, cfg))
    if len(res.records) < min_records:
        raise core.MachineryError("TLC export %s/%s produced %d records" % (module, cfg, len(res.records)))
    if workers > 1:
        res.records.sort(key=core.canon)
    return res.records
