"""Shared machinery: TLC runner, export/trace plumbing, evidence, violations.

Every check is a function run(ctx) in lenaverif/props/<id>.py.  It uses

  ctx.mc(module, cfg)                 exhaustive / simulate TLC run of a spec (design level)
  ctx.export(module, cfg)             TLC run whose PrintT(ToJson(..)) lines are returned as
                                      Python objects (spec -> code behaviours, "S2C")
  ctx.validate(module, cfg, records)  records observed on the real code are written to a JSON
                                      file and checked by a Trace_* spec ("C2S")
  ctx.violation(key, detail)          report a property violation (matched against
                                      known_findings.json)
  ctx.cover(...)                      bookkeeping for the evidence file
"""
from __future__ import print_function

import hashlib
import json
import os
import re
import shutil
import subprocess
import sys
import tempfile
import time

VERIF = os.path.dirname(os.path.dirname(os.path.abspath(__file__)))
SPEC = os.path.join(VERIF, "spec")
BUILD = os.path.join(VERIF, "build")
TLA_JAR = "/opt/veriftools/tla/tla2tools.jar"
TLA_DEPS = "/opt/veriftools/tla/CommunityModules-deps.jar"


class MachineryError(Exception):
    """The verification machinery itself failed (exit code 2)."""


def canon(obj):
    return json.dumps(obj, sort_keys=True, default=repr)


class TLCResult(object):
    def __init__(self):
        self.generated = 0
        self.distinct = 0
        self.exit = None
        self.out = ""
        self.records = []
        self.violated = None     # name of violated invariant / property
        self.coverage = {}       # action name -> count
        self.wall = 0.0
        self.diameter = None


_STATS_RE = re.compile(r"(\d+) states generated, (\d+) distinct states found")
_INV_RE = re.compile(r"Error: Invariant (\S+) is violated")
_PROP_RE = re.compile(r"Error: (?:Action|Temporal) property (\S+) (?:is|was) violated")
_COV_RE = re.compile(r"^<(\w+) line \d+, col \d+ to line \d+, col \d+ of module (\w+)>: (\d+):(\d+)")
_DEPTH_RE = re.compile(r"The depth of the complete state graph search is (\d+)")


def run_tlc(module, cfg, workdir, workers=1, simulate=None, depth=None,
            coverage=False, env=None, timeout=3600, extra=(), seed=None,
            dfs=False):
    """Run TLC on spec/<module>.tla with config spec/<cfg> (or absolute path)."""
    res = TLCResult()
    meta = tempfile.mkdtemp(prefix="meta_", dir=workdir)
    cfgpath = cfg if os.path.isabs(cfg) else os.path.join(SPEC, cfg)
    modpath = module if os.path.isabs(module) else os.path.join(SPEC, module + ".tla")
    # bounded heap: several TLC instances may run side by side (default would be 1/4 of RAM each)
    jopts = ["-XX:+UseParallelGC", "-Xss16m", "-Xmx" + os.environ.get("VERIF_XMX", "8g"), "-DTLA-Library=" + SPEC]
    if dfs:
        jopts.append("-Dtlc2.tool.queue.IStateQueue=StateDeque")
    cmd = ["java"] + jopts + ["-cp", TLA_JAR + ":" + TLA_DEPS, "tlc2.TLC",
           "-metadir", meta, "-noGenerateSpecTE", "-config", cfgpath,
           "-workers", str(workers)]
    if simulate is not None:
        cmd += ["-simulate", "num=%d" % simulate]
        if depth:
            cmd += ["-depth", str(depth)]
        if seed is not None:
            cmd += ["-seed", str(seed)]
    if coverage:
        cmd += ["-coverage", "1"]
    cmd += list(extra)
    cmd.append(modpath)
    e = dict(os.environ)
    e.pop("JAVA_TOOL_OPTIONS", None)
    if env:
        e.update(env)
    t0 = time.time()
    try:
        for attempt in range(4):
            try:
                p = subprocess.run(cmd, cwd=os.path.dirname(modpath), env=e, stdout=subprocess.PIPE,
                                   stderr=subprocess.STDOUT, timeout=timeout)
                out = p.stdout.decode("utf-8", "replace")
                res.exit = p.returncode
            except subprocess.TimeoutExpired as exc:
                out = (exc.stdout or b"").decode("utf-8", "replace")
                res.exit = -9
            # the JVM itself could not start or was killed (memory pressure while other checks run):
            # TLC never got to parse the spec - try again rather than report a machinery failure
            if res.exit in (0, -9) or "TLC2 Version" in out:
                break
            time.sleep(5 * (attempt + 1))
    finally:
        shutil.rmtree(meta, ignore_errors=True)
    res.wall = time.time() - t0
    res.out = out
    for line in out.splitlines():
        m = _STATS_RE.search(line)
        if m:
            res.generated, res.distinct = int(m.group(1)), int(m.group(2))
        m = _INV_RE.search(line)
        if m:
            res.violated = m.group(1)
        m = _PROP_RE.search(line)
        if m:
            res.violated = m.group(1)
        m = _COV_RE.match(line)
        if m:
            res.coverage[m.group(1)] = res.coverage.get(m.group(1), 0) + int(m.group(4))
        m = _DEPTH_RE.search(line)
        if m:
            res.diameter = int(m.group(1))
        if line.startswith('"{') or line.startswith('"['):
            try:
                res.records.append(json.loads(json.loads(line)))
            except ValueError:
                pass
    return res


class Ctx(object):
    def __init__(self, pid, tier, seed, replay=None):
        self.pid = pid
        self.tier = tier
        self.seed = seed
        self.replay = replay
        self.t0 = time.time()
        self.states = 0
        self.transitions = 0
        self.traces = 0
        self.evaluations = 0
        self.samples = []
        self.distinct = set()
        self.violations = []      # (key, detail, replay path)
        self.known_hits = []
        self.assumptions = []
        self.extra = {}
        self.actions = {}
        self.tlc_runs = []
        # a private scratch directory per invocation: two runs of the same check (e.g. against
        # different trees) must not wipe each other's files; removed by finish()
        os.makedirs(BUILD, exist_ok=True)
        self.workdir = tempfile.mkdtemp(prefix=pid + "_", dir=BUILD)
        self.repo = os.environ.get("LENA_REPO", "/repo")
        kf = os.path.join(VERIF, "known_findings.json")
        self.known = []
        if os.path.exists(kf):
            with open(kf) as f:
                self.known = [k for k in json.load(f)["findings"]
                              if k.get("property") == pid and k.get("status") == "known"]
        self.nworkers = int(os.environ.get("VERIF_WORKERS", "16" if tier == "thorough" else "8"))

    @property
    def thorough(self):
        return self.tier == "thorough"

    # ---------------------------------------------------------------- TLC
    def _account(self, what, module, cfg, res):
        self.states += res.distinct
        self.transitions += res.generated
        for a, n in res.coverage.items():
            self.actions[a] = self.actions.get(a, 0) + n
        self.tlc_runs.append({"what": what, "module": os.path.basename(module), "cfg": os.path.basename(cfg),
                              "generated": res.generated, "distinct": res.distinct,
                              "wall_s": round(res.wall, 2), "exit": res.exit})

    def mc(self, module, cfg, workers=None, coverage=False, must_cover=(), simulate=None,
           depth=None, timeout=3000, env=None, expect_violation=None):
        """Design-level model check.  A failure here is a machinery failure unless the
        caller says the model constants come from the code (expect_violation='report')."""
        res = run_tlc(module, cfg, self.workdir, workers=workers or self.nworkers,
                      coverage=coverage, simulate=simulate, depth=depth, timeout=timeout,
                      env=env, seed=self.seed if simulate else None)
        self._account("mc" if simulate is None else "simulate", module, cfg, res)
        if res.exit != 0:
            if expect_violation == "report" and res.exit in (12, 13):
                return res
            raise MachineryError("TLC %s/%s failed (exit %s, violated %s):\n%s" % (
                module, cfg, res.exit, res.violated, res.out[-3000:]))
        for a in must_cover:
            if res.coverage.get(a, 0) == 0:
                raise MachineryError("vacuous model: action %s of %s/%s never taken" % (a, module, cfg))
        return res

    def export(self, module, cfg, timeout=3000, env=None, workers=1, min_records=1):
        res = run_tlc(module, cfg, self.workdir, workers=workers, timeout=timeout, env=env)
        self._account("export", module, cfg, res)
        if res.exit != 0:
            raise MachineryError("TLC export %s/%s failed (exit %s, violated %s):\n%s" % (
                module, cfg, res.exit, res.violated, res.out[-3000:]))
        if len(res.records) < min_records:
            raise MachineryError("TLC export %s/%s produced %d records" % (module, cfg, len(res.records)))
        return res.records

    def validate(self, module, cfg, records, label="trace", timeout=3000, dfs=False, env=None):
        """Check recorded implementation behaviour against a trace spec.

        The trace spec reads JsonDeserialize(IOEnv.TRACE_FILE), consumes one record per step
        and reports through POSTCONDITION + a line 'ACCEPTED <n>'.  Returns the number of
        accepted records (== len(records) when the whole trace is a behaviour of the spec).
        """
        if not records:
            return 0
        path = os.path.join(self.workdir, "%s_%d.json" % (label, len(self.tlc_runs)))
        with open(path, "w") as f:
            json.dump(records, f)
        e = {"TRACE_FILE": path}
        if env:
            e.update(env)
        res = run_tlc(module, cfg, self.workdir, workers=1, timeout=timeout, env=e, dfs=dfs)
        self._account("trace", module, cfg, res)
        m = re.search(r"ACCEPTED\D+(\d+)", res.out)
        if m is None or res.exit not in (0, 12, 13, 1):
            if res.exit not in (0,):
                # evaluation errors while matching a record count as rejection only if TLC could
                # report how far it got; otherwise it is a machinery error
                m2 = re.search(r"The depth of the complete state graph search is (\d+)", res.out)
                if m is None and m2 is None:
                    raise MachineryError("trace validation %s/%s broke (exit %s):\n%s" % (
                        module, cfg, res.exit, res.out[-3000:]))
        accepted = int(m.group(1)) if m else max(0, (res.diameter or 1) - 1)
        if res.exit != 0 and accepted >= len(records):
            raise MachineryError("trace validation %s/%s inconsistent (exit %s):\n%s" % (
                module, cfg, res.exit, res.out[-3000:]))
        return accepted


    def trace_check(self, module, cfg, trace, keyfn, label="trace", dfs=False, sample_at=1):
        """Validate recorded records with a Trace_* spec; account; report the first rejected record."""
        if not trace:
            return 0
        acc = self.validate(module, cfg, trace, label=label, dfs=dfs)
        self.traces += acc
        self.evaluations += len(trace)
        for r in trace[:acc]:
            self.distinct.add(hashlib.md5(canon(r).encode()).hexdigest())
        if acc < len(trace):
            r = trace[acc]
            self.violation("%s:rejected:%s" % (module, keyfn(r)), {"record": r, "index": acc})
        self.sample({"recorded_trace_record": trace[min(sample_at, len(trace) - 1)]})
        return acc

    def binding_demo(self, module, cfg, trace, corrupt, limit=40):
        """Corrupt one record of a prefix of an accepted trace; the trace spec must reject exactly there.
        Skipped when violations were already found (the trace may then not be an accepted one)."""
        if self.violations or self.known_hits:
            return
        bad = [dict(r) for r in trace[:limit]]
        for k, r in enumerate(bad):
            c = corrupt(r)
            if c is not None:
                bad[k] = c
                break
        else:
            raise MachineryError("binding demo: nothing to corrupt in %s" % module)
        acc = self.validate(module, cfg, bad, label="corrupt")
        if acc != k:
            raise MachineryError("%s does not bind: corrupted record %d, accepted %d" % (module, k, acc))
        self.extra.setdefault("binding_demo", []).append(
            "%s: corrupted record %d of %d rejected at index %d" % (module, k, len(bad), acc))

    # ---------------------------------------------------------------- bookkeeping
    def case(self, scenario, nontrivial=True, traces=1):
        """Count one scenario executed against the implementation."""
        self.evaluations += 1
        self.traces += traces
        if nontrivial:
            self.distinct.add(hashlib.md5(canon(scenario).encode()).hexdigest())

    def sample(self, obj, limit=6):
        if len(self.samples) < limit:
            self.samples.append(obj)

    def assume(self, text):
        if text not in self.assumptions:
            self.assumptions.append(text)

    def violation(self, key, detail):
        """Report a violation.  *key* is a short stable signature of what fails (component,
        kind of mismatch, shrunk input).  Known findings match on it exactly or by regex."""
        for k in self.known:
            pat = k.get("match")
            if k.get("key") == key or (pat and re.search(pat, key)):
                hit = (k["key"], k.get("what", ""))
                if hit not in self.known_hits:
                    self.known_hits.append(hit)
                return False
        if any(v[0] == key for v in self.violations):
            return True
        rdir = os.path.join(VERIF, "replays", self.pid)
        os.makedirs(rdir, exist_ok=True)
        sha = hashlib.sha1(canon([key, detail]).encode()).hexdigest()[:12]
        path = os.path.join(rdir, sha + ".json")
        with open(path, "w") as f:
            json.dump({"property": self.pid, "key": key, "detail": detail}, f, indent=1, default=repr)
        self.violations.append((key, detail, path))
        return True

    # ---------------------------------------------------------------- result
    def finish(self, rule, exhaustive=False, explanation=None):
        cov = {
            "states": self.states,
            "transitions": self.transitions,
            "traces_validated_against_impl": self.traces,
            "samples": self.samples[:8] or ["<none>"],
            "evaluations": self.evaluations,
            "distinct_nontrivial": len(self.distinct),
            "rule": rule,
            "exhaustive": bool(exhaustive),
            "tlc_runs": self.tlc_runs,
            "actions_covered": self.actions,
            "known_findings_hit": [k for k, _ in self.known_hits],
        }
        if explanation:
            cov["explanation"] = explanation
        cov.update(self.extra)
        ev = {
            "property_id": self.pid,
            "tier": self.tier,
            "seed": self.seed,
            "level": "model_checking",
            "coverage": cov,
            "assumptions": self.assumptions,
            "wall_s": round(time.time() - self.t0, 2),
            "violations": len(self.violations),
        }
        # checks that grow the specification beyond the listed properties (ids X01, X02, ...) keep their
        # evidence apart from the per-property files named in MANIFEST.json
        # (VERIF_EVIDENCE_DIR redirects it: mutation / false-alarm runs against scratch copies must not touch the
        # evidence of the unchanged tree)
        evroot = os.environ.get("VERIF_EVIDENCE_DIR") or os.path.join(VERIF, "evidence")
        evdir = os.path.join(evroot, "extra") if self.pid.startswith("X") else evroot
        os.makedirs(evdir, exist_ok=True)
        with open(os.path.join(evdir, self.pid + ".json"), "w") as f:
            json.dump(ev, f, indent=1, default=repr)
        for key, what in self.known_hits:
            print("KNOWN-FINDING: property=%s %s: %s" % (self.pid, key, what))
        for key, detail, path in self.violations[:20]:
            print("VIOLATION property=%s replay=%s" % (self.pid, path))
            print("  key: %s" % key)
            print("  detail: %s" % canon(detail)[:600])
        print("%s %s: states=%d transitions=%d impl_cases=%d distinct=%d violations=%d wall=%.1fs" % (
            self.pid, self.tier, self.states, self.transitions, self.evaluations,
            len(self.distinct), len(self.violations), time.time() - self.t0))
        shutil.rmtree(self.workdir, ignore_errors=True)
        return 1 if self.violations else 0
