"""Harness helpers for the histogram properties (C06, C12).

The TLA+ specifications (spec/HistSem.tla, Histogram.tla, BinSearch.tla) only *compare* edges and
coordinates, so they work on a small integer scale (grid points: edges are even, odd values lie
strictly between grid points).  This module maps that scale to real numbers by strictly monotone
*embeddings* (ints, floats, tiny, huge, geometric, floating-point neighbours), drives the real
lena objects and, in the other direction, rank-abstracts recorded float meshes for the trace specs.
"""
import copy
import math
import signal
import sys

from . import core
from .util import exc_name


def nextup(x):
    return math.nextafter(x, math.inf)


def nextdown(x):
    return math.nextafter(x, -math.inf)


# --------------------------------------------------------------------------- watchdog
class Hang(Exception):
    """The implementation did not return within a generous time limit."""


class watchdog(object):
    """with watchdog(10): ...   raises Hang inside the block when it runs longer than the limit
    (a non-terminating search loop must be reported, not hang the check)."""

    def __init__(self, seconds):
        self.seconds = seconds

    def _fire(self, signum, frame):
        raise Hang("no return within %s s" % self.seconds)

    def __enter__(self):
        self.old = signal.signal(signal.SIGALRM, self._fire)
        signal.setitimer(signal.ITIMER_REAL, self.seconds)
        return self

    def __exit__(self, *exc):
        signal.setitimer(signal.ITIMER_REAL, 0)
        signal.signal(signal.SIGALRM, self.old)
        return False


LIMIT = 20   # seconds for one scenario on the real code (microseconds are normal)


# --------------------------------------------------------------------------- embeddings
class Emb(object):
    """A strictly monotone map from the grid integers of the spec to numbers.

    make(axis_edges) returns the function for one axis (most embeddings ignore the argument);
    wmul is the factor applied to the integer weights of the spec (a power of two keeps sums exact).
    """

    def __init__(self, name, make, wmul=1):
        self.name = name
        self.make = make
        self.wmul = wmul


def _const(f):
    return lambda axis: f


def _neighbour(up):
    base = lambda k: 0.1 * k

    def f(k):
        if k % 2 == 0:
            return base(k)
        return nextup(base(k - 1)) if up else nextdown(base(k + 1))
    return f


def _far(axis):
    lo, hi = axis[0], axis[-1]

    def f(k):
        if k <= lo - 2:
            return -1e300 * (lo - k)
        if k >= hi + 2:
            return 1e300 * (k - hi)
        return 0.25 * k - 1
    return f


def _table(values, k0):
    return lambda axis: (lambda k: values[k - k0])


def embeddings(thorough=False, rnd=None, kmin=-4, kmax=30):
    embs = [
        Emb("int", _const(lambda k: k)),
        Emb("negint", _const(lambda k: 3 * k - 17)),
        Emb("float", _const(lambda k: 0.5 * k - 1.25), 0.5),
        Emb("mixed", _const(lambda k: k // 2 if k % 2 == 0 else k / 2.0)),
        Emb("tiny", _const(lambda k: (k + 5) * 2.0 ** -1070), 0.25),
        Emb("tinyneg", _const(lambda k: (k - 7) * 5e-324)),
        Emb("huge", _const(lambda k: (k - 6) * 2.0 ** 1018), 4.0),
        Emb("geom", _const(lambda k: 10.0 ** (9 * k - 100)), 0.125),
        Emb("geomneg", _const(lambda k: -(10.0 ** (100 - 9 * k)))),
        Emb("above", _const(_neighbour(True)), 0.5),
        Emb("below", _const(_neighbour(False))),
        Emb("bigint", _const(lambda k: k * 10 ** 30 + 7)),
        Emb("far", _far, 2.0),
    ]
    if thorough and rnd is not None:
        for j in range(6):
            n = kmax - kmin + 1
            kind = j % 3
            if kind == 0:
                vals = sorted(set(rnd.uniform(-50, 50) for _ in range(3 * n)))
            elif kind == 1:
                vals = sorted(set(rnd.choice([-1, 1]) * 10.0 ** rnd.uniform(-250, 250) for _ in range(3 * n)))
            else:
                # a chain of adjacent floats: every grid point is the floating-point neighbour of the next
                x = rnd.uniform(-3, 3)
                vals = [x]
                for _ in range(3 * n):
                    vals.append(nextup(vals[-1]))
            vals = vals[:n] if kind == 2 else sorted(rnd.sample(vals, n))
            embs.append(Emb("rand%d" % j, _table(vals, kmin), 0.5))
    return embs


# --------------------------------------------------------------------------- helpers
def scale_nested(b, m):
    if isinstance(b, list):
        return [scale_nested(x, m) for x in b]
    return b * m


def shape_ok(b, shape):
    if not shape:
        return not isinstance(b, (list, tuple))
    return isinstance(b, list) and len(b) == shape[0] and all(shape_ok(x, shape[1:]) for x in b)


def flat(b):
    if isinstance(b, (list, tuple)):
        out = []
        for x in b:
            out.extend(flat(x))
        return out
    return [b]


def pos_class(c, e):
    """Where a coordinate lies relative to the edges of its axis (for violation keys)."""
    if c < e[0]:
        return "under"
    if c == e[0]:
        return "first"
    if c == e[-1]:
        return "last"
    if c > e[-1]:
        return "over"
    return "edge" if c in e else "in"


class Reporter(object):
    """Caps the number of distinct violations recorded for one run (details stay readable)."""

    def __init__(self, ctx, cap=40):
        self.ctx = ctx
        self.cap = cap
        self.hangs = 0

    @property
    def give_up(self):
        """After a few hangs of the implementation the remaining scenarios are skipped (each costs LIMIT s)."""
        return self.hangs >= 3

    def __call__(self, key, detail):
        if key.endswith(":Hang"):
            self.hangs += 1
        if len(self.ctx.violations) < self.cap:
            self.ctx.violation(key, detail)
        elif not any(v[0] == "too-many-violations" for v in self.ctx.violations):
            self.ctx.violation("too-many-violations", {"first_suppressed": key})


# --------------------------------------------------------------------------- S2C: fills
class _Filled(object):
    """one real histogram (structure or element) of a replayed behaviour"""

    def __init__(self, S, kind, edges_arg, init):
        self.el = None
        if kind == "structure":
            self.hist = S.histogram(edges_arg) if init is None else S.histogram(edges_arg, initial_value=init)
        else:
            self.el = S.Histogram(edges_arg)
            self.hist = list(self.el.compute())[0][0]
        self.total = 0

    def fill(self, coord, w, default_weight, j):
        if self.el is None:
            if default_weight:
                self.hist.fill(coord)
            else:
                self.hist.fill(coord, w)
        else:
            self.el.fill(coord if j % 2 else (coord, {"n": j}))
            self.hist = list(self.el.compute())[0][0]


def bad_coordinate(form, base, j):
    """a coordinate of the wrong dimension"""
    if form == "listed":
        return [base[0]]
    if form == "empty":
        return [] if j % 2 else ()
    if form == "short":
        return list(base[:-1])
    return list(base) + [base[0]]


def replay_fills(ctx, rec, embs, report, tuples=False, variant=0):
    """Drive the real histogram(s) / Histogram along one exported behaviour of Histogram.tla.

    rec = {kind, edges (grid), fills: [{c, w, idx, bins, oor, which, ok, bad}]}.  `which` = 2: a second histogram
    constructed from the same edges object.  Returns number of embeddings run.
    """
    import lena.structures as S
    from fractions import Fraction
    gedges = rec["edges"]
    dim = len(gedges)
    shape = [len(e) - 1 for e in gedges]
    for emb in embs:
        if report.give_up:
            break
        fs = [emb.make(e) for e in gedges]
        real = [[fs[d](k) for k in gedges[d]] for d in range(dim)]
        if tuples:
            real = [tuple(e) for e in real]
        edges_arg = real[0] if dim == 1 else real
        pristine = copy.deepcopy(edges_arg)
        where = "%s:dim=%d:%s" % (rec["kind"], dim, emb.name)
        # contents and weights as Fractions (any object that supports addition with the weight)
        fraction = rec["kind"] == "structure" and emb.name == "int" and variant % 4 == 1
        wmul = Fraction(1, 3) if fraction else emb.wmul
        objs = {}
        try:
            for wh in sorted(set(f.get("which", 1) for f in rec["fills"]) | {1}):
                objs[wh] = _Filled(S, rec["kind"], edges_arg, Fraction(0) if fraction else None)
        except Exception as exc:   # noqa
            report("construct:%s:raised:%s" % (where, exc_name(exc)), {"edges": repr(edges_arg)})
            continue
        for j, f in enumerate(rec["fills"]):
            me = objs[f.get("which", 1)]
            others = [o for wh, o in objs.items() if o is not me]
            osnap = [copy.deepcopy((o.hist.bins, o.hist.n_out_of_range)) for o in others]
            if not f.get("ok", True):
                # a coordinate of the wrong dimension: LenaValueError, nothing changes, the histogram stays usable
                base = [fs[d](gedges[d][0]) for d in range(dim)]
                coord = bad_coordinate(f["bad"], base, j)
                detail = {"embedding": emb.name, "edges": repr(edges_arg), "coord": repr(coord), "fill_no": j, "spec": f,
                          "kind": rec["kind"]}
                for what, call in (("fill", lambda: me.fill(coord, 1, j % 2 == 0, 1)),
                                   ("get_bin_on_value", lambda: S.get_bin_on_value(coord, edges_arg))):
                    try:
                        with watchdog(LIMIT):
                            call()
                        got = "no-exception"
                    except Exception as exc:   # noqa
                        got = exc_name(exc)
                    if got != "LenaValueError":
                        report("%s:wrong-dimension:%s:%s:%s" % (what, where, f["bad"], got), detail)
                hist = me.hist
                pos = "wrong-dimension"
                mul = wmul if me.el is None else 1
            else:
                cvals = [fs[d](f["c"][d]) for d in range(dim)]
                coord = cvals[0] if dim == 1 else (tuple(cvals) if (j + len(emb.name)) % 2 else list(cvals))
                csnap = copy.copy(coord)
                w = f["w"] * wmul
                pos = "/".join(pos_class(f["c"][d], gedges[d]) for d in range(dim))
                detail = {"embedding": emb.name, "edges": repr(edges_arg), "coord": repr(coord), "weight": repr(w),
                          "fill_no": j, "spec": f, "kind": rec["kind"]}
                try:
                    with watchdog(LIMIT):
                        if me.el is not None:
                            w = 1
                        me.fill(coord, w, f["w"] == 1 and wmul == 1 and j % 2 == 1, j)
                        idx = S.get_bin_on_value(coord, edges_arg)
                        idx1 = S.get_bin_on_value_1d(coord, edges_arg) if dim == 1 else None
                except Exception as exc:   # noqa
                    report("fill:%s:%s:raised:%s" % (where, pos, exc_name(exc)), dict(detail, exception=repr(exc)))
                    break
                me.total += w
                hist = me.hist
                mul = wmul if me.el is None else 1
                if list(idx) != f["idx"] or (idx1 is not None and idx1 != f["idx"][0]):
                    report("get_bin_on_value:%s:%s" % (where, pos), dict(detail, observed=repr(idx)))
                if coord != csnap:
                    report("fill:%s:coordinate-argument-modified" % where, detail)
            exp_bins = scale_nested(f["bins"], mul)
            exp_oor = f["oor"] * mul
            detail["observed"] = {"bins": repr(hist.bins), "n_out_of_range": repr(hist.n_out_of_range)}
            if not shape_ok(hist.bins, shape) or hist.bins != exp_bins:
                report("fill:%s:%s:bins" % (where, pos), detail)
                break
            if hist.n_out_of_range != exp_oor:
                report("fill:%s:%s:n_out_of_range" % (where, pos), detail)
                break
            if sum(flat(hist.bins)) + hist.n_out_of_range != me.total:
                report("fill:%s:%s:conservation" % (where, pos), detail)
            if hist.edges != pristine or edges_arg != pristine:
                report("fill:%s:%s:edges-changed" % (where, pos), detail)
                break
            if [copy.deepcopy((o.hist.bins, o.hist.n_out_of_range)) for o in others] != osnap:
                report("fill:%s:%s:other-histogram-on-the-same-edges-changed" % (where, pos), detail)
                break
    return len(embs)


def replay_search(ctx, recs, embs, report):
    """get_bin_on_value_1d / get_bin_on_value on every (array, value) exported from BinSearch.tla."""
    import lena.structures as S
    n = 0
    for emb in embs:
        for rec in recs:
            if report.give_up:
                return n
            f = emb.make(rec["arr"])
            arr = [f(k) for k in rec["arr"]]
            val = f(rec["val"])
            try:
                with watchdog(LIMIT):
                    got = S.get_bin_on_value_1d(val, arr)
                    got2 = S.get_bin_on_value(val, arr)
            except Exception as exc:   # noqa
                report("get_bin_on_value_1d:%s:n=%d:%s:raised:%s" % (emb.name, len(arr), pos_class(rec["val"], rec["arr"]),
                                                                   exc_name(exc)),
                       {"arr": repr(arr), "val": repr(val), "exception": repr(exc)})
                continue
            n += 1
            if got != rec["idx"] or got2 != [rec["idx"]]:
                report("get_bin_on_value_1d:%s:n=%d:%s" % (emb.name, len(arr), pos_class(rec["val"], rec["arr"])),
                       {"arr": repr(arr), "val": repr(val), "expected": rec["idx"], "observed": repr(got),
                        "get_bin_on_value": repr(got2)})
    return n


# --------------------------------------------------------------------------- C2S: recorded sessions
def rank_map(values):
    vs = sorted(set(values))
    return dict((v, k) for k, v in enumerate(vs))


def gen_axis(rnd, n):
    """n strictly increasing edges of one of several spacings; returns (edges, description)."""
    kind = rnd.choice(["uni_int", "uni_float", "geom", "random", "tiny", "huge", "adjacent", "mixed", "cluster"])
    if kind == "uni_int":
        a, s = rnd.randint(-50, 50), rnd.randint(1, 9)
        e = [a + s * k for k in range(n)]
    elif kind == "uni_float":
        a, s = rnd.uniform(-10, 10), rnd.uniform(0.01, 3)
        e = [a + s * k for k in range(n)]
    elif kind == "geom":
        a, q = 10.0 ** rnd.uniform(-200, 100), 10.0 ** rnd.uniform(0.1, 15)
        e = [a * q ** k for k in range(n)]
        if rnd.random() < 0.3:
            e = [-x for x in reversed(e)]
    elif kind == "random":
        e = sorted(set(rnd.uniform(-100, 100) for _ in range(n)))
    elif kind == "tiny":
        e = sorted(set(rnd.randint(-40, 40) * 5e-324 * rnd.choice([1, 2 ** 10]) for _ in range(n)))
    elif kind == "huge":
        e = sorted(set(rnd.uniform(-8e307, 8e307) for _ in range(n)))
    elif kind == "adjacent":
        x = rnd.uniform(-5, 5)
        e = [x]
        for _ in range(n - 1):
            e.append(nextup(e[-1]))
    elif kind == "mixed":
        e = sorted(set([rnd.randint(-20, 20) for _ in range(n // 2 + 1)] + [rnd.uniform(-20, 20) for _ in range(n)]))[:n]
    else:
        # a few edges very close together inside a wide range: the interpolation guess is far off
        c = rnd.uniform(-1, 1)
        e = sorted(set([-1e6, 1e6] + [c + rnd.uniform(0, 1e-9) for _ in range(max(0, n - 2))]))
    e = e[:n]
    if len(e) < 2:
        e = [0, 1]
    return e, kind


def gen_coord(rnd, e):
    r = rnd.random()
    if r < 0.25:
        return rnd.choice(e)
    if r < 0.45:
        x = rnd.choice(e)
        if isinstance(x, int):
            return x + rnd.choice([-1, 1]) * rnd.choice([0.5, 1e-9, 1])
        return nextup(x) if rnd.random() < 0.5 else nextdown(x)
    if r < 0.55:
        return rnd.choice([-1e308, 1e308, -1.7e308, 1.7e308, -10 ** 400, 10 ** 400])
    if r < 0.65:
        j = rnd.randrange(len(e) - 1)
        return e[j] + (e[j + 1] - e[j]) / 2
    lo, hi = e[0], e[-1]
    span = hi - lo
    return rnd.uniform(float(lo) - 0.2 * float(span), float(hi) + 0.2 * float(span)) if span < 1e307 else rnd.uniform(-1e308, 1e308)


def record_session(rnd, report, max_cells=200):
    """Fill a real histogram / Histogram with seeded-random float data; one trace record per fill."""
    import lena.structures as S
    dim = rnd.choice([1, 1, 2, 2, 3])
    while True:
        ns = [rnd.randint(2, 12) for _ in range(dim)]
        cells = 1
        for n in ns:
            cells *= n - 1
        if cells <= max_cells:
            break
    axes = []
    kinds = []
    for n in ns:
        e, k = gen_axis(rnd, n)
        axes.append(e)
        kinds.append(k)
    ns = [len(e) for e in axes]
    edges_arg = axes[0] if dim == 1 else axes
    pristine = copy.deepcopy(edges_arg)
    kind = "element" if rnd.random() < 0.3 else "structure"
    nf = rnd.randint(3, 25)
    coords = [[gen_coord(rnd, axes[d]) for d in range(dim)] for _ in range(nf)]
    rmaps = [rank_map(list(axes[d]) + [c[d] for c in coords]) for d in range(dim)]
    wden = rnd.choice([1, 1, 2, 4, 8])
    if kind == "structure":
        hist = S.histogram(edges_arg)
        el = None
    else:
        el = S.Histogram(edges_arg)
        hist = None
        wden = 1
    out = []
    redges = [[rmaps[d][x] for x in axes[d]] for d in range(dim)]
    for j, c in enumerate(coords):
        if report.give_up:
            return out
        wi = 1 if el is not None else rnd.randint(-12, 12)
        w = wi if wden == 1 else wi / float(wden)
        coord = c[0] if dim == 1 else (tuple(c) if j % 2 else list(c))
        key = "random:%s:dim=%d:%s" % (kind, dim, "+".join(kinds))
        try:
            with watchdog(LIMIT):
                if el is None:
                    hist.fill(coord, w)
                else:
                    el.fill(coord if j % 3 else (coord, {"j": j}))
                    hist = list(el.compute())[0][0]
                idx = list(S.get_bin_on_value(coord, edges_arg))
        except Exception as exc:   # noqa
            report(key + ":raised:" + exc_name(exc), {"edges": repr(edges_arg), "coord": repr(coord),
                                                     "exception": repr(exc)})
            return out
        if not shape_ok(hist.bins, [n - 1 for n in ns]):
            report(key + ":shape", {"edges": repr(edges_arg), "coord": repr(coord), "bins": repr(hist.bins)})
            return out
        if hist.edges != pristine:
            report(key + ":edges-changed", {"edges": repr(pristine), "after": repr(hist.edges)})
            return out
        sb = scale_nested(copy.deepcopy(hist.bins), wden)
        so = hist.n_out_of_range * wden
        ints = flat(sb) + [so]
        if any(x != int(x) for x in ints):
            report(key + ":inexact-content", {"edges": repr(edges_arg), "bins": repr(hist.bins)})
            return out
        out.append({"new": j == 0, "kind": kind, "edges": redges,
                    "c": [rmaps[d][c[d]] for d in range(dim)], "w": wi, "idx": [int(i) for i in idx],
                    "bins": _ints(sb), "oor": int(so),
                    "real": {"edges": repr(edges_arg), "coord": repr(coord), "weight": repr(w)}})
    return out


def _ints(b):
    if isinstance(b, list):
        return [_ints(x) for x in b]
    return int(b)


# --------------------------------------------------------------------------- deep binding of the loop
class SearchTracer(object):
    """Samples (ind_min, ind_max, ind_guess) of get_bin_on_value_1d at every executed line,
    from outside (sys.settrace); one iteration = one change of (ind_min, ind_max)."""

    def __init__(self, func):
        self.code = func.__code__
        self.steps = None
        self.usable = True

    def _local(self, frame, event, arg):
        if event in ("line", "return"):
            loc = frame.f_locals
            if "ind_min" not in loc or "ind_max" not in loc:
                return self._local
            cur = (loc["ind_min"], loc["ind_max"])
            if not self.steps:
                self.steps = [[cur[0], cur[1], -1]]
            elif (self.steps[-1][0], self.steps[-1][1]) != cur:
                self.steps[-1][2] = loc.get("ind_guess", -1)
                self.steps.append([cur[0], cur[1], -1])
        return self._local

    def _global(self, frame, event, arg):
        if event == "call" and frame.f_code is self.code:
            return self._local
        return None

    def run(self, func, val, arr):
        self.steps = []
        old = sys.gettrace()
        sys.settrace(self._global)
        try:
            res = func(val, arr)
        finally:
            sys.settrace(old)
        return res, self.steps


def record_searches(rnd, n, report):
    """Calls of the real get_bin_on_value_1d with their loop iterations, rank-abstracted."""
    import lena.structures as S
    func = S.get_bin_on_value_1d
    tr = SearchTracer(func)
    out = []
    for _ in range(n):
        if report.give_up:
            break
        arr, kind = gen_axis(rnd, rnd.randint(2, 12))
        val = gen_coord(rnd, arr)
        try:
            with watchdog(LIMIT):
                res, steps = tr.run(func, val, arr)
        except Exception as exc:   # noqa
            report("random:get_bin_on_value_1d:%s:raised:%s" % (kind, exc_name(exc)),
                   {"arr": repr(arr), "val": repr(val), "exception": repr(exc)})
            continue
        rm = rank_map(list(arr) + [val])
        out.append({"arr": [rm[x] for x in arr], "val": rm[val], "steps": [list(map(int, s)) for s in steps] or [[0, 0, -1]],
                    "res": int(res), "real": {"arr": repr(arr), "val": repr(val), "spacing": kind}})
    return out


# --------------------------------------------------------------------------- TLC in generate mode
def export_generate(ctx, module, cfg, num, depth, min_records=1, timeout=600):
    """Random behaviours of a spec (TLC -generate: one successor per step, seeded) whose terminal states
    print ToJson records; like ctx.export but sampled instead of exhaustive."""
    res = core.run_tlc(module, cfg, ctx.workdir, workers=1, timeout=timeout,
                       extra=("-generate", "num=%d" % num, "-depth", str(depth), "-seed", str(ctx.seed)))
    ctx._account("generate", module, cfg, res)
    if res.exit != 0:
        raise core.MachineryError("TLC generate %s/%s failed (exit %s, violated %s):\n%s" % (
            module, cfg, res.exit, res.violated, res.out[-3000:]))
    if len(res.records) < min_records:
        raise core.MachineryError("TLC generate %s/%s produced %d records" % (module, cfg, len(res.records)))
    return res.records


def mc_export(ctx, module, cfg, must_cover=(), min_records=1, timeout=3000):
    """One single-worker TLC run that both checks the properties of the cfg (with action coverage)
    and prints the export records (PrintT output of several workers would interleave)."""
    res = core.run_tlc(module, cfg, ctx.workdir, workers=1, coverage=True, timeout=timeout)
    ctx._account("mc+export", module, cfg, res)
    if res.exit != 0:
        raise core.MachineryError("TLC %s/%s failed (exit %s, violated %s):\n%s" % (
            module, cfg, res.exit, res.violated, res.out[-3000:]))
    for a in must_cover:
        if res.coverage.get(a, 0) == 0:
            raise core.MachineryError("vacuous model: action %s of %s/%s never taken" % (a, module, cfg))
    if len(res.records) < min_records:
        raise core.MachineryError("TLC %s/%s produced %d records" % (module, cfg, len(res.records)))
    return res.records


# --------------------------------------------------------------------------- Apalache (optional extra)
def apalache_obligations(ctx, obligations, timeout=240):
    """Run inductive-invariant checks with Apalache in parallel.  obligations: list of
    (module, init, inv, length).  A counterexample is a design-level failure (MachineryError, like a
    failing ctx.mc); a stall / missing tool is recorded as skipped, never as a failure."""
    import os
    import shutil
    import subprocess
    import time
    exe = shutil.which("apalache-mc")
    notes = []
    if exe is None:
        ctx.extra["apalache"] = ["skipped: apalache-mc not found"]
        return
    procs = []
    for k, (module, init, inv, length) in enumerate(obligations):
        out = os.path.join(ctx.workdir, "apa%d" % k)
        os.makedirs(out, exist_ok=True)
        cmd = [exe, "check", "--cinit=CInit", "--init=" + init, "--inv=" + inv, "--length=%d" % length,
               "--out-dir=" + out, os.path.join(core.SPEC, module + ".tla")]
        e = dict(os.environ)
        e.pop("JAVA_TOOL_OPTIONS", None)
        procs.append((module, init, inv, length, time.time(),
                      subprocess.Popen(cmd, cwd=out, env=e, stdout=subprocess.PIPE, stderr=subprocess.STDOUT)))
    failed = []
    for module, init, inv, length, t0, p in procs:
        label = "%s: --init=%s --inv=%s --length=%d" % (module, init, inv, length)
        try:
            outb, _ = p.communicate(timeout=max(1, timeout - (time.time() - t0)))
            text = outb.decode("utf-8", "replace")
        except subprocess.TimeoutExpired:
            p.kill()
            p.communicate()
            notes.append("skipped (stalled > %d s): %s" % (timeout, label))
            continue
        if p.returncode == 0 and "EXITCODE: OK" in text:
            notes.append("proved in %.0f s: %s" % (time.time() - t0, label))
        elif p.returncode == 12:
            failed.append((label, text[-1500:]))
        else:
            notes.append("skipped (apalache exit %s): %s" % (p.returncode, label))
    ctx.extra["apalache"] = notes
    if failed:
        raise core.MachineryError("Apalache found a counterexample to %s:\n%s" % failed[0])


# --------------------------------------------------------------------------- S2C: life cycle of the element
def _tolist(b):
    return [_tolist(x) for x in b] if isinstance(b, (list, tuple)) else b


def replay_element(ctx, rec, embs, report):
    """Drive a real lena.structures.Histogram along one exported behaviour of HistElement.tla.

    rec = {edges, ivar, init, ops: [{op: fill|reset, c, bins, oor}]}.  After every operation the histogram yielded
    by compute() is compared with the model (bins, n_out_of_range), and weight conservation relative to the
    initial content is checked on the real numbers.  Returns the number of embeddings run.
    """
    import lena.structures as S
    gedges = rec["edges"]
    dim = len(gedges)
    ivar = rec["ivar"]
    init = _tolist(rec["init"])
    done = 0
    for emb in embs:
        if report.give_up:
            break
        fs = [emb.make(e) for e in gedges]
        real = [[fs[d](k) for k in gedges[d]] for d in range(dim)]
        edges_arg = real[0] if dim == 1 else real
        where = "element-lifecycle:dim=%d:%s:%s" % (dim, ivar, emb.name)
        given = copy.deepcopy(init)
        calls = []
        try:
            if ivar == "plain":
                el = S.Histogram(edges_arg)
            elif ivar == "bins":
                el = S.Histogram(edges_arg, bins=given)
            elif ivar == "make":
                def make_bins():
                    calls.append(1)
                    return copy.deepcopy(init)
                el = S.Histogram(edges_arg, make_bins=make_bins)
            else:
                el = S.Histogram(edges_arg, initial_value=flat(init)[0])
        except Exception as exc:   # noqa
            report("construct:%s:raised:%s" % (where, exc_name(exc)), {"edges": repr(edges_arg), "init": init})
            continue
        done += 1
        since = 0
        base = sum(flat(init))
        for j, op in enumerate(rec["ops"]):
            detail = {"embedding": emb.name, "edges": repr(edges_arg), "ivar": ivar, "initial_bins": init,
                      "ops": [dict(op=o["op"], c=o["c"]) for o in rec["ops"][:j + 1]], "spec": op}
            try:
                with watchdog(LIMIT):
                    if op["op"] == "reset":
                        el.reset()
                        since = 0
                    else:
                        cvals = [fs[d](op["c"][d]) for d in range(dim)]
                        coord = cvals[0] if dim == 1 else (tuple(cvals) if j % 2 else list(cvals))
                        el.fill(coord if j % 2 else (coord, {"n": j}))
                        since += 1
                    res = list(el.compute())
            except Exception as exc:   # noqa
                report("%s:%s:raised:%s" % (op["op"], where, exc_name(exc)), dict(detail, exception=repr(exc)))
                break
            hist = res[0][0] if len(res) == 1 and isinstance(res[0], tuple) and len(res[0]) == 2 else None
            if hist is None or not hasattr(hist, "bins"):
                report("%s:%s:compute-not-one-histogram" % (op["op"], where), dict(detail, got=repr(res)[:300]))
                break
            got_bins, got_oor = _tolist(hist.bins), hist.n_out_of_range
            after = "after-reset" if any(o["op"] == "reset" for o in rec["ops"][:j + 1]) else "first-life"
            if got_bins != _tolist(op["bins"]):
                report("%s:%s:%s:bins" % (op["op"], where, after), dict(detail, got=got_bins, want=op["bins"]))
                break
            if got_oor != op["oor"]:
                report("%s:%s:%s:n_out_of_range" % (op["op"], where, after), dict(detail, got=got_oor, want=op["oor"]))
                break
            if sum(flat(got_bins)) + got_oor != base + since:
                report("%s:%s:%s:conservation" % (op["op"], where, after),
                       dict(detail, got=sum(flat(got_bins)) + got_oor, want=base + since))
                break
            ctx.evaluations += 3
    return done
