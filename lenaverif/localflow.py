"""Control-flow graph of the binding events of local names in one function scope (C20, LocalsResolve).

A local name can be *unbound* when it is read:
  (a) Python 3 deletes the name bound by `except E as n` when the handler is left, and `del n` unbinds n;
  (b) a name assigned only on some paths (inside a conditional / loop body / try / handler) is read on a
      path that skips the assignment.
The graph has one node per event `bind n` / `kill n` / `load n` (+ `nop` nodes for structure) and edges for
every syntactic path: if/else, loops (zero iterations, back edge, break, continue, else), short-circuit
operators, try (an exception may leave the body before or after each event), handlers (bind on entry, kill on
every exit including break / continue), with, match.  Dead branches (sys.version_info tests) are pruned with the
same constant folding as the rest of the extractor.  Reads guarded by `except NameError` (or broader) become nops.

The path search itself is done by TLC (Imports.tla: ArrivesUnbound / DeadLoads / LocalsResolve).
Rule (a) is a may-analysis from the kill events.  Rule (b) is restricted to what can be decided without knowing
run-time correlations between conditions: a `try` whose first statement is a plain assignment to n, n not bound
on any path reaching the try, and a read of n inside a handler (any path through the handler) or on the
straight-line continuation (no branching) after it - if the handler is entered because that first statement
raised, the read fails.  Conditionally assigned names
read after an `if` / loop (guarded by correlated conditions on the current tree) are deliberately not reported.
"""
import ast


class Flow(object):
    def __init__(self, func_node, table, fold, guards):
        self.fn = func_node
        self.table = table
        self.fold = fold
        self.catches = guards
        self.nodes = []         # [op, name, line]
        self.succ = []          # list of sets
        self.ctx = []           # ("loop", head, breaks) | ("handler", name) | ("try", nodelist)
        self.guard = 0
        self.comp_bound = []
        self.seeds = []         # (try entry node, handler entry node, last handler node, name)
        self.locals = set()
        self.params = set()
        for s in table.get_symbols():
            if s.is_local() or s.is_parameter():
                self.locals.add(s.get_name())
            if s.is_parameter():
                self.params.add(s.get_name())
            if s.is_declared_global() or s.is_nonlocal() or (s.is_free() and not s.is_local()):
                self.locals.discard(s.get_name())

    # ------------------------------------------------------------------ graph
    def node(self, op, name, line, preds):
        k = len(self.nodes)
        self.nodes.append([op, name, line])
        self.succ.append(set())
        for p in preds:
            self.succ[p].add(k)
        for c in self.ctx:
            if c[0] == "try":
                c[1].append(k)
        return k

    def is_local(self, name):
        return name in self.locals and not any(name in b for b in self.comp_bound)

    def load(self, name, line, preds):
        if not self.is_local(name):
            return preds
        return {self.node("nop" if self.guard else "load", name, line, preds)}

    def bind(self, name, line, preds):
        if not self.is_local(name):
            return preds
        return {self.node("bind", name, line, preds)}

    def kill(self, name, line, preds):
        if not self.is_local(name):
            return preds
        return {self.node("kill", name, line, preds)}

    # ------------------------------------------------------------------ expressions (evaluation order, short circuit)
    def expr(self, e, preds):
        if e is None:
            return preds
        if isinstance(e, list):
            for x in e:
                preds = self.expr(x, preds)
            return preds
        if isinstance(e, ast.Name):
            if isinstance(e.ctx, ast.Load):
                return self.load(e.id, e.lineno, preds)
            if isinstance(e.ctx, ast.Store):
                return self.bind(e.id, e.lineno, preds)
            return self.kill(e.id, e.lineno, preds)
        if isinstance(e, ast.BoolOp):
            outs = set()
            cur = preds
            for k, v in enumerate(e.values):
                cur = self.expr(v, cur)
                f = self.fold(v)
                if (isinstance(e.op, ast.And) and f is False) or (isinstance(e.op, ast.Or) and f is True):
                    return outs | cur
                outs |= cur         # short circuit: the rest may be skipped
            return outs
        if isinstance(e, ast.IfExp):
            cur = self.expr(e.test, preds)
            f = self.fold(e.test)
            outs = set()
            if f is not False:
                outs |= self.expr(e.body, cur)
            if f is not True:
                outs |= self.expr(e.orelse, cur)
            return outs
        if isinstance(e, ast.NamedExpr):
            cur = self.expr(e.value, preds)
            return self.expr(e.target, cur)
        if isinstance(e, ast.Lambda):
            a = e.args
            return self.expr(list(a.defaults) + [d for d in a.kw_defaults if d is not None], preds)
        if isinstance(e, (ast.ListComp, ast.SetComp, ast.GeneratorExp, ast.DictComp)):
            bound = set()
            for g in e.generators:
                for n in ast.walk(g.target):
                    if isinstance(n, ast.Name):
                        bound.add(n.id)
            cur = self.expr(e.generators[0].iter, preds)
            if isinstance(e, ast.GeneratorExp):
                return cur          # the rest runs lazily, in its own scope
            self.comp_bound.append(bound)
            skip = set(cur)
            for k, g in enumerate(e.generators):
                if k:
                    cur = self.expr(g.iter, cur)
                cur = self.expr(g.ifs, cur)
            if isinstance(e, ast.DictComp):
                cur = self.expr([e.key, e.value], cur)
            else:
                cur = self.expr(e.elt, cur)
            self.comp_bound.pop()
            return cur | skip       # zero iterations
        if isinstance(e, ast.Attribute) or isinstance(e, ast.Subscript) or isinstance(e, ast.Starred):
            # the object is loaded whatever the context of the attribute / item
            cur = preds
            for child in ast.iter_child_nodes(e):
                if isinstance(child, ast.expr):
                    if isinstance(child, ast.Name) and not isinstance(e, ast.Starred):
                        cur = self.load(child.id, child.lineno, cur)
                    else:
                        cur = self.expr(child, cur)
            return cur
        cur = preds
        if isinstance(e, ast.Call):
            cur = self.expr(e.func, cur)
            cur = self.expr(list(e.args), cur)
            return self.expr([k.value for k in e.keywords], cur)
        for child in ast.iter_child_nodes(e):
            if isinstance(child, ast.expr):
                cur = self.expr(child, cur)
            elif isinstance(child, ast.comprehension):
                pass
            elif isinstance(child, ast.keyword):
                cur = self.expr(child.value, cur)
        return cur

    def target(self, t, line, preds):
        if isinstance(t, ast.Name):
            return self.bind(t.id, line, preds)
        if isinstance(t, (ast.Tuple, ast.List)):
            for x in t.elts:
                preds = self.target(x, line, preds)
            return preds
        if isinstance(t, ast.Starred):
            return self.target(t.value, line, preds)
        return self.expr(t, preds)

    # ------------------------------------------------------------------ statements
    def block(self, stmts, preds):
        for s in stmts:
            if not preds:
                break               # unreachable
            preds = self.stmt(s, preds)
        return preds

    def leave_handlers_until_loop(self, line, preds):
        for c in reversed(self.ctx):
            if c[0] == "loop":
                return c, preds
            if c[0] == "handler" and c[1]:
                preds = self.kill(c[1], line, preds)
        return None, preds

    def stmt(self, s, preds):
        if isinstance(s, (ast.FunctionDef, ast.AsyncFunctionDef)):
            cur = self.expr(s.decorator_list, preds)
            a = s.args
            cur = self.expr(list(a.defaults) + [d for d in a.kw_defaults if d is not None], cur)
            return self.bind(s.name, s.lineno, cur)
        if isinstance(s, ast.ClassDef):
            cur = self.expr(list(s.decorator_list) + list(s.bases) + [k.value for k in s.keywords], preds)
            return self.bind(s.name, s.lineno, cur)
        if isinstance(s, (ast.Import, ast.ImportFrom)):
            cur = preds
            for al in s.names:
                if al.name != "*":
                    cur = self.bind(al.asname or al.name.split(".")[0], s.lineno, cur)
            return cur
        if isinstance(s, ast.Assign):
            cur = self.expr(s.value, preds)
            for t in s.targets:
                cur = self.target(t, s.lineno, cur)
            return cur
        if isinstance(s, ast.AugAssign):
            cur = preds
            if isinstance(s.target, ast.Name):
                cur = self.load(s.target.id, s.lineno, cur)
            cur = self.expr(s.value, cur)
            return self.target(s.target, s.lineno, cur)
        if isinstance(s, ast.AnnAssign):
            if s.value is None:
                return preds
            cur = self.expr(s.value, preds)
            return self.target(s.target, s.lineno, cur)
        if isinstance(s, ast.Delete):
            cur = preds
            for t in s.targets:
                if isinstance(t, ast.Name):
                    cur = self.load(t.id, s.lineno, cur)        # del of an unbound name fails as well
                    cur = self.kill(t.id, s.lineno, cur)
                else:
                    cur = self.expr(t, cur)
            return cur
        if isinstance(s, (ast.Return, ast.Raise)):
            for child in ast.iter_child_nodes(s):
                if isinstance(child, ast.expr):
                    preds = self.expr(child, preds)
            return set()
        if isinstance(s, ast.Break):
            loop, preds = self.leave_handlers_until_loop(s.lineno, preds)
            if loop is not None:
                loop[2].update(preds)
            return set()
        if isinstance(s, ast.Continue):
            loop, preds = self.leave_handlers_until_loop(s.lineno, preds)
            if loop is not None:
                for p in preds:
                    self.succ[p].add(loop[1])
            return set()
        if isinstance(s, ast.If):
            cur = self.expr(s.test, preds)
            f = self.fold(s.test)
            outs = set()
            if f is not False:
                outs |= self.block(s.body, cur)
            if f is not True:
                outs |= self.block(s.orelse, cur)
            return outs
        if isinstance(s, ast.While):
            head = self.node("nop", "", s.lineno, preds)
            cur = self.expr(s.test, {head})
            f = self.fold(s.test)
            loop = ("loop", head, set())
            exits = set()
            if f is not False:
                self.ctx.append(loop)
                out = self.block(s.body, cur)
                self.ctx.pop()
                for p in out:
                    self.succ[p].add(head)
            if f is not True:
                exits |= self.block(s.orelse, cur) if s.orelse else cur
            return exits | loop[2]
        if isinstance(s, (ast.For, ast.AsyncFor)):
            cur = self.expr(s.iter, preds)
            head = self.node("nop", "", s.lineno, cur)
            loop = ("loop", head, set())
            self.ctx.append(loop)
            b = self.target(s.target, s.lineno, {head})
            out = self.block(s.body, b)
            self.ctx.pop()
            for p in out:
                self.succ[p].add(head)
            exits = self.block(s.orelse, {head}) if s.orelse else {head}
            return exits | loop[2]
        if isinstance(s, (ast.With, ast.AsyncWith)):
            cur = preds
            for item in s.items:
                cur = self.expr(item.context_expr, cur)
                if item.optional_vars is not None:
                    cur = self.target(item.optional_vars, s.lineno, cur)
            return self.block(s.body, cur)
        if isinstance(s, ast.Try) or type(s).__name__ == "TryStar":
            return self.do_try(s, preds)
        if type(s).__name__ == "Match":
            cur = self.expr(s.subject, preds)
            outs = set(cur)
            for case in s.cases:
                c = cur
                for n in ast.walk(case.pattern):
                    nm = getattr(n, "name", None)
                    if type(n).__name__ in ("MatchAs", "MatchStar") and nm:
                        c = self.bind(nm, s.lineno, c)
                    elif type(n).__name__ == "MatchMapping" and getattr(n, "rest", None):
                        c = self.bind(n.rest, s.lineno, c)
                if case.guard is not None:
                    c = self.expr(case.guard, c)
                outs |= self.block(case.body, c)
            return outs
        if isinstance(s, (ast.Global, ast.Nonlocal, ast.Pass)):
            return preds
        # Expr, Assert, ...
        for child in ast.iter_child_nodes(s):
            if isinstance(child, ast.expr):
                preds = self.expr(child, preds)
        return preds

    def do_try(self, s, preds):
        entry = self.node("nop", "", s.lineno, preds)
        guarded = any(self.catches(h) for h in s.handlers)
        inside = [entry]
        self.ctx.append(("try", inside))
        if guarded:
            self.guard += 1
        body_out = self.block(s.body, {entry})
        if guarded:
            self.guard -= 1
        self.ctx.pop()
        outs = set()
        first = self.first_binding(s.body[0]) if s.body else set()
        for h in s.handlers:
            # the exception may leave the body before or after any of its events
            hentry = self.node("nop", "", h.lineno, set(inside))
            # rule (b): the first statement of the body is a plain assignment; if it is what raises, its
            # targets are still in the state they had before the try
            pending = [n for n in sorted(first) if self.is_local(n) and n not in self.params and n != h.name]
            cur = {hentry}
            if h.type is not None:
                cur = self.expr(h.type, cur)
            if h.name:
                cur = self.bind(h.name, h.lineno, cur)
            self.ctx.append(("handler", h.name))
            cur = self.block(h.body, cur)
            self.ctx.pop()
            if h.name and cur:
                cur = self.kill(h.name, getattr(h, "end_lineno", h.lineno) or h.lineno, cur)
            for n in pending:
                self.seeds.append((entry, hentry, len(self.nodes) - 1, n))     # handler = nodes hentry..last
            outs |= cur
        outs |= self.block(s.orelse, body_out) if s.orelse else body_out
        if s.finalbody:
            outs = self.block(s.finalbody, outs)
        return outs

    @staticmethod
    def first_binding(st):
        """Names bound by the statement if it is a plain assignment `n = ...` / `a, b = ...` (else empty)."""
        names = set()
        if isinstance(st, ast.Assign):
            for t in st.targets:
                for n in ([t] if isinstance(t, ast.Name) else (t.elts if isinstance(t, (ast.Tuple, ast.List)) else [])):
                    if isinstance(n, ast.Name):
                        names.add(n.id)
        return names

    # ------------------------------------------------------------------ result
    def build(self):
        entry = self.node("nop", "", self.fn.lineno, set())
        self.entry = entry
        self.block(self.fn.body, {entry})
        return self

    def kill_names(self):
        return set(n[1] for n in self.nodes if n[0] == "kill")

    def names_of_interest(self):
        return self.kill_names() | set(x[3] for x in self.seeds)

    def restricted(self):
        """(nodes, succ, seeds) with the events of names that have neither a kill nor a seed turned into nops."""
        names = self.names_of_interest()
        nodes = [[op if nm in names else "nop", nm if nm in names else "", ln] for op, nm, ln in self.nodes]
        return nodes, [sorted(x) for x in self.succ], list(self.seeds)


def dead_loads(nodes, succ, seeds):
    """Reference implementation of what Imports.tla computes (DeadLoads); used to cross-check TLC's answer.

    rule (a): a load reachable from a kill of the same name along a path without a rebinding;
    rule (b): seed (t, h, last, n): no binding of n reaches the try entry t; the load is reached with n unbound
              on some path inside the handler (nodes h..last), or lies on the straight-line continuation
              (unique successors, no binding of n on the way) of a point where such a path leaves the handler."""
    out = set()
    succ = [set(x) for x in succ]
    for name in set(n[1] for n in nodes if n[0] == "kill"):
        after = set(k for k, n in enumerate(nodes) if n[0] == "kill" and n[1] == name)
        work = list(after)
        arrive = set()
        while work:
            x = work.pop()
            for y in succ[x]:
                arrive.add(y)
                n = nodes[y]
                if n[1] == name and n[0] in ("bind", "kill"):
                    continue
                if y not in after:
                    after.add(y)
                    work.append(y)
        for y in arrive:
            if nodes[y][0] == "load" and nodes[y][1] == name:
                out.add((name, nodes[y][2]))
    for t, h, last, name in seeds:
        reach, work = set(), [k for k, n in enumerate(nodes) if n[0] == "bind" and n[1] == name]
        while work:
            x = work.pop()
            for y in succ[x]:
                if y not in reach:
                    reach.add(y)
                    work.append(y)
        if t in reach:
            continue
        # inside the handler: any path; after it: straight-line code only
        hu, work, arrive = {h}, [h], set()
        while work:
            x = work.pop()
            for y in succ[x]:
                arrive.add(y)
                if h <= y <= last and not (nodes[y][1] == name and nodes[y][0] in ("bind", "kill")) and y not in hu:
                    hu.add(y)
                    work.append(y)
        dead = set(y for y in arrive if h <= y <= last)
        for y in arrive:
            if h <= y <= last:
                continue
            x, seen = y, set()
            while x not in seen:
                seen.add(x)
                if nodes[x][1] == name and nodes[x][0] == "bind":
                    break
                dead.add(x)
                if len(succ[x]) != 1:
                    break
                x = next(iter(succ[x]))
        for y in dead:
            if nodes[y][0] == "load" and nodes[y][1] == name:
                out.add((name, nodes[y][2]))
    return out
