"""C17 helpers: Python objects realising the flow profiles of spec/SliceFlow.tla and the dependent
iterables of spec/ChainRef.tla / ChainLazy.tla.

Flow profiles.  A profile is (proto, caps): how iter(flow) works ("once" / "iter" / "legacy") and which other
protocols the object offers (a subset of CAPS).  flow_class() synthesises a class with EXACTLY that protocol
surface over a list of values: an operation outside the profile fails the way Python fails for a missing
method (TypeError) or an unsupported argument (TypeError for a slice, IndexError for a negative index);
an operation inside the profile is honest.  builtin_flows() adds the builtin types that have the surface.
"""
import collections
import collections.abc
import itertools

CAPS = ("len", "index", "neg", "slice", "seq", "rev")
_CLASSES = {}


def _values(vals):
    for v in vals:
        yield v


HINTS = ("absent", "exact", "small", "large", "zero", "notimpl", "typeerr")


def hint_fn(hint):
    """__length_hint__ of an iterator with the given hint surface, as a function of the number of values
    really remaining (the number operator.length_hint then returns is SliceFlow.tla's HintOf; the harness
    compares it with the exported hint0)."""
    if hint == "exact":
        return lambda rem: rem
    if hint == "small":
        return lambda rem: max(rem - 1, 0)
    if hint == "large":
        return lambda rem: rem + 2
    if hint == "zero":
        return lambda rem: 0
    if hint == "notimpl":
        return lambda rem: NotImplemented

    def raising(rem):
        raise TypeError("no length hint")
    if hint == "typeerr":
        return raising
    raise ValueError(hint)


class _LiveIter(object):
    """An iterator over a LIVE list (values appended before its end was signalled are delivered; the end is
    final) with a __length_hint__ of the given kind."""
    __slots__ = ("_v", "_i", "_end", "_hint")

    def __init__(self, vals, hint):
        self._v, self._i, self._end, self._hint = vals, 0, False, hint_fn(hint)

    def __iter__(self):
        return self

    def __next__(self):
        if self._end or self._i >= len(self._v):
            self._end = True
            raise StopIteration
        self._i += 1
        return self._v[self._i - 1]

    def __length_hint__(self):
        return self._hint(0 if self._end else len(self._v) - self._i)


def flow_class(proto, caps, hint="absent"):
    caps = frozenset(caps)
    key = (proto, caps, hint)
    if key in _CLASSES:
        return _CLASSES[key]
    ns = {"__slots__": ("_v", "_i", "_end")}

    def __init__(self, vals):
        self._v = list(vals)
        self._i = 0
        self._end = False
    ns["__init__"] = __init__
    # the underlying list is live: grow() appends to it
    ns["grow"] = lambda self, val: self._v.append(val)
    if proto == "once":
        def __iter__(self):
            return self

        def __next__(self):
            # the end of an iterator is final, also when its list grows afterwards
            if self._end or self._i >= len(self._v):
                self._end = True
                raise StopIteration
            self._i += 1
            return self._v[self._i - 1]
        ns["__iter__"], ns["__next__"] = __iter__, __next__
        if hint != "absent":
            fn = hint_fn(hint)
            ns["__length_hint__"] = lambda self: fn(0 if self._end else len(self._v) - self._i)
    elif proto == "iter":
        if hint == "absent":
            def __iter__(self):
                # a fresh iterator (cursor 0) for every request
                return _values(self._v)
        else:
            def __iter__(self):
                return _LiveIter(self._v, hint)
        ns["__iter__"] = __iter__
    elif proto != "legacy":
        raise ValueError(proto)
    if proto == "legacy" and "index" not in caps:
        raise ValueError("a flow without __iter__ needs __getitem__")
    if proto == "legacy" and hint != "absent":
        raise ValueError("the iterator of a flow without __iter__ is the builtin one")
    if "index" in caps:
        with_slice, with_neg = "slice" in caps, "neg" in caps

        def __getitem__(self, k):
            if isinstance(k, slice):
                if not with_slice:
                    raise TypeError("sequence index must be integer, not 'slice'")
                return self._v[k]
            if isinstance(k, bool) or not isinstance(k, int):
                raise TypeError("sequence index must be integer")
            if k < 0 and not with_neg:
                raise IndexError("index out of range")
            return self._v[k]
        ns["__getitem__"] = __getitem__
    if "len" in caps:
        ns["__len__"] = lambda self: len(self._v)
    if "rev" in caps:
        ns["__reversed__"] = lambda self: _values(self._v[::-1])
    name = "Flow_%s_%s" % (proto, "_".join(c for c in CAPS if c in caps) or "bare")
    if hint != "absent":
        name += "_hint_" + hint
    cls = type(name, (object,), ns)
    if "seq" in caps:
        collections.abc.Sequence.register(cls)
    _CLASSES[key] = cls
    return cls


def profile_of(rec):
    """(proto, caps) of an exported record of SliceFlow.tla."""
    return rec["proto"], frozenset(c for c in CAPS if rec[c])


def signature(rec):
    """Readable name of the protocol surface of a record: proto+caps[+hint=...]."""
    proto, caps = profile_of(rec)
    sig = "+".join((proto,) + tuple(c for c in CAPS if c in caps))
    if rec.get("hint", "absent") != "absent":
        sig += "+hint=" + rec["hint"]
    return sig


ALL = frozenset(CAPS)
# builtin types by protocol surface: name -> constructor over range(n)
_BUILTINS = {
    ("once", frozenset()): (("iterator", lambda n: iter(list(range(n)))),
                            ("generator", lambda n: (i for i in range(n))),
                            ("map", lambda n: map(int, range(n)))),
    ("iter", ALL): (("list", lambda n: list(range(n))),
                    ("tuple", lambda n: tuple(range(n))),
                    ("range", lambda n: range(n)),
                    ("bytes", lambda n: bytes(range(n))),
                    ("str", lambda n: "abcdefghijklmnopqrstuvwxyz"[:n])),
    # collections.deque is a registered Sequence that takes integers only
    ("iter", ALL - {"slice"}): (("deque", lambda n: collections.deque(range(n))),),
    # the keys view of a dict (insertion ordered); a dict itself: its __getitem__ is by key, not by position
    ("iter", frozenset(("len", "rev"))): (("dict_keys", lambda n: dict.fromkeys(range(n)).keys()),
                                          ("dict", lambda n: dict((i, "v%d" % i) for i in range(n))),
                                          ("dict_shifted", lambda n: dict((i + 3, i) for i in range(n)))),
    ("iter", frozenset(("len",))): (("frozenset", lambda n: frozenset(range(n))),),
}


# builtin iterators whose length hint is the exact number of remaining values
_BUILTINS_HINT = {
    ("once", frozenset(), "exact"): (("list_iterator", lambda n: iter(list(range(n)))),
                                     ("tuple_iterator", lambda n: iter(tuple(range(n)))),
                                     ("range_iterator", lambda n: iter(range(n))),
                                     ("deque_iterator", lambda n: iter(collections.deque(range(n)))),
                                     ("dict_keyiterator", lambda n: iter(dict.fromkeys(range(n)))),
                                     ("list_reverseiterator", lambda n: reversed(list(range(n - 1, -1, -1)))),
                                     ("bytes_iterator", lambda n: iter(bytes(range(n))))),
    ("iter", frozenset(("len",)), "exact"): (("set", lambda n: set(range(n))),),
}


def builtin_flows(proto, caps, hint="absent"):
    if hint != "absent":
        return _BUILTINS_HINT.get((proto, frozenset(caps), hint), ())
    return _BUILTINS.get((proto, frozenset(caps)), ())


def realisations(proto, caps, n, hint="absent"):
    """[(name, make)]: make() -> a new flow object with n values; list(make()) are the values in flow order."""
    cls = flow_class(proto, caps, hint)
    res = [("synthetic", lambda: cls(range(n)))]
    for name, make in builtin_flows(proto, caps, hint):
        res.append((name, (lambda make: lambda: make(n))(make)))
    return res


def _live_list(n, wrap):
    data = list(range(n))
    return wrap(data), data.append


def _live_bytearray(n, wrap):
    data = bytearray(range(n))
    return wrap(data), data.append


# builtin LIVE flows: name -> make(n) -> (flow, append)
_LIVE_BUILTINS = {
    ("once", frozenset(), "exact"): (("list_iterator", lambda n: _live_list(n, iter)),
                                     ("bytearray_iterator", lambda n: _live_bytearray(n, iter))),
    ("once", frozenset(), "absent"): (("generator over a list", lambda n: _live_list(n, lambda d: (v for v in d))),
                                      ("map over a list", lambda n: _live_list(n, lambda d: map(int, d))),
                                      ("chain over a list", lambda n: _live_list(n, lambda d: itertools.chain(d)))),
    # (the iterators these containers hand out have an exact hint of their own)
    ("iter", ALL, "absent"): (("list", lambda n: _live_list(n, lambda d: d)),
                              ("bytearray", lambda n: _live_bytearray(n, lambda d: d))),
}


def live_realisations(proto, caps, n, hint="absent"):
    """[(name, make)]: make() -> (flow over the values 0..n-1, append(value) adding a value to the live flow)."""
    cls = flow_class(proto, caps, hint)

    def synthetic():
        obj = cls(range(n))
        return obj, obj.grow
    res = [("synthetic", synthetic)]
    for name, make in _LIVE_BUILTINS.get((proto, frozenset(caps), hint), ()):
        res.append((name, (lambda make: lambda: make(n))(make)))
    return res


# ----------------------------------------------------------------------------------------------------------
# Chain over dependent iterables (ChainRef.tla)

class Boom(Exception):
    """Raised by a "boom" iterable after its values."""


class SnapshotLog(object):
    """A user container that decides in __iter__ what it delivers (a copy of its present content)."""

    def __init__(self):
        self._items = []

    def add(self, item):
        self._items.append(item)

    def __iter__(self):
        return iter(list(self._items))

    def content(self):
        return list(self._items)


class LazyLog(SnapshotLog):
    """The same, but the iterator looks at the container only when its first value is requested."""

    def __iter__(self):
        return _values(self._items)


def _shared(kind):
    """-> (container, register(value), content())."""
    if kind == "snapshot":
        c = SnapshotLog()
        return c, c.add, c.content
    if kind == "lazylog":
        c = LazyLog()
        return c, c.add, c.content
    if kind == "dict":
        c = {}
        return c, (lambda v: c.__setitem__(v, True)), (lambda: list(c))
    if kind == "deque":
        c = collections.deque()
        return c, c.append, (lambda: list(c))
    if kind == "list":
        c = []
        return c, c.append, (lambda: list(c))
    if kind == "dict_keys":
        d = {}
        return d.keys(), (lambda v: d.__setitem__(v, True)), (lambda: list(d))
    raise ValueError(kind)


SHARED_KINDS = ("snapshot", "dict", "deque", "list", "lazylog", "dict_keys")


def _registering(vals, register):
    for v in vals:
        register(v)
        yield v


def _raising(vals):
    for v in vals:
        yield v
    raise Boom()


def chain_iterables(kinds, lens, shared_kind, static_as=list):
    """The iterables of a ChainRef scenario -> (iterables, content())."""
    container, register, content = _shared(shared_kind)
    its = []
    for k, (kind, m) in enumerate(zip(kinds, lens), 1):
        vals = [(k, j) for j in range(m)]
        if kind == "static":
            its.append(static_as(vals))
        elif kind == "reg":
            its.append(_registering(vals, register))
        elif kind == "snap":
            its.append(container)
        elif kind == "boom":
            its.append(_raising(vals))
        else:
            raise ValueError(kind)
    return its, content
