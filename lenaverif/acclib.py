"""Binding of spec/Accumulators.tla to the real lena accumulators.

kind records, flow values and results are the JSON images of the TLA+ values:
  value   {"d": data, "c": context, "h": is-a-pair}
  result  {"ok": True, "out": [values]} | {"ok": False, "exc": class name}
A float is a limb list [{"i": index, "c": coefficient}] of value sum c * B**(i - UNIT), B = 2**15.
"""
import collections
import copy
import decimal
import json
import math
import random
from fractions import Fraction

from .util import exc_name

NONE = -1000
B = 32768
UNIT = 72            # limb index of 2**0; 2**-1080 is the smallest unit, enough for every double
FLOAT_KINDS = ("DSum",)


# ------------------------------------------------------------------ encodings
def limbs_value(ls):
    """Exact value of a limb list."""
    return sum((Fraction(l["c"]) * Fraction(B) ** (l["i"] - UNIT) for l in ls), Fraction(0))


def limbs_float(ls):
    fr = limbs_value(ls)
    x = float(fr)
    if Fraction(x) != fr:
        raise ValueError("limb list is not a double: %r" % (ls,))
    return x


def to_limbs(x):
    """Canonical limb list (non-negative limbs < B times the sign) of an exact number, or None
    when it is not a multiple of the unit."""
    fr = Fraction(x) * Fraction(B) ** UNIT
    if fr.denominator != 1:
        return None
    k = fr.numerator
    sign = -1 if k < 0 else 1
    k = abs(k)
    out, i = [], 0
    while k:
        k, r = divmod(k, B)
        if r:
            out.append({"i": i, "c": sign * r})
        i += 1
    return out


# ------------------------------------------------------------------ numbers of different Python kinds (kind NSum)
NW = 2 ** 27
NUM_TYPES = {"int": int, "float": float, "frac": Fraction}


def num_value(n):
    """exact value of a number [hi, lo, nk] of the spec (counted in halves)"""
    return Fraction(n["hi"] * NW + n["lo"], 2)


def py_num(n):
    """the Python number of that kind"""
    fr = num_value(n)
    if n["nk"] == "int":
        if fr.denominator != 1:
            raise ValueError("not an int: %r" % (n,))
        return int(fr)
    if n["nk"] == "float":
        x = float(fr)
        if Fraction(x) != fr:
            raise ValueError("not a double: %r" % (n,))
        return x
    return fr


def enc_num(x):
    """a Python number -> [hi, lo, nk], or None when it is outside the domain of the spec"""
    nk = {int: "int", float: "float", Fraction: "frac"}.get(type(x))
    if nk is None or (nk == "float" and not math.isfinite(x)):
        return None
    k = Fraction(x) * 2
    if k.denominator != 1 or k < 0 or k.numerator >= 2 ** 57:
        return None
    return {"hi": k.numerator // NW, "lo": k.numerator % NW, "nk": nk}


def num_mismatch(exp, got):
    """the observed number must be of the Python kind and of the exact value the model gives; a float value is
    judged only where both readings of "Python's sum" agree (the caller passes exp["decided"] = False otherwise)"""
    if type(got) is not NUM_TYPES[exp["nk"]]:
        return "number-kind"
    return None if Fraction(got) == num_value(exp) else "data"


def num_undecided(kind, h, j):
    """the compute at index j of history h yields a float sum on which the two readings of "Python's sum" (built-in
    sum(), compensated since Python 3.12, and left-to-right addition, the model) differ: its value is not judged"""
    if kind["t"] != "NSum":
        return False
    fills = []
    for o in h[:j]:
        if o["op"] == "f":
            fills.append(py_num(o["x"]["d"]))
        elif o["op"] == "r":
            fills = []
    return not sums_agree(fills, 0)


def type_skeleton(x, depth=0):
    """the Python types inside a yielded datum (3 == 3.0 == Fraction(3), but they are observably different)"""
    if isinstance(x, (tuple, list)) and depth < 4:
        return [type(x).__name__] + [type_skeleton(y, depth + 1) for y in x]
    if isinstance(x, dict) and depth < 4:
        return dict((str(k), type_skeleton(v, depth + 1)) for k, v in x.items())
    return type(x).__name__


def is_float_kind(kind):
    return kind["t"] == "DSum" or (kind["t"] == "Mean" and kind["inner"] == "DSum")


def label(kind):
    lab = _label(kind)
    return lab + "{%s}" % kind["opt"] if kind.get("opt") else lab


def _label(kind):
    t = kind["t"]
    if t == "Count":
        return "Count[%s,start=%d]" % (kind["name"], kind["start"])
    if t == "Sum":
        return "Sum[start=%d]" % kind["start"]
    if t == "NSum":
        return "Sum[numeric-kinds]"
    if t == "DSum":
        return "DSum" if not kind.get("dstart") else "DSum[start]"
    if t == "Mean":
        return "Mean[%s%s]" % (kind["inner"], ",pass_on_empty" if kind["poe"] else "")
    if t == "VMC":
        return "VarianceMeanCount[%s%s%s]" % ("corrected" if kind["corr"] else "uncorrected",
                                              ",pass_on_empty" if kind["poe"] else "",
                                              ",sums-given" if kind.get("given") else "")
    if t == "Vec":
        inner = label(kind["inners"][0]) + ",dim=%d" % len(kind["inners"]) if kind["form"] == "dim" else \
            "[" + ",".join(label(k) for k in kind["inners"]) + "]"
        return "Vectorize[%s%s]" % (inner, {"named": ",construct", "add": ",construct=add"}.get(kind["cons"], ""))
    if t == "Store":
        return "StoreFilled[%s]" % ("group" if kind["grp"] else "one-by-one")
    if t == "GroupBy":
        return "GroupBy[%s]" % (groupby_call(kind)[2] if kind["by"] == "cfg" else kind["by"])
    if t == "Hist":
        return "Histogram[%s]" % kind["var"]
    if t == "Hist2":
        return "Histogram[2d]" if kind.get("var", "plain") == "plain" else "Histogram[2d,%s]" % kind["var"]
    if t == "Graph":
        return "Graph[scale=%s,sort=%s%s]" % ("None" if kind["scale"] == NONE else kind["scale"], kind["sort"],
                                              ",points" if kind.get("ipts") else "")
    return t


def groupby_call(kind):
    """GroupBy(group_by, merge) of a kind with by = "cfg": the arguments as they are given - gb / mg lists of paths
    (a path is the list of the dot-separated parts of a key, [] the empty string), gsp / msp their spelling
    ("omit": not passed, "str": one bare string, "tuple": a tuple of strings) -> (args, kwargs, text)"""
    def spell(paths, how):
        keys = [".".join(p) for p in paths]
        if how == "str":
            if len(keys) != 1:
                raise ValueError("one string expected: %r" % (paths,))
            return keys[0]
        return tuple(keys)
    args, kwargs, text = [], {}, []
    if kind["gsp"] != "omit":
        args.append(spell(kind["gb"], kind["gsp"]))
        text.append(repr(args[0]))
    elif kind["gb"] != [[]]:
        raise ValueError("only the default can be omitted: %r" % (kind,))
    if kind["msp"] != "omit":
        kwargs["merge"] = spell(kind["mg"], kind["msp"])
        text.append("merge=" + repr(kwargs["merge"]))
    elif kind["mg"] != [[]]:
        raise ValueError("only the default can be omitted: %r" % (kind,))
    return args, kwargs, ",".join(text).replace("'", '"').replace(" ", "")


def fresh_kind(kind):
    k = dict(kind)
    if k["t"] in ("Count", "Sum"):
        k["start"] = 0
    elif k["t"] == "DSum":
        k["dstart"] = []
    elif k["t"] == "Vec":
        k["inners"] = [fresh_kind(x) for x in k["inners"]]
    elif k["t"] == "Graph":
        k["ipts"], k["ictx"] = [], {}
    return k


# values that look like nothing, used as data of Count / StoreFilled / GroupBy ("odd" kinds): label -> object
ODD = {0: None, -2: "", 3: [], 1: False, 2: 0.0, -1: ()}


def odd_label(x):
    for lab, obj in ODD.items():
        if type(x) is type(obj) and x == obj:
            return lab
    return x


def reordered(c, flip):
    """the same dictionary with its keys inserted in reverse order at every nesting level (flip) - equal as a
    dictionary, different as a sequence of items"""
    if not isinstance(c, dict):
        return c
    keys = sorted(c, reverse=bool(flip))
    return dict((k, reordered(c[k], flip)) for k in keys)


def py_ctx(c, flip=None):
    if c == [] or c is None:
        return {}
    c = copy.deepcopy(c)
    if c.get("scale", 0) == NONE:
        c["scale"] = None
    return c if flip is None else reordered(c, flip)


def py_data(kind, d):
    t = kind["t"]
    if is_float_kind(kind):
        return limbs_float(d)
    if t == "NSum":
        return py_num(d)
    if kind.get("opt") == "half":
        return d / 2.0
    if kind.get("opt") == "odd":
        return copy.deepcopy(ODD[d])
    if t == "Vec":
        return tuple(py_value(k, x) for k, x in zip(kind["inners"], d))
    if t in ("Graph", "Hist2"):
        return tuple(d)
    return d


def py_value(kind, v, flip=None):
    d = py_data(kind, v["d"])
    if v["h"]:
        return (d, py_ctx(v["c"], flip))
    return d


def build(kind):
    import lena.math
    import lena.flow
    import lena.structures
    t = kind["t"]
    if t == "Count":
        return lena.flow.Count(kind["name"], count=kind["start"])
    if t == "Sum":
        # (a start of 0 is the int 0 of Sum(): what reset() is documented to install)
        return lena.math.Sum(kind["start"] / 2.0 if kind.get("opt") == "half" and kind["start"] else kind["start"])
    if t == "NSum":
        return lena.math.Sum()
    if t == "DSum":
        if kind.get("dstart"):
            start = limbs_value(kind["dstart"])
            return lena.math.DSum(int(start) if start.denominator == 1 else float(start))
        return lena.math.DSum()
    if t == "Mean":
        import lena.core
        sum_seq = {"py": lambda: None, "DSum": lena.math.DSum, "Sum": lena.math.Sum, "Count": lena.flow.Count,
                   "Sum2": lambda: lena.core.Split([lena.math.Sum(), lena.flow.Count()])}[kind["inner"]]()
        return lena.math.Mean(sum_seq=sum_seq, pass_on_empty=kind["poe"])
    if t == "VMC":
        if kind.get("given"):
            return lena.math.VarianceMeanCount(sum_sq=lena.math.Sum(), sum_=lena.math.Sum(),
                                               corrected=kind["corr"], pass_on_empty=kind["poe"])
        return lena.math.VarianceMeanCount(corrected=kind["corr"], pass_on_empty=kind["poe"])
    if t == "Vec":
        n = len(kind["inners"])
        import operator
        import lena.core
        construct = {"named": vec_class(n), "add": operator.add}.get(kind["cons"])
        inner = (lambda k: lena.core.FillComputeSeq(build(k))) if kind.get("opt") == "wrap" else build
        if kind["form"] == "dim":
            return lena.math.Vectorize(inner(kind["inners"][0]), dim=n, construct=construct)
        return lena.math.Vectorize([inner(k) for k in kind["inners"]], construct=construct)
    if t == "Store":
        return lena.flow.StoreFilled(yield_as_a_group=kind["grp"])
    if t == "GroupBy":
        if kind["by"] == "cfg":
            args, kwargs, _ = groupby_call(kind)
            gb = lena.flow.GroupBy(*args, **kwargs)
        else:
            gb = lena.flow.GroupBy() if kind["by"] == "all" else \
                lena.flow.GroupBy(("a", "count") if kind["by"] == "ac" else kind["by"])
        return DeprecatedGroupBy(gb) if kind.get("opt") == "dep" else gb
    if t == "Hist":
        var, edges, init = kind["var"], list(kind["edges"]), copy.deepcopy(kind["init"])
        if var == "plain":
            return lena.structures.Histogram(edges)
        if var == "bins":
            return lena.structures.Histogram(edges, bins=init)
        if var == "make":
            return lena.structures.Histogram(edges, make_bins=lambda: copy.deepcopy(init))
        if var == "iv":
            return lena.structures.Histogram(edges, initial_value=init[0])
    if t == "Hist2":
        edges2d = [list(kind["edges"]), list(kind["edges2"])]
        init2 = [list(row) for row in kind["init2"]]
        var = kind.get("var", "plain")
        if var == "bins":
            return lena.structures.Histogram(edges2d, bins=init2)
        if var == "make":
            return lena.structures.Histogram(edges2d, make_bins=lambda: [list(row) for row in init2])
        return lena.structures.Histogram(edges2d)
    if t == "Graph":
        kw = {}
        if kind.get("ipts"):
            kw = {"points": [tuple(p) for p in kind["ipts"]], "context": py_ctx(kind["ictx"])}
        return lena.structures.Graph(scale=None if kind["scale"] == NONE else kind["scale"], sort=kind["sort"], **kw)
    raise ValueError(kind)


class DeprecatedGroupBy(object):
    """GroupBy driven through its deprecated aliases: update() for fill(), clear() for reset()."""

    def __init__(self, gb):
        self.gb = gb

    def fill(self, value):
        import warnings
        with warnings.catch_warnings():
            warnings.simplefilter("ignore")
            self.gb.update(value)

    def compute(self):
        return self.gb.compute()

    def reset(self):
        import warnings
        with warnings.catch_warnings():
            warnings.simplefilter("ignore")
            self.gb.clear()


_VEC_CLASSES = {}


def vec_class(n):
    """the *construct* of Vectorize: a namedtuple class of dimension n"""
    import collections
    if n not in _VEC_CLASSES:
        _VEC_CLASSES[n] = collections.namedtuple("VecN", ["f%d" % i for i in range(n)])
    return _VEC_CLASSES[n]


# ------------------------------------------------------------------ observation
def _has_context(v):
    return isinstance(v, tuple) and len(v) == 2 and isinstance(v[1], dict)


def enc_ctx(c):
    c = copy.deepcopy(c)
    if "scale" in c and c["scale"] is None:
        c["scale"] = NONE
    return c


def enc_filled(v):
    """A value that was filled (StoreFilled / GroupBy yield them back): ints, or the "odd" objects."""
    if _has_context(v):
        return {"d": odd_label(v[0]), "c": enc_ctx(v[1]), "h": True}
    return {"d": odd_label(v), "c": {}, "h": False}


def snap(kind, item):
    """Plain-Python snapshot of one yielded item (results may be live objects)."""
    data, ctx, h = (item[0], item[1], True) if _has_context(item) else (item, {}, False)
    t = kind["t"]
    if t in ("Hist", "Hist2"):
        import lena.structures
        if isinstance(data, lena.structures.histogram):
            data = {"hist": True, "edges": copy.deepcopy(data.edges), "bins": copy.deepcopy(data.bins),
                    "oor": data.n_out_of_range}
    elif t == "Graph":
        import lena.structures
        if isinstance(data, lena.structures.Graph):
            data = {"graph": True, "points": copy.deepcopy(list(data.points))}
    else:
        data = copy.deepcopy(data)
    return {"d": data, "c": copy.deepcopy(ctx), "h": h, "ty": type_skeleton(data)}


def observe(kind, el):
    """compute() -> {"ok": True, "items": [snapshots]} | {"ok": False, "exc": name, "repr": ...}"""
    try:
        items = [snap(kind, x) for x in el.compute()]
    except Exception as exc:      # noqa
        return {"ok": False, "exc": exc_name(exc), "repr": repr(exc)[:200]}
    return {"ok": True, "items": items, "attrs": public_attrs(kind, el)}


class Abort(Exception):
    def __init__(self, what, index, kind=None, events=None):
        Exception.__init__(self, what)
        self.what, self.index, self.kind, self.events = what, index, kind, events


def run_history(kind, ops, el=None):
    """Execute ops ({"op": "f"/"c"/"r", "x": ...}) on a real element; returns the observations of the
    computes (one per "c").  fill / reset raising is an Abort (they never raise by the documentation
    on the values used)."""
    if el is None:
        try:
            el = build(kind)
        except Exception as exc:   # noqa
            raise Abort("construction:raised:" + exc_name(exc), 0)
    obs = []
    for idx, o in enumerate(ops):
        if o["op"] == "f":
            try:
                el.fill(py_value(kind, o["x"], flip=idx % 2))      # the key order alternates from fill to fill
            except Exception as exc:   # noqa
                raise Abort("fill:raised:" + exc_name(exc), idx)
        elif o["op"] == "c":
            obs.append(observe(kind, el))
        elif o["op"] == "rx":
            # a reset() that is documented (by the test-suite) to raise: Mean over a sum_seq without reset
            try:
                el.reset()
                raise Abort("reset:no-exception", idx)
            except Abort:
                raise
            except Exception as exc:   # noqa
                if exc_name(exc) != "LenaAttributeError":
                    raise Abort("reset:wrong-exception:" + exc_name(exc), idx)
        else:
            try:
                el.reset()
            except Exception as exc:   # noqa
                raise Abort("reset:raised:" + exc_name(exc), idx)
    return obs


# ------------------------------------------------------------------ results held by the consumer (spec/AccHeld.tla)
def run_held(kind, ops, keep):
    """Execute a behaviour of AccHeld.tla on a real element, holding every item that compute() yields (the objects
    themselves, not copies).  keep[n][j] (from the model): operation n must leave the j-th held result as the
    consumer saw it before the operation.  -> list of (index of the operation, what, detail)"""
    el = build(kind)
    held = []          # per compute: None (it raised) or [live items, their look (deep snapshots)]
    bad = []
    was_reset = False
    for idx, o in enumerate(ops):
        if o["op"] == "f":
            el.fill(py_value(kind, o["x"], flip=idx % 2))
            name = "fill-after-reset" if was_reset else "fill"
        elif o["op"] == "c":
            try:
                items = list(el.compute())
            except Exception:      # noqa  (judged by the replay of Accumulators.tla)
                items = None
            name = "compute-after-reset" if was_reset else "compute"
        else:
            try:
                el.reset()
            except Exception:      # noqa
                pass
            name = "reset"
            was_reset = was_reset or o["op"] == "r"
        for j, entry in enumerate(held):
            if entry is None:
                continue
            look = [snap(kind, x) for x in entry[0]]
            if keep[idx][j] and look != entry[1]:
                bad.append((idx, "held-result-changed:by-" + name,
                            {"yielded_by_operation": entry[2], "as_yielded": entry[1], "now": look}))
            entry[1] = look
        if o["op"] == "c":
            held.append(None if items is None else [items, [snap(kind, x) for x in items], idx])
    return bad


# ------------------------------------------------------------------ float oracle (outside TLC, DESIGN.md section 6)
def ltr(xs, start=0):
    """left-to-right float addition: what "Python's sum" means operationally"""
    import functools
    import operator
    return functools.reduce(operator.add, xs, start)


def sums_agree(xs, start=0):
    """Both readings of "Python's sum" give the same number: the built-in sum() (compensated for floats since
    Python 3.12) and left-to-right addition.  The oracle is applied to such sequences only."""
    return sum(xs, start) == ltr(xs, start)


def fmap(d, j):
    """an int of the model -> a float that is inexact in binary (the additions round)"""
    return d * 0.1 + (j % 5) * 0.7


def float_kind(kind):
    """the kinds whose documented aggregate is a float formula over Python's sum"""
    t = kind["t"]
    if kind.get("opt"):
        return False
    if t == "Sum":
        return True
    if t == "Mean":
        return kind["inner"] in ("py", "Sum")
    if t == "VMC":
        return True
    if t == "Vec":
        return kind["form"] == "dim" and kind["inners"][0]["t"] == "Sum" and not kind["inners"][0].get("opt") \
            and kind["cons"] in ("tuple", "named")
    return False


def float_check(kind, xs, start, got, el=None):
    """None (fine or not decidable) or a description of the mismatch of one computed datum against the oracle.
    xs: the floats filled since the last reset."""
    from fractions import Fraction as F
    t, n = kind["t"], len(xs)
    if t == "Sum":
        if not sums_agree(xs, start):
            return None
        want = ltr(xs, start)
        if got != want:
            return {"what": "float-sum", "expected": repr(want), "observed": repr(got)}
        if el is not None and getattr(el, "total", want) != want:
            return {"what": "float-total", "expected": repr(want), "observed": repr(el.total)}
        return None
    if n == 0:
        return None
    if t == "Mean":
        if not sums_agree(xs, 0):
            return None
        want = float(ltr(xs, 0)) / float(n)
        return None if got == want else {"what": "float-mean", "expected": repr(want), "observed": repr(got)}
    if t == "VMC":
        if not (isinstance(got, tuple) and len(got) == 3):
            return {"what": "float-shape", "observed": repr(got)}
        var, mean, count = got
        if sums_agree(xs, 0):
            want = ltr(xs, 0) / n
            if mean != want or count != n:
                return {"what": "float-mean", "expected": repr(want), "observed": repr(mean)}
        s, q = sum(F(x) for x in xs), sum(F(x) * F(x) for x in xs)
        if kind["corr"] and n < 2:
            return None
        exact = (n * q - s * s) / (F(n * n * (n - 1)) if kind["corr"] else F(n * n * n)) * (n if kind["corr"] else n)
        if not close(var, float(exact), float(q) / n):
            return {"what": "float-variance", "expected": repr(float(exact)), "observed": repr(var)}
        return None
    return None


def float_variant(kind, ops):
    """The history with every filled number x replaced by the inexact float fmap(x, index), on a new real element:
    list of (index of the compute, mismatch)."""
    if not float_kind(kind):
        return []
    el = build(kind)
    t = kind["t"]
    start = kind["start"] if t == "Sum" else (kind["inners"][0]["start"] if t == "Vec" else 0)
    fills, bad = [], []
    for idx, o in enumerate(ops):
        if o["op"] == "f":
            v = o["x"]
            if t == "Vec":
                d = tuple((fmap(c["d"], idx + k), py_ctx(c["c"])) if c["h"] else fmap(c["d"], idx + k)
                          for k, c in enumerate(v["d"]))
                plain = tuple(fmap(c["d"], idx + k) for k, c in enumerate(v["d"]))
            else:
                d = plain = fmap(v["d"], idx)
            el.fill((d, py_ctx(v["c"])) if v["h"] else d)
            fills.append(plain)
        elif o["op"] == "c":
            try:
                items = list(el.compute())
            except Exception:      # noqa  (an empty Mean: decided by the exact model)
                continue
            for item in items[:1]:
                data = item[0] if _has_context(item) else item
                if t == "Vec":
                    for k in range(len(kind["inners"])):
                        g = data[k]
                        g = g[0] if _has_context(g) else g
                        m = float_check(kind["inners"][0], [f[k] for f in fills], start, g)
                        if m:
                            bad.append((idx, m))
                            break
                else:
                    m = float_check(kind, fills, start, data, el)
                    if m:
                        bad.append((idx, m))
        elif o["op"] == "rx":
            try:
                el.reset()
            except Exception:      # noqa
                pass
        else:
            el.reset()
            fills, start = [], 0
    return bad


def rand_float_history(rnd):
    """a kind and a list of floats with inexact additions (decimal fractions of mixed magnitude)"""
    t = rnd.choice(["Sum", "Sum", "Sum5", "Mean", "MeanSum", "VMC", "Vec"])
    n = rnd.randint(2, 12)
    scale = rnd.choice([1, 1, 10, 1000, 1e6])
    xs = [round(rnd.uniform(-1, 1) * scale, rnd.randint(1, 3)) if rnd.random() < 0.8 else rnd.uniform(-1, 1) * scale
          for _ in range(n)]
    if rnd.random() < 0.3:
        xs = [abs(x) for x in xs]
    kind = {"Sum": {"t": "Sum", "start": 0}, "Sum5": {"t": "Sum", "start": rnd.choice([5, -3])},
            "Mean": {"t": "Mean", "inner": "py", "poe": False}, "MeanSum": {"t": "Mean", "inner": "Sum", "poe": False},
            "VMC": {"t": "VMC", "corr": rnd.random() < 0.5, "poe": False, "given": rnd.random() < 0.3},
            "Vec": {"t": "Vec", "inners": [{"t": "Sum", "start": 0}] * 2, "form": "dim", "cons": "tuple"}}[t]
    return kind, xs


def run_float_history(kind, xs, with_ctx):
    """fill the floats (computing now and then), -> list of mismatches"""
    el = build(kind)
    t = kind["t"]
    start = kind["start"] if t == "Sum" else 0
    bad, fills = [], []
    for j, x in enumerate(xs):
        d = (x, -x) if t == "Vec" else x
        el.fill((d, {"a": j}) if with_ctx else d)
        fills.append(d)
        if j % 3 == 2 or j == len(xs) - 1:
            item = list(el.compute())[0]
            data = item[0] if _has_context(item) else item
            if t == "Vec":
                for k in range(2):
                    g = data[k]
                    g = g[0] if _has_context(g) else g
                    m = float_check(kind["inners"][0], [f[k] for f in fills], 0, g)
                    if m:
                        bad.append(dict(m, fills=[repr(f[k]) for f in fills]))
                        break
            else:
                m = float_check(kind, fills, start, data, el)
                if m:
                    bad.append(dict(m, fills=[repr(f) for f in fills]))
    return bad


# ------------------------------------------------------------------ comparison with the spec
def close(a, b, scale=1.0):
    return abs(a - b) <= 1e-9 * max(1.0, abs(scale), abs(b))


def data_mismatch(kind, exp, got):
    """None when the observed data is the rendering of the spec's exact data, else a short reason."""
    t = kind["t"]
    half = kind.get("opt") == "half"
    if t == "Sum" and half:
        # reset() sets the total to the int 0: the number counts, not whether it is an int or a float
        return None if (type(got) in (int, float) and got == exp / 2.0) else "data"
    if t in ("Count", "Sum"):
        return None if (type(got) is int and got == exp) else "data"
    if t == "NSum":
        return num_mismatch(exp, got)
    if t == "DSum":
        if not isinstance(got, decimal.Decimal):
            return "data-type"
        return None if Fraction(got) == limbs_value(exp) else "data"
    if t == "Mean" and not isinstance(exp, dict):      # further values of a multi-valued sum_seq
        return None if (type(got) is int and got == exp) else "data"
    if t == "Mean":
        s = limbs_value(exp["s"]) if kind["inner"] == "DSum" else (exp["s"] / 2.0 if half else exp["s"])
        want = float(s) / float(exp["n"])
        return None if (isinstance(got, float) and got == want) else "data"
    if t == "VMC":
        if not (isinstance(got, tuple) and len(got) == 3):
            return "data-type"
        var, mean, count = got
        n, s = exp["n"], exp["s"]
        if count != n:
            return "count"
        if half:
            if mean != (s / 2.0) / n:
                return "mean"
            want = float(Fraction(exp["vnum"], exp["vden"])) / 4.0
            msq = (exp["vnum"] / float(n) + float(s) * s) / float(n) / n / 4.0
            return None if (isinstance(var, float) and close(var, want, msq)) else "variance"
        if mean != s / float(n):
            return "mean"
        want = float(Fraction(exp["vnum"], exp["vden"]))
        # "up to rounding": mean_sq - mean**2 cancels, so the error scales with mean_sq = Q/n,
        # Q = (vnum/n + s^2)/n the sum of squares
        msq = (exp["vnum"] / float(n) + float(s) * s) / float(n) / n
        return None if close(var, want, msq) else "variance"
    if t == "Vec":
        if kind["cons"] == "add" and not isinstance(exp, list):      # construct(*row) worked: one number
            return None if (type(got) is int and got == exp) else "construct"
        if not isinstance(got, tuple):
            return "data-type"
        if (type(got) is vec_class(len(kind["inners"]))) != (kind["cons"] == "named") or \
                (kind["cons"] != "named" and type(got) is not tuple):
            return "construct-type"
        if len(got) != len(exp):
            return "dimension"
        for inner, e, g in zip(kind["inners"], exp, got):
            if "pad" in e:
                if g is not None:
                    return "padding"
                continue
            if g is None:
                return "component-missing"
            data, ctx, h = (g[0], g[1], True) if _has_context(g) else (g, {}, False)
            if h != e["h"]:
                return "component-pair-shape"
            if enc_ctx(ctx) != py_ctx_enc(e["c"]):
                return "component-context"
            m = data_mismatch(inner, e["d"], data)
            if m:
                return "component-" + m
        return None
    if t == "Store" and not kind["grp"]:
        got = odd_label(got) if kind.get("opt") == "odd" else got
        return None if (type(got) is int and got == exp) else "data"
    if t in ("Store", "GroupBy"):
        if not isinstance(got, list):
            return "data-type"
        return None if [enc_filled(v) for v in got] == [norm_value(v) for v in exp] else "data"
    if t in ("Hist", "Hist2"):
        if not (isinstance(got, dict) and got.get("hist")):
            return "data-type"
        if got["bins"] != exp["bins"]:
            return "bins"
        if got["oor"] != exp["oor"]:
            return "n_out_of_range"
        want_edges = [list(kind["edges"]), list(kind["edges2"])] if t == "Hist2" else list(kind["edges"])
        return None if got["edges"] == want_edges else "edges"
    if t == "Graph":
        if not (isinstance(got, dict) and got.get("graph")):
            return "data-type"
        return None if [list(p) for p in got["points"]] == [list(p) for p in exp] else "points"
    raise ValueError(kind)


def norm_value(v):
    v = dict(v)
    v["c"] = {} if v["c"] == [] else v["c"]
    return v


def result_mismatch(kind, exp, got):
    """Compare a spec result with an observation.  None or a short stable reason."""
    if not exp["ok"]:
        if got["ok"]:
            return "no-exception"
        if exp["exc"] != "Any" and got["exc"] != exp["exc"]:
            return "wrong-exception:" + got["exc"]
        return None
    if not got["ok"]:
        return "raised:" + got["exc"]
    out, items = exp["out"], got["items"]
    if len(out) != len(items):
        return "number-of-results"
    if kind["t"] == "GroupBy":       # order of groups is not documented
        key = lambda v: json.dumps(v, sort_keys=True)
        a = sorted(([norm_value(x) for x in e["d"]] for e in out), key=key)
        b = sorted(([enc_filled(x) for x in g["d"]] for g in items), key=key)
        return None if a == b and not any(g["h"] for g in items) else "data"
    for e, g in zip(out, items):
        if e["h"] != g["h"]:
            return "pair-shape"
        if enc_ctx(g["c"]) != (py_ctx_enc(e["c"])):
            return "context"
        m = data_mismatch(kind, e["d"], g["d"])
        if m:
            return m
    # the documented public attributes agree with what was yielded
    attrs = got.get("attrs", {})
    t = kind["t"]
    if t == "Count" and "count" in attrs and attrs["count"] != out[0]["d"]:
        return "attribute-count"
    if t == "Sum" and "total" in attrs and attrs["total"] != (out[0]["d"] / 2.0 if kind.get("opt") == "half"
                                                              else out[0]["d"]):
        return "attribute-total"
    if t == "NSum" and "total" in attrs and num_mismatch(out[0]["d"], attrs["total"]):
        return "attribute-total"
    if t == "DSum" and "total" in attrs and Fraction(attrs["total"]) != limbs_value(out[0]["d"]):
        return "attribute-total"
    if t == "Store" and "group" in attrs:
        want = out[0]["d"] if kind["grp"] else out
        if attrs["group"] != [norm_value(v) for v in want]:
            return "attribute-group"
    return None


def public_attrs(kind, el):
    """Documented public attributes: Count.count, Sum.total / DSum.total, StoreFilled.group."""
    t = kind["t"]
    try:
        if t == "Count":
            return {"count": el.count}
        if t in ("Sum", "DSum", "NSum"):
            return {"total": el.total}
        if t == "Store":
            return {"group": [enc_filled(v) for v in el.group]}
    except AttributeError:
        pass          # a missing attribute downgrades coverage, it is not an alarm
    return {}


def py_ctx_enc(c):
    return {} if c == [] else c


# ------------------------------------------------------------------ code -> spec (recorded histories)
SHAPES = {"a": int, "b": int, "count": int, "n2": int, "scale": int, "dim": int, "n": dict,
          "n.b": int, "count.sel": int, "events.selected": int}        # flat keys written by Count(name with a dot)


def well_shaped(c):
    """Contexts handed to TLC must keep one type per key (TLC cannot compare an int with a record)."""
    if not isinstance(c, dict):
        return False
    for k, v in c.items():
        if k not in SHAPES:
            return False
        if SHAPES[k] is int:
            if type(v) is not int or abs(v) > 10 ** 9:
                return False
        else:
            if not (isinstance(v, dict) and set(v) == {"b"} and type(v["b"]) is int):
                return False
    return True


def rand_ctx(rnd, kind):
    t = kind["t"]
    if kind.get("_component") and t not in ("Store", "GroupBy", "Count"):
        return None          # numeric components of a vector are bare numbers
    if t == "GroupBy" and kind["by"] == "cfg":
        return rand_group_ctx(rnd, kind)
    if rnd.random() < 0.35 and not (t == "GroupBy" and kind["by"] in ("a", "ac")):
        return None          # a bare value
    c = {}
    if t == "GroupBy" and kind["by"] == "ac":
        # few different selected contexts, so that equal ones (of different key order) meet in one group
        c["a"] = rnd.randint(0, 1)
        if rnd.random() < 0.7:
            c["count"] = rnd.randint(0, 1)
        if rnd.random() < 0.3:
            c["b"] = rnd.randint(-5, 5)
        return shuffled(rnd, c)
    if rnd.random() < 0.6 or (t == "GroupBy" and kind["by"] == "a"):
        c["a"] = rnd.randint(0, 2)
    if rnd.random() < 0.3:
        c["b"] = rnd.randint(-5, 5)
    if rnd.random() < 0.25:
        c["count"] = rnd.randint(0, 99)
    if rnd.random() < 0.3:
        c["n"] = {"b": rnd.randint(0, 3)}
    if t == "Graph" and rnd.random() < 0.4:
        c["scale"] = rnd.choice([2, 2, 2, 3])
    return shuffled(rnd, c)


# GroupBy(group_by, merge) configurations of the recorded histories: (paths of group_by, paths of merge)
GROUP_CFGS = [
    ([[]], []), ([[]], []), ([[]], [[]]), ([], [[]]),
    ([[]], [["a"]]), ([[]], [["a"], ["count"]]), ([[]], [["b"]]), ([["a"]], [[]]), ([["b"], ["a"]], [[]]),
    ([[]], [["n", "b"]]), ([["n", "b"]], [[]]), ([[], ["n", "b"]], [["n"]]), ([[]], [["n"]]), ([["n"]], [[]]),
    ([["a"], ["n", "b"]], [[]]), ([["n"]], [[], ["n", "b"]]), ([[]], [["n", "b"], ["a"]]),
]


def rand_group_kind(rnd):
    gb, mg = copy.deepcopy(rnd.choice(GROUP_CFGS))

    def spelling(paths):
        if len(paths) != 1:
            return "tuple"
        return rnd.choice(["str", "tuple", "omit"] if paths == [[]] else ["str", "tuple"])
    gsp, msp = spelling(gb), spelling(mg)
    if gb == [[]] and mg == [[]]:
        # the empty string in both arguments is accepted as the default arguments only
        gsp, msp = rnd.choice(["str", "omit"]), rnd.choice(["str", "omit"])
    return {"t": "GroupBy", "by": "cfg", "gb": gb, "gsp": gsp, "mg": mg, "msp": msp}


def rand_group_ctx(rnd, kind):
    """few different contexts, so that equal selections meet in one group; a GroupBy that selects given keys
    only is filled with contexts that have them; where a rule leads into the sub-dictionary n, n.b is there"""
    paths = [p for p in kind["gb"] + kind["mg"] if p]
    nested = any(p[0] == "n" for p in paths)
    whole = [] in kind["gb"] or not kind["gb"]
    if whole and not nested and rnd.random() < 0.25:
        return None          # a bare value
    c = {}
    if nested or rnd.random() < 0.7:
        c["a"] = rnd.randint(0, 1)
    if rnd.random() < 0.4:
        c["count"] = rnd.randint(0, 1)
    if rnd.random() < 0.3:
        c["b"] = rnd.randint(0, 1)
    if nested or rnd.random() < 0.2:
        c["n"] = {"b": rnd.randint(0, 1)}
    if not whole:
        first = kind["gb"][0]
        if first[0] != "n" and first[0] not in c:
            c[first[0]] = rnd.randint(0, 1)
        elif first == ["n"] and "n" not in c:
            c["n"] = {"b": rnd.randint(0, 1)}
    return shuffled(rnd, c)


def shuffled(rnd, c):
    """the same dictionary with a random insertion order of its keys, at every nesting level"""
    if not isinstance(c, dict):
        return c
    keys = list(c)
    rnd.shuffle(keys)
    return dict((k, shuffled(rnd, c[k])) for k in keys)


def rand_float(rnd, prev):
    r = rnd.random()
    if prev and r < 0.2:
        return -rnd.choice(prev)               # exact cancellation
    if r < 0.3:
        return float(rnd.randint(-10 ** 6, 10 ** 6))
    if r < 0.4:
        return rnd.choice([0.1, 0.2, 0.3, 1e16, -1e16, 1.0, 1e-16, 2.0 ** 53, 2.0 ** -53, 0.0, 1e100, -1e100, 5e-324])
    return rnd.uniform(-1, 1) * 2.0 ** rnd.randint(-400, 400)


def rand_num(rnd):
    """a non-negative multiple of 0.5 of a random Python kind: small and big ints (beyond 2**53: not doubles),
    floats up to 2.0**53 (additions round), Fractions; at most 2**53 + 2**20, so that 22 of them stay in the model"""
    r = rnd.random()
    if r < 0.3:
        return rnd.randint(0, 10 ** 6)
    if r < 0.45:
        return 2 ** 53 + rnd.randint(-3, 2 ** 20)
    if r < 0.65:
        return rnd.randint(0, 2 ** 20) / 2.0
    if r < 0.8:
        return float(2 ** rnd.choice([52, 53, 53]) + 2 * rnd.randint(0, 8))
    return Fraction(rnd.randint(0, 2 ** 20), 2)


def rand_kind(rnd):
    t = rnd.choice(["Count", "Sum", "NSum", "NSum", "DSum", "DSum", "Mean", "MeanD", "VMC", "VecSum", "VecMean", "VecList", "VecList",
                    "Store", "GroupBy", "GroupBy",
                    "Hist", "Hist", "Hist2", "Graph"])
    if t == "Count":
        return {"t": "Count", "name": rnd.choice(["count", "n2", "n.b", "count.sel", "a", "events.selected"]),
                "start": rnd.choice([0, 0, 3, 10])}
    if t == "Sum":
        return {"t": "Sum", "start": rnd.choice([0, 0, 7, -4])}
    if t == "NSum":
        return {"t": "NSum"}
    if t == "DSum":
        return {"t": "DSum", "dstart": rnd.choice([[], [], to_limbs(2.5), to_limbs(-7)])}
    if t == "Mean":
        return {"t": "Mean", "inner": rnd.choice(["py", "py", "Sum", "Sum2", "Count"]), "poe": rnd.random() < 0.3}
    if t == "MeanD":
        return {"t": "Mean", "inner": "DSum", "poe": rnd.random() < 0.3}
    if t == "VMC":
        return {"t": "VMC", "corr": rnd.random() < 0.6, "poe": rnd.random() < 0.3, "given": rnd.random() < 0.3}
    if t in ("VecSum", "VecMean"):
        n = rnd.randint(1, 4)
        inner = {"t": "Sum", "start": rnd.choice([0, 0, 4])} if t == "VecSum" else \
            {"t": "Mean", "inner": "py", "poe": rnd.random() < 0.5}
        return {"t": "Vec", "inners": [inner] * n, "form": "dim", "cons": rnd.choice(["tuple", "tuple", "named"]),
                "vs": "random"}
    if t == "VecList":
        pool = [{"t": "Sum", "start": 0}, {"t": "Sum", "start": 3}, {"t": "Store", "grp": False},
                {"t": "Store", "grp": True}, {"t": "GroupBy", "by": "a"}, {"t": "GroupBy", "by": "all"},
                {"t": "GroupBy", "by": "cfg", "gb": [[]], "gsp": "str", "mg": [], "msp": "tuple"},
                {"t": "Count", "name": "count", "start": 0}, {"t": "Mean", "inner": "py", "poe": True},
                {"t": "Mean", "inner": "py", "poe": False}, {"t": "VMC", "corr": True, "poe": False, "given": False}]
        return {"t": "Vec", "inners": [rnd.choice(pool) for _ in range(rnd.randint(1, 4))], "form": "list",
                "cons": "tuple", "vs": "random"}
    if t == "Store":
        return {"t": "Store", "grp": rnd.random() < 0.5}
    if t == "GroupBy":
        by = rnd.choice(["all", "a", "ac", "ac", "cfg", "cfg", "cfg", "cfg"])
        return rand_group_kind(rnd) if by == "cfg" else {"t": "GroupBy", "by": by}
    if t == "Hist":
        n = rnd.randint(1, 5)
        edges = sorted(rnd.sample(range(-6, 9), n + 1))
        var = rnd.choice(["plain", "bins", "make", "iv"])
        if var == "plain":
            init = [0] * n
        elif var == "iv":
            init = [rnd.randint(1, 9)] * n
        else:
            init = [rnd.randint(0, 9) for _ in range(n)]
        return {"t": "Hist", "var": var, "edges": edges, "init": init}
    if t == "Hist2":
        n, m = rnd.randint(1, 3), rnd.randint(1, 3)
        var = rnd.choice(["plain", "bins", "make"])
        init2 = [[0] * m for _ in range(n)] if var == "plain" else [[rnd.randint(0, 9) for _ in range(m)] for _ in range(n)]
        return {"t": "Hist2", "var": var, "edges": sorted(rnd.sample(range(-4, 6), n + 1)),
                "edges2": sorted(rnd.sample(range(-4, 6), m + 1)), "init2": init2}
    g = {"t": "Graph", "scale": rnd.choice([NONE, NONE, 2]), "sort": rnd.random() < 0.6, "ipts": [], "ictx": {}}
    if rnd.random() < 0.3:
        g["ipts"] = [[rnd.randint(0, 4), rnd.randint(-9, 9)] for _ in range(rnd.randint(1, 3))]
        g["ictx"] = {"a": rnd.randint(0, 2)}
    return g


def rand_value(rnd, kind, prev):
    """(spec value, python value)"""
    t = kind["t"]
    c = rand_ctx(rnd, kind)
    if is_float_kind(kind):
        x = rand_float(rnd, prev)
        prev.append(x)
        d, pd = to_limbs(x), x
    elif t == "NSum":
        pd = rand_num(rnd)
        if pd >= 2 ** 50:          # few big numbers per history: the totals stay inside the model's number range
            if prev.count("big") >= 6:
                pd = 7
            else:
                prev.append("big")
        d = enc_num(pd)
    elif t in ("VMC", "Mean"):
        d = pd = rnd.randint(-50, 50)
    elif t == "Vec":
        comps = [rand_value(rnd, dict(k, _component=True), prev) for k in kind["inners"]]
        d = [c[0] for c in comps]
        pd = tuple(c[1] for c in comps)
    elif t == "Hist2":
        d = [rnd.randint(-6, 8), rnd.randint(-6, 8)]
        pd = tuple(d)
    elif t == "Hist":
        d = pd = rnd.randint(-8, 10)
    elif t == "Graph":
        d = [rnd.randint(0, 4), rnd.randint(-9, 9)]
        pd = tuple(d)
    else:
        d = pd = rnd.randint(-10 ** 5, 10 ** 5)
    if c is None:
        return {"d": d, "c": {}, "h": False}, pd
    if rnd.random() < 0.2:
        # duck-typed pair: a tuple subclass holding a dict subclass
        return {"d": d, "c": copy.deepcopy(c), "h": True}, PairNT(pd, collections.OrderedDict(c))
    return {"d": d, "c": copy.deepcopy(c), "h": True}, (pd, c)


PairNT = collections.namedtuple("PairNT", "data context")


class Malformed(Exception):
    pass


def enc_data(kind, got, fills):
    """Observed data -> exact domain of the spec.  *fills* are the python data values filled since the
    last reset: the harness' own exact reference for the float-valued aggregates (TLC checks it)."""
    t = kind["t"]
    if t in ("Count", "Sum"):
        if type(got) is not int:
            raise Malformed("data-type")
        return got
    if t == "NSum":
        n = enc_num(got)
        if n is None:
            raise Malformed("data-type")
        return n
    if t == "DSum":
        if not isinstance(got, decimal.Decimal) or not got.is_finite():
            raise Malformed("data-type")
        ls = to_limbs(Fraction(got))
        if ls is None:
            raise Malformed("data-not-a-dyadic")
        return ls
    if t == "Mean" and type(got) is int:          # further values of a multi-valued sum_seq
        return got
    if t == "Mean":
        n = len(fills)
        s = Fraction(n) if kind["inner"] == "Count" else sum((Fraction(x) for x in fills), Fraction(0))
        ok = isinstance(got, float) and n > 0 and got == float(s) / float(n)
        return {"s": to_limbs(s) if kind["inner"] == "DSum" else int(s), "n": n, "rendered": bool(ok)}
    if t == "VMC":
        n = len(fills)
        s = sum(fills)
        q = sum(x * x for x in fills)
        corr = kind["corr"]
        vnum, vden = n * (n * q - s * s), (n * n * (n - 1) if corr else n * n * n)
        ok = isinstance(got, tuple) and len(got) == 3 and got[2] == n and got[1] == s / float(n)
        if ok:
            ok = close(got[0], float(Fraction(vnum, vden)), q / float(n))
        return {"vnum": vnum, "vden": vden, "s": s, "n": n, "rendered": bool(ok)}
    if t == "Vec":
        n = len(kind["inners"])
        if not (isinstance(got, tuple) and len(got) == n):
            raise Malformed("data-type")
        if (type(got) is vec_class(n)) != (kind["cons"] == "named") or (kind["cons"] != "named" and type(got) is not tuple):
            raise Malformed("construct-type")
        out = []
        for j, inner in enumerate(kind["inners"]):
            g = got[j]
            if g is None:
                out.append({"pad": True})
                continue
            data, ctx, h = (g[0], g[1], True) if _has_context(g) else (g, {}, False)
            c = enc_ctx(ctx)
            if not well_shaped(c):
                raise Malformed("context-shape")
            col = [f[j][0] if _has_context(f[j]) else f[j] for f in fills]
            out.append({"d": enc_data(inner, data, col), "c": c, "h": h})
        return out
    if t == "Store" and not kind["grp"]:
        if type(got) is not int:
            raise Malformed("data-type")
        return got
    if t in ("Store", "GroupBy"):
        if not isinstance(got, list):
            raise Malformed("data-type")
        return [enc_filled(v) for v in got]
    if t in ("Hist", "Hist2"):
        if not (isinstance(got, dict) and got.get("hist")):
            raise Malformed("data-type")
        want_edges = [list(kind["edges"]), list(kind["edges2"])] if t == "Hist2" else list(kind["edges"])
        if got["edges"] != want_edges:
            raise Malformed("edges")
        return {"bins": got["bins"], "oor": got["oor"]}
    if t == "Graph":
        if not (isinstance(got, dict) and got.get("graph")):
            raise Malformed("data-type")
        return [list(p) for p in got["points"]]
    raise ValueError(kind)


def enc_observation(kind, obs, fills):
    if not obs["ok"]:
        return {"ok": False, "exc": obs["exc"]}
    out = []
    for g in obs["items"]:
        c = enc_ctx(g["c"])
        if not well_shaped(c):
            raise Malformed("context-shape")
        out.append({"d": enc_data(kind, g["d"], fills), "c": c, "h": g["h"]})
    return {"ok": True, "out": out}


def record_history(rnd, max_ops=24):
    """One seeded random history on a real element -> (kind, events, python-level script)."""
    kind = rand_kind(rnd)
    try:
        el = build(kind)
    except Exception as exc:   # noqa
        raise Abort("construction:raised:" + exc_name(exc), 0, kind, [])
    lab = label(kind)
    events = [{"ev": "new", "kind": kind, "k": lab}]
    fills, prev = [], []
    nops = rnd.randint(1, max_ops)
    for idx in range(nops):
        r = rnd.random()
        if r < 0.62:
            sv, pv = rand_value(rnd, kind, prev)
            try:
                el.fill(copy.deepcopy(pv))
            except Exception as exc:   # noqa
                raise Abort("fill:raised:" + exc_name(exc), idx, kind, events)
            fills.append(pv[0] if _has_context(pv) else pv)
            events.append({"ev": "f", "v": sv, "k": lab})
        elif r < 0.9:
            obs = observe(kind, el)
            try:
                events.append({"ev": "c", "r": enc_observation(kind, obs, fills), "k": lab})
            except Malformed as exc:
                raise Abort("compute:" + str(exc), idx, kind, events)
        elif not (kind["t"] == "Mean" and kind["inner"] == "Sum2"):     # that Mean has no reset
            try:
                el.reset()
            except Exception as exc:   # noqa
                raise Abort("reset:raised:" + exc_name(exc), idx, kind, events)
            fills = []
            events.append({"ev": "r", "k": lab})
    # always end with a compute so that the last fills are observed
    obs = observe(kind, el)
    try:
        events.append({"ev": "c", "r": enc_observation(kind, obs, fills), "k": lab})
    except Malformed as exc:
        raise Abort("compute:" + str(exc), nops, kind, events)
    return kind, events
