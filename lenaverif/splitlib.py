"""Tagged harness branches of spec/Split.tla / SplitCT.tla -> real objects."""
import itertools
import signal
import threading

NONE = -1000
CAP = 5000        # no scenario yields that many results: a run that never stops yielding is cut here


def tag(b, k, p):
    return (b, k, tuple(p))


def untag(v):
    """Real value yielded by a harness branch -> spec record."""
    if isinstance(v, tuple) and len(v) == 3 and isinstance(v[2], tuple) and isinstance(v[1], str):
        return {"b": v[0], "k": v[1], "p": list(v[2])}
    return {"b": 0, "k": "id", "p": [v]}


# Results that look like "nothing" or like an end marker.  In an odd-results mode the harness Sources and
# fill elements yield, instead of the tagged result (b, k, p), a stand-in that is a function of the tag
# (so the expected output is still computable from the model's tagged output):
#   "none"  every result is None;  "mix"  ODD_RESULTS[hash of the tag]
ODD_RESULTS = [None, 0, "", (), [], False, StopIteration, StopIteration("x")]
RESULT_MODE = {"mode": None}


def odd_of(b, k, p):
    if RESULT_MODE["mode"] == "none":
        return None
    return ODD_RESULTS[(3 * b + len(p) + sum(x for x in p if type(x) is int) + (k != "c")) % len(ODD_RESULTS)]


def result(b, k, p):
    """What a harness Source / fill element yields for its tagged result."""
    return tag(b, k, p) if RESULT_MODE["mode"] is None else odd_of(b, k, tuple(p))


def expected_result(rec):
    """Spec record of a result -> the real value expected in the current odd-results mode."""
    if rec["k"] in ("s", "c", "r") and RESULT_MODE["mode"] is not None:
        return odd_of(rec["b"], rec["k"], tuple(rec["p"]))
    if rec["k"] == "id":            # a flow value passed through by an empty Split
        return rec["p"][0]
    return tag(rec["b"], rec["k"], rec["p"])


def same_result(a, b):
    if a is b:
        return True
    if type(a) is not type(b):
        return False
    if isinstance(a, BaseException):
        return a.args == b.args
    if isinstance(a, (tuple, list)):
        return len(a) == len(b) and all(same_result(x, y) for x, y in zip(a, b))
    return a == b


class odd_results(object):
    def __init__(self, mode):
        self.mode = mode

    def __enter__(self):
        RESULT_MODE["mode"] = self.mode

    def __exit__(self, *exc):
        RESULT_MODE["mode"] = None
        return False


class TSrc(object):
    def __init__(self, b, m=2):
        self.b, self.m, self.calls = b, m, 0

    def __call__(self):
        self.calls += 1
        for i in range(1, self.m + 1):
            yield result(self.b, "s", (i,))


class TFill(object):
    """fill/compute or fill/request element collecting values; LenaStopFill on attempt stop+1."""

    def __init__(self, b, stop=None, m=None):
        self.b, self.stop, self.m = b, stop, m
        self.filled, self.nf, self.invoked = [], 0, 0

    def fill(self, v):
        import lena.core
        if self.stop is not None and self.nf >= self.stop:
            raise lena.core.LenaStopFill()
        self.filled.append(v)
        self.nf += 1

    def _results(self, k):
        self.invoked += 1
        if self.m is None:
            yield result(self.b, k, self.filled)
        else:
            for i in range(1, self.m + 1):
                yield result(self.b, k, [i] + self.filled)

    def hreset(self):
        self.filled, self.nf = [], 0


class TFC(TFill):
    def compute(self):
        for r in self._results("c"):
            yield r


class TFR(TFill):
    def request(self):
        res = list(self._results("r"))
        self.filled = []
        for r in res:
            yield r

    def reset(self):
        self.filled = []


class TFCC(TFC):
    """fill/compute element that forgets its values after compute (used inside an explicit Sequence object,
    where the Run adapter fills one block and computes: every block stands for itself)."""

    def compute(self):
        res = list(self._results("c"))
        self.filled = []
        for r in res:
            yield r


def _tagged_run(self, flow):
    n = 0
    for v in flow:
        n += 1
        yield tag(self.b, "m", (v,))
    yield tag(self.b, "end", (n,))


class TFCRun(TFC):
    """fill/compute element that can also run"""
    run = _tagged_run


class TFRRun(TFR):
    """fill/request element that can also run (like lena.core.FillRequest)"""
    run = _tagged_run


# ---- what == says about a branch element (kind field eq): the schedule must not depend on it
class EqAll(object):
    """equal to every object"""

    def __eq__(self, other):
        return True

    def __ne__(self, other):
        return False

    def __hash__(self):
        return 7


class EqTot(object):
    """like lena.math.Sum: equal to another such element when the totals of the values held coincide"""

    def _total(self):
        return sum(x for x in getattr(self, "filled", ()) if type(x) is int)

    def __eq__(self, other):
        if not isinstance(other, EqTot):
            return NotImplemented
        return self._total() == other._total()

    def __ne__(self, other):
        r = self.__eq__(other)
        return r if r is NotImplemented else not r

    def __hash__(self):
        return 11


_EQ_CLASSES = {}


def with_eq(cls, eq):
    """The harness class *cls* with the equality *eq* ("id": as it is)."""
    if eq in (None, "id"):
        return cls
    if (cls, eq) not in _EQ_CLASSES:
        _EQ_CLASSES[(cls, eq)] = type(cls.__name__ + "_eq" + eq, ({"all": EqAll, "tot": EqTot}[eq], cls), {})
    return _EQ_CLASSES[(cls, eq)]


class TFilt(object):
    def __init__(self, b):
        self.b, self.runs = b, 0

    def run(self, flow):
        self.runs += 1
        for v in flow:
            if v % 2 == 0:
                yield tag(self.b, "f", (v,))


class TSeq(object):
    def __init__(self, b):
        self.b, self.runs = b, 0

    def run(self, flow):
        self.runs += 1
        n = 0
        for v in flow:
            n += 1
            yield tag(self.b, "m", (v,))
        yield tag(self.b, "end", (n,))


class TMap(object):
    """Callable element (form "attr" needs an object that can carry data attributes)."""

    def __init__(self, b):
        self.b = b

    def __call__(self, v):
        return tag(self.b, "m", (v,))


def _pre(v):
    return v + 100


def _post(r):
    return tag(r[0], r[1] + "p", r[2])


def _tail(r):
    return tag(r[0], "st", r[2])


def _extract(r):
    return r[2][0]


class SliceReset(object):
    """Harness-side reset of a Slice used as a fill_into element (it has no reset of its own)."""

    def __init__(self, sl, stop):
        self.sl, self.stop = sl, stop

    def hreset(self):
        self.sl.__init__(self.stop)


SEQ_OBJ_FORMS = ("sq", "sqpp", "sqin")      # SeqObjForms of SplitSem.tla


class Builder(object):
    """Builds the real branch objects of a list of kind records; remembers what the harness must reset
    between two runs of the same Split object."""

    def __init__(self):
        self.resettable = []

    def hreset(self):
        for el in self.resettable:
            el.hreset()

    def element(self, b, kind):
        t = kind["t"]
        stop = None if kind.get("stop", NONE) == NONE else kind["stop"]
        m = None if kind.get("m", NONE) == NONE else kind["m"]
        form, eq = kind.get("form", "el"), kind.get("eq", "id")
        if t in ("fc", "fr"):
            if form in SEQ_OBJ_FORMS:
                cls = TFCC if t == "fc" else TFRRun
            elif form == "run":
                cls = TFCRun if t == "fc" else TFRRun
            else:
                cls = TFC if t == "fc" else TFR
            el = with_eq(cls, eq)(b, stop, m)
            self.resettable.append(el)
            return el
        if t == "map":
            return with_eq(TMap, eq)(b)
        if t == "filt":
            return with_eq(TFilt, eq)(b)
        if t == "seq":
            return with_eq(TSeq, eq)(b)
        raise ValueError(kind)

    def branch(self, b, kind):
        import lena.core
        import lena.flow
        t, form = kind["t"], kind.get("form", "el")
        if t == "nest":
            ibs = kind.get("ibs", NONE)
            return lena.core.Split([self.branch(10 * b + j + 1, k) for j, k in enumerate(kind["sub"])],
                                   bufsize=None if ibs == NONE else ibs)
        if t == "src":
            m = 2 if kind.get("m", NONE) == NONE else kind["m"]
            gen = with_eq(TSrc, kind.get("eq", "id"))(b, m)
            if form == "el":
                return lena.core.Source(gen)
            if form == "obj":
                return lena.core.Source(gen, _tail)
            if form == "sub":
                class MySource(lena.core.Source):
                    pass
                return MySource(gen)
            if form == "fct":
                fc = TFC(b)
                self.resettable.append(fc)
                return lena.core.Source(gen, _extract, fc)
            raise ValueError(kind)
        if form == "sl":
            # the LenaStopFill comes from a fill_into element in front of a never-stopping element
            el = self.element(b, dict(kind, stop=NONE))
            sl = lena.flow.Slice(kind["stop"])
            self.resettable.append(SliceReset(sl, kind["stop"]))
            return (sl, el)
        el = self.element(b, kind)
        if form == "el":
            if t == "map" and kind.get("eq", "id") == "id":
                return lambda v: tag(b, "m", (v,))
            return el
        if form == "run":
            return el
        if form == "sq":
            # an explicit Sequence object is a plain Sequence whatever it holds
            return lena.core.Sequence(el)
        if form == "sqpp":
            return lena.core.Sequence(_pre, el, _post)
        if form == "sqin":
            return lena.core.Sequence(lena.core.FillComputeSeq(el))
        if form == "tup":
            return (el,)
        if form == "pp":
            return (_pre, el, _post)
        if form == "attr":
            # data attributes named like methods must not change the classification: fill is not callable
            el.fill, el.compute, el.request = 0, (lambda: iter(())), (lambda: iter(()))
            return el
        if form == "attr2":
            # ... nor are compute and request
            el.fill, el.compute, el.request = (lambda v: None), None, "request"
            return el
        if form == "obj":
            if t == "fc":
                return lena.core.FillComputeSeq(el)
            if t == "fr":
                return lena.core.FillRequestSeq(el, reset=False, buffer_input=True)
            return lena.core.Sequence(el)
        raise ValueError(kind)


def build_branch(b, kind):
    return Builder().branch(b, kind)


class Watchdog(Exception):
    pass


WATCHDOG = {"hit": False}     # once a run had to be interrupted, container flows are no longer tried


class deadline(object):
    """A broken scheduler may loop for ever (a container flow read from its start for every block):
    bound every run by an alarm on the CPU time of this process (so that a loaded machine cannot
    trigger it; main thread only, elsewhere no bound)."""

    def __init__(self, seconds):
        self.seconds = seconds
        self.on = hasattr(signal, "setitimer") and threading.current_thread() is threading.main_thread()

    def _fire(self, *args):
        WATCHDOG["hit"] = True
        raise Watchdog("run did not finish within %s s of CPU time" % self.seconds)

    def __enter__(self):
        if self.on:
            self.old = signal.signal(signal.SIGVTALRM, self._fire)
            signal.setitimer(signal.ITIMER_VIRTUAL, self.seconds)
        return self

    def __exit__(self, *exc):
        if self.on:
            signal.setitimer(signal.ITIMER_VIRTUAL, 0)
            signal.signal(signal.SIGVTALRM, self.old)
        return False


FLOW_KINDS = ("iter", "list", "tuple", "range", "gen")


def make_flow(values, kind="iter"):
    if kind == "iter":
        return iter(values)
    if kind == "list":
        return list(values)
    if kind == "tuple":
        return tuple(values)
    if kind == "range":
        assert list(values) == list(range(len(values)))
        return range(len(values))
    if kind == "gen":
        return (v for v in values)
    raise ValueError(kind)


def take(gen, k):
    out = []
    for _ in range(k):
        out.append(next(gen))
    return out


class FlowBoom(Exception):
    pass


def raising_flow(n, at):
    for i in range(n):
        if i == at:
            raise FlowBoom(at)
        yield i


def make_split(brs, bs, copy_buf=True):
    import lena.core
    bld = Builder()
    els = [bld.branch(i + 1, k) for i, k in enumerate(brs)]
    s = lena.core.Split(els, bufsize=None if bs == NONE else bs, copy_buf=copy_buf)
    return s, bld


def run_split(brs, n, bs, copy_buf=True, runs=1, flow="iter", values=None):
    """Run the real Split; with runs > 1 the SAME Split object is run again on the same flow (the
    tagged elements are reset by the harness in between) and the list of all outputs is returned."""
    s, bld = make_split(brs, bs, copy_buf)
    vals = list(range(n)) if values is None else values
    outs = []
    for _ in range(runs):
        with deadline(3):
            outs.append([untag(v) for v in itertools.islice(s.run(make_flow(vals, flow)), CAP)])
        bld.hreset()
    return outs[0] if runs == 1 else outs
