"""Tagged harness branches of spec/Split.tla / SplitCT.tla -> real objects."""
NONE = -1000


def tag(b, k, p):
    return (b, k, tuple(p))


def untag(v):
    """Real value yielded by a harness branch -> spec record."""
    if isinstance(v, tuple) and len(v) == 3 and isinstance(v[2], tuple):
        return {"b": v[0], "k": v[1], "p": list(v[2])}
    return {"b": 0, "k": "id", "p": [v]}


class TSrc(object):
    def __init__(self, b):
        self.b, self.calls = b, 0

    def __call__(self):
        self.calls += 1
        yield tag(self.b, "s", (1,))
        yield tag(self.b, "s", (2,))


class TFill(object):
    """fill/compute or fill/request element collecting values; LenaStopFill on attempt stop+1."""

    def __init__(self, b, stop=None, m=None):
        self.b, self.stop, self.m = b, stop, m
        self.filled, self.nf, self.invoked = [], 0, 0

    def fill(self, v):
        import lena.core
        if self.stop is not None and self.nf >= self.stop:
            raise lena.core.LenaStopFill()
        self.filled.append(v)
        self.nf += 1

    def _results(self, k):
        self.invoked += 1
        if self.m is None:
            yield tag(self.b, k, self.filled)
        else:
            for i in range(1, self.m + 1):
                yield tag(self.b, k, [i] + self.filled)


class TFC(TFill):
    def compute(self):
        for r in self._results("c"):
            yield r


class TFR(TFill):
    def request(self):
        res = list(self._results("r"))
        self.filled = []
        for r in res:
            yield r

    def reset(self):
        self.filled = []


class TFilt(object):
    def __init__(self, b):
        self.b, self.runs = b, 0

    def run(self, flow):
        self.runs += 1
        for v in flow:
            if v % 2 == 0:
                yield tag(self.b, "f", (v,))


class TSeq(object):
    def __init__(self, b):
        self.b, self.runs = b, 0

    def run(self, flow):
        self.runs += 1
        n = 0
        for v in flow:
            n += 1
            yield tag(self.b, "m", (v,))
        yield tag(self.b, "end", (n,))


def build_branch(b, kind):
    import lena.core
    t = kind["t"]
    stop = None if kind.get("stop", NONE) == NONE else kind["stop"]
    if t == "src":
        return lena.core.Source(TSrc(b))
    if t == "fc":
        return TFC(b, stop)
    if t == "fr":
        return TFR(b, stop)
    if t == "map":
        return lambda v: tag(b, "m", (v,))
    if t == "filt":
        return TFilt(b)
    if t == "seq":
        return TSeq(b)
    raise ValueError(kind)


def hreset(el):
    """Harness-side reset of a tagged branch element between two runs of the same Split object."""
    if isinstance(el, TFill):
        el.filled, el.nf = [], 0


def run_split(brs, n, bs, copy_buf=True, runs=1):
    """Run the real Split; with runs > 1 the SAME Split object is run again on the same flow (the
    tagged elements are reset by the harness in between) and the list of all outputs is returned."""
    import lena.core
    els = [build_branch(i + 1, k) for i, k in enumerate(brs)]
    s = lena.core.Split(els, bufsize=None if bs == NONE else bs, copy_buf=copy_buf)
    outs = []
    for _ in range(runs):
        outs.append([untag(v) for v in s.run(iter(range(n)))])
        for el in els:
            hreset(el)
    return outs[0] if runs == 1 else outs
