"""Harness for spec/Analysis.tla: a whole tutorial-style analysis run end to end on the real lena.

    Sequence(ReadEvents, Split([(Compose(particle, coord), Histogram), ..., (particle, Combine(x, y), Histogram,
             MakeFilename)], bufsize), MakeFilename, ToCSV, Write, RenderLaTeX(select_template), Write,
             LaTeXToPDF(stub), PDFToPNG(fake pdftoppm))

A history is a list of runs in one output directory (changing data, changing template).  `execute_run` runs the
real pipeline once and *observes* it in the vocabulary of the model: the directory (names and contents decoded to
the model's descriptors), the files written (audit hook), the converters launched (log of the stubs), the yielded
values.  S2C (`replay_history`): the observation of every run of an exported behaviour must equal the model's
state.  C2S (`record_history`): observations of seeded random analyses become records for Trace_Analysis.tla.
"""
from __future__ import print_function

import copy
import os
import re
import shutil

from . import outlib

EXTS = ("csv", "tex", "pdf", "png")


class ReadEvents(object):
    """The tutorial's ReadDoubleEvents: reads 'files' named in the flow, yields double events (lazily)."""

    def __init__(self, table):
        self.table = table
        self.pulled = 0

    def run(self, flow):
        for name in flow:
            for ev in self.table[name]:
                self.pulled += 1
                # like the tutorial's readers may do: every event says where it comes from
                yield (copy.deepcopy(ev), {"source": {"name": name}})


def write_templates(ws, version, stamp):
    for kind in (1, 2):
        path = os.path.join(ws.tpl, "histogram_%dd.tex" % kind)
        with open(path, "w") as f:
            f.write("\\VAR{ output.filepath } END\n%% T%d %dd \\VAR{ variable.name }\n\n" % (version, kind))
        os.utime(path, (stamp, stamp))


def pipeline(ws, outdir, brs, bs, e1, ey, events, cache=None):
    import lena.context
    import lena.flow
    from lena.core import Sequence, Split
    from lena.structures import Histogram
    from lena.output import ToCSV, Write, LaTeXToPDF, PDFToPNG, MakeFilename, RenderLaTeX
    from lena.variables import Variable, Compose, Combine
    part = {
        "positron": Variable("positron", latex_name="e^+", getter=lambda ev: ev[0], type="particle"),
        "neutron": Variable("neutron", latex_name="n", getter=lambda ev: ev[1], type="particle"),
    }
    coord = {
        "x": Variable("x", lambda vec: vec[0], latex_name="x", unit="cm", type="coordinate"),
        "y": Variable("y", lambda vec: vec[1], latex_name="y", unit="cm", type="coordinate"),
    }
    branches = []
    for b in brs:
        if b.get("a", "hist") == "mean":
            import lena.math
            branches.append((Compose(part[b["p"]], coord[b["c"]]), lena.math.Mean()))
        elif b["c"] == "xy":
            branches.append((part[b["p"]], Combine(coord["x"], coord["y"], name="xy"),
                             Histogram([list(e1), list(ey)]),
                             MakeFilename("{{variable.particle.name}}/2d_{{variable.name}}")))
        else:
            branches.append((Compose(part[b["p"]], coord[b["c"]]), Histogram(list(e1))))

    def select_template(val):
        data, context = lena.flow.get_data_context(val)
        if lena.context.get_recursively(context, "histogram.dim", None) == 2:
            return "histogram_2d.tex"
        return "histogram_1d.tex"

    cmd = lambda tex, pdf, d, ctx: [os.path.join(ws.bin, "latexstub"), tex, pdf]
    reader = ReadEvents({"data": events})
    write = Write(outdir, verbose=False)
    head = (reader,) if cache is None else (reader, lena.flow.Cache(cache))
    seq = Sequence(
        *head + (
        Split(branches, bufsize=None if bs >= 1000 else bs),
        MakeFilename("{{variable.particle.name}}/{{variable.name}}"),
        ToCSV(),
        write,
        RenderLaTeX(select_template, template_dir=ws.tpl),
        write,
        LaTeXToPDF(create_command=cmd, verbose=0),
        PDFToPNG(verbose=False),
    ))
    return seq, reader


def _read(path):
    with open(path) as f:
        return f.read()


def _num(x):
    v = float(x)
    return int(v) if v == int(v) else v


def decode_csv(text):
    try:
        return [[_num(x) for x in line.split(",")] for line in text.split("\n") if line]
    except ValueError:
        return {"undecodable": text[:200]}


_TEX = re.compile(r"^(.*) END\n% T(\d+) (\d)d (\S+)\n$", re.S)


def decode_tex(text, outdir):
    """-> (descriptor, path of the csv the plot is made from)"""
    m = _TEX.match(text)
    if not m:
        return {"undecodable": text[:200]}, None
    csvpath = m.group(1)
    stem = os.path.splitext(os.path.relpath(csvpath, outdir))[0]
    return {"kind": int(m.group(3)), "ver": int(m.group(2)), "name": stem.split(os.sep), "var": m.group(4)}, csvpath


def decode_pdf(text, outdir):
    if not (text.startswith("PDF(") and text.endswith(")") and "|" in text):
        return {"undecodable": text[:200]}
    tex, csv = text[4:-1].split("|", 1)
    return {"tex": decode_tex(tex, outdir)[0], "csv": decode_csv(csv)}


def execute_run(ws, outdir, brs, bs, e1, ey, data, tpl, cache=None):
    """One run of the real analysis, observed.  -> dict, or {"raised": name} when lena raised."""
    events = [tuple(tuple(p) for p in ev) for ev in data]
    write_templates(ws, tpl, 1000000 + 10 * tpl)
    open(ws.log, "w").close()
    outlib._audit["writes"] = []
    outlib._audit["on"] = True
    try:
        seq, reader = pipeline(ws, outdir, brs, bs, e1, ey, events, cache)
        results = list(seq.run(["data"]))
    except Exception as exc:   # noqa
        return {"raised": type(exc).__name__, "exception": repr(exc)}
    finally:
        outlib._audit["on"] = False
    # ---- projection onto the model's observables (outside the try: a harness error is not lena's)
    out = []
    for val in results:
        if not (isinstance(val, tuple) and len(val) == 2 and isinstance(val[1], dict)):
            out.append({"name": ["?", repr(val)[:100]]})
            continue
        path, ctx = val
        var = ctx.get("variable", {}) if isinstance(ctx.get("variable", {}), dict) else {}
        hctx = ctx.get("histogram", {})
        part = var.get("particle", {})
        co = var.get("coordinate", {})
        comp = var.get("compose")
        stem = os.path.splitext(os.path.relpath(path, outdir))[0] if isinstance(path, str) else "?"
        number = path if isinstance(path, (int, float)) and not isinstance(path, bool) else None
        out.append({
            "number": number, "filename": ctx.get("output", {}).get("filename"),
            "path_name": stem.split(os.sep), "ext": os.path.splitext(path)[1][1:] if isinstance(path, str) else "?",
            "filetype": ctx.get("output", {}).get("filetype"),
            "name": [part.get("name", "-") if isinstance(part, dict) else "?",
                     ("2d_" if hctx.get("dim") == 2 else "") + str(var.get("name", "-"))],
            "var": {"name": var.get("name", "-"), "particle": part.get("name", "-") if isinstance(part, dict) else "?",
                    "coordinate": co.get("name", "-") if isinstance(co, dict) else "?",
                    "compose": list(comp) if isinstance(comp, (list, tuple)) else comp,
                    "dim": var.get("dim", 1),
                    "source": ctx.get("source", {}).get("name", "-") if isinstance(ctx.get("source", {}), dict) else "?"},
            "context_keys": sorted(ctx),
            "dim": hctx.get("dim", 0), "oor": hctx.get("n_out_of_range", 0),
        })
    files = {}
    if os.path.isdir(outdir):
        for dp, dn, fn in os.walk(outdir):
            for f in fn:
                full = os.path.join(dp, f)
                stem, ext = os.path.splitext(os.path.relpath(full, outdir))
                key = (tuple(stem.split(os.sep)), ext[1:])
                text = _read(full)
                if ext == ".csv":
                    c = decode_csv(text)
                elif ext == ".tex":
                    c, csvpath = decode_tex(text, outdir)
                    if csvpath is not None and csvpath != os.path.join(outdir, stem + ".csv"):
                        c = dict(c, made_from_the_csv_of_another_plot=csvpath)
                elif ext == ".pdf":
                    c = decode_pdf(text, outdir)
                elif ext == ".png":
                    c = decode_pdf(text[4:-1], outdir) if text.startswith("PNG(") and text.endswith(")") \
                        else {"undecodable": text[:200]}
                else:
                    c = {"unexpected-file": text[:100]}
                files[key] = c
    wrote = set()
    for p in outlib._audit["writes"]:
        if p.startswith(outdir + os.sep):
            stem, ext = os.path.splitext(os.path.relpath(p, outdir))
            wrote.add((tuple(stem.split(os.sep)), ext[1:]))
    launched = []
    for line in _read(ws.log).split("\n"):
        if line:
            tool, p = line.split(" ", 1)
            stem, ext = os.path.splitext(os.path.relpath(p, outdir))
            launched.append((tuple(stem.split(os.sep)), "pdf" if tool == "latex" else "png"))
    return {"out": out, "files": files, "wrote": wrote, "launched": launched, "pulled": reader.pulled}


def _key(k):
    return (tuple(k[0]), k[1])


def shape(brs, bs):
    return "branches=%s:bufsize=%s" % ("+".join("%s-%s" % (b["p"][:3], b["c"]) for b in brs), bs)


def replay_history(rec, root):
    """S2C.  rec: an exported behaviour of Analysis.tla.  -> (list of (key, detail), number of comparisons)"""
    bad = []
    n = 0
    ws = outlib.Workspace(root)
    outdir = os.path.join(root, "output")
    where = shape(rec["brs"], rec["bs"]) + (":cache" if rec.get("cache") else "")
    cache = os.path.join(root, "events.pkl") if rec.get("cache") else None

    def fail(kind, j, detail):
        what = "first-run" if j == 0 else "rerun"
        bad.append(("Analysis:%s:%s:%s" % (kind, what, where),
                    dict(detail, history=[{"reader": r["src"], "tpl": r["tpl"]} for r in rec["runs"][:j + 1]], cache=bool(cache),
                         branches=rec["brs"], bufsize=rec["bs"])))

    with ws.activated():
        for j, run in enumerate(rec["runs"]):
            obs = execute_run(ws, outdir, rec["brs"], rec["bs"], rec["edges1"], rec["edgesy"], run["src"], run["tpl"], cache)
            if "raised" in obs:
                fail("raised:%s" % obs["raised"], j, obs)
                break
            n += 1
            # ---- yielded values: one png per branch, described by that branch's variables
            # (LaTeXToPDF is asynchronous: the order of the results is not compared)
            want_out = sorted(run["out"], key=lambda o: (o["name"], o["dim"]))
            got = sorted(obs["out"], key=lambda g: (g["name"], g["dim"]))
            if len(got) != len(want_out):
                fail("number-of-results", j, {"got": got, "want": want_out})
                break
            for g, w in zip(got, want_out):
                n += 1
                if w["dim"] == 0:
                    # a number from a Mean branch: selected by nothing, it arrives as it was computed
                    if g["number"] is None or g["number"] != float(w["bins"][0]) / float(w["bins"][1]):
                        fail("number-passed-through-the-output-chain", j, {"got": g, "want": w})
                        break
                    if g["name"] != list(w["name"]) or g["filename"] != "/".join(w["name"]) or g["filetype"] is not None \
                            or g["var"] != dict(w["var"], compose=list(w["var"]["compose"])) \
                            or g["context_keys"] != ["output", "source", "variable"]:
                        fail("number-context", j, {"got": g, "want": w})
                        break
                    continue
                if g["name"] != list(w["name"]) or g.get("path_name") != list(w["name"]) or g.get("ext") != "png" \
                        or g.get("filetype") != "png":
                    fail("result-names-another-plot", j, {"got": g, "want": w})
                    break
                if g["var"] != dict(w["var"], compose=list(w["var"]["compose"])) or \
                        g["context_keys"] != ["histogram", "output", "source", "variable"]:
                    fail("result-variable-context", j, {"got": g, "want": w})
                    break
                if g["dim"] != w["dim"] or g["oor"] != w["oor"]:
                    fail("result-histogram-context", j, {"got": g, "want": w})
                    break
            if bad:
                break
            # ---- the directory: exactly the model's files, with the model's contents
            want_files = dict((_key(f["key"]), f["c"]) for f in run["files"])
            if set(obs["files"]) != set(want_files):
                fail("files-present", j, {"got": sorted(map(repr, obs["files"])), "want": sorted(map(repr, want_files))})
                break
            for key in sorted(want_files):
                n += 1
                if obs["files"][key] != want_files[key]:
                    kind = {"csv": "csv-is-not-this-branch's-histogram", "tex": "tex-content",
                            "pdf": "pdf-made-from-other-sources", "png": "png-made-from-other-sources"}[key[1]]
                    fail(kind, j, {"file": key, "got": obs["files"][key], "want": want_files[key]})
                    break
            if bad:
                break
            # ---- what this run did: files written, converters launched
            n += 2
            if obs["wrote"] != set(_key(k) for k in run["wrote"]):
                fail("files-written", j, {"got": sorted(map(repr, obs["wrote"])),
                                         "want": sorted(repr(_key(k)) for k in run["wrote"])})
                break
            if sorted(obs["launched"]) != sorted(_key(k) for k in run["launched"]):
                fail("converters-launched", j, {"got": sorted(map(repr, obs["launched"])),
                                                "want": sorted(repr(_key(k)) for k in run["launched"])})
                break
            # ---- the reader was read to the end, no more
            if obs["pulled"] != run["pulled"]:
                fail("events-read", j, {"got": obs["pulled"], "want": run["pulled"]})
                break
    shutil.rmtree(root, ignore_errors=True)
    return bad, n


PARTS = ("positron", "neutron")
COORDS = ("x", "y", "xy")


def record_history(rnd, root):
    """C2S.  One seeded random analysis history on the real code -> list of records for Trace_Analysis.tla
    (or a list ending with {"raised": ...})."""
    allbr = [{"p": p, "c": c, "a": "hist"} for p in PARTS for c in COORDS]
    brs = rnd.sample(allbr, rnd.randint(1, 5))
    for _ in range(rnd.choice([0, 0, 1, 2])):
        brs.insert(rnd.randint(0, len(brs)), {"p": rnd.choice(PARTS), "c": rnd.choice(["x", "y"]), "a": "mean"})
    bs = rnd.choice([1, 2, 3, 5, 1000])
    e1 = sorted(rnd.sample(range(-3, 9), rnd.randint(2, 5)))
    ey = sorted(rnd.sample(range(-3, 9), rnd.randint(2, 3)))

    def events(k):
        return [[[rnd.randint(-4, 10), rnd.randint(-4, 10)], [rnd.randint(-4, 10), rnd.randint(-4, 10)]] for _ in range(k)]

    data = events(rnd.randint(1, 12))
    tpl = 1
    recs = []
    usecache = rnd.random() < 0.35
    cache = os.path.join(root, "events.pkl") if usecache else None
    ws = outlib.Workspace(root)
    outdir = os.path.join(root, "output")
    with ws.activated():
        for j in range(rnd.randint(2, 4)):
            if j > 0:
                how = rnd.random()
                if how < 0.3:
                    pass                                  # same data
                elif how < 0.6:
                    data = data + events(1)                # one more event
                elif how < 0.8:
                    data = list(reversed(data))            # same events, another order: same histograms
                else:
                    data = events(rnd.randint(1, 12))
                if tpl == 1 and rnd.random() < 0.3:
                    tpl = 2
            obs = execute_run(ws, outdir, brs, bs, e1, ey, data, tpl, cache)
            if "raised" in obs:
                recs.append({"raised": obs["raised"], "exception": obs["exception"], "brs": brs, "bs": bs,
                             "ed": [e1, ey], "src": data, "tpl": tpl, "usecache": usecache})
                break
            # the order of the results is not fixed for an asynchronous converter: branch order where possible
            order = {}
            for k, b in enumerate(brs):
                order.setdefault((b["p"], "2d_xy" if b["c"] == "xy" else b["c"], b["a"] == "mean"), []).append(k)
            slots = []
            for g in obs["out"]:
                free = order.get((g["name"][0], g["name"][1], g["number"] is not None), [])
                slots.append(free.pop(0) if free else 99)
            out = [g for _, g in sorted(zip(slots, obs["out"]), key=lambda t: t[0])]
            recs.append({
                "first": j == 0, "brs": brs, "bs": bs, "ed": [e1, ey], "src": copy.deepcopy(data), "tpl": tpl, "usecache": usecache,
                "files": [{"key": [list(k[0]), k[1]], "c": c} for k, c in sorted(obs["files"].items())],
                "wrote": [[list(k[0]), k[1]] for k in sorted(obs["wrote"])],
                "launched": [[list(k[0]), k[1]] for k in sorted(obs["launched"])],
                "out": [{"name": g["name"], "var": g["var"], "dim": g["dim"], "bins": _bins_of(obs, g), "oor": g["oor"]}
                        for g in out],
                "pulled": obs["pulled"],
            })
    shutil.rmtree(root, ignore_errors=True)
    return recs


def _bins_of(obs, g):
    if g["number"] is not None:
        from fractions import Fraction
        fr = Fraction(g["number"]).limit_denominator(64)
        return [fr.numerator, fr.denominator]
    return _hist_bins_of(obs, g)


def _hist_bins_of(obs, g):
    """The bins of a result are read back from its csv (the results carry file paths, not histograms):
    contents of the rows that are not duplicates of the last bin."""
    rows = obs["files"].get((tuple(g["name"]), "csv"))
    if not isinstance(rows, list) or not rows:
        return []
    if g["dim"] == 1:
        return [r[-1] for r in rows[:-1]]
    xs = sorted(set(r[0] for r in rows))
    ys = sorted(set(r[1] for r in rows))
    cell = dict(((r[0], r[1]), r[2]) for r in rows)
    return [[cell[(x, y)] for y in ys[:-1]] for x in xs[:-1]]


def _job(args):
    recs, root = args
    out = []
    n = 0
    for k, rec in recs:
        bad, m = replay_history(rec, os.path.join(root, "h%d" % k))
        n += m
        out.extend((k, key, detail) for key, detail in bad)
    return out, n
