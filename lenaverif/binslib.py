"""Harness side of spec/SplitIntoBins.tla: tagged inner analyses, flow values, real objects.

Scenario encoding (TLC export / recorded traces):
  edges   sequence of per-dimension edge sequences (rank-abstracted integers)
  nested  1-dimensional edges given as [[..]] (argument is a 1-tuple) instead of [..]
  flow    sequence of [x |-> coordinates, h |-> has a context, p |-> is a pair, f |-> "none" or the name of
          the exception the inner analysis raises on it]; the value at position i (1-based) is
          data = (i, x or (x, y)), context = {"src": i}; a value the analysis cannot digest is the
          malformed record data = (i, x, f)
  kind    name of the inner analysis (KINDS)
A per-cell result is [t |-> tag, ids |-> positions of the values of the cell in arrival order (after the
pre-element), src |-> position of the last value with a context seen by the accumulator (0: none),
mut |-> what the context-mutating pre-element wrote last (0: nothing); for the analysis "log": the counter
its post-element keeps in the context object the accumulator yields].
"""
import copy

PRE_SHIFT = 100          # the "shift" pre-element maps position i to i + PRE_SHIFT


def exc_class(name):
    import lena.core
    return {"IndexError": IndexError, "LenaIndexError": lena.core.LenaIndexError, "KeyError": KeyError,
            "TypeError": TypeError, "ValueError": ValueError}[name]


def digest(data):
    """What the first element of every harness analysis does with a record it cannot digest."""
    if len(data) > 2:
        raise exc_class(data[2])("malformed record %r" % (data[0],))


def picky(value):
    """Pre-element (a Call) that raises on a malformed record and passes everything else unchanged."""
    import lena.flow
    digest(lena.flow.get_data(value))
    return value


# ------------------------------------------------------------------ inner analysis elements
class Collect(object):
    """Accumulator: remembers the positions of the values filled and the context of the last one."""

    def __init__(self, tag="c", results=1, only_nonempty=False, per_value=False, own_ctx=False):
        self.tag, self.results = tag, results
        self.only_nonempty, self.per_value = only_nonempty, per_value
        self.own_ctx = own_ctx         # compute() yields the context object itself, not a copy
        self.ids = []
        self.ctx = {}

    def fill(self, value):
        import lena.flow
        data, context = lena.flow.get_data_context(value)
        digest(data)
        self.ids.append(data[0])
        if context:
            self.ctx = copy.deepcopy(context)

    def _ctx(self):
        if self.own_ctx:
            return self.ctx
        return copy.deepcopy(self.ctx)

    def compute(self):
        if self.per_value:
            for k in range(len(self.ids)):
                yield ((self.tag, tuple(self.ids[:k + 1])), self._ctx())
            return
        if self.only_nonempty and not self.ids:
            return
        yield ((self.tag, tuple(self.ids)), self._ctx())
        if self.results == 2:
            yield ((self.tag + "n", (len(self.ids),)), self._ctx())

    def reset(self):
        self.ids, self.ctx = [], {}


def shift(value):
    """Pre-element (a Call): position i -> i + PRE_SHIFT, context untouched."""
    import lena.flow
    data, context = lena.flow.get_data_context(value)
    return ((data[0] + PRE_SHIFT,) + tuple(data[1:]), context)


def mutate(value):
    """Pre-element that mutates the context of the value in place."""
    import lena.flow
    data, context = lena.flow.get_data_context(value)
    if not isinstance(value, tuple) or value[1] is not context:
        context = {}
    context["mut"] = data[0]
    return (data, context)


class PostTag(object):
    """Post-element (run): re-tags every result; dup=True yields each result twice, drop_empty=True
    yields nothing for a result without positions, count=True appends the number of values this very
    object has processed (1 for a private copy used once)."""

    def __init__(self, dup=False, drop_empty=False, count=False, use_src=False):
        self.dup, self.drop_empty, self.count, self.use_src = dup, drop_empty, count, use_src
        self.seen = 0

    def run(self, flow):
        import lena.flow
        for value in flow:
            (tag, ids), context = lena.flow.get_data_context(value)
            if self.drop_empty and not ids:
                continue
            self.seen += 1
            if self.count:
                # a stateful element: appends how many values this object has processed
                ids = tuple(ids) + (self.seen,)
            if self.use_src:
                # the data result depends on the context of the cell
                ids = tuple(ids) + (context.get("src", 0),)
            yield (("p" + tag, ids), context)
            if self.dup:
                yield (("q" + tag, ids), copy.deepcopy(context))


def log_in_place(value):
    """Post-element that counts, in the context object it is given (in place), how often it has seen it."""
    import lena.flow
    data, context = lena.flow.get_data_context(value)
    context["mut"] = context.get("mut", 0) + 1
    return (data, context)


MAPS = {"tag": lambda: PostTag(), "dup": lambda: PostTag(dup=True), "drop": lambda: PostTag(drop_empty=True),
        "seen": lambda: PostTag(count=True), "src": lambda: PostTag(use_src=True)}


KINDS = ("collect", "collect2", "nonempty", "pervalue", "shift", "mutate", "post", "postdup", "seen", "log")
STATEFUL = ("seen", "log")      # compute() changes the analysis itself


def elements(kind):
    if kind == "collect":
        return (Collect(),)
    if kind == "collect2":
        return (Collect(results=2),)
    if kind == "nonempty":
        return (Collect(only_nonempty=True),)
    if kind == "pervalue":
        return (Collect(per_value=True),)
    if kind == "shift":
        return (shift, Collect())
    if kind == "mutate":
        return (mutate, Collect())
    if kind == "post":
        return (Collect(), PostTag())
    if kind == "postdup":
        return (Collect(results=2), PostTag(dup=True))
    if kind == "seen":
        return (Collect(), PostTag(count=True))
    if kind == "log":
        return (Collect(own_ctx=True), log_in_place)
    raise ValueError(kind)


def elements_for(kind, guard):
    """*guard*: the record check is an element of its own in front (otherwise the first element does it;
    an analysis whose first element writes into the context is always guarded, so that a rejected value
    is left untouched)."""
    els = elements(kind)
    if guard or kind == "mutate":
        return (picky,) + els
    return els


def make_seq(kind, bare=False, guard=False):
    """The inner analysis as passed to SplitIntoBins: a FillComputeSeq, or (bare=True, one element
    only) the element itself, which SplitIntoBins converts."""
    import lena.core
    els = elements_for(kind, guard)
    if bare and len(els) == 1:
        return els[0]
    return lena.core.FillComputeSeq(*els)


# ------------------------------------------------------------------ scenario -> real objects
def py_edges(edges, nested):
    e = [list(x) for x in edges]
    if len(e) == 1 and not nested:
        return e[0]
    return e


def in_form(edges, form):
    """The edges written as the specification's *form* says: lists / tuples at each level."""
    outer = list if form in ("l", "lt") else tuple
    inner = list if form in ("l", "tl") else tuple
    if edges and not isinstance(edges[0], (list, tuple)):
        return outer(edges)                      # one-dimensional edges are written flat
    return outer(inner(e) for e in edges)


def make_values(flow, dim, nested, pairs=None):
    vals = []
    for i, v in enumerate(flow):
        x = list(v["x"])
        coord = x[0] if (dim == 1 and not nested) else tuple(x)
        data = (i + 1, coord)
        if v.get("f", "none") != "none":
            data = (i + 1, coord, v["f"])           # a record the inner analysis cannot digest
        if v["h"]:
            val = (data, {"src": i + 1})
        elif v.get("p"):
            val = (data, {})               # a pair with an empty context of its own
        else:
            val = data                      # a bare value
        if pairs is not None and isinstance(val, tuple) and len(val) == 2 and isinstance(val[1], dict):
            val = pairs(*val)               # e.g. a namedtuple (a tuple subclass) with a dict subclass
        vals.append(val)
    return vals


def arg_var(dim, typed=False):
    import lena.variables
    if dim == 1:
        if typed:
            return lena.variables.Variable("x", lambda data: data[1], unit="cm", type="coordinate")
        return lena.variables.Variable("x", lambda data: data[1], unit="cm")
    return lena.variables.Variable("xy", lambda data: data[1], dim=dim)


def arg_var_y(dim, style=0):
    """Another argument variable over the same coordinate(s): other name(s), same routing."""
    import lena.variables as lv
    if dim == 1:
        return lv.Variable("y", lambda data: data[1], unit="cm")
    if style == 0:
        return lv.Combine(lv.Variable("u", lambda data: data[1][0]), lv.Variable("v", lambda data: data[1][1]),
                          name="uv")
    if style == 2:
        return lv.Variable("uv", lambda data: list(data[1]), dim=2)
    return lv.Variable("uv", lambda data: data[1], dim=2)


def enc_result(res):
    """(data, context) yielded by a harness analysis -> spec record."""
    import lena.flow
    data, context = lena.flow.get_data_context(res)
    tag, ids = data
    return {"t": tag, "ids": list(ids), "src": context.get("src", 0), "mut": context.get("mut", 0)}


def md_map(f, bins, dim):
    if dim == 1:
        return [f(b) for b in bins]
    return [md_map(f, b, dim - 1) for b in bins]


def md_get(bins, idx):
    for i in idx:
        bins = bins[i]
    return bins


def cell_indices(edges):
    import itertools
    return list(itertools.product(*[range(len(e) - 1) for e in edges]))


def arg_var2(style):
    """Two-dimensional argument variable: a Combine of two variables (style 0) or, as in the
    docstring of SplitIntoBins, one Variable returning a tuple (style 1)."""
    import lena.variables as lv
    if style == 0:
        return lv.Combine(lv.Variable("x", lambda data: data[1][0]), lv.Variable("y", lambda data: data[1][1]),
                          name="xy")
    if style == 2:
        # the getter returns a list, not a tuple
        return lv.Variable("xy", lambda data: list(data[1]), dim=2)
    return lv.Variable("xy", lambda data: data[1], dim=2)


class Worst(object):
    """Smallest failing scenario per kind of mismatch."""

    def __init__(self):
        self.best, self.count = {}, {}

    def add(self, kind, size, payload):
        self.count[kind] = self.count.get(kind, 0) + 1
        cur = self.best.get(kind)
        if cur is None or size < cur[0]:
            self.best[kind] = (size, payload)


def scen_text(rec):
    xs = [v["x"][0] if len(v["x"]) == 1 else tuple(v["x"]) for v in rec["flow"]]
    if any(v.get("f", "none") != "none" for v in rec["flow"]):
        xs = [x if v.get("f", "none") == "none" else "%s!%s" % (x, v["f"]) for x, v in zip(xs, rec["flow"])]
    e = in_form(rec["edges"][0] if len(rec["edges"]) == 1 else rec["edges"], rec.get("form", "l"))
    return "edges=%s;x=%s;analysis=%s" % (str(e).replace(" ", ""), str(xs).replace(" ", ""), rec["kind"])


def rank_abstract(edges, coords):
    """Monotone embedding of the real numbers of each dimension into small integers
    (sound because the specification only compares them)."""
    redges, maps = [], []
    for d, e in enumerate(edges):
        nums = sorted(set(list(e) + [c[d] for c in coords]))
        m = {x: i for i, x in enumerate(nums)}
        maps.append(m)
        redges.append([m[x] for x in e])
    rcoords = [[maps[d][c[d]] for d in range(len(edges))] for c in coords]
    return redges, rcoords


Pair = __import__("collections").namedtuple("Pair", "data context")


def duck_pair(data, context):
    """The same (data, context) value as a tuple subclass holding a dict subclass."""
    import collections
    return Pair(data, collections.OrderedDict(context))
