"""Nested dictionaries (contexts) <-> the TLA+ JSON encoding of spec/CtxValue.tla.

  dictionary  {"k": "D", "m": {key: value, ...}}      (TLC prints an empty m as [])
  leaf        {"k": "L", "v": <repr or symbolic class name>, "e": <equality class>}

Two directions:

* decode(enc, valuation, rnd): a dictionary enumerated by TLC over *symbolic* leaf classes
  (c0, c1, c2) is instantiated with Python values: the valuation maps each symbolic class to
  one Python equality class (injectively), every occurrence picks one representative of that
  class (0 / False / 0.0 ...), key insertion order is shuffled.  This is sound because the
  functions under test (and the specification) use leaves only through ==.
* Encoder().enc(obj): a Python object observed on the real code is encoded with equality
  classes numbered in order of first appearance (Python == decides), so the trace
  specification can compare leaves without knowing Python values.
"""
import copy
import itertools

# Python equality classes used to instantiate symbolic leaves: name, falsy?, constructors
PYCLASSES = [
    ("zero", True, [lambda: 0, lambda: False, lambda: 0.0]),
    ("none", True, [lambda: None]),
    ("estr", True, [lambda: ""]),
    ("elist", True, [lambda: []]),
    ("etuple", True, [lambda: ()]),
    ("one", False, [lambda: 1, lambda: True, lambda: 1.0]),
    ("str", False, [lambda: "x"]),
    ("list", False, [lambda: [1, {"z": 0}]]),
    ("two", False, [lambda: 2, lambda: 2.0]),
]
FALSY = [i for i, c in enumerate(PYCLASSES) if c[1]]
TRUTHY = [i for i, c in enumerate(PYCLASSES) if not c[1]]
SYMBOLS = ("c0", "c1", "c2")


def is_d(enc):
    return enc["k"] == "D"


def items(enc):
    m = enc["m"]
    return m.items() if isinstance(m, dict) else ()


def symbols_of(enc, acc=None):
    """symbolic leaf classes occurring in an encoded value (or list of values)"""
    if acc is None:
        acc = set()
    if isinstance(enc, list):
        for e in enc:
            symbols_of(e, acc)
    elif is_d(enc):
        for _, v in items(enc):
            symbols_of(v, acc)
    else:
        acc.add(enc["v"])
    return acc


def size(enc):
    if isinstance(enc, list):
        return sum(size(e) for e in enc)
    if is_d(enc):
        return 1 + sum(size(v) for _, v in items(enc))
    return 1


class MyDict(dict):
    """a plain dictionary subclass (duck typing: the functions test isinstance(x, dict))"""


CTX_CLASSES = []          # classes used for decoded contexts (filled by the checks: dict, Context, MyDict)
KEY_POOL = ["", 0, None, 1.5, "k", "b", "a"]      # Python keys that may stand for a key of the model


def random_keymap(rnd, keys=("a", "b", "c")):
    """injective map from the model's keys to Python keys, falsy and non-string ones included"""
    return dict(zip(keys, rnd.sample(KEY_POOL, len(keys))))


def as_class(obj, cls):
    """the same nested dictionary with every dictionary an instance of cls"""
    if isinstance(obj, dict):
        return cls(dict((k, as_class(v, cls)) for k, v in obj.items()))
    return obj


def decode(enc, valuation, rnd=None, pick=0, keymap=None):
    """Instantiate an encoded dictionary.  valuation: symbol -> index into PYCLASSES."""
    if is_d(enc):
        its = list(items(enc))
        if rnd is not None and len(its) > 1:
            rnd.shuffle(its)
        else:
            its.sort()
        return dict((keymap.get(k, k) if keymap else k, decode(v, valuation, rnd, pick, keymap)) for k, v in its)
    if enc.get("e") in (50, 60):
        return enc["v"]           # a key used as a string value (str_to_dict without value); the caller's mark
    ctors = PYCLASSES[valuation[enc["v"]]][2]
    if rnd is not None:
        return rnd.choice(ctors)()
    return ctors[pick % len(ctors)]()


# ---------------------------------------------------------------- object graphs (spec/CtxHeap.tla)
def graph_symbols(x, acc=None):
    """symbolic leaf classes (c0, c1, c2) in an environment description / program / value"""
    if acc is None:
        acc = set()
    if isinstance(x, list):
        for e in x:
            graph_symbols(e, acc)
    elif isinstance(x, dict):
        if x.get("k") == "L":
            if x["v"] in SYMBOLS:
                acc.add(x["v"])
        else:
            for v in x.values():
                if isinstance(v, (dict, list)):
                    graph_symbols(v, acc)
    return acc


def has_tokens(x):
    if isinstance(x, list):
        return any(has_tokens(e) for e in x)
    if isinstance(x, dict):
        return x.get("k") == "S" or any(has_tokens(v) for v in x.values() if isinstance(v, (dict, list)))
    return False


def build_env(envd, valuation, rnd, cls=dict):
    """Python objects for an environment description of CtxHeap.tla: envd["sv"][i-1] is the value of the
    i-th shared dictionary, built ONCE; a token {"k": "S", "i": i} anywhere stands for that one object."""
    shared = []

    def build(v):
        if v["k"] == "S":
            return shared[v["i"] - 1]
        if v["k"] == "D":
            its = list(items(v))
            rnd.shuffle(its)
            return cls((k, build(x)) for k, x in its)
        return decode(v, valuation, rnd)
    for sv in envd["sv"]:
        shared.append(build(sv))
    return [build(r) for r in envd["roots"]]


def touch(obj, mark_key="zz", mark="$touched"):
    """the caller writes into every dictionary reachable from obj (each object once)"""
    seen = set()
    stack = [obj]
    while stack:
        d = stack.pop()
        if not isinstance(d, dict) or id(d) in seen:
            continue
        seen.add(id(d))
        stack.extend(d.values())
        d[mark_key] = mark


def alias_somewhere(rnd, args):
    """put one sub-dictionary object of the arguments under a second key (of the same or of another
    argument), never below itself; returns True if something was aliased"""
    from .util import reach_ids
    subs, dicts = [], []
    stack = [a for a in args if isinstance(a, dict)]
    seen = set()
    while stack:
        d = stack.pop()
        if id(d) in seen:
            continue
        seen.add(id(d))
        dicts.append(d)
        for v in d.values():
            if isinstance(v, dict):
                subs.append(v)
                stack.append(v)
    if not subs:
        return False
    s = rnd.choice(subs)
    inside = set(reach_ids(s)) | {id(s)}
    targets = [d for d in dicts if id(d) not in inside]
    if not targets:
        return False
    t = rnd.choice(targets)
    keys = sorted(set(k for d in dicts for k in d if isinstance(k, str)))
    t[rnd.choice(keys)] = s
    return True


def valuations(symbols, rnd, n, systematic=False):
    """Injective maps symbols -> Python classes.  systematic: all of them; otherwise the
    all-falsy and mixed ones first, then seeded random ones, n in total."""
    symbols = sorted(symbols)
    if not symbols:
        return [{}]
    if systematic:
        perms = list(itertools.permutations(range(len(PYCLASSES)), len(symbols)))
        if len(perms) > 100:
            perms = rnd.sample(perms, 60)
        return [dict(zip(symbols, p)) for p in perms]
    out = []
    for _ in range(n):
        kind = rnd.random()
        if kind < 0.45:
            pool = FALSY
        elif kind < 0.55:
            pool = TRUTHY
        else:
            pool = list(range(len(PYCLASSES)))
        out.append(dict(zip(symbols, rnd.sample(pool, len(symbols)))))
    return out


def val_name(valuation):
    return dict((s, PYCLASSES[i][0]) for s, i in valuation.items())


class Encoder(object):
    """Python object -> encoding, equality classes by first appearance (Python ==)."""

    def __init__(self):
        self.reps = []

    def cls(self, leaf):
        for i, r in enumerate(self.reps):
            try:
                if r == leaf and leaf == r:
                    return i
            except Exception:    # noqa
                pass
        self.reps.append(copy.deepcopy(leaf))
        return len(self.reps) - 1

    def enc(self, obj):
        if isinstance(obj, dict):
            return {"k": "D", "m": dict((k, self.enc(v)) for k, v in obj.items())}
        return {"k": "L", "v": repr(obj)[:40], "e": self.cls(obj)}


def all_str_keys(obj):
    if isinstance(obj, dict):
        return all(isinstance(k, str) and all_str_keys(v) for k, v in obj.items())
    return True


# ---------------------------------------------------------------- comparison of Python dicts
def describe(v):
    if isinstance(v, dict):
        return "empty-dict" if not v else "dict"
    return "falsy-leaf" if not v else "truthy-leaf"


def mismatches(expected, observed, path=()):
    """[(path, kind)] with kind missing-<what> / extra-<what> / differs."""
    if isinstance(expected, dict) and isinstance(observed, dict):
        out = []
        for k in sorted(set(expected) | set(observed), key=repr):
            if k not in observed:
                if isinstance(expected[k], dict) and expected[k]:
                    out.extend(mismatches(expected[k], {}, path + (k,)))    # name the terminal items
                else:
                    out.append((path + (k,), "missing-" + describe(expected[k])))
            elif k not in expected:
                if isinstance(observed[k], dict) and observed[k]:
                    out.extend(mismatches({}, observed[k], path + (k,)))
                else:
                    out.append((path + (k,), "extra-" + describe(observed[k])))
            else:
                out.extend(mismatches(expected[k], observed[k], path + (k,)))
        return out
    if isinstance(expected, dict) != isinstance(observed, dict):
        return [(path, "differs-kind")]
    try:
        same = expected == observed
    except Exception:    # noqa
        same = False
    return [] if same else [(path, "differs-value")]


def shared_mutables(result, args):
    """mutable containers reachable both from result and from one of args"""
    from .util import reach_ids
    r = reach_ids(result)
    shared = []
    for j, a in enumerate(args):
        for i in reach_ids(a):
            if i in r:
                shared.append(j)
                break
    return shared


# ---------------------------------------------------------------- paths and key notations (C08)
def dotted(path):
    return ".".join(path)


def key_dict(path, last=None):
    """one-key-per-level dictionary naming the path: ["a","b","c"] -> {"a": {"b": "c"}}"""
    if not path:
        return {}
    if len(path) == 1:
        return {path[0]: last} if last is not None else None
    cur = path[-1]
    for k in reversed(path[:-1]):
        cur = {k: cur}
    return cur


def random_dict(rnd, keys, depth, leaves, p_nest=0.35, max_width=None):
    """seeded random nested dictionary; leaves: list of constructors"""
    n = rnd.randint(0, max_width or len(keys))
    d = {}
    for k in rnd.sample(keys, n):
        if depth > 1 and rnd.random() < p_nest:
            d[k] = random_dict(rnd, keys, depth - 1, leaves, p_nest, max_width)
        else:
            d[k] = rnd.choice(leaves)()
    return d


# ---------------------------------------------------------------- running TLC jobs side by side
class Jobs(object):
    """Run independent ctx.mc / ctx.export / ctx.validate calls in threads (each is a TLC
    subprocess).  Only the accounting of core.Ctx is shared; it is serialised by a lock.
    Bookkeeping that touches other counters (traces, evaluations, violations) stays in the
    main thread."""

    def __init__(self, ctx, max_workers=6):
        import threading
        from concurrent.futures import ThreadPoolExecutor
        self.ctx = ctx
        self.lock = threading.Lock()
        self.pool = ThreadPoolExecutor(max_workers=max_workers)

    def __enter__(self):
        orig = self.ctx._account
        lock = self.lock

        def locked(*a, **k):
            with lock:
                return orig(*a, **k)
        self.ctx._account = locked
        return self

    def submit(self, fn, *a, **k):
        return self.pool.submit(fn, *a, **k)

    def __exit__(self, *exc):
        self.pool.shutdown(wait=True)
        try:
            del self.ctx._account
        except AttributeError:
            pass
        self.ctx.tlc_runs.sort(key=lambda r: (r["what"], r["cfg"], r["generated"]))
        return False


def account_trace(ctx, module, trace, acc, keyfn, sample_at=1):
    """the bookkeeping of core.Ctx.trace_check for a validation that ran in a Jobs thread"""
    import hashlib
    from . import core
    if not trace:
        return
    ctx.traces += acc
    ctx.evaluations += len(trace)
    for r in trace[:acc]:
        ctx.distinct.add(hashlib.md5(core.canon(r).encode()).hexdigest())
    if acc < len(trace):
        r = trace[acc]
        ctx.violation("%s:rejected:%s" % (module, keyfn(r)), {"record": r, "index": acc})
    ctx.sample({"recorded_trace_record": trace[min(sample_at, len(trace) - 1)]})


class Fails(object):
    """violations by key, keeping the smallest failing scenario of each"""

    def __init__(self):
        self.by_key = {}

    def add(self, key, sz, detail):
        cur = self.by_key.get(key)
        if cur is None or sz < cur[0]:
            self.by_key[key] = (sz, detail)

    def report(self, ctx):
        for key in sorted(self.by_key):
            ctx.violation(key, self.by_key[key][1])


# ---------------------------------------------------------------- C08: leaves with str(), special leaves
class Unprintable(object):
    """a value whose str() raises (contains: "its string representation is used")"""

    def __str__(self):
        raise RuntimeError("unprintable")

    def __repr__(self):
        return "Unprintable()"

    def __eq__(self, other):
        return isinstance(other, Unprintable)

    def __ne__(self, other):
        return not self == other

    def __hash__(self):
        return 7


def decode_s(enc, valuation, special, rnd=None, reps=True, cls=None):
    """like decode, for the leaves of spec/CtxOpsRef.tla: kb / $key are the string in field s,
    $default / $rendered / $value come from *special*"""
    if is_d(enc):
        its = list(items(enc))
        if rnd is not None and len(its) > 1:
            rnd.shuffle(its)
        else:
            its.sort()
        if cls is None:
            # the context object itself may be an instance of a dictionary subclass
            cls = rnd.choice(CTX_CLASSES) if (rnd is not None and CTX_CLASSES) else dict
        return cls(dict((k, decode_s(v, valuation, special, rnd, reps, cls)) for k, v in its))
    v = enc["v"]
    if v == "ku":
        return Unprintable()
    if v in ("kb", "$key"):
        return enc["s"]
    if v in special:
        return special[v]
    if v in DEFAULT_VALUES:
        return DEFAULT_VALUES[v]()
    ctors = PYCLASSES[valuation[v]][2]
    return (rnd.choice(ctors) if rnd is not None and reps else ctors[0])()


def symbols_s(enc, acc=None):
    """symbolic classes (c0, c1, c2) in an encoded value or list of values"""
    if acc is None:
        acc = set()
    if isinstance(enc, list):
        for e in enc:
            symbols_s(e, acc)
    elif isinstance(enc, dict) and "k" in enc:
        if is_d(enc):
            for _, v in items(enc):
                symbols_s(v, acc)
        elif enc["v"] in SYMBOLS:
            acc.add(enc["v"])
    return acc


class EncoderS(Encoder):
    """Encoder adding s = str(value) to leaves; known special objects keep their symbolic leaf"""

    def __init__(self, specials=(), by_eq=False):
        Encoder.__init__(self)
        self.specials = list(specials)      # [(object, leaf encoding)]
        self.by_eq = by_eq                  # also recognise (deep) copies of the special objects

    def enc(self, obj):
        for o, leaf in self.specials:
            if obj is o or (self.by_eq and type(obj) is type(o) and obj == o):
                return dict(leaf)
        if isinstance(obj, dict):
            return {"k": "D", "m": dict((k, self.enc(v)) for k, v in obj.items())}
        try:
            s = str(obj)
        except Exception:    # noqa
            s = "<unprintable>"
        return {"k": "L", "v": repr(obj)[:40], "e": self.cls(obj), "s": s}


DEFAULT_LEAF = {"k": "L", "v": "$default", "e": 90, "s": "<default>"}
# defaults with a value of their own (spec: DefLeaves); "edict" is the empty dictionary
DEFAULT_VALUES = {"$d:none": lambda: None, "$d:zero": lambda: 0, "$d:estr": lambda: "",
                  "$d:false": lambda: False, "$d:elist": lambda: []}
DEFAULT_LEAVES = {"none": {"k": "L", "v": "$d:none", "e": 94, "s": "None"}}


def default_object(dv, obj):
    """the Python default for the value kind dv of the specification (obj: the opaque object)"""
    if dv == "obj":
        return obj
    if dv == "edict":
        return {}
    return DEFAULT_VALUES["$d:" + dv]()

EMPTY = {"k": "D", "m": {}}


def lookup(d, path):
    """(found, value) following path through dictionaries"""
    for k in path:
        if not isinstance(d, dict) or k not in d:
            return False, None
        d = d[k]
    return True, d


def template_text(tpl):
    return "".join(t["s"] if t["t"] == "lit"
                   else "{{" + ".".join(t["p"]) + ("!" + t["cv"] if t.get("cv") else "") + "}}" for t in tpl)


def dotted_ok(path):
    """can the path be written as a dotted string whose split gives it back ?"""
    return path != [""] and all("." not in k for k in path)


def key_notations(path):
    """the notations of get_recursively naming the path: [(name, keys)]"""
    out = [("list", list(path))]
    if all(k for k in path):
        out.append(("string", ".".join(path)))
        # one key per level, closed by an empty dictionary / with the last key as the value
        cur = {}
        for k in reversed(path):
            cur = {k: cur}
        out.append(("dict", cur))
        if len(path) >= 2:
            cur = path[-1]
            for k in reversed(path[:-1]):
                cur = {k: cur}
            out.append(("dict-value", cur))
    return out


def has_cycle(obj, stack=None):
    """does a dictionary / list contain itself ?"""
    if stack is None:
        stack = set()
    if isinstance(obj, (dict, list, tuple)):
        if id(obj) in stack:
            return True
        stack.add(id(obj))
        try:
            for v in (obj.values() if isinstance(obj, dict) else obj):
                if has_cycle(v, stack):
                    return True
        finally:
            stack.discard(id(obj))
    return False
