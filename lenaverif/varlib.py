"""Binding of spec/VarSem.tla / Variables.tla to lena.variables (Variable, Compose, Combine).

Values of the specification (DESIGN.md 3.1) are tagged records {"k", "l", "t", "m"}:
  S  string, l = its pieces split at "_"      I  integer, l = [digits]
  L  list of strings                          T  tuple of values (t)
  D  dictionary (m)
Data: {"k": "I", "i": n, "t": []}, {"k": "T", "i": 0, "t": [data, ...]}, {"k": "N", ..} = None,
      {"k": "D", "i": n, "t": []} = the dictionary {"layer": n}.
A "hit" ((x, x + 1), {"layer": x}) is data that itself looks like a (data, context) pair.
"""
import copy
import re

def _int(x):
    """VarSem!Accepts: the integer getters take integers only (2 * tuple must raise as well)."""
    if not isinstance(x, int) or isinstance(x, bool):
        raise TypeError("integer data expected, got %r" % (x,))
    return x


def _tup(x):
    if not isinstance(x, tuple):
        raise TypeError("tuple data expected, got %r" % (x,))
    return x


def looks_like_value(x):
    return isinstance(x, tuple) and len(x) == 2 and isinstance(x[1], dict)


def _hit(x):
    if not looks_like_value(x):
        raise TypeError("(data, dictionary) pair expected, got %r" % (x,))
    return x


# VarSem!G (the S2C replay of Variables_*_c binds the two tables: every getter is exercised)
GETTERS = {
    "inc": lambda x: _int(x) + 1,
    "dbl": lambda x: 2 * _int(x),
    "tri": lambda x: 3 * _int(x),
    "sq": lambda x: _int(x) * x,
    "add5": lambda x: _int(x) + 5,
    "none": lambda x: None,
    "pair": lambda x: (_int(x), x + 1),
    "first": lambda t: _tup(t)[0],
    "hit": lambda x: ((_int(x), x + 1), {"layer": x}),
    "len": lambda t: len(_tup(t)),
    "layer": lambda h: _hit(h)[1]["layer"],
    "dflt": lambda x: 7 if x is None else x,
    "isnone": lambda x: 1 if x is None else 0,
}


def _v(k, l=(), t=(), m=None):
    return {"k": k, "l": list(l), "t": list(t), "m": m or {}}


def enc(x):
    if isinstance(x, dict):
        if all(isinstance(key, str) for key in x):
            return _v("D", m=dict((key, enc(v)) for key, v in x.items()))
        return _v("other", l=[repr(x)])
    if isinstance(x, bool):
        return _v("other", l=[repr(x)])
    if x is None:
        return _v("N")
    if isinstance(x, int) and x >= 0:
        return _v("I", l=[str(x)])
    if isinstance(x, str):
        return _v("S", l=[p for p in re.split(r"(_)", x) if p])
    if isinstance(x, list) and all(isinstance(y, str) for y in x):
        return _v("L", l=x)
    if isinstance(x, tuple):
        return _v("T", t=[enc(y) for y in x])
    return _v("other", l=[repr(x)])


def dec(v):
    k = v["k"]
    if k == "D":
        return dict((key, dec(x)) for key, x in (v["m"] or {}).items())
    if k == "S":
        return "".join(v["l"])
    if k == "N":
        return None
    if k == "I":
        return int(v["l"][0])
    if k == "L":
        return list(v["l"])
    if k == "T":
        return tuple(dec(x) for x in v["t"])
    raise ValueError(v)


def enc_data(d):
    if isinstance(d, tuple):
        return {"k": "T", "i": 0, "t": [enc_data(x) for x in d]}
    if isinstance(d, int) and not isinstance(d, bool):
        return {"k": "I", "i": d, "t": []}
    if d is None:
        return {"k": "N", "i": 0, "t": []}
    if isinstance(d, dict) and list(d) == ["layer"] and isinstance(d["layer"], int):
        return {"k": "D", "i": d["layer"], "t": []}
    return {"k": "other", "i": 0, "t": [], "repr": repr(d)}


def dec_data(d):
    if d["k"] == "T":
        return tuple(dec_data(x) for x in d["t"])
    if d["k"] == "N":
        return None
    if d["k"] == "D":
        return {"layer": d["i"]}
    return d["i"]


def data_kind(x):
    if x is None:
        return "none"
    if looks_like_value(x):
        return "hit"
    return "tuple" if isinstance(x, tuple) else "int"


def get(e, x):
    """VarSem!Get: the getter of an expression as a function of data (raises where the spec has DE)."""
    if e["k"] == "var":
        return GETTERS[e["v"]["g"]](x)
    if e["k"] == "cmp":
        for c in e["ch"]:
            x = get(c, x)
        return x
    return tuple(get(c, x) for c in e["ch"])


def defined(chain, x):
    """VarSem!DefChain and Variables!CombOk for the data x."""
    try:
        y = copy.deepcopy(x)
        for e in chain:
            y = get(e, y)
        seq_ok = True
    except Exception:   # noqa
        seq_ok = False
    comb_ok = True
    for e in chain:
        try:
            get(e, copy.deepcopy(x))
        except Exception:   # noqa
            comb_ok = False
    return seq_ok, comb_ok


def make(expr, made=None):
    """Real object for an expression; *made* collects every object created (also nested ones)."""
    import lena.variables
    k = expr["k"]
    if k == "var":
        v = expr["v"]
        attrs = dict((key, dec(x)) for key, x in (v["attrs"] or {}).items())
        o = lena.variables.Variable("".join(v["name"]), GETTERS[v["g"]], type=v["type"], **attrs)
    else:
        ch = [make(e, made) for e in expr["ch"]]
        if k == "cmp":
            kw = dict((key, dec(x)) for key, x in (expr["v"]["attrs"] or {}).items())
            o = lena.variables.Compose(*ch, **kw)
        else:
            kw = dict((key, dec(x)) for key, x in (expr["v"]["attrs"] or {}).items())
            if expr["v"]["name"]:
                kw["name"] = "".join(expr["v"]["name"])
            if expr["v"]["type"]:
                kw["type"] = expr["v"]["type"]
            o = lena.variables.Combine(*ch, **kw)
    if made is not None:
        made.append(o)
    return o


def all_types(expr):
    if expr["k"] == "var":
        return [expr["v"]["type"]] if expr["v"]["type"] else []
    out = [expr["v"]["type"]] if expr["v"]["type"] else []
    for e in expr["ch"]:
        out.extend(all_types(e))
    return out


def top_type(expr):
    """Type of the variable an expression denotes ('' if none)."""
    if expr["k"] == "var":
        return expr["v"]["type"]
    if expr["k"] == "cmp":
        return top_type(expr["ch"][-1])
    return expr["v"]["type"]


def sig(expr):
    if expr["k"] == "var":
        return "".join(expr["v"]["name"])
    kw = ",name=%s,type=%s" % ("".join(expr["v"]["name"]), expr["v"]["type"]) if expr["v"]["name"] else ""
    return ("Compose" if expr["k"] == "cmp" else "Combine") + "(" + ",".join(sig(e) for e in expr["ch"]) + kw + ")"


def has_untyped(chain):
    return any((e["k"] == "var" and not e["v"]["type"]) or (e["k"] != "var" and has_untyped(e["ch"]))
               for e in chain)


def loses_types(chain):
    """VarSem!LosesTypes: an untyped variable, or a Combine without type followed by another element."""
    return has_untyped(chain) or any(e["k"] == "cmb" and not e["v"]["type"] for e in chain[:-1])


MACHINERY_KEYS = ("dim", "combine", "variable", "range", "latex_name", "name", "compose", "type")
RESERVED_KEYS = ("name", "type", "compose")


def key_kind(key):
    """Variables!KindOf recomputed from the characters of the string (a type / attribute name is an
    atomic key for the specification; the harness renders it as exactly this string)."""
    if "." in key:
        return "dotted"
    if " " in key:
        return "spaces"
    if len(key) == 1:
        return "char"
    if key in MACHINERY_KEYS:
        return "machinery"
    return "plain"


def alphabet_tag(chain):
    """'' for chains whose types are plain words, else '+types-<kinds>'."""
    kinds = sorted(set(key_kind(t) for e in chain for t in all_types(e)) - {"plain"})
    return "+types-" + ",".join(kinds) if kinds else ""


def start_kind(c):
    var = c.get("variable")
    if "variable" in c and not var:
        return "empty-variable"
    if var is None:
        return "no-variable" if not c else "other-keys"
    if "type" not in var:
        return "untyped-variable"
    return "typed-variable+compose" if "compose" in var else "typed-variable"


def value_of(start, bare=False):
    x = dec_data(start["d"])
    c = dec(start["c"])
    if not c and bare:
        return x
    return (x, copy.deepcopy(c))


def run_scenario(chain, start, bare=False, combok=True):
    """Execute one scenario on the real classes.  Returns a dict of observations:
    seq / compose / combine: (data, context); repeats; var_context snapshots.
    combok = False: some member cannot take the starting data, Combine(chain) is not applied."""
    import lena.core
    import lena.flow
    made = []
    objs = [make(e, made) for e in chain]
    before = [copy.deepcopy(o.var_context) for o in made]
    # Compose / Combine are built from the same variable objects as the Sequence
    import lena.variables
    comp = lena.variables.Compose(*objs)
    comb = lena.variables.Combine(*objs)
    made_all = made + [comp, comb]
    before_all = before + [copy.deepcopy(comp.var_context), copy.deepcopy(comb.var_context)]
    out = {}

    def norm(res):
        return (lena.flow.get_data(res), lena.flow.get_context(res))

    seq = lena.core.Sequence(*objs)
    # two equal values in one flow
    # (every result is also frozen at the moment it is produced)
    r, at_yield = [], []
    for res in seq.run([value_of(start, bare), value_of(start, bare)]):
        r.append(res)
        at_yield.append(copy.deepcopy(norm(res)))
    out["seq_len"] = len(r)
    out["seq"] = norm(r[0]) if r else None
    out["seq2"] = norm(r[1]) if len(r) > 1 else None
    out["seq_at_yield"] = at_yield
    dummy = (0, {})
    out["compose"] = norm(comp(value_of(start, bare)))
    out["combine"] = norm(comb(value_of(start, bare))) if combok else dummy
    # repeated application to equal values
    r2 = list(seq.run([value_of(start, bare)]))
    out["rseq"] = norm(r2[0]) if r2 else None
    out["rcompose"] = norm(comp(value_of(start, bare)))
    out["rcombine"] = norm(comb(value_of(start, bare))) if combok else dummy
    out["seq_later"] = [norm(res) for res in r]
    after = [o.var_context for o in made_all]
    out["unchanged"] = [a == b for a, b in zip(before_all, after)]
    out["changed_example"] = next(((repr(o), b, a) for o, a, b in zip(made_all, after, before_all) if a != b), None)
    out["names"] = [o.name for o in objs]
    return out


def contains(obs, req):
    """Every item of req is in obs with an equal value (top level of a dictionary)."""
    return isinstance(obs, dict) and all(key in obs and obs[key] == v for key, v in req.items())


def is_subsequence(small, big):
    it = iter(big)
    return all(any(x == y for y in it) for x in small)
