"""Specifications of spec/Selectors.tla and contexts of spec/GroupBy.tla <-> real lena objects.

Encodings (DESIGN.md 3.1):
  context  {"k": "D", "m": {key: node}} | {"k": "L", "t": "int"|"str", "n": int, "v": str(value)}
  data     {"t": "int"|"bool"|"str", "n": value (length for strings)}
  value    {"d": data, "c": context, "h": is a (data, context) pair}
  spec     {"k": "str", "p": path} {"k": "cls", "c": name} {"k": "fn", "f": name}
           {"k": "fn", "f": "raise"|"num", "e": exception class}   (a callable raising that class)
           {"k": "list"|"tuple", "xs": [...]}
           {"k": "Sel"|"Not", "x": spec, "roe": bool} {"k": "And"|"Or", "xs": [...], "roe": bool}
           {"k": "SC", "p": path, "q": predicate name, "roe": bool}
           {"k": "SC", "p": path, "q": "raise"|"needx", "e": exception class, "roe": bool}
  result   "T" | "F" | name of the class of the exception that reached the caller
"""
import json

OBJ = ("Sel", "Not", "And", "Or", "SC")


class Boom(Exception):
    """Raised by the always-raising callables of the harness."""


def _boom(_):
    raise Boom("boom")


class CallableObject(object):
    """A callable that is neither a function nor a class (no __name__)."""

    def __call__(self, v):
        import lena.flow as lf
        return lf.get_data(v) > 0


class CallableClass(object):
    """A class whose instances are callable: as a specification it is still a class."""

    def __call__(self, v):
        return True


def funcs():
    import lena.flow as lf
    return {
        "objpos": CallableObject(),
        "yes": lambda v: True,
        "no": lambda v: False,
        "boom": _boom,
        "pos": lambda v: lf.get_data(v) > 0,          # TypeError for strings, None, tuples
        "len": lambda v: len(lf.get_data(v)),         # an int, not a bool; TypeError for numbers and None
        "hasctx": lambda v: bool(lf.get_context(v)),
        "isnone": lambda v: lf.get_data(v) is None,
        "eq0": lambda v: lf.get_data(v) == 0,
    }


def exc_classes():
    """The exception classes of SelectorsSem.tla ExcKinds (lena's own are those of the tree under test)."""
    import lena.core as lc

    class SubLenaKeyError(lc.LenaKeyError):
        pass
    d = {"Boom": Boom, "TypeError": TypeError, "ValueError": ValueError, "KeyError": KeyError,
         "LookupError": LookupError, "AttributeError": AttributeError, "SubLenaKeyError": SubLenaKeyError}
    for n in ("LenaKeyError", "LenaTypeError", "LenaValueError", "LenaAttributeError", "LenaException"):
        d[n] = getattr(lc, n)
    return d


_EXC = {}


def exc_class(name):
    if not _EXC:
        _EXC.update(exc_classes())
    return _EXC[name]


def raising_fn(f, e):
    """The callables FnR(e) / FnN(e) of Selectors.tla."""
    import lena.flow as lf
    cls = exc_class(e)
    if f == "raise":
        def fn(v):
            raise cls("raised by a selector's callable")
    else:
        def fn(v):
            d = lf.get_data(v)
            if not isinstance(d, (int, bool)):
                raise cls("data is not a number")
            return d > 0
    fn.__name__ = "%s_%s" % (f, e)
    return fn


def raising_pred(q, e):
    """The predicates of SCE(p, q, e, r) of Selectors.tla."""
    cls = exc_class(e)
    if q == "raise":
        def pred(sub):
            raise cls("raised by a predicate")
    else:
        def pred(sub):
            if not isinstance(sub, dict) or "x" not in sub:
                raise cls("x")
            return sub["x"] == 1
    pred.__name__ = "%s_%s" % (q, e)
    return pred


CLASSES = {"int": int, "str": str, "bool": bool, "object": object, "tuple": tuple, "ucls": CallableClass}
PREDS = {
    "isdict": lambda s: isinstance(s, dict),
    "isnone": lambda s: s is None,
    "eq0": lambda s: s == 0,
    "eq1": lambda s: s == 1,
    "gt0": lambda s: s > 0,                           # TypeError for dictionaries, strings, None, lists
    "hasx": lambda s: "x" in s,                       # TypeError for numbers and None
    "truthy": lambda s: bool(s),
    "always": lambda s: True,
    "boom": _boom,
    # predicates that are classes (callable, but not to be taken for an isinstance test)
    "cbool": bool,
    "cstr": str,
    "cint": int,
    "cdict": dict,
    "cuser": type("Wrapped", (object,), {"__init__": lambda self, sub: setattr(self, "sub", sub)}),
}


# ------------------------------------------------------------------ contexts and values
def dec_ctx(node):
    if node["k"] == "D":
        m = node["m"]
        if isinstance(m, list):        # ToJson of the empty function
            if m:
                raise ValueError("unexpected list-valued dictionary %r" % (m,))
            return {}
        return {k: dec_ctx(v) for k, v in m.items()}
    t = node["t"]
    if t == "int":
        return int(node["n"])
    if t == "none":
        return None
    if t == "bool":
        return bool(node["n"])
    if t == "list":
        return ["x"] * int(node["n"])
    if t == "tuple":
        return ("x",) * int(node["n"])
    return str(node["v"])


def enc_ctx(obj):
    if isinstance(obj, dict):
        return {"k": "D", "m": {k: enc_ctx(v) for k, v in obj.items()}}
    if obj is None:
        return {"k": "L", "t": "none", "n": 0, "v": "None"}
    if isinstance(obj, bool):
        return {"k": "L", "t": "bool", "n": int(obj), "v": str(obj)}
    if isinstance(obj, int):
        return {"k": "L", "t": "int", "n": obj, "v": str(obj)}
    if isinstance(obj, str):
        return {"k": "L", "t": "str", "n": 0, "v": obj}
    if isinstance(obj, (list, tuple)) and all(x == "x" for x in obj):
        return {"k": "L", "t": "list" if isinstance(obj, list) else "tuple", "n": len(obj), "v": str(obj)}
    raise ValueError("cannot encode leaf %r" % (obj,))


def dec_data(d):
    if d["t"] == "int":
        return int(d["n"])
    if d["t"] == "bool":
        return bool(d["n"])
    if d["t"] == "none":
        return None
    if d["t"] == "tuple":
        return (0,) * int(d["n"])
    if d["t"] == "list":
        return [0] * int(d["n"])
    return "s" * int(d["n"])


def enc_data(x):
    if x is None:
        return {"t": "none", "n": 0}
    if isinstance(x, bool):
        return {"t": "bool", "n": int(x)}
    if isinstance(x, int):
        return {"t": "int", "n": x}
    if isinstance(x, str):
        return {"t": "str", "n": len(x)}
    if isinstance(x, tuple):
        return {"t": "tuple", "n": len(x)}
    if isinstance(x, list):
        return {"t": "list", "n": len(x)}
    raise ValueError("cannot encode data %r" % (x,))


DuckPair = __import__("collections").namedtuple("DuckPair", "data context")


def dec_val(v):
    sub = v.get("sub", "")
    if sub == "raw":                                # the object as written: a tuple / list of data and context items
        items = [dec_ctx(i) if "k" in i else dec_data(i) for i in v["raw"]["items"]]
        return tuple(items) if v["raw"]["kind"] == "tuple" else list(items)
    if sub == "listpair":
        return [1, {"a": {}}]                       # a list, not a (data, context) pair
    if sub == "duck":                               # tuple subclass holding a dict subclass
        import collections
        return DuckPair(dec_data(v["d"]), collections.OrderedDict(dec_ctx(v["c"])))
    data = dec_data(v["d"])
    if v["h"]:
        return (data, dec_ctx(v["c"]))
    return data


def enc_val(x):
    if isinstance(x, tuple) and len(x) == 2 and isinstance(x[1], dict):
        return {"d": enc_data(x[0]), "c": enc_ctx(x[1]), "h": True}
    return {"d": enc_data(x), "c": enc_ctx({}), "h": False}


def sig(x):
    """Strict identity of a decoded value (1 == True in Python)."""
    return repr(x)


# ------------------------------------------------------------------ specifications
def key_forms(path):
    """The notations get_recursively accepts for the same path."""
    forms = [".".join(path), list(path)]
    if len(path) >= 2:
        d = path[-1]
        for k in reversed(path[:-1]):
            d = {k: d}
        forms.append(d)
    return forms


def build(ast, form=0, explicit_roe=True, F=None):
    """Real object / raw specification for *ast*.  form selects the SelectContext key notation;
    explicit_roe=False omits raise_on_error where it is the default (True)."""
    import lena.flow as lf
    F = F or funcs()
    k = ast["k"]

    def kw(node):
        if node["roe"] and not explicit_roe:
            return {}
        return {"raise_on_error": bool(node["roe"])}
    rec = lambda a: build(a, form, explicit_roe, F)
    if k == "str":
        return ".".join(ast["p"])
    if k == "cls":
        return CLASSES[ast["c"]]
    if k == "fn":
        if "e" in ast:
            return raising_fn(ast["f"], ast["e"])
        return F[ast["f"]]
    if k == "list":
        return [rec(x) for x in ast["xs"]]
    if k == "tuple":
        return tuple(rec(x) for x in ast["xs"])
    if k == "Sel":
        return lf.Selector(rec(ast["x"]), **kw(ast))
    if k == "Not":
        return lf.Not(rec(ast["x"]), **kw(ast))
    if k == "And":
        return lf.And(tuple(rec(x) for x in ast["xs"]), **kw(ast))
    if k == "Or":
        return lf.Or([rec(x) for x in ast["xs"]], **kw(ast))
    if k == "SC":
        forms = key_forms(ast["p"])
        pred = raising_pred(ast["q"], ast["e"]) if "e" in ast else PREDS[ast["q"]]
        return lf.SelectContext(forms[form % len(forms)], pred, **kw(ast))
    raise ValueError("unknown node %r" % (ast,))


def has_sc(ast):
    if ast["k"] == "SC":
        return True
    if "xs" in ast:
        return any(has_sc(x) for x in ast["xs"])
    if "x" in ast:
        return has_sc(ast["x"])
    return False


def evaluate(obj, val):
    """"T" / "F" / the name of the class of the exception that reached the caller."""
    try:
        r = obj(val)
    except Exception as exc:   # noqa
        return type(exc).__name__
    return "T" if r else "F"


def is_exc(res):
    return res not in ("T", "F", "U")


def render(ast):
    k = ast["k"]
    roe = lambda: "" if ast["roe"] else ",roe=F"
    if k == "str":
        return '"%s"' % ".".join(ast["p"])
    if k == "cls":
        return ast["c"]
    if k == "fn":
        return "<%s %s>" % (ast["f"], ast["e"]) if "e" in ast else "<%s>" % ast["f"]
    if k == "list":
        return "[%s]" % ",".join(render(x) for x in ast["xs"])
    if k == "tuple":
        return "(%s)" % ",".join(render(x) for x in ast["xs"])
    if k in ("Sel", "Not"):
        return "%s(%s%s)" % ("Selector" if k == "Sel" else "Not", render(ast["x"]), roe())
    if k in ("And", "Or"):
        return "%s(%s%s)" % (k, ",".join(render(x) for x in ast["xs"]), roe())
    q = "%s %s" % (ast["q"], ast["e"]) if "e" in ast else ast["q"]
    return "SelectContext(%s,<%s>%s)" % (".".join(ast["p"]), q, roe())


def size(ast):
    return len(json.dumps(ast, sort_keys=True))


# ------------------------------------------------------------------ generators (C2S)
LEAF_PATHS = [["a"], ["b"], ["a", "b"], ["a", "b", "x"], ["a", "b", "5"], ["b", "1"], ["c"], ["a", "c", "d"],
              ["a", "None"], ["b", "False"], ["a", "b", "None"], ["b", "0"], ["a", "[]"]]
SC_PATHS = [[], ["a"], ["a", "b"], ["b"], ["a", "b", "x"], ["a", "c"]]


EXC_KINDS = ["Boom", "TypeError", "ValueError", "KeyError", "LookupError", "AttributeError", "LenaKeyError",
             "LenaKeyError", "LenaTypeError", "LenaValueError", "LenaAttributeError", "LenaException", "SubLenaKeyError"]


def no_raise(ast):
    if ast["k"] not in OBJ:
        return True
    if ast["roe"]:
        return False
    if ast["k"] in ("And", "Or"):
        return all(no_raise(x) for x in ast["xs"])
    return True


def random_leaf(rnd):
    t = rnd.random()
    if t < 0.4:
        return {"k": "str", "p": rnd.choice(LEAF_PATHS)}
    if t < 0.6:
        return {"k": "cls", "c": rnd.choice(sorted(CLASSES))}
    if t < 0.9:
        return {"k": "fn", "f": rnd.choice(["yes", "no", "boom", "pos", "len", "hasctx", "isnone", "eq0", "objpos"])}
    return {"k": "fn", "f": rnd.choice(["raise", "num"]), "e": rnd.choice(EXC_KINDS)}


def random_spec(rnd, depth, want_obj=False):
    """A well-formed specification (see WellFormed in Selectors.tla)."""
    if depth <= 0 and not want_obj:
        return random_leaf(rnd)
    kinds = ["Sel", "Not", "And", "Or", "SC"] if want_obj else \
        ["leaf", "leaf", "list", "tuple", "Sel", "Not", "And", "Or", "SC"]
    k = rnd.choice(kinds)
    roe = rnd.random() < 0.5
    if k == "leaf":
        return random_leaf(rnd)
    if k == "SC":
        if rnd.random() < 0.3:
            return {"k": "SC", "p": rnd.choice(SC_PATHS), "q": rnd.choice(["raise", "needx", "needx"]),
                    "e": rnd.choice(EXC_KINDS), "roe": roe}
        return {"k": "SC", "p": rnd.choice(SC_PATHS), "q": rnd.choice(sorted(PREDS)), "roe": roe}
    if k in ("Sel", "Not"):
        return {"k": k, "x": random_spec(rnd, depth - 1), "roe": roe}
    xs = [random_spec(rnd, depth - 1) for _ in range(rnd.choice([0, 1, 2, 2, 3, 3, 4]))]
    if k in ("list", "tuple"):
        return {"k": k, "xs": xs}
    if not roe:
        xs = [x for x in xs if no_raise(x)]
    return {"k": k, "xs": xs, "roe": roe}


def random_leafval(rnd):
    return rnd.choice([1, 0, -1, 5, 2, "x", "y", "5", "1", None, None, 0, "", False, [], {},
                       "xy", "yx", "x y", ["x"], ("x", "x"), "None.", "55"])


def random_ctx(rnd, depth=3, keys=("a", "b", "c", "x")):
    d = {}
    for k in keys:
        t = rnd.random()
        if t < (0.4 if depth == 3 else 0.6):
            continue
        if t < 0.7 or depth <= 1:
            d[k] = random_leafval(rnd)
        else:
            d[k] = random_ctx(rnd, depth - 1, keys)
    return d


def through_scalar(ctx, path):
    """contains(ctx, path) walks into a scalar before the last-but-one level (outside C15)."""
    cur = ctx
    for i, k in enumerate(path[:-1]):
        if not isinstance(cur, dict):
            return True
        if k not in cur:
            return False
        cur = cur[k]
    return False


def str_leaves(ast, acc=None):
    acc = [] if acc is None else acc
    if ast["k"] == "str":
        acc.append(ast["p"])
    for x in ast.get("xs", []):
        str_leaves(x, acc)
    if "x" in ast:
        str_leaves(ast["x"], acc)
    return acc


def random_val(rnd):
    # (bare data that looks like a (data, context) pair but is not one: two items, the second not a dict)
    data = rnd.choice([1, -1, 0, 7, True, False, "", "s", "ss", None, None, (), (0,),
                       (1, 2), (1, "s"), ("s", None), (1, [0]), (1, {}, 2), [1, 2], [1, {}]])
    if rnd.random() < 0.15:
        return data
    return (data, random_ctx(rnd))


# ------------------------------------------------------------------ GroupBy
def dotted(path):
    return ".".join(path)


def gm_args(G, M, style=0):
    """group_by / merge arguments for key path lists G, M (in the order in which they are written)."""
    g = tuple(dotted(p) for p in G)
    m = tuple(dotted(p) for p in M)
    if style == 1:
        # a single key may be given as a plain string
        if len(g) == 1:
            g = g[0]
        if len(m) == 1:
            m = m[0]
    if style == 3:
        g, m = list(g), list(m)                     # lists instead of tuples
    return g, m


def ctx_paths(c, pre=()):
    for k, v in c.items():
        yield pre + (k,)
        if isinstance(v, dict):
            for p in ctx_paths(v, pre + (k,)):
                yield p


def random_gm(rnd, alphabet=("a", "b", "c", "d"), maxdepth=3):
    """Random properly or redundantly nested key sets; the caller keeps those lena accepts."""
    listed = {(): rnd.choice("GM")}
    for _ in range(rnd.randint(0, 6)):
        p = tuple(rnd.choice(alphabet) for _ in range(rnd.randint(1, maxdepth)))
        if p in listed:
            continue
        q = p[:-1]
        while q not in listed:
            q = q[:-1]
        # mostly alternate with the enclosing listed key
        other = "M" if listed[q] == "G" else "G"
        listed[p] = other if rnd.random() < 0.8 else listed[q]
    G = sorted(list(p) for p, k in listed.items() if k == "G")
    M = sorted(list(p) for p, k in listed.items() if k == "M")
    # the order of writing is free: sorted, deeper keys first, or any other
    t = rnd.random()
    if t < 0.3:
        G.reverse()
        M.reverse()
    elif t < 0.7:
        rnd.shuffle(G)
        rnd.shuffle(M)
    return G, M
