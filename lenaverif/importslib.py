"""Harness side of C20: fresh interpreters, import event recorder, smoke table.

Everything that touches the tree under test runs in a *separate* interpreter
(`sys.executable -c PROBE ...`) whose sys.path starts with the tree, so that "only subpackage X has
been imported" is really true there.
"""
from __future__ import print_function

import concurrent.futures
import json
import os
import re
import subprocess
import sys

from . import core

# --------------------------------------------------------------------------- probe (runs in the fresh interpreter)
PROBE = r'''
import sys, json, os, re, types, traceback, itertools, importlib.abc, importlib.machinery
args = json.loads(sys.argv[1])
PKG = "lena"
REPO = args["repo"]
events = []
_failed = [False]

def is_ours(name):
    return name == PKG or name.startswith(PKG + ".")

def kind(v):
    if isinstance(v, types.ModuleType) and is_ours(getattr(v, "__name__", "")):
        return v.__name__
    return "-"

def names_of(module):
    return dict((n, kind(v)) for n, v in list(vars(module).items()))

class Recorder(importlib.abc.MetaPathFinder):
    """Logs start / end / failure of the body of every module of the tree."""
    def find_spec(self, name, path, target=None):
        if not is_ours(name):
            return None
        spec = importlib.machinery.PathFinder.find_spec(name, path, target)
        if spec is None or spec.loader is None or not hasattr(spec.loader, "exec_module"):
            return spec
        loader = spec.loader
        orig = loader.exec_module
        def exec_module(module, _orig=orig, _name=name):
            events.append({"ev": "start", "m": _name})
            try:
                _orig(module)
            except BaseException as exc:
                # logged once, in the module where the exception arises (it may pass through the bodies of
                # the modules that import this one, and a handler of one of them may catch it)
                if not getattr(exc, "_lenaverif_logged", False):
                    try:
                        exc._lenaverif_logged = True
                    except Exception:
                        pass
                    _failed[0] = True
                    events.append({"ev": "fail", "kind": type(exc).__name__, "msg": str(exc)[:300], "m": _name})
                raise
            events.append({"ev": "end", "m": _name, "names": names_of(module)})
        loader.exec_module = exec_module
        return spec

def scrub(s):
    s = re.sub(r" at 0x[0-9a-fA-F]+", " at 0x?", s)
    s = re.sub(r"0x[0-9a-fA-F]{6,}", "0x?", s)
    return s.replace(os.getcwd(), "<cwd>").replace(REPO, "<repo>")[:600]

def describe_exc(exc):
    d = {"out": "exc", "cls": type(exc).__name__, "msg": scrub(str(exc)),
         "lena_exc": any(c.__name__ == "LenaException" for c in type(exc).__mro__),
         "name": "", "on": "", "where": None}
    tb = traceback.extract_tb(exc.__traceback__)
    for fr in tb:
        fn = os.path.abspath(fr.filename)
        if fn.startswith(os.path.join(REPO, PKG) + os.sep):
            d["where"] = [os.path.relpath(fn, REPO), fr.lineno, fr.name]
    if isinstance(exc, NameError):
        # includes UnboundLocalError (a local name that is not bound when it is read)
        d["nameerror"] = True
        d["name"] = getattr(exc, "name", None) or ""
        if not d["name"]:
            m = (re.search(r"name '([^']+)' is not defined", str(exc))
                 or re.search(r"local variable '([^']+)'", str(exc)))
            d["name"] = m.group(1) if m else "?"
    if isinstance(exc, ImportError):
        m = re.search(r"cannot import name '([^']+)'", str(exc)) or re.search(r"No module named '([^']+)'", str(exc))
        d["name"] = m.group(1) if m else (getattr(exc, "name", None) or "")
    if isinstance(exc, AttributeError):
        d["name"] = getattr(exc, "name", None) or ""
        obj = getattr(exc, "obj", None)
        if isinstance(obj, types.ModuleType) and is_ours(getattr(obj, "__name__", "")):
            d["on"] = obj.__name__
        else:
            m = re.search(r"module '([^']+)' has no attribute '([^']+)'", str(exc))
            if m and is_ours(m.group(1)):
                d["on"], d["name"] = m.group(1), m.group(2)
    return d

def run(el, flow):
    return list(el.run(iter(flow)))

def fc(el, values):
    for v in values:
        el.fill(v)
    return list(el.compute())

def M(name):
    return sys.modules[name]

def fake_root():
    """A stand-in for the optional ROOT package so that code behind `import ROOT` can be reached."""
    mod = types.ModuleType("ROOT")
    mod.TFile = type("TFile", (), {})
    mod.TTree = type("TTree", (), {})
    mod.nullptr = None
    sys.modules["ROOT"] = mod
    return mod

def smoke(pkg, items, scratch):
    res = []
    for n, (key, code) in enumerate(items):
        d = os.path.join(scratch, "s%d" % n)
        os.makedirs(d)
        os.chdir(d)
        sys.modules.pop("ROOT", None)
        ns = {"sys": sys, "os": os, "itertools": itertools, "lena": sys.modules.get(PKG), "P": sys.modules.get(pkg),
              "run": run, "fc": fc, "M": M, "fake_root": fake_root}
        so, se = sys.stdout, sys.stderr
        sys.stdout = sys.stderr = open(os.devnull, "w")
        try:
            val = eval(code, ns)
            if isinstance(val, types.GeneratorType):
                val = list(val)
            out = {"out": "ok", "repr": scrub(repr(val))}
        except BaseException as exc:
            out = describe_exc(exc)
        finally:
            sys.stdout.close()
            sys.stdout, sys.stderr = so, se
        out["key"] = key
        out["code"] = code
        res.append(out)
    return res

sys.meta_path.insert(0, Recorder())
result = {"events": events}
events.append({"ev": "begin", "entries": args["entries"]})
ok = True
for e in args["entries"]:
    try:
        __import__(e)
    except BaseException as exc:
        ok = False
        result["import_error"] = describe_exc(exc)
        result["import_error"]["entry"] = e
        break
if ok:
    order = [m for m in sys.modules if is_ours(m)]
    events.append({"ev": "ready", "order": order,
                   "mods": dict((m, names_of(sys.modules[m])) for m in order)})
    top = sys.modules[PKG]
    result["file"] = os.path.dirname(os.path.abspath(top.__path__[0]))
    stars = {}
    for e in args.get("stars", []):
        mod = sys.modules[e]
        adv = getattr(mod, "__all__", None)
        ns = {}
        try:
            exec("from %s import *" % e, ns)
            got = sorted(k for k in ns if k != "__builtins__")
            stars[e] = {"out": "ok", "all": None if adv is None else sorted(set(adv)), "bound": got}
        except BaseException as exc:
            stars[e] = describe_exc(exc)
            stars[e]["all"] = None if adv is None else sorted(set(adv))
    result["stars"] = stars
    if args.get("smoke"):
        result["smoke"] = smoke(args["pkg"], args["smoke"], args["scratch"])
    if args.get("lookups"):
        # names looked up by computed strings, the way the code under test does it (ReflectiveResolve)
        try:
            for st in args.get("pre", []):
                exec(st, {})
            pre_ok = True
        except BaseException as exc:
            pre_ok = False
            result["pre_error"] = describe_exc(exc)
        res = []
        for lk in (args["lookups"] if pre_ok else []):
            out = {"on": lk["on"], "how": lk["how"], "name": lk["name"]}
            try:
                mod = sys.modules[lk["on"]]
                if lk["how"] == "getattr":
                    getattr(mod, lk["name"])
                else:
                    vars(mod)[lk["name"]]
                out["out"] = "ok"
            except BaseException as exc:
                d = describe_exc(exc)
                out.update({"out": "exc", "cls": d["cls"], "msg": d["msg"], "exc_on": d["on"]})
            res.append(out)
        result["lookups"] = res
    if args.get("drive"):
        # every function of the list called with every value (self-test tree of ReflectiveResolve)
        dr = args["drive"]
        mod = sys.modules[dr["module"]]
        res = []
        for fn in dr["funcs"]:
            for v in dr["values"]:
                try:
                    rv = getattr(mod, fn)(v)
                    out = {"out": "ok", "ret": repr(rv)[:200]}
                except BaseException as exc:
                    out = describe_exc(exc)
                out["f"] = fn
                out["arg"] = v
                res.append(out)
        result["drive"] = res
sys.stdout.write("\n@@RESULT@@" + json.dumps(result))
'''


def run_probe(ctx, entries, scratch, stars=(), pkg=None, smoke=None, timeout=120, repo=None, pre=(), lookups=None,
              drive=None):
    """Fresh interpreter: import *entries* in order (recording import events), star-import *stars*,
    run the smoke items; execute the import statements *pre* and look the names of *lookups* up
    ([{on, how, name}]); call the functions of *drive*.  *repo*: another tree than the one under test (the
    self-test tree).  Returns the decoded result."""
    os.makedirs(scratch, exist_ok=True)
    repo = os.path.abspath(repo or ctx.repo)
    args = {"repo": repo, "entries": list(entries), "stars": list(stars), "pkg": pkg,
            "smoke": smoke or [], "scratch": os.path.abspath(scratch), "pre": list(pre), "lookups": lookups or [],
            "drive": drive}
    env = dict(os.environ)
    env["PYTHONPATH"] = repo
    env["PYTHONHASHSEED"] = "0"
    env["PYTHONDONTWRITEBYTECODE"] = "1"
    env["PYTHONWARNINGS"] = "ignore"
    p = subprocess.run([sys.executable, "-c", PROBE, json.dumps(args)], cwd=scratch, env=env,
                       stdout=subprocess.PIPE, stderr=subprocess.PIPE, timeout=timeout)
    out = p.stdout.decode("utf-8", "replace")
    k = out.rfind("@@RESULT@@")
    if k < 0:
        raise core.MachineryError("probe for %s produced no result (exit %s):\n%s" % (
            entries, p.returncode, p.stderr.decode("utf-8", "replace")[-2000:]))
    res = json.loads(out[k + len("@@RESULT@@"):])
    if "file" in res and os.path.realpath(res["file"]) != os.path.realpath(repo):
        raise core.MachineryError("fresh interpreter imported lena from %s, not from %s" % (res["file"], repo))
    return res


def run_many(ctx, jobs, workers=None):
    """jobs: list of (tag, kwargs for run_probe); returns {tag: result} (order independent)."""
    n = max(1, min(workers or ctx.nworkers, 8))
    out = {}
    with concurrent.futures.ThreadPoolExecutor(max_workers=n) as ex:
        futs = {ex.submit(run_probe, ctx, **kw): tag for tag, kw in jobs}
        for f in concurrent.futures.as_completed(futs):
            out[futs[f]] = f.result()
    return out


# --------------------------------------------------------------------------- smoke table
# name -> list of expressions evaluated with P = the subpackage (only it has been imported), helpers
# run(el, flow), fc(el, values) (fill all, compute), M(name) = sys.modules[name] for modules the subpackage
# loads itself, fake_root().  What is compared is the outcome (repr or exception) between "only lena.X
# imported" and "everything imported"; the values themselves are not judged here.
_OBJ = "type('E', (), {'__call__': lambda s, x: x})()"
_SRC = "type('S', (), {'__call__': lambda s: iter([1, 2])})()"
_H1 = "M('lena.structures').histogram([0, 1, 2], [3, 4])"
_FC2 = ("type('S2', (), {'fill': lambda s, v: None, 'compute': lambda s: iter([3, (4, {'a': 1})]), "
        "'reset': lambda s: None})()")

SMOKE = {
    "lena.context": {
        "Context": ["P.Context({'a': {'b': 1}})", "P.Context()((1, {'a': 2}))"],
        "UpdateContext": ["P.UpdateContext('a.b', 7)((5, {'c': 2}))",
                          "P.UpdateContext('a', '{{x}}', value=True)((5, {'x': 3}))",
                          "P.UpdateContext('a', '{{x}}', value=True, raise_on_missing=True)((5, {}))",
                          "P.UpdateContext('a', {'k': '{{x}}'}, value=True, default=0)(5)"],
        "DeleteContext": ["P.DeleteContext('a')((1, {'a': 1, 'b': 2}))", "P.DeleteContext('z.y')((1, {'a': 1}))",
                          "P.DeleteContext('a')(1)"],
        "contains": ["P.contains({'a': {'b': 1}}, 'a.b')", "P.contains({'a': 1}, 'b')"],
        "difference": ["P.difference({'a': 1, 'b': 2}, {'a': 1})"],
        "format_context": ["P.format_context('{{a}}_{{b.c}}')({'a': 5, 'b': {'c': 6}})",
                           "P.format_context('{{a}}')({})"],
        "format_update_with": ["P.format_update_with('k', 'v_{{a}}', {'a': 1})"],
        "get_recursively": ["P.get_recursively({'a': {'b': 1}}, 'a.b')", "P.get_recursively({}, 'a.b')",
                            "P.get_recursively({}, 'a.b', 3)", "P.get_recursively({}, 5)"],
        "intersection": ["P.intersection({'a': 1, 'b': 2}, {'a': 1})", "P.intersection({'a': 1}, 5)"],
        "make_include_exclude_tree": ["P.make_include_exclude_tree([''], ['a.b']).get({'a': {'b': 1, 'd': 2}})", "P.make_include_exclude_tree(['a.b'], ['a.b.c'])"],
        "str_to_dict": ["P.str_to_dict('a.b', 1)", "P.str_to_dict('')"],
        "str_to_list": ["P.str_to_list('a.b')"],
        "to_string": ["P.to_string({'a': 1})"],
        "update_nested": ["(lambda d: (P.update_nested('k', d, {'x': 2}), d))({'k': {'y': 1}})"],
        "update_recursively": ["(lambda d: (P.update_recursively(d, {'a': {'c': 2}}), d))({'a': {'b': 1}})",
                               "(lambda d: (P.update_recursively(d, 'a.b', 3), d))({})"],
    },
    "lena.core": {
        "Call": ["P.Call(lambda x: x + 1)(1)", "P.Call(1)"],
        "FillCompute": ["P.FillCompute(1)", "fc(P.FillCompute(" + _FC2 + "), [1])"],
        "FillInto": ["P.FillInto(lambda x: x)", "P.FillInto(1)"],
        "FillRequest": ["P.FillRequest(1)", "P.FillRequest(" + _FC2 + ", reset=False, buffer_input=True).run(iter([1, 2]))"],
        "Run": ["run(P.Run(lambda x: x * 2), [1, 2])", "P.Run(1)"],
        "SourceEl": ["list(P.SourceEl(" + _SRC + ")())", "P.SourceEl(1)"],
        "Sequence": ["run(P.Sequence(lambda x: x + 1, lambda x: x * 2), [1, 2])", "P.Sequence(1)", "repr(P.Sequence())"],
        "Source": ["list(P.Source(" + _SRC + ", lambda x: x + 1)())", "P.Source(lambda x: x)", "P.Source()"],
        "Split": ["run(P.Split([lambda x: x, (lambda x: x + 1,)]), [1, 2])", "P.Split([], bufsize=0)", "P.Split(1)",
                  "list(P.Split([" + _OBJ + "])())"],
        "LenaSplit": ["repr(P.LenaSplit([]))",
                      "type('S', (P.LenaSplit,), {'_set_context': lambda s, c: [][0]})([])"],
        "FillSeq": ["P.FillSeq(1)", "P.FillSeq(lambda x: x, " + _FC2 + ").fill(1)"],
        "FillComputeSeq": ["P.FillComputeSeq(lambda x: x)", "fc(P.FillComputeSeq(lambda x: x + 1, " + _FC2 + "), [1])"],
        "FillRequestSeq": ["P.FillRequestSeq(lambda x: x)",
                           "P.FillRequestSeq(P.FillRequest(" + _FC2 + ", reset=False, buffer_input=True)).run(iter([1]))"],
        "LenaSequence": ["repr(P.LenaSequence(lambda x: x))", "len(P.LenaSequence(abs, abs))"],
        "LenaKeyError": ["issubclass(P.LenaKeyError, (P.LenaException, KeyError))"],
        "LenaStopFill": ["[issubclass(getattr(P, n), P.LenaException) for n in sorted(P.__all__) if n.startswith('Lena') and n.endswith(('Error', 'Fill'))]"],
        "alter_sequence": ["P.alter_sequence(P.Sequence(abs))"],
        "flatten": ["P.flatten(P.Sequence(abs, P.Sequence(abs)))"],
        "is_source": ["P.is_source(P.Sequence())", "P.is_source(P.Source(" + _SRC + "))"],
        "is_fill_compute_seq": ["P.is_fill_compute_seq(P.Sequence())", "P.is_fill_compute_seq((abs, " + _FC2 + "))"],
        "is_fill_request_seq": ["P.is_fill_request_seq(P.Sequence())"],
        "is_fill_compute_el": ["P.is_fill_compute_el(" + _FC2 + ")"],
        "is_fill_request_el": ["P.is_fill_request_el(1)"],
        "is_run_el": ["P.is_run_el(P.Sequence())"],
    },
    "lena.flow": {
        "Selector": ["P.Selector(int)(1)", "P.Selector([int, str])('s')", "P.Selector(1)",
                     "P.Selector(lambda x: x.a)(1)", "P.Selector(lambda x: x.a, raise_on_error=False)(1)"],
        "And": ["P.And([int, lambda x: x > 0])(1)", "P.And(1)"],
        "Or": ["P.Or([int, str])('s')"],
        "Not": ["P.Not(int)('s')"],
        "SelectContext": ["P.SelectContext('a.b', lambda v: v == 1)((0, {'a': {'b': 1}}))",
                          "P.SelectContext('a.b', lambda v: True)((0, {}))",
                          "P.SelectContext('a.b', lambda v: v.x)((0, {'a': {'b': 1}}))",
                          "P.SelectContext('a.b', lambda v: v.x, raise_on_error=True)((0, {'a': {'b': 1}}))"],
        "Cache": ["run(P.Cache('c.pkl'), [1, 2])", "P.Cache('c.pkl', method='json')"],
        "Chain": ["list(P.Chain([1], [2])())"],
        "Count": ["fc(P.Count(), [1, 2])", "run(P.Count(), [1, (2, {})])"],
        "CountFrom": ["list(itertools.islice(P.CountFrom(3)(), 2))"],
        "DropContext": ["run(P.DropContext(lambda x: x + 1), [(1, {'a': 1})])"],
        "End": ["run(P.End(), [1])"],
        "Filter": ["run(P.Filter(lambda x: x > 1), [1, 2])", "P.Filter(1)"],
        "GroupBy": ["fc(P.GroupBy('{{a}}'), [(1, {'a': 'x'}), (2, {'a': 'y'})])", "P.GroupBy(1)",
                    "P.GroupBy('{{a}}').fill((1, {}))"],
        "GroupPlots": ["run(P.GroupPlots('{{a}}', select=int), [(1, {'a': 'x'}), (2, {'a': 'x'}), 's'])"],
        "GroupScale": ["P.GroupScale(1)", "P.GroupScale(lambda x: x)([1])"],
        "ISlice": ["run(P.ISlice(1), [1, 2])"],
        "MapGroup": ["run(P.MapGroup(lambda x: x + 1), [1, (2, {})])",
                     "run(P.MapGroup(lambda x: x + 1, map_scalars=False), [1, ([2, 3], {'group': [{}, {}]})])"],
        "Print": ["P.Print()(1)"],
        "Progress": ["P.Progress()"],
        "Reverse": ["run(P.Reverse(), [1, 2])"],
        "RunIf": ["run(P.RunIf(int, lambda x: x + 1), [1, 's'])"],
        "RunningChunkBy": ["run(P.RunningChunkBy(2), range(4))", "P.RunningChunkBy(2, container=1)"],
        "Slice": ["run(P.Slice(1, 3), range(5))", "run(P.Slice(-2, None), range(5))"],
        "StoreFilled": ["fc(P.StoreFilled(), [1, 2])"],
        "Zip": ["list(P.Zip([M('lena.core').Source(" + _SRC + "), M('lena.core').Source(" + _SRC + ")])())"],
        "get_context": ["P.get_context((1, {'a': 1}))", "P.get_context(1)"],
        "get_data": ["P.get_data((1, {'a': 1}))"],
        "get_data_context": ["P.get_data_context((1, {'a': 1}))", "P.get_data_context(1)"],
        "group_plots": ["P.group_plots([(1, {'a': 1}), (2, {'a': 1, 'b': 2})])"],
        "scale_to": ["P.scale_to(1, [])"],
        "seq_map": ["P.seq_map(M('lena.core').Sequence(lambda x: x + 1), [1, 2])"],
    },
    "lena.input": {
        "ReadROOTFile": ["P.ReadROOTFile(keys=['a'])", "P.ReadROOTFile(keys=[1])", "run(P.ReadROOTFile(), ['f.root'])",
                         "(fake_root(), run(P.ReadROOTFile(), [1]))[1]"],
        "ReadROOTTree": ["P.ReadROOTTree(leaves=['x'])", "P.ReadROOTTree()", "run(P.ReadROOTTree(leaves=['x']), [1])",
                         "(fake_root(), run(P.ReadROOTTree(leaves=['x']), [1, (2, {})]))[1]"],
    },
    "lena.math": {
        "Mean": ["fc(P.Mean(), [1, 2, 3])", "fc(P.Mean(), [])", "fc(P.Mean(P.Sum()), [1, (2, {'a': 1})])",
                 "fc(P.Mean(" + _FC2 + "), [1, 2])", "P.Mean(1)"],
        "Sum": ["fc(P.Sum(), [1, (2, {'a': 1})])"],
        "DSum": ["fc(P.DSum(), [0.1, 0.2])"],
        "VarianceMeanCount": ["fc(P.VarianceMeanCount(), [1, 2, 3])", "fc(P.VarianceMeanCount(), [])"],
        "Vectorize": ["fc(P.Vectorize(P.Sum(), dim=2), [(1, 2), (3, 4)])", "P.Vectorize(1)"],
        "clip": ["P.clip(5, (0, 1))", "P.clip(5, (1, 0))"],
        "flatten": ["P.flatten([[1, 2], [3]])"],
        "isclose": ["P.isclose(1, 1 + 1e-12)", "P.isclose(1, 2, rel_tol=-1)"],
        "md_map": ["P.md_map(lambda x: x + 1, [[1, 2], [3, 4]])"],
        "mesh": ["P.mesh((0, 1), 2)", "P.mesh(((0, 1), (0, 2)), (1, 2))"],
        "refine_mesh": ["P.refine_mesh([0, 1, 2], 2)"],
        "vector3": ["P.vector3(1, 2, 2) + P.vector3(1, 1, 1)", "P.vector3(1, 2, 2).getr()", "P.vector3(1, 2, 2) == 1",
                    "P.vector3(0, 0, 0).gettheta()"],
        "variance_mean_count": ["P.variance_mean_count(1, 2, 3)"],
    },
    "lena.meta": {
        "SetContext": ["P.SetContext('a.b', 1)",
                       "M('lena.core').Sequence(P.SetContext('a.b', 1), P.UpdateContextFromStatic()).run(iter([(1, {})]))"],
        "StoreContext": ["P.StoreContext()"],
        "UpdateContextFromStatic": ["run(P.UpdateContextFromStatic(), [1])"],
    },
    "lena.output": {
        "LaTeXToPDF": ["run(P.LaTeXToPDF(create_command=lambda f, d, o: ['true']), [1, (2, {})])", "P.LaTeXToPDF(verbose='x')"],
        "MakeFilename": ["P.MakeFilename('f_{{a}}')((1, {'a': 'x'}))", "P.MakeFilename('f_{{a}}')((1, {}))", "P.MakeFilename()"],
        "PDFToPNG": ["run(P.PDFToPNG(), [1, ('a.tex', {'output': {'filetype': 'tex'}})])"],
        "RenderLaTeX": ["run(P.RenderLaTeX('t.tex'), [1, (2, {})])", "P.RenderLaTeX(1)"],
        "ToCSV": ["run(P.ToCSV(), [1, (" + _H1 + ", {})])", "run(P.ToCSV(), [(" + _H1 + ", {'output': {'to_csv': False}})])"],
        "Write": ["run(P.Write('out', verbose=False), [1, ('text', {'output': {'filename': 'f'}})])", "P.Write(1)"],
        "Writer": ["P.Writer('out')"],
        "WriteROOTTree": ["P.WriteROOTTree('t', 'f.root')", "(fake_root(), P.WriteROOTTree('t', ('f.root', 'recreate')))[1]",
                          "(fake_root(), P.WriteROOTTree('t', 5))[1]"],
        "hist1d_to_csv": ["list(P.hist1d_to_csv(" + _H1 + "))"],
        "hist2d_to_csv": ["list(P.hist2d_to_csv(M('lena.structures').histogram([[0, 1], [0, 1]], [[5]])))"],
        "iterable_to_table": ["list(P.iterable_to_table([(1, 2), (3, 4)]))"],
    },
    "lena.structures": {
        "histogram": ["P.histogram([0, 1, 2], [3, 4])", "P.histogram([2, 1])", "P.histogram([0, 1, 2]).scale()",
                      "(lambda h: (h.fill(0.5), h.bins))(P.histogram([0, 1, 2]))"],
        "Histogram": ["fc(P.Histogram([0, 1, 2]), [0.5, (1.5, {'a': 1})])"],
        "graph": ["P.graph([[0, 1], [2, 3]])", "P.graph([[0, 1], [2]])", "P.graph([[0, 1], [2, 3]]).scale()"],
        "Graph": ["fc(P.Graph(), [(1, 2), ((3, 4), {'a': 1})])"],
        "HistToGraph": ["run(P.HistToGraph(), [(P.histogram([0, 1, 2], [3, 4]), {}), 1])", "P.HistToGraph(get_coordinate='x')"],
        "IterateBins": ["run(P.IterateBins(), [P.histogram([0, 1, 2], [3, 4]), 1])"],
        "MapBins": ["run(P.MapBins(lambda x: x + 1, select_bins=int), [P.histogram([0, 1, 2], [3, 4]), 1])"],
        "SplitIntoBins": ["fc(P.SplitIntoBins(M('lena.math').Sum(), M('lena.variables').Variable('x', lambda v: v), [0, 1, 2]), [0.5, 1.5])",
                          "P.SplitIntoBins(1, 2, 3)"],
        "NumpyHistogram": ["P.NumpyHistogram()"],
        "root_graph_errors": ["P.root_graph_errors(P.graph([[0, 1], [2, 3]]))"],
        "ROOTGraphErrors": ["P.ROOTGraphErrors()(1)"],
        "HistCell": ["P.HistCell((0, 1), 5, 0)"],
        "cell_to_string": ["P.cell_to_string([(0, 1)])"],
        "check_edges_increasing": ["P.check_edges_increasing([0, 1, 2])", "P.check_edges_increasing([1, 0])",
                                   "P.check_edges_increasing([1])"],
        "get_bin_edges": ["P.get_bin_edges(0, [0, 1, 2])"],
        "get_bin_on_index": ["P.get_bin_on_index(1, [3, 4])"],
        "get_bin_on_value": ["P.get_bin_on_value(0.5, [0, 1, 2])", "P.get_bin_on_value((0.5, 5), [[0, 1], [0, 1]])"],
        "get_bin_on_value_1d": ["P.get_bin_on_value_1d(1.5, [0, 1, 2])"],
        "get_example_bin": ["P.get_example_bin([[1, 2], [3, 4]])"],
        "hist_to_graph": ["P.hist_to_graph(P.histogram([0, 1, 2], [3, 4]))",
                          "P.hist_to_graph(P.histogram([0, 1, 2], [3, 4]), get_coordinate='x')"],
        "init_bins": ["P.init_bins([0, 1, 2])"],
        "integral": ["P.integral([3, 4], [0, 1, 2])"],
        "iter_bins": ["list(P.iter_bins([[1, 2], [3, 4]]))"],
        "iter_bins_with_edges": ["list(P.iter_bins_with_edges([3, 4], [0, 1, 2]))"],
        "iter_cells": ["list(P.iter_cells(P.histogram([0, 1, 2], [3, 4])))"],
        "make_hist_context": ["P.make_hist_context(P.histogram([0, 1, 2], [3, 4]), {})"],
        "unify_1_md": ["P.unify_1_md([3, 4], [0, 1, 2])"],
    },
    "lena.variables": {
        "Variable": ["P.Variable('x', lambda v: v[0])((1, 2))", "P.Variable('x', 1)", "P.Variable('x', lambda v: v)((1, {'a': 2}))"],
        "Compose": ["P.Compose(P.Variable('a', lambda v: v[0]), P.Variable('b', lambda v: v + 1))((1, 2))", "P.Compose()"],
        "Combine": ["P.Combine(P.Variable('a', lambda v: v), P.Variable('b', lambda v: v + 1))(1)", "P.Combine(1)"],
        "abs": ["P.abs(P.Variable('a', lambda v: v))(-1)", "P.abs(1)"],
        "Cm": ["P.Cm(P.Variable('a', lambda v: v, unit='mm'))(10)", "P.Cm(P.Variable('a', lambda v: v))"],
    },
}


# error paths: invalid arguments and missing keys must be reported with LenaException subclasses (or the
# caller's own exception), never with a NameError (incl. UnboundLocalError) or an AttributeError on a lena module
_BADPRED = "lambda v: v.no_such_attribute"
SMOKE_ERRORS = {
    "lena.context": {
        "Context": ["P.Context(5)", "P.Context({'a': 1}).b", "P.Context({'a': {'b': 1}}).a.c", "P.Context({'a': 1}, formatter=5)",
                    "repr(P.Context({1: object()}))"],
        "UpdateContext": ["P.UpdateContext(5, 1)", "P.UpdateContext('', 1)", "P.UpdateContext('a', '{{x', value=True)",
                          "P.UpdateContext('a', '{{x}}', value=True, skip_on_missing=True)((5, {}))",
                          "P.UpdateContext('a', '{{x}}', value=True, skip_on_missing=True, raise_on_missing=True)",
                          "P.UpdateContext('a', '{{x}}', value=True, default=1, raise_on_missing=True)",
                          "P.UpdateContext('a', '{{x.y}}', value=True)((5, {'x': 3}))",
                          "P.UpdateContext('a.b', {'k': 1}, recursively=False)((5, {'a': {'b': {'z': 0}}}))",
                          "P.UpdateContext('a', 'x.y', raise_on_missing=True)((5, {'x': {}}))",
                          "P.UpdateContext('a', 'x.y', skip_on_missing=True)((5, {'x': {}}))",
                          "P.UpdateContext('a', 'x.y', default=7)((5, {'x': {}}))",
                          "P.UpdateContext('a', 'x.y')((5, {'x': {}}))", "repr(P.UpdateContext('a', 'x.y', default=7))"],
        "DeleteContext": ["P.DeleteContext(5)", "P.DeleteContext('')", "P.DeleteContext('a.b')((1, {'a': 2}))",
                          "repr(P.DeleteContext('a.b'))"],
        "contains": ["P.contains({'a': 1}, 'a.b')", "P.contains(5, 'a')", "P.contains({'a': {'b': 1}}, 'a.b.1')"],
        "difference": ["P.difference({'a': 1}, 5)", "P.difference(5, {'a': 1})", "P.difference({'a': {'b': 1}}, {'a': {'b': 2}}, level=0)"],
        "format_context": ["P.format_context(5)", "P.format_context('{{a')", "P.format_context('{{a.b}}')({'a': 1})",
                           "P.format_context('{a}')({'a': 1})", "P.format_context('{{a}}', 5)"],
        "format_update_with": ["P.format_update_with('k', '{{a}}', {})", "P.format_update_with('k', 5, {'a': 1})"],
        "get_recursively": ["P.get_recursively(5, 'a')", "P.get_recursively({'a': 1}, 'a.b')", "P.get_recursively({'a': 1}, {'a': {'b': 'c', 'd': 'e'}})",
                            "P.get_recursively({'a': 1}, ['a', 'b'], default=0)", "P.get_recursively({'a': 1}, '')"],
        "intersection": ["P.intersection()", "P.intersection({'a': 1}, {'a': 2}, level=0)", "P.intersection({'a': 1}, foo=1)"],
        "str_to_dict": ["P.str_to_dict(5)", "P.str_to_dict('a..b', 1)", "P.str_to_dict({'a': 1}, 5)"],
        "str_to_list": ["P.str_to_list(5)", "P.str_to_list('')"],
        "to_string": ["P.to_string(object())", "P.to_string({1: {2, 3}})"],
        "update_nested": ["P.update_nested('k', 5, {})", "P.update_nested('k', {'k': 1}, {'k': 2})", "P.update_nested(5, {}, {})"],
        "update_recursively": ["P.update_recursively(5, {})", "P.update_recursively({}, 5)", "P.update_recursively({'a': 1}, 'a.b', 2)",
                               "P.update_recursively({}, '', 2)"],
        "make_include_exclude_tree": ["P.make_include_exclude_tree(5)", "P.make_include_exclude_tree(['a'], ['a'])",
                                      "P.make_include_exclude_tree(['a.b'], [''])", "P.make_include_exclude_tree([''], ['a', 'a.b']).get(5)"],
        "IncludeExcludeTree": ["P.IncludeExcludeTree(5, 5, 5)", "P.IncludeExcludeTree(['a'], {}, True).get({'a': 1, 'b': 2})"],
    },
    "lena.core": {
        "Call": ["P.Call(" + _OBJ + ", call='nope')", "P.Call(" + _OBJ + ", call=5)", "repr(P.Call(abs))"],
        "FillCompute": ["P.FillCompute(" + _FC2 + ", fill='nope')", "P.FillCompute(" + _FC2 + ", compute=5)"],
        "FillInto": ["P.FillInto(" + _OBJ + ", fill_into='nope')", "P.FillInto(abs).fill_into(5, 1)",
                     "P.FillInto(abs, explicit=False)"],
        "FillRequest": ["P.FillRequest(" + _FC2 + ", bufsize=0, buffer_input=True)", "P.FillRequest(" + _FC2 + ", buffer_input=True, buffer_output=True)",
                        "P.FillRequest(" + _FC2 + ", reset=True, buffer_input=True)", "P.FillRequest(" + _FC2 + ", buffer_output=True, reset=False).request()",
                        "P.FillRequest(" + _FC2 + ", buffer_input=True, yield_on_remainder=5, reset=False, fill='f')"],
        "Run": ["P.Run(" + _OBJ + ", run='nope')", "repr(P.Run(abs))", "list(P.Run(" + _FC2 + ").run(iter([1])))"],
        "SourceEl": ["P.SourceEl(" + _OBJ + ", call='nope')"],
        "Sequence": ["P.Sequence(abs, 5)", "P.Sequence(P.Source(" + _SRC + "))", "P.Sequence(abs)[5]", "P.Sequence(abs) == 5"],
        "Source": ["P.Source(5)", "P.Source(" + _SRC + ", 5)", "list(P.Source(" + _SRC + ", " + _FC2 + ")())"],
        "Split": ["P.Split([5])", "P.Split([abs], bufsize='x')", "P.Split([abs], copy_buf=5)", "P.Split([" + _FC2 + "]).request()",
                  "P.Split([P.Source(" + _SRC + "), abs])()", "repr(P.Split([abs, (abs, abs)]))", "P.Split([abs])[3]"],
        "FillSeq": ["P.FillSeq()", "P.FillSeq(5, " + _FC2 + ")"],
        "FillComputeSeq": ["P.FillComputeSeq()", "P.FillComputeSeq(" + _FC2 + ", " + _FC2 + ", 5)", "P.FillComputeSeq(5, " + _FC2 + ")"],
        "FillRequestSeq": ["P.FillRequestSeq()", "P.FillRequestSeq(" + _FC2 + ", bufsize=0, buffer_input=True)",
                           "P.FillRequestSeq(" + _FC2 + ", reset=False, buffer_input=True, nope=1)"],
        "LenaSequence": ["P.LenaSequence(abs)[1]", "P.LenaSequence(abs)['a']"],
        "alter_sequence": ["P.alter_sequence(5)", "P.alter_sequence((abs, 5))"],
        "flatten": ["P.flatten(5)", "P.flatten([abs, (abs, [abs])])"],
        "is_source": ["P.is_source(5)", "P.is_source((" + _SRC + ",))"],
        "is_fill_compute_seq": ["P.is_fill_compute_seq(5)", "P.is_fill_compute_seq((5, 6))"],
        "is_fill_request_seq": ["P.is_fill_request_seq(5)", "P.is_fill_request_seq((abs, P.FillRequest(" + _FC2 + ", reset=False, buffer_input=True)))"],
    },
    "lena.flow": {
        "Selector": ["P.Selector(" + _BADPRED + ")((1, {}))", "P.Selector(" + _BADPRED + ", raise_on_error=False)((1, {}))",
                     "P.Selector([int, " + _BADPRED + "])('s')", "P.Selector((int, [str, 5]))", "P.Selector('a.b')((1, {'a': {'b': 2}}))",
                     "P.Selector('a.b')(1)", "P.Selector({'a': 1})", "repr(P.Selector([int, (str, 'a.b')], raise_on_error=False))",
                     "P.Selector(int) == P.Selector(int, raise_on_error=False)"],
        "And": ["P.And([" + _BADPRED + "])(1)", "P.And([" + _BADPRED + "], raise_on_error=False)(1)", "P.And([])(1)", "P.And([5])",
                "repr(P.And([int, str], raise_on_error=False))"],
        "Or": ["P.Or([" + _BADPRED + "])(1)", "P.Or([" + _BADPRED + "], raise_on_error=False)(1)", "P.Or([])(1)", "P.Or(5)",
               "repr(P.Or([int, str], raise_on_error=False))"],
        "Not": ["P.Not(" + _BADPRED + ")(1)", "P.Not(" + _BADPRED + ", raise_on_error=False)(1)", "P.Not(5)",
                "repr(P.Not(int, raise_on_error=False))"],
        "SelectContext": ["P.SelectContext('a.b', " + _BADPRED + ", raise_on_error=False)((0, {'a': {'b': 1}}))",
                          "P.SelectContext('a.b', " + _BADPRED + ", raise_on_error=False)((0, {'a': 1}))",
                          "P.SelectContext(5, abs)", "P.SelectContext('a', 5)", "P.SelectContext('a.b', abs)(0)",
                          "repr(P.SelectContext('a.b', abs, raise_on_error=False))",
                          "P.SelectContext({'a': 'b'}, lambda v: v > 0)((0, {'a': {'b': 's'}}))"],
        "Cache": ["P.Cache(5)", "P.Cache('c.pkl', method='nope')", "P.Cache('c.pkl', protocol='x')", "P.Cache('{{a}}.pkl')._set_context({})",
                  "run(P.Cache('no_dir/c.pkl'), [1])", "P.Cache.cache_exists(5)", "repr(P.Cache('{{a}}.pkl', recompute=True))"],
        "Count": ["P.Count(5)", "P.Count('c', 'x')", "fc(P.Count('c'), [(1, {'c': 2})])", "P.Count().fill_into(5, 1)"],
        "CountFrom": ["P.CountFrom('a')", "P.CountFrom(0, 0)", "repr(P.CountFrom(1, 2))"],
        "Chain": ["P.Chain(5)", "list(P.Chain(5)())", "repr(P.Chain([1], [2]))"],
        "DropContext": ["P.DropContext()", "P.DropContext(5)", "run(P.DropContext(abs), [('s', {})])"],
        "Filter": ["P.Filter(" + _BADPRED + ").fill_into(" + _FC2 + ", 1)", "run(P.Filter(" + _BADPRED + "), [1])", "repr(P.Filter(int))"],
        "GroupBy": ["P.GroupBy('{{a')", "P.GroupBy('{{a}}', merge=5)", "fc(P.GroupBy(('{{a}}', '{{b}}')), [(1, {'a': 1})])",
                    "fc(P.GroupBy('a', merge='b'), [(1, {'a': {'x': 1}, 'b': 2}), (2, {'a': {'x': 1}, 'b': 3})])",
                    "fc(P.GroupBy(lambda v: v.nope), [1])", "repr(P.GroupBy('{{a}}'))"],
        "GroupPlots": ["P.GroupPlots(5)", "P.GroupPlots('{{a}}', select=5)", "P.GroupPlots('{{a}}', transform=5)",
                       "P.GroupPlots('{{a}}', scale='x')", "run(P.GroupPlots('{{a}}'), [(1, {})])",
                       "run(P.GroupPlots(lambda v: v.nope), [1])", "run(P.GroupPlots('{{a}}', scale=1), [(1, {'a': 1})])"],
        "GroupScale": ["P.GroupScale('x')([1])", "P.GroupScale(1)(5)", "P.GroupScale(1, allow_zero_scale=True, allow_unknown_scale=True)([1, 's'])",
                       "P.GroupScale(lambda v: v.nope)([1])"],
        "ISlice": ["P.ISlice('a')", "P.ISlice(1, 2, 0)"],
        "MapGroup": ["P.MapGroup(5)", "P.MapGroup(abs, nope=1)", "run(P.MapGroup(abs), [([1, 2], {'group': [{}]})])",
                     "run(P.MapGroup(lambda v: v), [([1, 2], {'group': [{'a': 1}, {'a': 1}]})])",
                     "run(P.MapGroup(M('lena.core').Run(lambda v: v, run=lambda fl: iter(()))), [([1], {'group': [{}]})])"],
        "Print": ["P.Print(transform=5)", "P.Print(transform=lambda v: v.nope)(1)"],
        "Progress": ["P.Progress(5)", "run(P.Progress(), [1, 2])"],
        "Reverse": ["run(P.Reverse(), 5)"],
        "RunIf": ["P.RunIf(5, abs)", "P.RunIf(int, 5)", "P.RunIf(int)", "run(P.RunIf(" + _BADPRED + ", abs), [1])"],
        "RunningChunkBy": ["P.RunningChunkBy(0)", "P.RunningChunkBy('a')", "run(P.RunningChunkBy(2, from_iterable=True), [1, 2])"],
        "Slice": ["P.Slice()", "P.Slice('a')", "P.Slice(1, 2, 0)", "P.Slice(-1).fill_into(" + _FC2 + ", 1)", "P.Slice(1, 2, 3, 4)"],
        "StoreFilled": ["P.StoreFilled(5)", "fc(P.StoreFilled(yield_as_a_group=False), [1, 2])"],
        "Zip": ["P.Zip(5)", "P.Zip([5])", "P.Zip([abs, " + _FC2 + "])", "P.Zip([abs], fields=['a', 'b'])", "P.Zip([abs], name=5)",
                "P.Zip([" + _FC2 + "], name='z', fields=['a']).fill(1)", "fc(P.Zip([" + _FC2 + ", " + _FC2 + "]), [1])"],
        "get_context": ["P.get_context((1, 2, 3))"],
        "group_plots": ["P.group_plots(5)", "P.group_plots([])"],
        "scale_to": ["P.scale_to('x', [1])", "P.scale_to(1, [1])", "P.scale_to(1, ['s'], allow_unknown_scale=True)"],
        "seq_map": ["P.seq_map(5, [1])", "P.seq_map(M('lena.core').Sequence(lambda v: v), 5)",
                    "P.seq_map(M('lena.core').Sequence(M('lena.core').Run(abs, run=lambda fl: iter(()))), [1])"],
    },
    "lena.input": {
        "ReadROOTFile": ["(fake_root(), P.ReadROOTFile(keys=5))[1]", "(fake_root(), P.ReadROOTFile(keys=[1]))[1]",
                         "(fake_root(), P.ReadROOTFile(keys=['a'], raise_on_missing=True))[1]"],
        "ReadROOTTree": ["(fake_root(), P.ReadROOTTree(leaves=5))[1]", "(fake_root(), P.ReadROOTTree(leaves=[1]))[1]",
                         "(fake_root(), P.ReadROOTTree(leaves=['x'], get_entries=abs))[1]", "(fake_root(), P.ReadROOTTree(get_entries=5))[1]",
                         "(fake_root(), P.ReadROOTTree())[1]"],
    },
    "lena.math": {
        "Mean": ["P.Mean(sum_seq=abs)", "fc(P.Mean(pass_on_empty=True), [])", "fc(P.Mean(), ['s'])", "(lambda m: (m.fill(1), m.reset(), fc(m, [])))(P.Mean(pass_on_empty=True))"],
        "Sum": ["P.Sum('x')", "fc(P.Sum(), ['s'])", "(lambda m: (m.fill(1), m.reset(), fc(m, [2])))(P.Sum())"],
        "DSum": ["fc(P.DSum(), ['s'])", "P.DSum('x')", "(lambda m: (m.fill(1), m.reset(), fc(m, [2])))(P.DSum())"],
        "VarianceMeanCount": ["P.VarianceMeanCount(sum_sq=5)", "P.VarianceMeanCount(sum_=abs)", "fc(P.VarianceMeanCount(corrected=True), [1])",
                              "fc(P.VarianceMeanCount(pass_on_empty=True), [])", "fc(P.VarianceMeanCount(), ['s'])"],
        "Vectorize": ["P.Vectorize(P.Sum())", "P.Vectorize(P.Sum(), dim='x')", "P.Vectorize(abs, dim=2)", "fc(P.Vectorize(P.Sum(), dim=2), [(1, 2, 3)])",
                      "fc(P.Vectorize(P.Sum(), dim=2, construct=5), [(1, 2)])", "fc(P.Vectorize([P.Sum(), P.Sum()]), [(1, 2)])",
                      "fc(P.Vectorize(P.Mean(), dim=2), [])", "(lambda v: (v.fill((1, 2)), v.reset(), fc(v, [(3, 4)])))(P.Vectorize(P.Sum(), dim=2))"],
        "clip": ["P.clip(5, 5)", "P.clip('a', (0, 1))", "P.clip(5, (0, 1, 2))"],
        "flatten": ["P.flatten(5)"],
        "isclose": ["P.isclose('a', 1)", "P.isclose(1, 1, abs_tol=-1)"],
        "md_map": ["P.md_map(abs, 5)", "P.md_map(5, [1])"],
        "mesh": ["P.mesh(5, 2)", "P.mesh((0, 1), 0)", "P.mesh(((0, 1), (0, 2)), 2)", "P.mesh((1, 0), 2)"],
        "refine_mesh": ["P.refine_mesh(5, 2)", "P.refine_mesh([0, 1], 0)"],
        "vector3": ["P.vector3(1, 2)", "P.vector3(1, 2, 2) / 0", "P.vector3(1, 2, 2)[5]",
                    "P.vector3(0, 0, 0).cosine(P.vector3(1, 0, 0))", "P.vector3.fromspherical(1, 2)", "P.vector3(1, 2, 2).rotate(1, 5)",
                    "P.vector3(1, 2, 2).proj(P.vector3(0, 0, 0))", "P.vector3(1, 2, 2) + 1", "P.vector3('a', 'b', 'c').getr()",
                    "P.vector3(0, 0, 0).getphi()", "P.vector3(1, 2, 2).norm()", "P.vector3(0, 0, 0).norm()"],
    },
    "lena.meta": {
        "SetContext": ["P.SetContext(5, 1)", "P.SetContext('a', '{{x}}')._get_context()", "P.SetContext('a', '{{x')",
                       "M('lena.core').Sequence(P.SetContext('a', '{{x}}'), abs)", "repr(P.SetContext('a', '{{x}}'))"],
        "StoreContext": ["P.StoreContext(5)", "repr(P.StoreContext())"],
        "UpdateContextFromStatic": ["run(P.UpdateContextFromStatic(), [(1, {})])",
                                    "run(M('lena.core').Sequence(P.SetContext('a', 1), M('lena.core').Split([(P.SetContext('b', 2), P.UpdateContextFromStatic())])), [(1, {})])"],
    },
    "lena.output": {
        "LaTeXToPDF": ["P.LaTeXToPDF(create_command=5)", "run(P.LaTeXToPDF(verbose=0, create_command=lambda *a: ['false']), [('a.tex', {'output': {'filetype': 'tex'}})])",
                       "run(P.LaTeXToPDF(verbose=0, create_command=lambda *a: 5), [('a.tex', {'output': {'filetype': 'tex'}})])"],
        "MakeFilename": ["P.MakeFilename(5)", "P.MakeFilename('{{a')", "P.MakeFilename('f', overwrite=5)((1, {'output': {'filename': 'g'}}))",
                         "P.MakeFilename(prefix='p_{{a}}', suffix='_s')((1, {'output': {'filename': 'g'}}))", "P.MakeFilename(dirname='{{a}}', fileext='{{b}}')((1, {'a': 1}))",
                         "P.MakeFilename('f')(1)", "P.MakeFilename('f{{a}}')._set_context({'a': 1})", "repr(P.MakeFilename('f', prefix='p'))"],
        "PDFToPNG": ["run(P.PDFToPNG(verbose=False), [(5, {'output': {'filetype': 'pdf'}})])", "P.PDFToPNG(format=5)"],
        "RenderLaTeX": ["P.RenderLaTeX(select_data=5)", "P.RenderLaTeX('t.tex', template_dir='x', environment=5)",
                        "run(P.RenderLaTeX(), [('f.csv', {'output': {'filetype': 'csv'}})])",
                        "run(P.RenderLaTeX('missing.tex'), [('f.csv', {'output': {'filetype': 'csv'}})])",
                        "run(P.RenderLaTeX(lambda v: v.nope), [('f.csv', {'output': {'filetype': 'csv'}})])"],
        "ToCSV": ["P.ToCSV(separator=5)", "run(P.ToCSV(header=5), [" + _H1 + "])",
                  "run(P.ToCSV(), [type('R', (), {'rows': lambda s: [(1, 2)]})()])", "run(P.ToCSV(), [type('R', (), {'rows': lambda s: 5})()])",
                  "run(P.ToCSV(), [(" + _H1 + ", {'output': {'duplicate_last_bin': False}})])"],
        "Write": ["P.Write('o', existing_unchanged=True, overwrite=True)", "run(P.Write('o', verbose=False), [('t', {'output': {'filename': ''}})])",
                  "run(P.Write('o', verbose=False), [('t', {'output': {'filename': '/abs'}})])", "run(P.Write('o{{a}}', verbose=False), ['t'])",
                  "P.Write('o{{a')", "run(P.Write('o', verbose=False), [(type('W', (), {'write': lambda s, p: 1 / 0})(), {})])",
                  "P.Write('o{{a}}')._set_context({'a': 1})"],
        "Writer": ["P.Writer()", "P.Writer(5)"],
        "WriteROOTTree": ["(fake_root(), P.WriteROOTTree(5, 'f.root'))[1]", "(fake_root(), P.WriteROOTTree('t', ()))[1]",
                          "(fake_root(), P.WriteROOTTree('t', ('f.root', 'nope')))[1]", "(fake_root(), P.WriteROOTTree('t', ''))[1]",
                          "(fake_root(), P.WriteROOTTree('', 'f.root'))[1]"],
        "hist1d_to_csv": ["list(P.hist1d_to_csv(5))", "list(P.hist1d_to_csv(" + _H1 + ", header=5))"],
        "hist2d_to_csv": ["list(P.hist2d_to_csv(" + _H1 + "))"],
        "iterable_to_table": ["list(P.iterable_to_table(5))", "list(P.iterable_to_table([(1, 2)], format_=5))",
                              "list(P.iterable_to_table([(1, 2)], format_=('{}',), header='h', footer='f'))",
                              "list(P.iterable_to_table([(1, 2)], header='{}', header_fields=()))"],
    },
    "lena.structures": {
        "histogram": ["P.histogram(5)", "P.histogram([0, 1], [1, 2])", "P.histogram([[0, 1], [1, 0]])", "P.histogram([0, 1, 2]) == 5",
                      "P.histogram([0, 1, 2], [3, 4]).scale(0)", "P.histogram([0, 1, 2]).scale(5)", "P.histogram([0, 1, 2], [3, 4]) + 5",
                      "P.histogram([0, 1, 2], [3, 4]) + P.histogram([0, 1, 3], [3, 4])", "P.histogram([0, 1, 2]).fill('s')",
                      "P.histogram([0, 1, 2]).fill((1, 2))", "P.histogram([0, 1, 2], [3, 4]).set_nevents(0)", "P.histogram([0, 1, 2], [3, 4], initial_value='x')"],
        "Histogram": ["P.Histogram(5)", "P.Histogram([0, 1], bins=[1, 2])", "P.Histogram([0, 1, 2], make_bins=5)", "fc(P.Histogram([0, 1, 2]), ['s'])",
                      "(lambda h: (h.fill(0.5), h.reset(), fc(h, [1.5])))(P.Histogram([0, 1, 2]))", "P.Histogram([0, 1, 2], make_bins=lambda: 5, bins=[1, 2])"],
        "graph": ["P.graph(5)", "P.graph([[0, 1], [2, 3]], field_names='x')", "P.graph([[0, 1], [2, 3]], field_names=('x', 'x'))",
                  "P.graph([[0, 1], [2, 3]], field_names=('x', 'y', 'z'))", "P.graph([[0, 1], [2, 3], [1, 1]], field_names=('x', 'y', 'error_z'))",
                  "P.graph([[0, 1], [2, 3], [1, 1]], field_names=('x', 'y', 'error_x_y_low'))", "P.graph([[0, 1], [0, 0]]).scale(5)",
                  "P.graph([[0, 1], [2, 3]], scale=2).scale(4)", "P.graph([[0, 1], [2, 3]]) + 5", "P.graph([[0, 1], [2, 3]]) + P.graph([[0, 2], [2, 3]])",
                  "P.graph([[0, 1], [2, 3]], field_names='x y') == 5", "P.graph([[0, 1], [2, 3]]).nope"],
        "Graph": ["P.Graph(5)", "fc(P.Graph(), [5])", "fc(P.Graph(scale=True), [(1, 2)])", "P.Graph(points=[(1, 2)], scale=2).scale(1)",
                  "P.Graph(points=[(1, 2)]).scale(1)", "P.Graph() == 5"],
        "HistToGraph": ["P.HistToGraph(make_value=5)", "P.HistToGraph(field_names=5)", "run(P.HistToGraph(field_names=('x',)), [P.histogram([0, 1, 2], [3, 4])])",
                        "run(P.HistToGraph(), [P.histogram([[0, 1], [0, 1]], [[5]])])", "run(P.HistToGraph(scale=True), [P.histogram([0, 1, 2], [3, 4])])",
                        "run(P.HistToGraph(M('lena.variables').Variable('v', lambda b: b.nope)), [P.histogram([0, 1, 2], [3, 4])])"],
        "IterateBins": ["P.IterateBins(create_edges_str=5)", "P.IterateBins(select_bins=5)",
                        "run(P.IterateBins(create_edges_str=lambda e, var_context: e.nope), [P.histogram([0, 1], [P.histogram([0, 1], [1])])])"],
        "MapBins": ["P.MapBins(5)", "P.MapBins(abs, select_bins=5)", "run(P.MapBins(lambda b: b.nope), [P.histogram([0, 1, 2], [3, 4])])",
                    "run(P.MapBins(abs, get_example_bin=lambda h: h.nope), [P.histogram([0, 1, 2], [3, 4])])"],
        "SplitIntoBins": ["P.SplitIntoBins(M('lena.math').Sum(), 5, [0, 1])", "P.SplitIntoBins(M('lena.math').Sum(), M('lena.variables').Variable('x', abs), [1, 0])",
                          "fc(P.SplitIntoBins(M('lena.math').Sum(), M('lena.variables').Variable('x', lambda v: v.nope), [0, 1, 2]), [0.5])",
                          "fc(P.SplitIntoBins(M('lena.math').Mean(), M('lena.variables').Variable('x', lambda v: v), [0, 1, 2]), [0.5])",
                          "fc(P.SplitIntoBins(M('lena.math').Sum(), M('lena.variables').Variable('x', lambda v: v), [0, 1, 2]), [5, 's'])"],
        "NumpyHistogram": ["P.NumpyHistogram(5)"],
        "cell_to_string": ["P.cell_to_string(5)", "P.cell_to_string([(0, 1)], var_context={'name': 'x'}, coord_names=['a', 'b'])",
                           "P.cell_to_string([(0, 1), (1, 2)], var_context={'combine': [{'name': 'x'}]})", "P.cell_to_string([(0, 1)], coord_fmt='{')"],
        "check_edges_increasing": ["P.check_edges_increasing(5)", "P.check_edges_increasing([[0, 1], [1]])", "P.check_edges_increasing([])"],
        "get_bin_edges": ["P.get_bin_edges(5, [0, 1])", "P.get_bin_edges((0, 5), [[0, 1], [0, 1]])", "P.get_bin_edges('a', [0, 1])"],
        "get_bin_on_index": ["P.get_bin_on_index(5, [1])", "P.get_bin_on_index((0, 0, 0), [[1]])", "P.get_bin_on_index('a', [1])"],
        "get_bin_on_value": ["P.get_bin_on_value('a', [0, 1])", "P.get_bin_on_value((1,), [[0, 1], [0, 1]])", "P.get_bin_on_value(5, 5)"],
        "get_bin_on_value_1d": ["P.get_bin_on_value_1d('a', [0, 1])", "P.get_bin_on_value_1d(5, [])", "P.get_bin_on_value_1d(float('nan'), [0, 1])"],
        "get_example_bin": ["P.get_example_bin(5)", "P.get_example_bin([])"],
        "hist_to_graph": ["P.hist_to_graph(5)", "P.hist_to_graph(P.histogram([0, 1, 2], [3, 4]), make_value=lambda b: (b, 1), field_names=('x', 'y'))",
                          "P.hist_to_graph(P.histogram([0, 1, 2], [3, 4]), field_names='x')", "P.hist_to_graph(P.histogram([0, 1, 2], [3, 4]), scale='x')",
                          "P.hist_to_graph(P.histogram([[0, 1], [0, 1]], [[5]]), field_names=('x', 'y'))"],
        "init_bins": ["P.init_bins(5)", "P.init_bins([[0, 1], [0, 1, 2]], value=[], deepcopy=True)"],
        "integral": ["P.integral(5, 5)", "P.integral([3, 4], [[0, 1, 2]])", "P.integral([[1]], [[0, 1], [0, 2]])"],
        "iter_bins": ["list(P.iter_bins(5))"],
        "iter_bins_with_edges": ["list(P.iter_bins_with_edges(5, 5))", "list(P.iter_bins_with_edges([1, 2], [0, 1]))"],
        "iter_cells": ["list(P.iter_cells(5))", "list(P.iter_cells(P.histogram([0, 1, 2], [3, 4]), ranges=[(0, 1)], coord_ranges=[(0, 1)]))",
                       "list(P.iter_cells(P.histogram([0, 1, 2], [3, 4]), ranges=[(0, 1)]))", "list(P.iter_cells(P.histogram([0, 1, 2], [3, 4]), coord_ranges=[(0.5, 5)]))",
                       "list(P.iter_cells(P.histogram([0, 1, 2], [3, 4]), ranges=[(0, 1), (0, 1)]))"],
        "make_hist_context": ["P.make_hist_context(5, {})"],
        "unify_1_md": ["P.unify_1_md(5, 5)", "P.unify_1_md([[1]], [[0, 1], [0, 1]])"],
        "root_graph_errors": ["(fake_root(), P.root_graph_errors(5))[1]"],
        "ROOTGraphErrors": ["(fake_root(), P.ROOTGraphErrors()(5))[1]"],
    },
    "lena.variables": {
        "Variable": ["P.Variable(5, abs)", "P.Variable('x', abs, type=5)", "P.Variable('x', abs).nope", "P.Variable('x', lambda v: v.nope)(1)",
                     "P.Variable('x', abs, unit='m').unit", "repr(P.Variable('x', abs, latex_name='X'))", "P.Variable('x', abs)['y']",
                     "P.Variable('x', abs).get('y')", "P.Variable('x', abs).get('y', 1)"],
        "Compose": ["P.Compose(5)", "P.Compose(P.Variable('a', abs), 5)", "P.Compose(P.Variable('a', abs), name=5)",
                    "P.Compose(P.Variable('a', lambda v: v.nope), P.Variable('b', abs))(1)", "P.Compose(P.Variable('a', abs), P.Variable('b', abs), latex_name='L')((-1, {'variable': {'name': 'z'}}))",
                    "repr(P.Compose(P.Variable('a', abs), P.Variable('b', abs)))"],
        "Combine": ["P.Combine()", "P.Combine(P.Variable('a', abs), name=5)", "P.Combine(P.Variable('a', abs), P.Variable('b', abs), nope=1)(1)",
                    "P.Combine(P.Variable('a', abs), P.Variable('b', abs))[5]", "P.Combine(P.Variable('a', abs), P.Variable('b', abs))[0]",
                    "P.Combine(P.Variable('a', abs), P.Variable('b', abs)).dim", "P.Combine(P.Variable('a', lambda v: v.nope))(1)",
                    "repr(P.Combine(P.Variable('a', abs)))"],
        "abs": ["P.abs(P.Variable('a', lambda v: v, getter=5))", "P.abs(P.Variable('a', lambda v: v), name=5)(-1)",
                "P.abs(P.Combine(P.Variable('a', lambda v: v)))(-1)"],
        "Cm": ["P.Cm(5)", "P.Cm(P.Variable('a', lambda v: v, unit='cm'))(10)", "P.Cm(P.Variable('a', lambda v: v, unit='m'))"],
    },
}


# error sites found unreached by the raise-statement coverage audit (build/reports/C20_audit.md)
_FC_NORESET = "type('S3', (), {'fill': lambda s, v: None, 'compute': lambda s: iter([3])})()"
_UNEVEN = ("type('V', (), {'run': lambda s, fl: iter([v for v in fl for _ in range(M('lena.flow').get_data(v))])})()")
_NOTHING = "type('D', (), {'run': lambda s, fl: iter(())})()"
SMOKE_AUDIT = {
    "lena.context": {
        "Context": ["P.Context({'a': 1})._hidden", "setattr(P.Context({'a': 1}), '_x', 1)", "setattr(P.Context({'a': 1}), 'b', 2)"],
        "get_recursively": ["P.get_recursively({'a': 1}, ['a', 5])", "P.get_recursively({'a': {'b': 1}}, {'a': 'b'})"],
        "update_recursively": ["P.update_recursively({}, {'a': 1}, 5)", "(lambda o: (o.__setitem__('a', o), P.update_recursively({'a': {}}, o)))({})"],
        "str_to_dict": ["P.str_to_dict('a', 1)", "P.str_to_dict('a.b')", "P.str_to_dict('a')"],
        "make_include_exclude_tree": ["P.make_include_exclude_tree(['a..b'], [''])", "P.make_include_exclude_tree(['.a'], [''])"],
        "UpdateContext": ["P.UpdateContext('a', '{{ x', value=True)", "P.UpdateContext('a', '{% if %}', value=True)",
                          "P.UpdateContext('a', '{{x.y.z}}', value=True, raise_on_missing=True)((5, {}))",
                          "P.UpdateContext('a', '{{x.y.z}}', value=True, skip_on_missing=True)((5, {}))",
                          "P.UpdateContext('a', '{{x.y.z}}', value=True, default=2)((5, {}))"],
    },
    "lena.core": {
        "FillCompute": ["P.FillCompute(type('F', (), {'fill': lambda s, v: None})())", "P.FillCompute.fill(None, 1)",
                        "P.FillCompute.compute(None)",
                        "fc(P.FillCompute(type('F', (), {'fill': lambda s, v: None, 'request': lambda s: iter([7])})()), [1])"],
        "FillRequest": ["P.FillRequest(" + _FC2 + ", bufsize=1.5, buffer_input=True, reset=False)",
                        "P.FillRequest(" + _FC_NORESET + ", buffer_input=True, reset=True)",
                        "P.FillRequest(type('F', (), {'fill': lambda s, v: None})(), buffer_input=True, reset=False)",
                        "P.FillRequest.run(None, [])"],
        "FillSeq": ["P.FillSeq.fill(None, 1)"],
        "FillComputeSeq": ["P.FillComputeSeq.fill(None, 1)", "P.FillComputeSeq(5, " + _FC2 + ", 6)"],
        "FillRequestSeq": ["P.FillRequestSeq.fill(None, 1)"],
    },
    "lena.flow": {
        "Cache": ["P.Cache('no_such_file.pkl').drop_cache()", "(os.mkdir('d.pkl'), P.Cache('d.pkl').drop_cache())[1]",
                  "P.Cache('x.pkl', method='json')"],
        "seq_map": ["P.seq_map(M('lena.core').Sequence(" + _NOTHING + "), [1])",
                    "P.seq_map(M('lena.core').Sequence(" + _NOTHING + "), [1], one_result=False)"],
        "GroupBy": ["fc(P.GroupBy('a'), [(1, {'a': {'x': {1, 2}}})])", "fc(P.GroupBy('a'), [(1, {'a': {'x': object()}})])"],
        "MapGroup": ["run(P.MapGroup(" + _UNEVEN + "), [([1, 2], {'group': [{}, {}]})])",
                     "run(P.MapGroup(abs), [([1, 2], {'group': [{}]})])"],
        "scale_to": ["P.scale_to(int, [1, 2])", "P.scale_to(int, [])", "P.scale_to(str, [1, 2])"],
        "Slice": ["P.Slice(-1, None, 0)", "P.Slice(-1, None, 1.5)", "P.Slice(-1, None, -1)",
                  "(lambda sl, st: [sl.fill_into(st, i) for i in range(3)])(P.Slice(1), P.StoreFilled())",
                  "(lambda sl, st: [sl.fill_into(st, i) for i in range(4)])(P.Slice(0, 3, 2), P.StoreFilled())"],
        "Zip": ["P.Zip([])", "P.Zip([" + _FC2 + "], fields=['a', 'b'])", "P.Zip([" + _FC2 + "], fields='a b')"],
    },
    "lena.input": {
        "ReadROOTTree": ["(fake_root(), P.ReadROOTTree(leaves=['x*']))[1]", "(fake_root(), P.ReadROOTTree(leaves='x'))[1]"],
    },
    "lena.math": {
        "Mean": ["P.Mean(" + _FC_NORESET + ").reset()", "(lambda m: (m.fill(1), m.reset()))(P.Mean(" + _FC_NORESET + "))"],
        "Vectorize": ["P.Vectorize([P.Sum()], dim=2)", "P.Vectorize([], dim=-1)", "fc(P.Vectorize([P.Sum(), P.Sum()]), [])"],
        "vector3": ["P.vector3(1, 2, 3) < P.vector3(1, 2, 3)", "P.vector3(1, 2, 3) <= P.vector3(1, 2, 3)",
                    "P.vector3(1, 2, 3) > 1", "P.vector3(1, 2, 3) >= None", "sorted([P.vector3(1, 2, 3), P.vector3(0, 0, 0)])"],
    },
    "lena.meta": {
        "SetContext": ["M('lena.core').Sequence(P.SetContext('a', '{{x}}'))._get_context()",
                       "M('lena.core').Sequence(P.SetContext('a', '{{x}}'), P.UpdateContextFromStatic()).run(iter([(1, {})]))"],
    },
    "lena.output": {
        "hist1d_to_csv": ["list(P.hist1d_to_csv(M('lena.structures').histogram([0, 1, 2], [[1], [2]])))",
                          "list(P.hist1d_to_csv(M('lena.structures').histogram([0, 1, 2], [1, None]), duplicate_last_bin=False))",
                          "list(P.hist1d_to_csv(M('lena.structures').histogram(['a', 'b', 'c'], [1, 2])))"],
        "ToCSV": ["run(P.ToCSV(), [M('lena.structures').histogram([0, 1, 2], [[1], [2]])])"],
        "WriteROOTTree": ["(fake_root(), P.WriteROOTTree('t', 'f.root')._val_to_type_fields((1, {})))[1]",
                          "(fake_root(), P.WriteROOTTree('t', 'f.root')._val_to_type_fields(((1, 2), {'variable': {'combine': [{}]}})))[1]"],
    },
    "lena.structures": {
        "graph": ["P.graph([])", "P.graph(([0, 1], [2, 3]))", "P.graph([[0], [1]], field_names=['x', 'y'])",
                  "P.graph([[0], [1]], field_names=('error_x', 'x'))", "P.graph([[0], [1], [2]], field_names=('x', 'x_y', 'error_x_y'))",
                  "P.graph([[0], [1]], field_names=('x', 'error_y'))"],
        "Graph": ["P.Graph(context=5)", "P.Graph(points=[(1, 2)], scale=0).scale(1)", "fc(P.Graph(scale=2), [((1, 2), {'scale': 3})])",
                  "P.Graph(points=[((1, 2), 3), ((1,), 3)]).points", "P.Graph().scale()"],
        "hist_to_graph": ["P.hist_to_graph(P.histogram([0, 1, 2], [3, 4]), field_names=['x', 'y'])",
                          "P.hist_to_graph(P.histogram([0, 1, 2], [3, 4]), get_coordinate='centre')"],
        "iter_cells": ["list(P.iter_cells(P.histogram([0, 1, 2], [3, 4]), ranges=[(-1, 1)]))",
                       "list(P.iter_cells(P.histogram([0, 1, 2], [3, 4]), ranges=[(0, 9)]))",
                       "list(P.iter_cells(P.histogram([0, 1, 2], [3, 4]), ranges=[(None, None)]))"],
        "histogram": ["P.histogram([[0, 1, 2], [0, 1]], bins=[[1]])", "P.histogram([0, 1, 2], bins=[1])", "P.histogram([0, 1, 2]).add(5)",
                      "P.histogram([0, 1, 2]).add(P.histogram([0, 1, 3]))", "P.histogram([0, 1, 2]).set_nevents(5)",
                      "M('lena.flow').scale_to(1, [P.histogram([0, 1], [0])])",
                      "M('lena.flow').scale_to(1, [P.histogram([0, 1], [0])], allow_zero_scale=True)",
                      "M('lena.flow').scale_to(1, [P.graph([[0], [1]])], allow_unknown_scale=True)"],
        "root_graph_errors": ["(fake_root(), P.root_graph_errors(P.graph([[0], [1], [2]], field_names='x y z')))[1]",
                              "(fake_root(), P.root_graph_errors(P.graph([[0], [1], [1]], field_names=('x', 'y', 'error_y_low'))))[1]"],
    },
    "lena.variables": {
        "Variable": ["P.Variable('x', P.Variable('y', abs))", "P.Variable('x', abs)._private"],
        "Compose": ["P.Compose(P.Variable('a', abs), getter=abs)", "P.Compose(P.Variable('a', abs), 5)"],
        "Combine": ["P.Combine(P.Variable('a', abs), getter=abs)"],
        "Cm": ["P.Cm(P.Variable('a', abs, unit='km'))", "P.Cm(P.Variable('a', abs, unit='cm'))(3)", "P.Cm(P.Variable('a', abs, unit='m'))(3)"],
    },
}


# value kinds: elements that take histograms are run with 1-, 2- and 3-dimensional ones (code that chooses what
# to call by the dimension of the data - also by a computed name - is reached for every kind)
_ST = "M('lena.structures')"
_HD = {1: _ST + ".histogram([0, 1, 2], [3, 4])",
       2: _ST + ".histogram([[0, 1, 2], [0, 1]], [[1], [2]])",
       3: _ST + ".histogram([[0, 1], [0, 1], [0, 1]], [[[5]]])"}
SMOKE_DIMS = {
    "lena.output": {
        "ToCSV": ["run(P.ToCSV(), [(%s, {'name': 'h'})])" % _HD[d] for d in (2, 3)]
                 + ["run(P.ToCSV(), [(%s, {'output': {'duplicate_last_bin': False}})])" % _HD[d] for d in (2, 3)],
        "hist1d_to_csv": ["list(P.hist1d_to_csv(%s))" % _HD[d] for d in (2, 3)],
        "hist2d_to_csv": ["list(P.hist2d_to_csv(%s))" % _HD[d] for d in (2, 3)],
    },
    "lena.structures": {
        "HistToGraph": ["run(P.HistToGraph(), [%s])" % _HD[d].replace(_ST, "P") for d in (2, 3)],
        "IterateBins": ["run(P.IterateBins(), [%s])" % _HD[d].replace(_ST, "P") for d in (2, 3)],
        "MapBins": ["run(P.MapBins(lambda x: x + 1, select_bins=int), [%s])" % _HD[d].replace(_ST, "P") for d in (2, 3)],
        "hist_to_graph": ["P.hist_to_graph(%s)" % _HD[d].replace(_ST, "P") for d in (2, 3)],
        "iter_cells": ["list(P.iter_cells(%s))" % _HD[d].replace(_ST, "P") for d in (2, 3)],
        "make_hist_context": ["P.make_hist_context(%s, {})" % _HD[d].replace(_ST, "P") for d in (2, 3)],
        "histogram": ["(lambda h: (h.fill((0.5, 0.5, 0.5)), h.scale(), h.dim))(%s)" % _HD[3].replace(_ST, "P"),
                      "%s == %s" % (_HD[3].replace(_ST, "P"), _HD[2].replace(_ST, "P"))]
                     + ["M('lena.flow').scale_to(1, [%s])" % _HD[d].replace(_ST, "P") for d in (2, 3)]
                     + ["M('lena.flow').GroupScale(1)([%s, %s])" % (_HD[1].replace(_ST, "P"), _HD[3].replace(_ST, "P"))],
    },
}


def smoke_items(pkg, names):
    """[(key, code)] for the public names of a subpackage; names without an entry get the generic
    smoke: the attribute itself, and a call without arguments if it is callable."""
    tab = SMOKE.get(pkg, {})
    items = {}
    for n in names:
        lst = [(n + "#attr", "P.%s" % n)]
        codes = tab.get(n)
        if codes is None:
            lst.append((n + "#call0", "P.%s() if callable(P.%s) else P.%s" % (n, n, n)))
        else:
            lst.extend(("%s#%d" % (n, k), c) for k, c in enumerate(codes))
        lst.extend(("%s#e%d" % (n, k), c) for k, c in enumerate(SMOKE_ERRORS.get(pkg, {}).get(n, [])))
        lst.extend(("%s#a%d" % (n, k), c) for k, c in enumerate(SMOKE_AUDIT.get(pkg, {}).get(n, [])))
        lst.extend(("%s#d%d" % (n, k), c) for k, c in enumerate(SMOKE_DIMS.get(pkg, {}).get(n, [])))
        items[n] = lst
    return items


def public_names(data, pkg):
    """__all__ if the package assigns one, else the public names its body binds."""
    if pkg in data["all"]:
        seen, out = set(), []
        for n in data["all"][pkg]:
            if n not in seen:
                seen.add(n)
                out.append(n)
        return out
    out = []
    for st in data["body"][pkg]:
        if st["op"] in ("import", "from", "def") and st["bind"] and not st["bind"].startswith("_") \
                and st["bind"] not in out and st["bind"] != "lena":
            out.append(st["bind"])
    return out


def import_text(st):
    """Source text of an import statement record of the extractor (a function's own imports)."""
    if st["op"] == "import":
        return "import %s" % st["mod"]
    if st["op"] == "from":
        return "from %s import %s" % (st["mod"], st["name"])
    if st["op"] == "star":
        return "from %s import *" % st["mod"]
    return "pass"


def func_at(data, relpath, line):
    """Function id of the function of the tree that contains file:line (innermost by start line)."""
    best = None
    for f in data["funcs"]:
        if data["path"][f["mod"]] == relpath and f["line"] <= line <= f["end"]:
            if best is None or f["line"] > best["line"]:
                best = f
    return best["id"] if best else None


def mod_of_path(data, relpath):
    for m, p in data["path"].items():
        if p == relpath:
            return m
    return relpath
