"""Harness for spec/FillRequest.tla / RunSem.tla (C16) and spec/FillSeq.tla (C05).

Content elements: the wrapped element of FillRequest is abstracted in the spec to its *content*
(values filled since the last reset).  The harness elements below yield m results carrying a
snapshot of the content, so blocks, resets, lost and duplicated values are visible.

Every call into the code under test goes through `guarded`: a deterministic step watchdog
(sys.settrace counting line events of frames that execute lena code) with a wall-clock alarm as a
backstop, so a call that would never return is reported as `hang` after a bounded amount of work
and a bounded amount of memory.
"""
import signal
import sys

NONE = -1000


# ------------------------------------------------------------------ watchdog
class Hang(BaseException):
    """Raised inside the code under test when it exceeds its step budget."""


class _Alarm(BaseException):
    pass


class Guard(object):
    """Step watchdog for a whole scenario: tracing and the alarm are installed once, every
    `call(fn, limit)` inside gets its own budget of traced events inside lena code.

    call returns ("ok", value) | ("hang", None) | ("exc", exception).  After a hang the guard is
    spent (an exception raised by a trace function removes it): leave the `with` block."""

    def __init__(self, wall=30.0, root=None):
        import lena
        self.root = root or lena.__path__[0]
        self.wall = wall
        self.count = 0
        self.limit = 0

    def _local(self, frame, event, arg):
        self.count += 1
        if self.count > self.limit:
            raise Hang()
        return self._local

    def _tracer(self, frame, event, arg):
        if frame.f_code.co_filename.startswith(self.root):
            self.count += 1
            if self.count > self.limit:
                raise Hang()
            return self._local
        return None

    @staticmethod
    def _on_alarm(signum, frame):
        raise _Alarm()

    def __enter__(self):
        self.old = signal.signal(signal.SIGALRM, self._on_alarm)
        signal.setitimer(signal.ITIMER_REAL, self.wall)
        self.limit = 1 << 60
        sys.settrace(self._tracer)
        return self

    def __exit__(self, *exc):
        sys.settrace(None)
        signal.setitimer(signal.ITIMER_REAL, 0)
        signal.signal(signal.SIGALRM, self.old)
        return False

    def call(self, fn, limit=4000):
        self.count, self.limit = 0, limit
        try:
            return ("ok", fn())
        except (Hang, _Alarm):
            return ("hang", None)
        except Exception as exc:   # noqa
            return ("exc", exc)
        finally:
            self.limit = 1 << 60


def guarded(fn, limit=4000, wall=20.0, root=None):
    """One call under its own guard."""
    try:
        with Guard(wall, root) as g:
            return g.call(fn, limit)
    except _Alarm:
        return ("hang", None)


def timed(fn, wall=10.0):
    """Wall-clock watchdog only (generous): ("ok", value) | ("hang", None) | ("exc", exception)."""
    def on_alarm(signum, frame):
        raise _Alarm()
    old = signal.signal(signal.SIGALRM, on_alarm)
    signal.setitimer(signal.ITIMER_REAL, wall)
    try:
        return ("ok", fn())
    except _Alarm:
        return ("hang", None)
    except Exception as exc:   # noqa
        return ("exc", exc)
    finally:
        signal.setitimer(signal.ITIMER_REAL, 0)
        signal.signal(signal.SIGALRM, old)


# ------------------------------------------------------------------ content elements
class Content(object):
    def __init__(self, m=1, pv=False, aslist=False, take=0):
        self.m, self.pv, self.aslist, self.take = m, pv, aslist, take
        self.content = []
        self.fill_log = []       # every value ever filled, in order
        self.req_sizes = []      # number of fills between consecutive requests
        self._since = 0
        self.resets = 0

    def _fill(self, v):
        self.content.append(v)
        self.fill_log.append(v)
        self._since += 1

    def _gen(self):
        # results are evaluated lazily: each one carries the content at the moment it is yielded.
        # m = 9: the number of results depends on the data (last value modulo 3)
        self.req_sizes.append(self._since)
        self._since = 0
        count = self.m
        if count == 9:
            last = self.content[-1] if self.content else 0
            count = last % 3 if isinstance(last, int) and not isinstance(last, bool) else 1
        for i in range(1, count + 1):
            yield (i, tuple(self.content))

    def _results(self):
        if self.aslist:
            return list(self._gen())
        return self._gen()

    def _reset(self):
        self.content = []
        self.resets += 1

    def _run(self, flow):
        read = 0
        for v in flow:
            self._fill(v)
            if self.pv:
                yield (0, (v,))
            read += 1
            if read == self.take:       # take = 0: the whole flow is read
                break
        for r in self._gen():
            yield r


class EFC(Content):
    def fill(self, v):
        self._fill(v)

    def compute(self):
        return self._results()

    def reset(self):
        self._reset()


class EFR(Content):
    def fill(self, v):
        self._fill(v)

    def request(self):
        return self._results()

    def reset(self):
        self._reset()


class ERun(Content):
    def run(self, flow):
        return self._run(flow)

    def reset(self):
        self._reset()


class EBoth(EFR):
    def run(self, flow):
        return self._run(flow)


class ECustom(Content):
    """fill/request element whose methods have other names; the usual names are data attributes."""
    run = "2023A"
    fill = 5
    request = 0
    compute = 7
    reset = "x"

    def put(self, v):
        self._fill(v)

    def take_results(self):
        return self._results()

    def wipe(self):
        self._reset()


# values and results that look like "nothing"
NOTHINGS = [None, 0, "", {}, [], False, (0, {}), 0.0, (), StopIteration(), StopIteration, float("nan")]


def nothing(i):
    return NOTHINGS[i % len(NOTHINGS)]


class EFalsyResults(EFR):
    """fill/request element whose results are falsy objects (chosen by result number and content size)."""

    def _gen(self):
        size = len(self.content)
        self.req_sizes.append(self._since)
        self._since = 0
        for i in range(1, self.m + 1):
            yield nothing(i + size + 7)     # a block of one value gives None, then 0, "", ...


class ERet(Content):
    """Element whose request / compute hands out its results in a container of the given kind
    (cfg.ret of spec/FillRequest.tla).  It owns ONE results list for its whole life: every fill rewrites it in
    place, reset empties it in place; "own" hands out that very list, "iter" an iterator over it."""

    def __init__(self, m=1, ret="gen"):
        Content.__init__(self, m)
        self.ret = ret
        self.own = []
        self.handed = []         # every container handed out (the element keeps them and may change them)

    def _fill(self, v):
        Content._fill(self, v)
        self.own[:] = [(i, tuple(self.content)) for i in range(1, self.m + 1)]

    def _results(self):
        self.req_sizes.append(self._since)
        self._since = 0
        ret = self.ret
        if ret == "gen":
            return ((i, tuple(self.content)) for i in range(1, self.m + 1))
        if ret == "fresh":
            out = list(self.own)
            self.handed.append(out)
            return out
        if ret == "tuple":
            return tuple(self.own)
        if ret == "iter":
            return iter(self.own)
        if ret == "own":
            return self.own
        raise ValueError(ret)

    def _reset(self):
        del self.own[:]
        # a list handed out earlier still belongs to the element: it empties those as well
        for out in self.handed:
            del out[:]
        Content._reset(self)


class ERetFR(ERet):
    def fill(self, v):
        self._fill(v)

    def request(self):
        return self._results()

    def reset(self):
        self._reset()


class ERetFC(ERet):
    def fill(self, v):
        self._fill(v)

    def compute(self):
        return self._results()

    def reset(self):
        self._reset()


RET_KINDS = {"fr": ERetFR, "fc": ERetFC}
KINDS = {"fc": EFC, "fr": EFR, "run": ERun, "both": EBoth, "frc": ECustom}


def norm(v):
    """Real result of a content element -> spec record."""
    if isinstance(v, tuple) and len(v) == 2 and isinstance(v[1], tuple):
        return {"i": v[0], "p": list(v[1])}
    return {"other": repr(v)}


def cfg_key(cfg):
    return "%s:n=%d:%s%s%s:m=%d%s" % (cfg["kind"], cfg["n"], "bufin" if cfg["bufIn"] else "bufout",
                                      ":reset" if cfg["reset"] else "", ":yor" if cfg["yor"] else "",
                                      cfg["m"], (":pv" if cfg.get("pv") else "") +
                                      (":take=%d" % cfg["take"] if cfg.get("take") else ""))


def cfg_class(cfg):
    return "%s:%s%s%s" % (cfg["kind"], "bufin" if cfg["bufIn"] else "bufout",
                          ":reset" if cfg["reset"] else "", ":yor" if cfg["yor"] else "")


def build_fr(cfg, el=None, aslist=False, neither=False):
    """Real lena.core.FillRequest for a spec configuration; returns (adapter, element)."""
    import lena.core
    if el is None:
        el = KINDS[cfg["kind"]](cfg["m"], cfg.get("pv", False), aslist, cfg.get("take", 0))
    kw = dict(bufsize=cfg["n"], reset=cfg["reset"], yield_on_remainder=cfg["yor"])
    if isinstance(el, ECustom):
        kw.update(fill="put", request="take_results", reset_name="wipe")
    if not (neither and cfg["yor"] and not cfg["bufIn"]):
        kw["buffer_input" if cfg["bufIn"] else "buffer_output"] = True
    return lena.core.FillRequest(el, **kw), el


class Collector(object):
    """ctx.case bookkeeping inside a worker process; merged into the Ctx afterwards."""

    def __init__(self):
        self.evaluations = 0
        self.traces = 0
        self.distinct = set()

    def case(self, scenario, nontrivial=True, traces=1):
        import hashlib
        from . import core
        self.evaluations += 1
        self.traces += traces
        if nontrivial:
            self.distinct.add(hashlib.md5(core.canon(scenario).encode()).hexdigest())

    def counts(self):
        return (self.evaluations, self.traces, self.distinct)


def merge_counts(ctx, counts):
    ctx.evaluations += counts[0]
    ctx.traces += counts[1]
    ctx.distinct |= counts[2]


def census(ctx, module, cfg, must_cover):
    """Vacuity guard without TLC's (expensive) -coverage: a small configuration whose invariant Census prints the
    action that led to every state; every action of must_cover has to occur."""
    import collections
    import re
    from . import core
    res = ctx.mc(module, cfg)
    seen = collections.Counter(re.findall(r'<<"ACT", "(\w+)">>', res.out))
    for a in must_cover:
        if seen.get(a, 0) == 0:
            raise core.MachineryError("vacuous model: action %s of %s/%s never taken" % (a, module, cfg))
    for a, n in seen.items():
        ctx.actions[a] = ctx.actions.get(a, 0) + n
    return seen


def nprocs(thorough):
    import os
    n = os.environ.get("VERIF_PROCS")
    if n:
        return max(1, int(n))
    return max(1, min(8 if thorough else 4, (os.cpu_count() or 2) // 2))


def parallel_map(fn, items, nproc):
    """fn(list of items) -> result, over nproc forked workers (items dealt round-robin); list of results."""
    if nproc <= 1 or len(items) < 200:
        return [fn(items)]
    import multiprocessing
    mp = multiprocessing.get_context("fork")
    chunks = [items[i::nproc] for i in range(nproc)]
    pool = mp.Pool(nproc)
    try:
        return pool.map(fn, chunks)
    finally:
        pool.close()
        pool.join()


def sched_str(h):
    return "".join(o["op"] for o in h)


class Post(object):
    """Post-processing callable that marks each result once."""

    def __call__(self, r):
        return ("post", r)


def unpost(v):
    if isinstance(v, tuple) and len(v) == 2 and v[0] == "post":
        return norm(v[1])
    return {"unposted": repr(v)}


def ident(x):
    return x


# ====================================================================== C05
# ------------------------------------------------------------------ analysis chains
class CountFills(object):
    """User fill/compute element: yields the number of its fills."""

    def __init__(self):
        self.n = 0

    def fill(self, v):
        self.n += 1

    def compute(self):
        yield self.n


class RecAcc(object):
    """Recording proxy around an accumulator: a fill/compute element that logs what reaches it."""

    def __init__(self, acc):
        self._acc = acc
        self.reached = []

    def fill(self, v):
        import copy
        self.reached.append(copy.deepcopy(v))
        self._acc.fill(v)

    def compute(self):
        return self._acc.compute()


def sum_with_run_attribute():
    """A Sum whose class carries a data attribute named run (not callable)."""
    import lena.math

    class SumRun(lena.math.Sum):
        run = "2023A"
    return SumRun()


def build_acc(a):
    import lena.flow
    import lena.math
    from . import flowlib
    if a == "sum":
        return lena.math.Sum()
    if a == "sumrun":
        return sum_with_run_attribute()
    if a == "last":
        return flowlib.Last()
    if a == "store1":
        return lena.flow.StoreFilled(yield_as_a_group=False)
    if a == "cnt":
        return CountFills()
    if a in WRAPPED_ACCS:
        return build_wrapped_acc(a)
    raise ValueError(a)


def make_value(i, fk):
    """Flow value number i of a flow kind of FillSem.FlowOf: bare | pairs | ctx (odd values carry the key "odd")."""
    if fk == "bare":
        return i
    if fk == "pairs":
        return (i, {})
    return (i, {"odd": 1} if i % 2 == 1 else {})


def _has_key(k):
    def has_key(v):
        import lena.flow
        return k in lena.flow.get_context(v)
    return has_key


ALL_ATTRS = ("run", "fill", "compute", "request", "fill_into", "reset", "call")


class DupInc(object):
    """Run element yielding every value and then that value + 1."""

    def run(self, flow):
        from . import flowlib
        inc = flowlib._map_callable("inc")
        import copy
        for v in flow:
            # the two values must not share one context dictionary, and the second is made before the first is
            # handed on (elements further down, e.g. a Variable, change the context of what they get in place)
            w = inc(copy.deepcopy(v))
            yield v
            yield w


def _is_even(v):
    from . import flowlib
    return flowlib.data_of(v) % 2 == 0


def _is_lt2(v):
    from . import flowlib
    return flowlib.data_of(v) < 2


def _raising(v):
    """Selects data 1; raises for data >= 2."""
    from . import flowlib
    d = flowlib.data_of(v)
    if d >= 2:
        raise ValueError("predicate not defined for %r" % (d,))
    return d == 1


def composed_selector(s):
    import lena.flow
    Not, Selector = lena.flow.Not, lena.flow.Selector
    if s == "not_even":
        return Not(_is_even)
    if s == "and_even_lt2":
        return (_is_even, _is_lt2)
    if s == "or_even_lt2":
        return [_is_even, _is_lt2]
    if s == "not_or":
        return Not([_is_even, _is_lt2])
    if s == "and_not":
        return (Not(_is_even), _is_lt2)
    if s == "roe":
        return Selector(_raising, raise_on_error=False)
    if s == "not_roe":
        return Not(_raising, raise_on_error=False)
    raise ValueError(s)


def none_map(f):
    from . import flowlib
    if f == "none_odd":
        return lambda v: None if flowlib.data_of(v) % 2 == 1 else v
    if f == "none_all":
        return lambda v: None
    if f == "zero_odd":
        return lambda v: 0 if flowlib.data_of(v) % 2 == 1 else v
    raise ValueError(f)


NONE_D = -7


def project2(v):
    """flowlib.project with None as the value NoneVal of FillSem.tla."""
    from . import flowlib
    if v is None:
        return {"d": NONE_D, "c": [], "h": False}
    return flowlib.project(v)


# ---- values with the content of context.variable (FillSem.tla: vc)
NO_VC = {"name": "", "type": "", "compose": [], "kept": []}


def project_vc(context):
    """context.variable -> {name, type, compose, kept} of FillSem.tla (NoVC without the key)."""
    var = context.get("variable") if isinstance(context, dict) else None
    if var is None:
        return dict(NO_VC)
    if not isinstance(var, dict):
        return {"name": "?" + repr(var), "type": "", "compose": [], "kept": []}
    kept = sorted(({"t": str(k), "n": str(v.get("name", ""))} for k, v in var.items() if isinstance(v, dict)),
                  key=lambda x: (x["t"], x["n"]))
    comp = var.get("compose", [])
    return {"name": str(var.get("name", "")), "type": str(var.get("type", "")),
            "compose": [str(x) for x in comp] if isinstance(comp, (list, tuple)) else ["?" + repr(comp)], "kept": kept}


def project3(v):
    """project2 plus the content of context.variable."""
    from . import flowlib
    res = project2(v)
    res["vc"] = project_vc(v[1]) if flowlib.has_ctx(v) else dict(NO_VC)
    return res


def norm_spec_val3(v):
    vc = v.get("vc", NO_VC)
    return {"d": v["d"], "c": sorted(v["c"]), "h": v["h"],
            "vc": {"name": vc["name"], "type": vc["type"], "compose": list(vc["compose"]),
                   "kept": sorted(({"t": k["t"], "n": k["n"]} for k in vc["kept"]), key=lambda x: (x["t"], x["n"]))}}


# ---- variables (FillSem.tla TVar): getters by name
GETTERS = {"dbl": lambda d: d * 2, "inc": lambda d: d + 1, "add10": lambda d: d + 10, "id": lambda d: d}


def build_variable(descs):
    """TVar(<<x>>) -> Variable(x.n, getter, type=x.ty); TVar(<<x1, .., xk>>) -> Compose(x1, .., xk)."""
    import lena.variables
    vs = [lena.variables.Variable(x["n"], GETTERS[x["g"]], **({"type": x["ty"]} if x["ty"] else {})) for x in descs]
    return vs[0] if len(vs) == 1 else lena.variables.Compose(*vs)


# ---- elements with several conflicting interfaces, to be used through an explicit adapter
class Amb(object):
    """__call__ (or the method m) transforms a value; the other interfaces of the element mean something else:
    run yields nothing, fill_into fills the value unchanged, fill / compute / request count."""

    def __init__(self, f, via):
        from . import flowlib
        self._f, self._via, self.n = flowlib._map_callable(f), via, 0

    def __call__(self, v):
        return self._f(v) if self._via == "call" else v

    def m(self, v):
        return self._f(v) if self._via == "m" else v

    def run(self, flow):
        for _ in flow:
            pass
        return iter(())

    def fill_into(self, element, v):
        element.fill(v)

    def fill(self, v):
        self.n += 1

    def compute(self):
        yield self.n

    def request(self):
        yield self.n


def build_wmap(st):
    """WMap(f, "call") -> Call(Amb(f)); WMap(f, "m") -> Call(Amb(f), call="m")."""
    import lena.core
    if st["w"] == "call":
        return lena.core.Call(Amb(st["f"], "call"))
    return lena.core.Call(Amb(st["f"], st["w"]), call=st["w"])


class AmbAcc(object):
    """Counts its fills; it also has a run method (passes the values on), is callable, has fill_into and request."""

    def __init__(self):
        self.n = 0

    def fill(self, v):
        self.n += 1

    def compute(self):
        yield self.n

    def run(self, flow):
        for v in flow:
            yield v

    def __call__(self, v):
        return v

    def fill_into(self, element, v):
        element.fill(v)

    def request(self):
        yield -1

    def m(self, *args):
        return iter(())


class NamedAcc(AmbAcc):
    """Counts in put / take; fill and compute mean something else."""

    def put(self, v):
        self.n += 1

    def take(self):
        yield self.n

    def fill(self, v):
        self.n += 100

    def compute(self):
        yield -1


WRAPPED_ACCS = ("fc_sum", "fc_count", "fc_amb", "fc_named")


def build_wrapped_acc(a):
    import lena.core
    import lena.flow
    import lena.math
    if a == "fc_sum":
        return lena.core.FillCompute(lena.math.Sum())
    if a == "fc_count":
        return lena.core.FillCompute(lena.flow.Count())
    if a == "fc_amb":
        return lena.core.FillCompute(AmbAcc())
    if a == "fc_named":
        return lena.core.FillCompute(NamedAcc(), fill="put", compute="take")
    raise ValueError(a)


def build_stage2(st, fk, variant=0):
    """Real element for a stage of the extended vocabulary (context-dependent selectors), else flowlib's.

    variant chooses between equivalent spellings (Slice(stop), Slice(start, stop), Slice(start, stop, step))."""
    import lena.flow
    from . import flowlib
    if st["t"] == "sfilter":
        return lena.flow.Filter(composed_selector(st["s"]))
    if st["t"] == "tvar":
        return build_variable(st["vars"])
    if st["t"] == "wmap":
        return build_wmap(st)
    if st["t"] == "nmap":
        return none_map(st["f"])
    if st["t"] == "runifdup":
        return lena.flow.RunIf(st["k"], DupInc())
    if st["t"] == "runifseq":
        # flow-dependent inner sequence (fresh elements; Slice / Reverse keep nothing between runs)
        return lena.flow.RunIf(flowlib._pred(st["p"]), *[flowlib.build_stage(x, fk != "bare") for x in st["inner"]])
    if st["t"] == "map" and st.get("attr") == "all":
        import lena.variables
        return lena.variables.Variable("x", lambda d: d + 10, **dict((a, "2023A") for a in ALL_ATTRS))
    if st["t"] == "slice" and st["s"] == 1 and variant % 3:
        stop = None if st["b"] == NONE else st["b"]
        if variant % 3 == 1 and st["a"] == 0 and stop is not None:
            return lena.flow.Slice(stop)
        return lena.flow.Slice(st["a"], stop)
    if st["t"] == "map" and st.get("attr"):
        # a Variable exposes its keyword attributes as (data) attributes: Variable(..., run="2023A").run == "2023A"
        import lena.variables
        return lena.variables.Variable("x", lambda d: d + 10, **{st["attr"]: "2023A"})
    if st["t"] == "cfilter":
        return lena.flow.Filter(st["k"] if st["form"] == "str" else _has_key(st["k"]))
    if st["t"] == "crunif":
        inner = lena.flow.Filter(lambda v: False) if st["f"] == "drop" else flowlib._map_callable(st["f"])
        return lena.flow.RunIf(st["k"], inner)
    return flowlib.build_stage(st, fk != "bare")


def build_chain(ch, fk, acc=None, variant=0):
    """Fresh real elements (pre, acc, post) for a chain descriptor."""
    pre = [build_stage2(st, fk, variant) for st in ch["pre"]]
    post = [build_stage2(st, fk, variant) for st in ch["post"]]
    return pre, (acc if acc is not None else build_acc(ch["acc"])), post


class MarkAcc(object):
    """Accumulator of a sibling branch: its result is recognisable."""

    def __init__(self, j):
        self.j, self.n = j, 0

    def fill(self, v):
        self.n += 1

    def compute(self):
        yield ("SIB", self.j, self.n)


def is_sibling_result(v):
    return isinstance(v, tuple) and len(v) == 3 and v[0] == "SIB"


def _sib_map(v):
    return ("SIB", 2, 0)


def siblings(variant=0):
    """Sibling branches A (changes the context of its values in place: a Variable) and B (ordinary)."""
    import lena.variables
    a = (lena.variables.Variable("sib", lambda d: d), MarkAcc(1))
    b = _sib_map if variant % 2 == 0 else (MarkAcc(2),)
    return a, b


STATELESS = ("map", "filter", "slice", "runif", "cfilter", "crunif", "runifdup", "runifseq", "sfilter", "nmap", "wmap")


def recomputable(ch):
    """FillSem.tla Recomputable: compute() may be called again (no typed variable changes stored values in place)."""
    return all(st["t"] in STATELESS for st in ch["post"]) and not any(st["t"] == "tvar" for st in ch["pre"] + ch["post"])


class SecondComputeDiffers(Exception):
    pass


def _collect(results, snap, keep=None):
    """The results as a list; snap (if given) receives the projection of every result at the moment it is yielded."""
    out = []
    for v in results:
        if keep is not None and not keep(v):
            continue
        if snap is not None:
            snap.append(project3(v))
        out.append(v)
    return out


def drive_chain(ch, n_values, fk, drv, bs=None, acc=None, copy_buf=True, form="tuple", place="alone", variant=0,
                values=None, snap=None):
    """Run one driver on fresh elements; returns the list of real results of the chain (exceptions propagate).

    place != "alone": the chain is a branch of a Split next to sibling branches; their results are removed.
    snap: a list that receives the projection (project3) of every result at the moment it is yielded - the
    returned list is looked at when the driver has finished."""
    import lena.core
    pre, a, post = build_chain(ch, fk, acc, variant)
    els = pre + [a] + post
    flow = iter([make_value(i, fk) if values is None else values(i) for i in range(n_values)])
    if drv == "persist":
        # the same FillComputeSeq is filled with every value although it raised LenaStopFill; computed twice
        s = lena.core.FillComputeSeq(*els)
        for v in flow:
            try:
                s.fill(v)
            except lena.core.LenaStopFill:
                pass
        first = _collect(s.compute(), snap)
        if recomputable(ch):
            second = list(s.compute())
            if repr(second) != repr(first):
                raise SecondComputeDiffers(repr((first, second)))
        return first
    if drv == "run":
        return _collect(lena.core.Sequence(*els).run(flow), snap)
    if drv == "split":
        if form == "tuple":
            branch = tuple(els)
        elif form == "fcseq":
            branch = lena.core.FillComputeSeq(*els)
        elif form == "bare" and not pre and not post:
            branch = a             # a fill/compute element itself is a branch
        else:
            raise ValueError(form)
        if place == "alone":
            branches = [branch]
        elif place == "afterstop":
            # fill chains that raise LenaStopFill before the flow ends, listed before and after the chain
            import lena.flow
            branches = [(lena.flow.Slice(1), MarkAcc(1)), branch, (lena.flow.Slice(2), MarkAcc(3))]
        else:
            sa, sb = siblings(n_values)
            branches = {"first": [branch, sa, sb], "middle": [sa, branch, sb], "last": [sa, sb, branch]}[place]
        s = lena.core.Split(branches, bufsize=None if bs == NONE else bs, copy_buf=copy_buf)
        return _collect(s.run(flow), snap, keep=lambda v: not is_sibling_result(v))
    if drv == "fill_compute_seq":
        s = lena.core.FillComputeSeq(*els)
        for v in flow:
            try:
                s.fill(v)
            except lena.core.LenaStopFill:
                break
        return _collect(s.compute(), snap)
    if drv == "fill_seq":
        s = lena.core.FillSeq(*(pre + [a]))
        for v in flow:
            try:
                s.fill(v)
            except lena.core.LenaStopFill:
                break
        return _collect(lena.core.Sequence(*post).run(a.compute()), snap)
    raise ValueError(drv)


def chain_key(ch):
    def one(st):
        t = st["t"]
        if t == "map":
            return st["f"] + ("[%s=]" % st["attr"] if st.get("attr") else "")
        if t == "filter":
            return "filter-" + st["p"]
        if t == "slice":
            return "slice(%s,%s,%s)" % (st["a"], "None" if st["b"] == NONE else st["b"], st["s"])
        if t == "runif":
            return "runif(%s,%s)" % (st["p"], st["f"])
        if t == "sfilter":
            return "filter-" + st["s"]
        if t == "nmap":
            return st["f"]
        if t == "runifdup":
            return "runif-ctx(%s,dup)" % st["k"]
        if t == "runifseq":
            return "runif(%s,[%s])" % (st["p"], "+".join(one(x) for x in st["inner"]))
        if t in ("lagk", "lastk"):
            return "%s%d" % (t, st["k"])
        if t == "tvar":
            names = ["%s:%s" % (x["n"], x["ty"] or "-") for x in st["vars"]]
            return "var(%s)" % names[0] if len(names) == 1 else "compose(%s)" % ",".join(names)
        if t == "wmap":
            return "Call(amb-%s%s)" % (st["f"], "" if st["w"] == "call" else ",call=" + st["w"])
        if t == "cfilter":
            return "filter-ctx-%s-%s" % (st["k"], st["form"])
        if t == "crunif":
            return "runif-ctx(%s,%s)" % (st["k"], st["f"])
        return t
    return "%s|%s|%s" % ("+".join(one(s) for s in ch["pre"]), ch["acc"], "+".join(one(s) for s in ch["post"]))


# ------------------------------------------------------------------ adapters over capability sets
METHODS = ("run", "fill", "compute", "request", "fill_into", "m")


def _flowlike(x):
    return hasattr(x, "__iter__") and not isinstance(x, (tuple, str))


def _generic(name):
    """Method usable in every role (call(value), run(flow), fill(value), compute(), fill_into(element, value)):
    logs its call as a token and returns a one-token list naming itself."""
    def method(self, *args):
        if len(args) == 2:
            self.log.append((name, (-1, args[1])))
            args[0].fill((name, (args[1],)))
            return None
        if len(args) == 1 and _flowlike(args[0]):
            vals = tuple(args[0])
            self.log.append((name, vals))
            return [(name, vals)]
        self.log.append((name, tuple(args)))
        return [(name, tuple(args))]
    method.__name__ = name
    return method


def _m_call(self, *args):
    self.log.append(("call", tuple(args)))
    return [("call", tuple(args))]


def _m_iter(self):
    self.log.append(("iter", ()))
    return iter([("iter", ())])


_IMPL = dict((name, _generic(name)) for name in METHODS)


def make_synthetic(caps):
    """An instance of a fresh class with exactly the capabilities of the record."""
    ns = {}
    for name in METHODS:
        if caps[name] == "meth":
            ns[name] = _IMPL[name]
        elif caps[name] == "attr":
            ns[name] = 5
    if caps["call"]:
        ns["__call__"] = _m_call
    if caps["iter"]:
        ns["__iter__"] = _m_iter
    if caps["cbf"]:
        ns["_can_break_flow"] = True
    if not caps.get("truth", True):
        # a falsy element: container-like (__len__ 0) if it is iterable, else __bool__
        if caps["iter"]:
            ns["__len__"] = lambda self: 0
        else:
            ns["__bool__"] = lambda self: False
    cls = type("Synthetic", (object,), ns)
    obj = cls()
    obj.log = []
    return obj


class Sink(object):
    def __init__(self):
        self.filled = []

    def fill(self, v):
        self.filled.append(v)


def tokens(x):
    """Flatten results of synthetic methods into a list of (name, args) tokens."""
    if isinstance(x, tuple) and len(x) == 2 and isinstance(x[0], str) and isinstance(x[1], tuple):
        return [x]
    if isinstance(x, (list, tuple)):
        out = []
        for y in x:
            out += tokens(y)
        return out
    if x is None:
        return []
    return [("?", (repr(x),))]


def spec_tokens(ts):
    return [(t["n"], tuple(t["a"])) for t in ts]


def caps_sig(caps):
    parts = [("%s=%s" % (k, caps[k]) if caps[k] == "attr" else k) for k in METHODS if caps[k] != "no"]
    parts += [k for k in ("call", "iter", "cbf") if caps[k]]
    return ("+".join(parts) or "nothing") + ("" if caps.get("truth", True) else ":falsy")


def adapter_kwargs(adapter, arg, function=None):
    """Constructor (positional element, keyword arguments) for a spec argument."""
    if arg == "default":
        return {}
    kind, _, name = arg.partition(":")
    if arg == "none":
        return {"run": function}
    if adapter in ("Call", "SourceEl"):
        return {"call": name}
    if adapter == "Run":
        return {"run": name}
    if adapter == "FillInto":
        return {"fill_into": name}
    if adapter == "FillCompute":
        return {kind: name}
    raise ValueError((adapter, arg))


def probe_adapter(adapter, obj):
    """Invoke the adapter's interface on the fixed probe of Adapters.tla; returns (ret tokens, sink tokens)."""
    if adapter == "Call":
        return tokens(obj(7)), []
    if adapter == "SourceEl":
        return tokens(list(obj())), []
    if adapter == "Run":
        return tokens(list(obj.run(iter([7, 8])))), []
    if adapter == "FillCompute":
        obj.fill(7)
        return tokens(list(obj.compute())), []
    if adapter == "FillInto":
        sink = Sink()
        obj.fill_into(sink, 7)
        return [], tokens(sink.filled)
    raise ValueError(adapter)


def real_caps(obj):
    """Capability record of an arbitrary object, by introspection."""
    caps = {}
    for name in METHODS:
        if not hasattr(obj, name):
            caps[name] = "no"
        else:
            caps[name] = "meth" if callable(getattr(obj, name)) else "attr"
    caps["call"] = callable(obj)
    caps["iter"] = hasattr(obj, "__iter__")
    caps["cbf"] = hasattr(obj, "_can_break_flow")
    try:
        caps["truth"] = bool(obj)
    except Exception:   # noqa
        caps["truth"] = True
    return caps
