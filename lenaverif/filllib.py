"""Harness for spec/FillRequest.tla / RunSem.tla (C16) and spec/FillSeq.tla (C05).

Content elements: the wrapped element of FillRequest is abstracted in the spec to its *content*
(values filled since the last reset).  The harness elements below yield m results carrying a
snapshot of the content, so blocks, resets, lost and duplicated values are visible.

Every call into the code under test goes through `guarded`: a deterministic step watchdog
(sys.settrace counting line events of frames that execute lena code) with a wall-clock alarm as a
backstop, so a call that would never return is reported as `hang` after a bounded amount of work
and a bounded amount of memory.
"""
import signal
import sys

NONE = -1000


# ------------------------------------------------------------------ watchdog
class Hang(BaseException):
    """Raised inside the code under test when it exceeds its step budget."""


class _Alarm(BaseException):
    pass


class Guard(object):
    """Step watchdog for a whole scenario: tracing and the alarm are installed once, every
    `call(fn, limit)` inside gets its own budget of traced events inside lena code.

    call returns ("ok", value) | ("hang", None) | ("exc", exception).  After a hang the guard is
    spent (an exception raised by a trace function removes it): leave the `with` block."""

    def __init__(self, wall=30.0, root=None):
        import lena
        self.root = root or lena.__path__[0]
        self.wall = wall
        self.count = 0
        self.limit = 0

    def _local(self, frame, event, arg):
        self.count += 1
        if self.count > self.limit:
            raise Hang()
        return self._local

    def _tracer(self, frame, event, arg):
        if frame.f_code.co_filename.startswith(self.root):
            self.count += 1
            if self.count > self.limit:
                raise Hang()
            return self._local
        return None

    @staticmethod
    def _on_alarm(signum, frame):
        raise _Alarm()

    def __enter__(self):
        self.old = signal.signal(signal.SIGALRM, self._on_alarm)
        signal.setitimer(signal.ITIMER_REAL, self.wall)
        self.limit = 1 << 60
        sys.settrace(self._tracer)
        return self

    def __exit__(self, *exc):
        sys.settrace(None)
        signal.setitimer(signal.ITIMER_REAL, 0)
        signal.signal(signal.SIGALRM, self.old)
        return False

    def call(self, fn, limit=4000):
        self.count, self.limit = 0, limit
        try:
            return ("ok", fn())
        except (Hang, _Alarm):
            return ("hang", None)
        except Exception as exc:   # noqa
            return ("exc", exc)
        finally:
            self.limit = 1 << 60


def guarded(fn, limit=4000, wall=20.0, root=None):
    """One call under its own guard."""
    try:
        with Guard(wall, root) as g:
            return g.call(fn, limit)
    except _Alarm:
        return ("hang", None)


# ------------------------------------------------------------------ content elements
class Content(object):
    def __init__(self, m=1, pv=False, aslist=False, take=0):
        self.m, self.pv, self.aslist, self.take = m, pv, aslist, take
        self.content = []
        self.fill_log = []       # every value ever filled, in order
        self.req_sizes = []      # number of fills between consecutive requests
        self._since = 0
        self.resets = 0

    def _fill(self, v):
        self.content.append(v)
        self.fill_log.append(v)
        self._since += 1

    def _gen(self):
        snap = tuple(self.content)
        self.req_sizes.append(self._since)
        self._since = 0
        for i in range(1, self.m + 1):
            yield (i, snap)

    def _results(self):
        if self.aslist:
            return list(self._gen())
        return self._gen()

    def _reset(self):
        self.content = []
        self.resets += 1

    def _run(self, flow):
        read = 0
        for v in flow:
            self._fill(v)
            if self.pv:
                yield (0, (v,))
            read += 1
            if read == self.take:       # take = 0: the whole flow is read
                break
        for r in self._gen():
            yield r


class EFC(Content):
    def fill(self, v):
        self._fill(v)

    def compute(self):
        return self._results()

    def reset(self):
        self._reset()


class EFR(Content):
    def fill(self, v):
        self._fill(v)

    def request(self):
        return self._results()

    def reset(self):
        self._reset()


class ERun(Content):
    def run(self, flow):
        return self._run(flow)

    def reset(self):
        self._reset()


class EBoth(EFR):
    def run(self, flow):
        return self._run(flow)


KINDS = {"fc": EFC, "fr": EFR, "run": ERun, "both": EBoth}


def norm(v):
    """Real result of a content element -> spec record."""
    if isinstance(v, tuple) and len(v) == 2 and isinstance(v[1], tuple):
        return {"i": v[0], "p": list(v[1])}
    return {"other": repr(v)}


def cfg_key(cfg):
    return "%s:n=%d:%s%s%s:m=%d%s" % (cfg["kind"], cfg["n"], "bufin" if cfg["bufIn"] else "bufout",
                                      ":reset" if cfg["reset"] else "", ":yor" if cfg["yor"] else "",
                                      cfg["m"], (":pv" if cfg.get("pv") else "") +
                                      (":take=%d" % cfg["take"] if cfg.get("take") else ""))


def cfg_class(cfg):
    return "%s:%s%s%s" % (cfg["kind"], "bufin" if cfg["bufIn"] else "bufout",
                          ":reset" if cfg["reset"] else "", ":yor" if cfg["yor"] else "")


def build_fr(cfg, el=None, aslist=False, neither=False):
    """Real lena.core.FillRequest for a spec configuration; returns (adapter, element)."""
    import lena.core
    if el is None:
        el = KINDS[cfg["kind"]](cfg["m"], cfg.get("pv", False), aslist, cfg.get("take", 0))
    kw = dict(bufsize=cfg["n"], reset=cfg["reset"], yield_on_remainder=cfg["yor"])
    if not (neither and cfg["yor"] and not cfg["bufIn"]):
        kw["buffer_input" if cfg["bufIn"] else "buffer_output"] = True
    return lena.core.FillRequest(el, **kw), el


def sched_str(h):
    return "".join(o["op"] for o in h)


class Post(object):
    """Post-processing callable that marks each result once."""

    def __call__(self, r):
        return ("post", r)


def unpost(v):
    if isinstance(v, tuple) and len(v) == 2 and v[0] == "post":
        return norm(v[1])
    return {"unposted": repr(v)}


def ident(x):
    return x
