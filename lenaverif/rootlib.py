"""Binding of spec/RootIO.tla to lena's ROOT elements, run against the stand-in ROOT module rootstub.

A scenario (JSON image of the TLA+ record) is executed on the real element; the result is
  {"ok": True, "out": [...]} | {"ok": False, "exc": class name, "out": [what was yielded before]}
plus the call log of the stub projected onto the events of the spec:
  {"op": "open"|"list"|"get"|"yield"|"close"|"status"|"entry"|"tree"|"branch"|"fill"|"write", "a", "b", "c"}
"""
import collections
import copy
import random

from . import rootstub as rs
from .util import exc_name

NONE = -1000


class FlowError(Exception):
    """raised by the harness' flow generator (an error during flow generation)"""


def ctx_py(c):
    return {} if c == [] else copy.deepcopy(c)


def ev(op, a=0, b=0, c=0):
    return {"op": op, "a": a, "b": b, "c": c}


def outcome_exc(exc):
    return "FlowError" if isinstance(exc, FlowError) else exc_name(exc)


# ------------------------------------------------------------------------------------------ ReadROOTFile
def run_read(sc):
    import lena.input
    rs.install()
    disk = {}
    for f in sc["files"]:
        disk[f["path"]] = [(k["n"], k["c"], rs.Obj(f["path"], k["n"], k["c"])) for k in f["keys"]]
    rs.reset(disk)
    keys = None if sc["all"] else list(sc["names"])
    if keys is not None and len(keys) == 1 and sc.get("single", True):
        keys = keys[0]               # "a list of allowed objects' names or a single name"
    flow = []
    for v in sc["flow"]:
        path = sc["files"][v["f"] - 1]["path"]
        flow.append(path if v["bare"] else (path, ctx_py(v["ctx"])))
    out, res = [], None
    try:
        el = lena.input.ReadROOTFile(keys=keys, raise_on_missing=sc["rom"])
        for item in el.run(iter(flow)):
            obj, ctx = item
            path, name, cycle = obj.ident
            out.append({"f": path, "k": name, "c": cycle, "ctx": copy.deepcopy(ctx), "alive": obj.alive})
            rs.log("yield", path, name, cycle)
        res = {"ok": True, "out": out}
    except Exception as exc:     # noqa
        res = {"ok": False, "exc": outcome_exc(exc), "out": out}
    log = []
    for e in rs.LOG:
        if e[0] == "TFile":
            log.append(ev("open", e[1], (e[2].lower() or "read")))
        elif e[0] == "GetListOfKeys":
            log.append(ev("list", e[1]))
        elif e[0] == "Get":
            log.append(ev("get", e[1], e[2]))
        elif e[0] == "Close":
            log.append(ev("close", e[1]))
        elif e[0] == "yield":
            log.append(ev("yield", e[1], e[2], e[3]))
    return res, log


def reorder_like(exp_out, got_out, key):
    """The order of the objects of one file is not documented: when the observed items of a run of equal
    file are a permutation of the expected ones, put them in the expected order."""
    if len(exp_out) != len(got_out):
        return got_out
    res, j = [], 0
    while j < len(exp_out):
        k = j
        while k < len(exp_out) and exp_out[k]["f"] == exp_out[j]["f"]:
            k += 1
        e_run, g_run = exp_out[j:k], list(got_out[j:k])
        ordered = []
        for e in e_run:
            for g in g_run:
                if key(g) == key(e):
                    ordered.append(g)
                    g_run.remove(g)
                    break
        res.extend(ordered + g_run)
        j = k
    return res


# ------------------------------------------------------------------------------------------ ReadROOTTree
def leaf_str(q):
    return q["lf"] if q["b"] == "" else "%s/%s" % (q["b"], q["lf"])


def field_py(q):
    return q["lf"] if q["b"] == "" else "%s_%s" % (q["b"], q["lf"])


def run_tree(sc):
    import lena.input
    rs.install()
    rs.reset()
    t = sc["tree"]
    tree = rs.TTree(t["name"], t["name"], [(b["b"], b["lf"]) for b in t["branches"]], t["n"])
    rs.reset()
    leaves = [leaf_str(q) for q in sc["leaves"]]
    if len(leaves) == 1 and sc.get("single", True):
        leaves = leaves[0]
    flow = [tree if sc["bare"] else (tree, ctx_py(sc["ctx"]))]
    out = []
    try:
        el = lena.input.ReadROOTTree(leaves=leaves)
        for item in el.run(iter(flow)):
            data, ctx = item
            fields = []
            for q in sc["leaves"]:            # by name: the order of the fields is not documented
                name = field_py(q)
                val = getattr(data, name)
                fields.append({"name": q["lf"] if q["b"] == "" else {"b": q["b"], "lf": q["lf"]},
                               "val": list(val) if isinstance(val, tuple) else val})
            extra = sorted(set(getattr(data, "_fields", ())) - set(field_py(q) for q in sc["leaves"]))
            out.append({"fields": fields, "ctx": copy.deepcopy(ctx), "extra": extra})
            rs.log("yield", len(out) - 1)
        res = {"ok": True, "out": out}
    except Exception as exc:     # noqa
        res = {"ok": False, "exc": outcome_exc(exc), "out": out}
    log = []
    for e in rs.LOG:
        if e[0] == "SetBranchStatus":
            if e[3] or e[2] == "*":
                log.append(ev("status", e[2], e[3]))
            else:
                log.append(ev("status-off", e[2], e[3]))
        elif e[0] == "GetEntry":
            log.append(ev("entry", e[2], e[3]))
        elif e[0] == "yield":
            log.append(ev("yield", e[1]))
    return res, log


# ------------------------------------------------------------------------------------------ WriteROOTTree
def write_values(sc):
    names = ["v"] if sc["shape"] == "scalar" else ["x", "y", "z"][:len(sc["types"])]
    nt = collections.namedtuple("P", names)
    vals = []
    for j, tup in enumerate(sc["vals"]):
        nums = [int(x) if t == "int" else float(x) for x, t in zip(tup, sc["types"])]
        if sc["fault"] == "badtype" and j == 0:
            nums[0] = None            # neither int nor float (and not iterable, unlike a string)
        ctx = ctx_py(sc["ctxs"][j])
        named = not (sc["fault"] == "noname" and j == 0)
        if sc["shape"] == "named":
            data = nt(*nums)
        elif sc["shape"] == "combine":
            data = tuple(nums)
            if named:
                ctx["variable"] = {"name": "_".join(names), "combine": [{"name": n} for n in names]}
        else:
            data = nums[0]
            if named:
                ctx["variable"] = {"name": names[0]}
        vals.append((data, ctx))
    return vals


def run_write(sc):
    import lena.output
    rs.install()
    rs.reset()
    form = sc["form"]
    if form == "str":
        root_file = "out.root"
    elif form == "tuple1":
        root_file = ("out.root",)
    elif form == "tuple2":
        root_file = ("out.root", sc["opt"])
    else:
        root_file = rs.TFile("out.root", "recreate")
        rs.reset({"out.root": []})
    vals = write_values(sc)

    def flow():
        n = len(vals)
        for j, v in enumerate(vals):
            if sc["fault"] == "flowraises" and j == n - 1:
                raise FlowError("the flow broke")
            yield v
    out = []
    try:
        el = lena.output.WriteROOTTree(sc["name"], root_file)
        for item in el.run(flow()):
            data, ctx = item
            ctx = copy.deepcopy(ctx)
            ctx.pop("variable", None)         # added by the harness to name the fields
            out.append({"d": data, "ctx": ctx})
            rs.log("yield", data)
        res = {"ok": True, "out": out}
    except Exception as exc:     # noqa
        res = {"ok": False, "exc": outcome_exc(exc), "out": out}
    log = []
    for e in rs.LOG:
        if e[0] == "TFile":
            log.append(ev("open", e[1], e[2] or "read"))       # the option as lena passed it ("" is ROOT's read)
        elif e[0] == "TTree":
            log.append(ev("tree", e[1]))
        elif e[0] == "Branch":
            log.append(ev("branch", e[2], e[3].split("/")[-1]))
        elif e[0] == "Fill":
            log.append(ev("fill", [int(x) if float(x) == int(x) else x for x in e[2]]))
        elif e[0] == "WriteTObject":
            log.append(ev("write", e[2]))
        elif e[0] == "Close":
            log.append(ev("close", e[1]))
        elif e[0] == "yield":
            log.append(ev("yield", e[1]))
    return res, log, (root_file if form == "tfile" else None)


def run_scenario(sc):
    if sc["mode"] == "read":
        res, log = run_read(sc)
    elif sc["mode"] == "tree":
        res, log = run_tree(sc)
    else:
        res, log, _f = run_write(sc)
    return res, log


# ------------------------------------------------------------------------------------------ comparison
def norm_ctx(c):
    return {} if c == [] else c


def compare(sc, exp, proto, amb, res, log):
    """None, or (kind of mismatch, detail)."""
    mode = sc["mode"]
    if exp["ok"] != res["ok"]:
        return ("raised:" + res["exc"] if exp["ok"] else "no-exception"), {"expected": exp, "observed": res}
    if not exp["ok"] and exp["exc"] != res["exc"]:
        return "wrong-exception:" + res["exc"], {"expected": exp["exc"]}
    eo, go = exp["out"], res["out"]
    if mode == "read" and not exp["ok"]:
        # what is yielded before the exception is not documented: it must be among the expected objects
        for g in go:
            if not any((e["f"], e["k"], e["c"]) == (g["f"], g["k"], g["c"]) and norm_ctx(e["ctx"]) == g["ctx"] for e in eo):
                return "objects-yielded", {"expected": eo, "observed": go}
        if any(not x["alive"] for x in go):
            return "yielded-after-close", {"observed": go}
    elif mode == "read":
        go = reorder_like(eo, go, lambda x: (x["f"], x["k"]))
        if [(x["f"], x["k"]) for x in eo] != [(x["f"], x["k"]) for x in go]:
            return "objects-yielded", {"expected": [(x["f"], x["k"]) for x in eo], "observed": [(x["f"], x["k"]) for x in go]}
        if [x["c"] for x in eo] != [x["c"] for x in go]:
            return "cycle", {"expected": eo, "observed": go}
        if any(not x["alive"] for x in go):
            return "yielded-after-close", {"observed": go}
        for e, g in zip(eo, go):
            if norm_ctx(e["ctx"]) != g["ctx"]:
                return "context", {"expected": norm_ctx(e["ctx"]), "observed": g["ctx"]}
        if exp["ok"]:
            opens = [e for e in log if e["op"] in ("open", "close")]
            want = [e for e in proto if e["op"] in ("open", "close")]
            if [(e["op"], e["a"], e["b"]) for e in opens] != [(e["op"], e["a"], e["b"]) for e in want]:
                return "open-close", {"expected": want, "observed": opens}
    elif mode == "tree":
        if exp["ok"]:
            if len(eo) != len(go):
                return "number-of-entries", {"expected": len(eo), "observed": len(go)}
            for e, g in zip(eo, go):
                if g["extra"]:
                    return "extra-fields", {"observed": g["extra"]}
                if norm_ctx(e["ctx"]) != g["ctx"]:
                    return "context", {"expected": norm_ctx(e["ctx"]), "observed": g["ctx"]}
                if not amb and [f["val"] for f in e["fields"]] != [f["val"] for f in g["fields"]]:
                    return "leaf-values", {"expected": e["fields"], "observed": g["fields"]}
            want = [sorted(e["b"]) for e in proto if e["op"] == "entry"]
            got = [sorted(e["b"]) for e in log if e["op"] == "entry"]
            if want != got:
                return "branches-enabled", {"expected": want, "observed": got}
    else:
        if exp["ok"]:
            if len(eo) != len(go) or any(e["d"] != g["d"] for e, g in zip(eo, go)):
                return "yielded", {"expected": eo, "observed": go}
            for e, g in zip(eo, go):
                if norm_ctx(e["ctx"]) != g["ctx"]:
                    return "context", {"expected": norm_ctx(e["ctx"]), "observed": g["ctx"]}
        ops = ("open", "branch", "fill", "write", "close", "yield")
        want = [(e["op"], e["a"], e["b"]) for e in proto if e["op"] in ops]
        got = [(e["op"], e["a"], e["b"]) for e in log if e["op"] in ops]
        if want != got:
            first = next((k for k in range(min(len(want), len(got))) if want[k] != got[k]), min(len(want), len(got)))
            what = (want[first][0] if first < len(want) else got[first][0])
            return "protocol:" + what, {"expected": want, "observed": got}
    return None


def label(sc):
    if sc["mode"] == "read":
        return "ReadROOTFile[%s%s]" % ("all-keys" if sc["all"] else "keys", ",raise_on_missing" if sc["rom"] else "")
    if sc["mode"] == "tree":
        return "ReadROOTTree[%s]" % ("qualified" if any(q["b"] for q in sc["leaves"]) else "leaves")
    return "WriteROOTTree[%s,%s]" % (sc["form"], sc["shape"])


# ------------------------------------------------------------------------------------------ random scenarios
def rand_ctx(rnd):
    r = rnd.random()
    if r < 0.3:
        return {}, True
    if r < 0.5:
        return {}, False
    c = {"a": rnd.randint(0, 3)}
    if rnd.random() < 0.5:
        c["input"] = {"other": rnd.randint(0, 3)}
    return c, False


def rand_scenario(rnd):
    mode = rnd.choice(["read", "read", "tree", "write", "write"])
    if mode == "read":
        names = ["hist", "tree", "g", "q", "r"]
        files = []
        for j in range(rnd.randint(1, 4)):
            keys = []
            for n in rnd.sample(names, rnd.randint(0, 4)):
                for c in range(rnd.randint(1, 3), 0, -1):
                    keys.append({"n": n, "c": c})
            files.append({"path": "f%d.root" % j, "keys": keys})
        flow = []
        for _ in range(rnd.randint(0, 5)):
            c, bare = rand_ctx(rnd)
            flow.append({"f": rnd.randint(1, len(files)), "ctx": c, "bare": bare})
        return {"mode": "read", "files": files, "flow": flow, "all": rnd.random() < 0.5,
                "names": rnd.sample(names, rnd.randint(0, 3)), "rom": rnd.random() < 0.3, "single": rnd.random() < 0.5}
    if mode == "tree":
        leaves_pool = ["x", "y", "z", "e", "w"]
        branches, used = [], []
        for b in rnd.sample(["pos", "mom", "cal", "aux"], rnd.randint(1, 3)):
            lf = rnd.sample(leaves_pool, rnd.randint(1, 3))
            branches.append({"b": b, "lf": lf})
            used.extend(lf)
        for _try in range(20):
            req = []
            for lf in rnd.sample(leaves_pool, rnd.randint(1, 3)):
                owners = [b["b"] for b in branches if lf in b["lf"]]
                if len(owners) == 1 and rnd.random() < 0.7:
                    req.append({"b": "" if rnd.random() < 0.6 else owners[0], "lf": lf})
                else:
                    req.append({"b": "" if rnd.random() < 0.5 or not owners else rnd.choice(owners), "lf": lf})
            # ambiguous qualified leaves are left open by the model
            if not any(q["b"] and sum(1 for b in branches if q["lf"] in b["lf"]) > 1 for q in req):
                break
        else:
            req = [{"b": "", "lf": "x"}]
        c, bare = rand_ctx(rnd)
        return {"mode": "tree", "tree": {"name": rnd.choice(["ev", "", "t1"]), "branches": branches, "n": rnd.randint(0, 5)},
                "leaves": req, "ctx": c, "bare": bare, "single": rnd.random() < 0.5}
    nf = rnd.randint(1, 3)
    shape = rnd.choice(["named", "combine"]) if nf > 1 else rnd.choice(["named", "scalar"])
    types = [rnd.choice(["int", "float"]) for _ in range(nf)]
    vals = [[rnd.randint(-99, 99) for _ in range(nf)] for _ in range(rnd.randint(0, 8))]
    fault = "none" if not vals or rnd.random() < 0.7 else rnd.choice(["badtype", "noname", "flowraises"])
    if fault == "noname" and shape == "named":
        fault = "none"
    form = rnd.choice(["str", "tuple2", "tuple2", "tfile"])
    return {"mode": "write", "name": rnd.choice(["tr", "events"]), "form": form,
            "opt": rnd.choice(["recreate", "update", "new", "Create", "UPDATE"]) if form == "tuple2" else "recreate",
            "shape": shape, "types": types, "vals": vals,
            "ctxs": [({"a": j} if j % 2 else {"output": {"k": 1}}) for j in range(len(vals))], "fault": fault}
